//! Generators of IL values shared by several recorders.

use crate::Rng;
use falcon::il;
use num_bigint::BigUint;

pub const BIN_KINDS: [&str; 17] = [
    "add", "sub", "mul", "divu", "modu", "divs", "mods", "and", "or", "xor", "shl", "shr", "ashr",
    "cmpeq", "cmpneq", "cmplts", "cmpltu",
];

pub fn constant(rng: &mut Rng, bits: usize) -> il::Constant {
    il::Constant::new_big(rng.interesting(bits), bits)
}

pub fn big(v: u64) -> BigUint {
    BigUint::from(v)
}
