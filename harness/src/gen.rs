//! Generators of IL values shared by several recorders.
//!
//! `function()` generates well-formed IL functions: consistent width per scalar name,
//! well-sorted expressions, loads/stores of byte-multiple widths, and out-edges that are
//! exclusive and exhaustive *by construction* (one unconditional edge; a complementary pair
//! `g` / `g == 0`; or a three-way case split on a selector).  Any CFG shape can come out:
//! loops, self-loops, empty blocks, blocks without successors, unreachable blocks (optional).

use crate::Rng;
use falcon::il;
use falcon::il::Expression as E;
use num_bigint::BigUint;

pub const BIN_KINDS: [&str; 17] = [
    "add", "sub", "mul", "divu", "modu", "divs", "mods", "and", "or", "xor", "shl", "shr", "ashr",
    "cmpeq", "cmpneq", "cmplts", "cmpltu",
];

pub fn constant(rng: &mut Rng, bits: usize) -> il::Constant {
    il::Constant::new_big(rng.interesting(bits), bits)
}

pub fn big(v: u64) -> BigUint {
    BigUint::from(v)
}

#[derive(Clone)]
pub struct GenCfg {
    pub max_blocks: usize,
    pub max_ins: usize,
    /// every scalar the function may mention (name, width)
    pub scalars: Vec<il::Scalar>,
    /// scalars suitable as guards/selectors (small widths)
    pub control: Vec<il::Scalar>,
    /// constant addresses that loads/stores use (plus small offsets)
    pub mem_bases: Vec<u64>,
    pub allow_mem: bool,
    pub allow_div: bool,
    pub allow_intrinsic: bool,
    pub allow_branch: bool,
    /// instruction addresses a Branch may target (filled by function())
    pub unreachable_blocks: bool,
    pub expr_depth: u32,
    /// probability (percent) that an out-degree-2/3 block is generated
    pub branchiness: u64,
    /// widths of small constants are biased to tiny values when true (for explorations)
    pub small_consts: bool,
    /// never generate an edge into the entry block
    pub no_entry_pred: bool,
    pub min_blocks: usize,
    /// percentage of operations that are intrinsics / indirect branches (when allowed)
    pub intrinsic_pct: u64,
    pub branch_pct: u64,
    /// percentage of indirect branches that target an address outside the function
    pub unknown_target_pct: u64,
    /// percentage of non-entry blocks generated without successors
    pub terminal_pct: u64,
    /// the last block has no out-edges (a reachable block without successors is likely)
    pub ensure_exit: bool,
    /// percentage of blocks whose out-edge guards are NOT exclusive and exhaustive by construction (independent
    /// conditions, a single guarded edge, an incomplete selector): several guards or none may hold.  Only for
    /// the executor check; lifters and analyses assume complementary guards.
    pub partial_guards_pct: u64,
}

impl GenCfg {
    pub fn default_with(scalars: Vec<il::Scalar>) -> GenCfg {
        let control = scalars.iter().filter(|s| s.bits() <= 3).cloned().collect();
        GenCfg {
            max_blocks: 5,
            max_ins: 3,
            scalars,
            control,
            mem_bases: vec![0x2000],
            allow_mem: true,
            allow_div: true,
            allow_intrinsic: false,
            allow_branch: false,
            unreachable_blocks: false,
            expr_depth: 2,
            branchiness: 60,
            small_consts: false,
            no_entry_pred: false,
            min_blocks: 1,
            intrinsic_pct: 4,
            branch_pct: 4,
            unknown_target_pct: 10,
            terminal_pct: 16,
            ensure_exit: false,
            partial_guards_pct: 0,
        }
    }
}

fn konst(rng: &mut Rng, cfg: &GenCfg, w: usize) -> E {
    if cfg.small_consts {
        let v = match rng.below(6) {
            0 => 0,
            1 => 1,
            2 => 2,
            3 => rng.below(8),
            4 => u64::MAX,
            _ => rng.below(256),
        };
        let all = (BigUint::from(1u32) << w) - BigUint::from(1u32);
        E::Constant(il::Constant::new_big(BigUint::from(v) & all, w))
    } else {
        E::Constant(constant(rng, w))
    }
}

/// a well-sorted expression of width w over cfg.scalars
pub fn expr(rng: &mut Rng, cfg: &GenCfg, w: usize, depth: u32) -> E {
    let same: Vec<&il::Scalar> = cfg.scalars.iter().filter(|s| s.bits() == w).collect();
    if depth == 0 || rng.chance(1, 4) {
        // leaf
        if !same.is_empty() && rng.chance(3, 4) {
            return E::Scalar((*rng.pick(&same)).clone());
        }
        // a scalar of another width, converted
        if !cfg.scalars.is_empty() && rng.chance(1, 2) {
            let s = rng.pick(&cfg.scalars).clone();
            let sw = s.bits();
            let e = E::Scalar(s);
            return if sw == w {
                e
            } else if sw < w {
                if rng.bool() { E::zext(w, e).unwrap() } else { E::sext(w, e).unwrap() }
            } else {
                E::trun(w, e).unwrap()
            };
        }
        return konst(rng, cfg, w);
    }
    let d = depth - 1;
    match rng.below(20) {
        0..=11 => {
            let mut ops = vec!["add", "sub", "mul", "and", "or", "xor", "shl", "shr", "ashr"];
            if cfg.allow_div {
                ops.extend(["divu", "modu", "divs", "mods"]);
            }
            let op = *rng.pick(&ops);
            let a = expr(rng, cfg, w, d);
            let b = if ["shl", "shr", "ashr"].contains(&op) && rng.chance(1, 2) {
                E::Constant(il::Constant::new_big(BigUint::from(rng.below(w as u64 + 2)) & ((BigUint::from(1u32) << w) - BigUint::from(1u32)), w))
            } else {
                expr(rng, cfg, w, d)
            };
            match op {
                "add" => E::add(a, b),
                "sub" => E::sub(a, b),
                "mul" => E::mul(a, b),
                "and" => E::and(a, b),
                "or" => E::or(a, b),
                "xor" => E::xor(a, b),
                "shl" => E::shl(a, b),
                "shr" => E::shr(a, b),
                "ashr" => E::ashr(a, b),
                "divu" => E::divu(a, b),
                "modu" => E::modu(a, b),
                "divs" => E::divs(a, b),
                _ => E::mods(a, b),
            }
            .unwrap()
        }
        12..=14 if w == 1 => cond(rng, cfg, d),
        15 | 16 => {
            let c = cond(rng, cfg, d);
            let a = expr(rng, cfg, w, d);
            let b = expr(rng, cfg, w, d);
            E::ite(c, a, b).unwrap()
        }
        17 if w > 1 => {
            let from = rng.range(1, (w - 1) as u64) as usize;
            let a = expr(rng, cfg, from, d);
            if rng.bool() { E::zext(w, a).unwrap() } else { E::sext(w, a).unwrap() }
        }
        18 => {
            let from = w + *rng.pick(&[1usize, 7, 8, 24, 32]);
            E::trun(w, expr(rng, cfg, from, d)).unwrap()
        }
        _ => konst(rng, cfg, w),
    }
}

/// a 1-bit expression
pub fn cond(rng: &mut Rng, cfg: &GenCfg, depth: u32) -> E {
    let ones: Vec<&il::Scalar> = cfg.scalars.iter().filter(|s| s.bits() == 1).collect();
    if !ones.is_empty() && rng.chance(1, 3) {
        return E::Scalar((*rng.pick(&ones)).clone());
    }
    let w = if cfg.scalars.is_empty() { 8 } else { rng.pick(&cfg.scalars).bits() };
    let a = expr(rng, cfg, w, depth.min(1));
    let b = if rng.chance(1, 2) { konst(rng, cfg, w) } else { expr(rng, cfg, w, depth.min(1)) };
    match rng.below(4) {
        0 => E::cmpeq(a, b),
        1 => E::cmpneq(a, b),
        2 => E::cmpltu(a, b),
        _ => E::cmplts(a, b),
    }
    .unwrap()
}

fn address_expr(rng: &mut Rng, cfg: &GenCfg) -> E {
    let base = *rng.pick(&cfg.mem_bases);
    let off = rng.below(24);
    let c = il::expr_const(base.wrapping_add(off), 64);
    // sometimes index with a (zero-extended, masked) scalar so that the address is data dependent
    if !cfg.scalars.is_empty() && rng.chance(1, 3) {
        let s = rng.pick(&cfg.scalars).clone();
        let sw = s.bits();
        let e = E::Scalar(s);
        let e64 = if sw == 64 { e } else if sw < 64 { E::zext(64, e).unwrap() } else { E::trun(64, e).unwrap() };
        let masked = E::and(e64, il::expr_const(7, 64)).unwrap();
        return E::add(c, masked).unwrap();
    }
    c
}

fn byte_width_scalars(cfg: &GenCfg) -> Vec<il::Scalar> {
    cfg.scalars.iter().filter(|s| s.bits() % 8 == 0).cloned().collect()
}

pub fn operation(rng: &mut Rng, cfg: &GenCfg, branch_targets: &[u64]) -> il::Operation {
    let bw = byte_width_scalars(cfg);
    let r = rng.below(100);
    if cfg.allow_mem && r < 15 {
        let w = if !bw.is_empty() && rng.chance(3, 4) { rng.pick(&bw).bits() } else { *rng.pick(&[8usize, 16, 24, 32, 64, 128]) };
        return il::Operation::store(address_expr(rng, cfg), expr(rng, cfg, w, cfg.expr_depth));
    }
    if cfg.allow_mem && r < 30 && !bw.is_empty() {
        return il::Operation::load(rng.pick(&bw).clone(), address_expr(rng, cfg));
    }
    if r < 34 {
        // half of the no-ops stand for another operation (Operation::placeholder, as the x86 lifter emits for
        // conditional jumps): a placeholder does nothing
        if rng.bool() {
            let d = rng.pick(&cfg.scalars).clone();
            let inner = match rng.below(3) {
                0 => il::Operation::assign(d.clone(), expr(rng, cfg, d.bits(), 1)),
                1 => il::Operation::branch(address_expr(rng, cfg)),
                _ => il::Operation::store(address_expr(rng, cfg), expr(rng, cfg, d.bits(), 1)),
            };
            return il::Operation::placeholder(inner);
        }
        return il::Operation::nop();
    }
    if cfg.allow_intrinsic && r < 34 + cfg.intrinsic_pct {
        let (written, read) = match rng.below(4) {
            0 => (None, None),
            1 => (Some(vec![E::Scalar(rng.pick(&cfg.scalars).clone())]), Some(vec![E::Scalar(rng.pick(&cfg.scalars).clone())])),
            2 => {
                // two declared outputs (rdtsc-like) and two inputs
                let a = rng.pick(&cfg.scalars).clone();
                let mut b = rng.pick(&cfg.scalars).clone();
                if b == a {
                    b = cfg.scalars[0].clone();
                }
                let outs = if a == b { vec![E::Scalar(a)] } else { vec![E::Scalar(a), E::Scalar(b)] };
                (Some(outs), Some(vec![E::Scalar(rng.pick(&cfg.scalars).clone()), E::Scalar(rng.pick(&cfg.scalars).clone())]))
            }
            _ => (Some(vec![]), Some(vec![])),
        };
        return il::Operation::intrinsic(il::Intrinsic::new("intr", "intr", vec![], written, read, vec![0x0f, 0x05]));
    }
    if cfg.allow_branch && r >= 60 && r < 60 + cfg.branch_pct {
        let t = if !branch_targets.is_empty() && rng.below(100) >= cfg.unknown_target_pct { *rng.pick(branch_targets) } else { 0xdead_0000 + rng.below(16) };
        // the target is an expression: a 64-bit constant, a narrower constant (addresses are unsigned: a 32-bit
        // target with the top bit set is not sign-extended), or computed from scalars
        if t >= (1 << 31) && t < (1 << 32) && rng.bool() {
            return il::Operation::branch(il::expr_const(t, 32));
        }
        return match rng.below(6) {
            0 | 1 | 2 => il::Operation::branch(il::expr_const(t, 64)),
            3 if t < (1 << 32) => il::Operation::branch(il::expr_const(t, 32)),
            4 => {
                let s = rng.pick(&cfg.scalars).clone();
                if s.bits() < 64 {
                    il::Operation::branch(E::add(E::zext(64, E::Scalar(s)).unwrap(), il::expr_const(t & !0xff, 64)).unwrap())
                } else {
                    il::Operation::branch(E::Scalar(s))
                }
            }
            _ => {
                let s = rng.pick(&cfg.scalars).clone();
                if s.bits() >= 8 { il::Operation::branch(E::Scalar(s)) } else { il::Operation::branch(il::expr_const(t, 64)) }
            }
        };
    }
    let dst = rng.pick(&cfg.scalars).clone();
    let src = if rng.chance(1, 6) {
        // x = x op c : reads what it writes
        let c = konst(rng, cfg, dst.bits());
        match rng.below(3) {
            0 => E::add(E::Scalar(dst.clone()), c),
            1 => E::sub(E::Scalar(dst.clone()), c),
            _ => E::xor(E::Scalar(dst.clone()), c),
        }
        .unwrap()
    } else {
        expr(rng, cfg, dst.bits(), cfg.expr_depth)
    };
    il::Operation::assign(dst, src)
}

/// Guards for an out-degree-k block: exclusive and exhaustive by construction.
pub fn guards(rng: &mut Rng, cfg: &GenCfg, k: usize) -> Vec<Option<E>> {
    if k > 0 && rng.below(100) < cfg.partial_guards_pct {
        return match k {
            1 => vec![Some(cond(rng, cfg, 1))],
            2 => vec![Some(cond(rng, cfg, 1)), Some(cond(rng, cfg, 1))],
            _ => {
                let wide: Vec<&il::Scalar> = cfg.scalars.iter().filter(|s| s.bits() >= 2).collect();
                let sel = if wide.is_empty() { expr(rng, cfg, 2, 1) } else { E::Scalar((*rng.pick(&wide)).clone()) };
                let w = sel.bits();
                (0..k as u64).map(|i| Some(E::cmpeq(sel.clone(), il::expr_const(i, w)).unwrap())).collect()
            }
        };
    }
    match k {
        0 => vec![],
        1 => vec![None],
        2 => {
            let g = cond(rng, cfg, 1);
            let ng = E::cmpeq(g.clone(), il::expr_const(0, 1)).unwrap();
            if rng.bool() { vec![Some(g), Some(ng)] } else { vec![Some(ng), Some(g)] }
        }
        _ => {
            // selector of at least 2 bits: == 0, == 1, 1 <u sel
            let wide: Vec<&il::Scalar> = cfg.scalars.iter().filter(|s| s.bits() >= 2).collect();
            let sel = if wide.is_empty() { expr(rng, cfg, 2, 1) } else { E::Scalar((*rng.pick(&wide)).clone()) };
            let w = sel.bits();
            vec![
                Some(E::cmpeq(sel.clone(), il::expr_const(0, w)).unwrap()),
                Some(E::cmpeq(sel.clone(), il::expr_const(1, w)).unwrap()),
                Some(E::cmpltu(il::expr_const(1, w), sel).unwrap()),
            ]
        }
    }
}

/// A random well-formed function.  Instruction addresses are 0x1000 + 4 * running index.
pub fn function(rng: &mut Rng, cfg: &GenCfg, address: u64) -> il::Function {
    let nb = rng.range(cfg.min_blocks.min(cfg.max_blocks) as u64, cfg.max_blocks as u64) as usize;
    let mut g = il::ControlFlowGraph::new();
    // instruction addresses are known up front so that Branch can target them
    let mut counts = Vec::new();
    let mut total = 0u64;
    for b in 0..nb {
        let n = if b > 0 && rng.chance(1, 8) { 0 } else { rng.range(1, cfg.max_ins as u64) };
        counts.push(n);
        total += n;
    }
    let targets: Vec<u64> = (0..total).map(|i| address + 4 * i).collect();
    let mut next_addr = address;
    for b in 0..nb {
        let blk = g.new_block().unwrap();
        for _ in 0..counts[b] {
            match operation(rng, cfg, &targets) {
                il::Operation::Assign { dst, src } => {
                    // now and then a value that is overwritten at once (a dead store, as lifted flag computations are)
                    if rng.chance(1, 6) {
                        blk.assign(dst.clone(), konst(rng, cfg, dst.bits()));
                        blk.instructions_mut().last_mut().unwrap().set_address(Some(next_addr));
                    }
                    blk.assign(dst, src)
                }
                il::Operation::Store { index, src } => blk.store(index, src),
                il::Operation::Load { dst, index } => blk.load(dst, index),
                il::Operation::Branch { target } => blk.branch(target),
                il::Operation::Intrinsic { intrinsic } => blk.intrinsic(intrinsic),
                il::Operation::Nop { placeholder: Some(op) } => blk.placeholder(*op),
                il::Operation::Nop { .. } => blk.nop(),
            }
            blk.instructions_mut().last_mut().unwrap().set_address(Some(next_addr));
            next_addr += 4;
        }
    }
    // edges
    let reach_all = !cfg.unreachable_blocks;
    for b in 0..nb {
        let k = if rng.below(100) < cfg.branchiness {
            if rng.chance(1, 4) { 3 } else { 2 }
        } else if rng.below(100) < cfg.terminal_pct && b > 0 {
            0
        } else {
            1
        };
        let k = if cfg.ensure_exit && b + 1 == nb && nb > 1 { 0 } else { k };
        let k = k.min(nb); // distinct tails needed (the graph has no parallel edges)
        let mut tails: Vec<usize> = Vec::new();
        // bias: make block b+1 a successor so that most blocks are reachable
        if reach_all && b + 1 < nb && k > 0 {
            tails.push(b + 1);
        }
        let mut guard = 0;
        while tails.len() < k && guard < 50 {
            let t = rng.below(nb as u64) as usize;
            if cfg.no_entry_pred && t == 0 {
                guard += 1;
                continue;
            }
            if !tails.contains(&t) {
                tails.push(t);
            }
            guard += 1;
        }
        let gs = guards(rng, cfg, tails.len());
        // shuffle tails a little so that the fall-through is not always the first guard
        if tails.len() > 1 && rng.bool() {
            tails.swap(0, 1);
        }
        for (t, c) in tails.iter().zip(gs.into_iter()) {
            match c {
                None => g.unconditional_edge(b, *t).unwrap(),
                Some(c) => g.conditional_edge(b, *t, c).unwrap(),
            }
        }
    }
    g.set_entry(0).unwrap();
    // an exit: some block without successors if there is one
    let exits: Vec<usize> = (0..nb).filter(|b| g.successor_indices(*b).map(|s| s.is_empty()).unwrap_or(false)).collect();
    if let Some(x) = exits.first() {
        g.set_exit(*x).unwrap();
    }
    il::Function::new(address, g)
}


/// Compiler-like CFG shapes (if-then, if-then-else, while, do-while, a loop with an if inside, two
/// ifs in sequence) filled with random operations; arms prefer `scalar = constant` assignments and
/// join blocks prefer copies/uses, which is where data-flow analyses have to merge facts.
pub fn structured_function(rng: &mut Rng, cfg: &GenCfg, address: u64) -> il::Function {
    // (number of blocks, edges (head, tail, guard kind: 0 none, 1 g, 2 not g, 3 h, 4 not h), arm blocks, join blocks)
    let shapes: Vec<(usize, Vec<(usize, usize, u8)>, Vec<usize>, Vec<usize>)> = vec![
        (3, vec![(0, 1, 1), (0, 2, 2), (1, 2, 0)], vec![1], vec![2]),
        (4, vec![(0, 1, 1), (0, 2, 2), (1, 3, 0), (2, 3, 0)], vec![1, 2], vec![3]),
        (4, vec![(0, 1, 0), (1, 2, 1), (2, 1, 0), (1, 3, 2)], vec![2], vec![1, 3]),
        (3, vec![(0, 1, 0), (1, 1, 1), (1, 2, 2)], vec![1], vec![2]),
        (6, vec![(0, 1, 0), (1, 2, 1), (1, 3, 2), (2, 4, 0), (3, 4, 0), (4, 1, 3), (4, 5, 4)], vec![2, 3], vec![1, 4, 5]),
        (5, vec![(0, 1, 1), (0, 2, 2), (1, 2, 0), (2, 3, 3), (2, 4, 4), (3, 4, 0)], vec![1, 3], vec![2, 4]),
    ];
    let (nb, edges, arms, joins) = rng.pick(&shapes).clone();
    let mut g = il::ControlFlowGraph::new();
    let mut next_addr = address;
    let mut arm_defs: Vec<il::Scalar> = Vec::new();
    // build arms before joins so that joins can use what the arms defined (block order is kept)
    for b in 0..nb {
        let blk = g.new_block().unwrap();
        let n = if b == 0 { if rng.bool() { 0 } else { rng.below(3) } } else { rng.range(1, cfg.max_ins.max(1) as u64) };
        for k in 0..n {
            let op = if arms.contains(&b) && rng.chance(2, 3) {
                let dst = rng.pick(&cfg.scalars).clone();
                let c = il::expr_const(rng.below(4), dst.bits());
                arm_defs.push(dst.clone());
                il::Operation::assign(dst, c)
            } else if cfg.allow_branch && joins.contains(&b) && k + 1 == n && !arm_defs.is_empty() && rng.chance(1, 2) {
                // the join consumes a scalar the arms defined as the target of an indirect branch (a jump table /
                // computed return): its only use outside the arms
                let x = rng.pick(&arm_defs).clone();
                let t = if x.bits() < 64 { E::add(E::zext(64, E::Scalar(x)).unwrap(), il::expr_const(address, 64)).unwrap() } else { E::Scalar(x) };
                il::Operation::branch(t)
            } else if joins.contains(&b) && k == 0 && !arm_defs.is_empty() && rng.chance(2, 3) {
                // the join computes from a scalar an arm defined: y = x + 1
                let x = rng.pick(&arm_defs).clone();
                let same: Vec<&il::Scalar> = cfg.scalars.iter().filter(|s| s.bits() == x.bits() && **s != x).collect();
                let dst = if same.is_empty() { x.clone() } else { (*rng.pick(&same)).clone() };
                let src = E::add(E::Scalar(x.clone()), il::expr_const(1, x.bits())).unwrap();
                il::Operation::assign(dst, src)
            } else if joins.contains(&b) && k == 0 && rng.chance(1, 2) {
                let dst = rng.pick(&cfg.scalars).clone();
                let src = expr(rng, cfg, dst.bits(), 1);
                il::Operation::assign(dst, src)
            } else {
                operation(rng, cfg, &[])
            };
            match op {
                il::Operation::Assign { dst, src } => blk.assign(dst, src),
                il::Operation::Store { index, src } => blk.store(index, src),
                il::Operation::Load { dst, index } => blk.load(dst, index),
                il::Operation::Branch { target } => blk.branch(target),
                il::Operation::Intrinsic { intrinsic } => blk.intrinsic(intrinsic),
                il::Operation::Nop { placeholder: Some(op) } => blk.placeholder(*op),
                il::Operation::Nop { .. } => blk.nop(),
            }
            blk.instructions_mut().last_mut().unwrap().set_address(Some(next_addr));
            next_addr += 4;
        }
    }
    let gg = cond(rng, cfg, 1);
    let ng = E::cmpeq(gg.clone(), il::expr_const(0, 1)).unwrap();
    let hh = cond(rng, cfg, 1);
    let nh = E::cmpeq(hh.clone(), il::expr_const(0, 1)).unwrap();
    for (h, t, k) in edges {
        match k {
            0 => g.unconditional_edge(h, t).unwrap(),
            1 => g.conditional_edge(h, t, gg.clone()).unwrap(),
            2 => g.conditional_edge(h, t, ng.clone()).unwrap(),
            3 => g.conditional_edge(h, t, hh.clone()).unwrap(),
            _ => g.conditional_edge(h, t, nh.clone()).unwrap(),
        }
    }
    g.set_entry(0).unwrap();
    g.set_exit(nb - 1).unwrap();
    il::Function::new(address, g)
}

/// `function` or, one time in three, `structured_function`
pub fn any_function(rng: &mut Rng, cfg: &GenCfg, address: u64) -> il::Function {
    let mut f = if rng.chance(1, 3) { structured_function(rng, cfg, address) } else { function(rng, cfg, address) };
    // instruction indices need not be the positions in the block: in a third of the functions an instruction is
    // removed here and there (never the last one of a block)
    if rng.chance(1, 2) {
        let ids: Vec<usize> = f.blocks().iter().map(|b| b.index()).collect();
        for b in ids {
            if rng.chance(1, 2) {
                let idxs: Vec<usize> = f.block(b).unwrap().instructions().iter().map(|i| i.index()).collect();
                if idxs.len() >= 2 {
                    let victim = idxs[rng.below((idxs.len() - 1) as u64) as usize];
                    f.block_mut(b).unwrap().remove_instruction(victim).unwrap();
                }
            }
        }
    }
    f
}
