//! Common plumbing for the falcon conformance harness.
//!
//! This crate drives the real falcon code and records what it does as ndjson
//! events; every expected value comes from TLC evaluating the TLA+ specifications
//! in /verif/spec.  Nothing in here is an oracle.
//!
//! * `proj`   - explicit projection of falcon values to the JSON shapes of DESIGN.md
//!              appendix B (not falcon's serde derive, so a serde layout change is
//!              not an alarm).  The Json module of TLC rejects `null`: absent
//!              optionals are `{"k":"none"}` or -1.
//! * `guard`  - run a call into falcon under catch_unwind with a watchdog; panics
//!              and timeouts are ordinary outcome values.
//! * `Rng`    - deterministic generator (splitmix64) seeded from VERIF_SEED.
//! * `Out`    - ndjson writer.

use falcon::il;
use num_bigint::BigUint;
use serde_json::{json, Value};
use std::io::Write;

pub mod build;
pub mod gen;
pub mod xplor;

// --------------------------------------------------------------------------------------
// deterministic random numbers
// --------------------------------------------------------------------------------------
#[derive(Clone)]
pub struct Rng(pub u64);

impl Rng {
    pub fn new(seed: u64) -> Rng {
        Rng(seed.wrapping_mul(0x9E37_79B9_7F4A_7C15) ^ 0xD1B5_4A32_D192_ED03)
    }
    pub fn next(&mut self) -> u64 {
        self.0 = self.0.wrapping_add(0x9E37_79B9_7F4A_7C15);
        let mut z = self.0;
        z = (z ^ (z >> 30)).wrapping_mul(0xBF58_476D_1CE4_E5B9);
        z = (z ^ (z >> 27)).wrapping_mul(0x94D0_49BB_1331_11EB);
        z ^ (z >> 31)
    }
    /// uniform in 0..n (n > 0)
    pub fn below(&mut self, n: u64) -> u64 {
        self.next() % n
    }
    pub fn range(&mut self, lo: u64, hi_incl: u64) -> u64 {
        lo + self.below(hi_incl - lo + 1)
    }
    pub fn bool(&mut self) -> bool {
        self.next() & 1 == 1
    }
    /// true with probability num/den
    pub fn chance(&mut self, num: u64, den: u64) -> bool {
        self.below(den) < num
    }
    pub fn pick<'a, T>(&mut self, xs: &'a [T]) -> &'a T {
        &xs[self.below(xs.len() as u64) as usize]
    }
    /// random value of `bits` bits
    pub fn big(&mut self, bits: usize) -> BigUint {
        let mut v = BigUint::from(0u32);
        let mut have = 0;
        while have < bits {
            v = (v << 64usize) | BigUint::from(self.next());
            have += 64;
        }
        v & ((BigUint::from(1u32) << bits) - BigUint::from(1u32))
    }
    /// a value of `bits` bits biased towards boundaries
    pub fn interesting(&mut self, bits: usize) -> BigUint {
        let one = BigUint::from(1u32);
        let all = (one.clone() << bits) - one.clone();
        let msb = one.clone() << (bits - 1);
        match self.below(12) {
            0 => BigUint::from(0u32),
            1 => one,
            2 => all,
            3 => msb,
            4 => msb - BigUint::from(1u32),
            5 => (msb + BigUint::from(1u32)) & all,
            6 => BigUint::from(1u32) << (self.below(bits as u64) as usize),
            7 => all.clone() ^ (BigUint::from(1u32) << (self.below(bits as u64) as usize)),
            8 => BigUint::from(self.below(2 * bits as u64 + 3)) & all, // around the width
            9 => BigUint::from(self.below(256)) & all,
            _ => self.big(bits),
        }
    }
}

pub fn seed_from_env() -> u64 {
    std::env::var("VERIF_SEED").ok().and_then(|s| s.parse().ok()).unwrap_or(1)
}

// --------------------------------------------------------------------------------------
// ndjson output
// --------------------------------------------------------------------------------------
pub struct Out {
    w: std::io::BufWriter<std::fs::File>,
    pub lines: usize,
}

impl Out {
    pub fn create(path: &str) -> Out {
        if let Some(parent) = std::path::Path::new(path).parent() {
            let _ = std::fs::create_dir_all(parent);
        }
        Out { w: std::io::BufWriter::new(std::fs::File::create(path).expect("create output")), lines: 0 }
    }
    pub fn emit(&mut self, v: &Value) {
        serde_json::to_writer(&mut self.w, v).unwrap();
        self.w.write_all(b"\n").unwrap();
        self.lines += 1;
    }
    pub fn finish(mut self) -> usize {
        self.w.flush().unwrap();
        self.lines
    }
}

/// Simple `--key value` argument access.
pub fn arg(name: &str) -> Option<String> {
    let args: Vec<String> = std::env::args().collect();
    let key = format!("--{}", name);
    args.iter().position(|a| *a == key).and_then(|i| args.get(i + 1).cloned())
}
pub fn arg_u64(name: &str, default: u64) -> u64 {
    arg(name).and_then(|s| s.parse().ok()).unwrap_or(default)
}
pub fn arg_str(name: &str, default: &str) -> String {
    arg(name).unwrap_or_else(|| default.to_string())
}

// --------------------------------------------------------------------------------------
// guarded calls
// --------------------------------------------------------------------------------------
/// Name of a falcon error variant (`Sort`, `DivideByZero`, ...), without payload.
pub fn err_name(e: &falcon::Error) -> String {
    let s = format!("{:?}", e);
    s.split(|c: char| c == '(' || c == ' ' || c == '{').next().unwrap_or("").to_string()
}

pub enum Outcome<T> {
    Ok(T),
    Err(String),
    Panic(String),
    Timeout(u64),
}

impl<T> Outcome<T> {
    /// `{"ok": f(x)} | {"err": name} | {"panic": msg} | {"timeout": ms}`
    pub fn json(&self, f: impl Fn(&T) -> Value) -> Value {
        match self {
            Outcome::Ok(x) => json!({ "ok": f(x) }),
            Outcome::Err(e) => json!({ "err": e }),
            Outcome::Panic(m) => json!({ "panic": m }),
            Outcome::Timeout(ms) => json!({ "timeout": ms }),
        }
    }
    pub fn ok(self) -> Option<T> {
        match self {
            Outcome::Ok(x) => Some(x),
            _ => None,
        }
    }
    pub fn is_ok(&self) -> bool {
        matches!(self, Outcome::Ok(_))
    }
}

fn panic_message(p: Box<dyn std::any::Any + Send>) -> String {
    let m = if let Some(s) = p.downcast_ref::<&str>() {
        s.to_string()
    } else if let Some(s) = p.downcast_ref::<String>() {
        s.clone()
    } else {
        "panic".to_string()
    };
    m.chars().take(160).collect()
}

/// Silence the default panic hook (panics in code under test are data).
pub fn quiet_panics() {
    std::panic::set_hook(Box::new(|_| {}));
}

/// Run `f` in this thread under catch_unwind.
pub fn guard<T>(f: impl FnOnce() -> Result<T, falcon::Error>) -> Outcome<T> {
    match std::panic::catch_unwind(std::panic::AssertUnwindSafe(f)) {
        Ok(Ok(x)) => Outcome::Ok(x),
        Ok(Err(e)) => Outcome::Err(err_name(&e)),
        Err(p) => Outcome::Panic(panic_message(p)),
    }
}

/// Like `guard` for infallible calls.
pub fn guard_plain<T>(f: impl FnOnce() -> T) -> Outcome<T> {
    match std::panic::catch_unwind(std::panic::AssertUnwindSafe(f)) {
        Ok(x) => Outcome::Ok(x),
        Err(p) => Outcome::Panic(panic_message(p)),
    }
}

/// Run `f` on a helper thread with a watchdog.  On timeout the thread is leaked (it may
/// be looping or allocating); the caller should treat the process as tainted and the
/// orchestrator runs such recorders with a memory limit.
pub fn guard_timeout<T: Send + 'static>(
    ms: u64,
    f: impl FnOnce() -> Result<T, falcon::Error> + Send + 'static,
) -> Outcome<T> {
    let (tx, rx) = std::sync::mpsc::channel();
    std::thread::Builder::new()
        .stack_size(64 << 20)
        .spawn(move || {
            let r = guard(f);
            let _ = tx.send(r);
        })
        .expect("spawn");
    match rx.recv_timeout(std::time::Duration::from_millis(ms)) {
        Ok(r) => r,
        Err(_) => Outcome::Timeout(ms),
    }
}

// --------------------------------------------------------------------------------------
// projection falcon -> JSON
// --------------------------------------------------------------------------------------
pub mod proj {
    use super::*;

    /// little-endian byte limbs of a `bits`-wide value
    pub fn limbs(v: &BigUint, bits: usize) -> Vec<u64> {
        let n = (bits + 7) / 8;
        let mut bytes = v.to_bytes_le();
        bytes.resize(n.max(bytes.len()), 0);
        bytes.truncate(n.max(1));
        bytes.iter().map(|b| *b as u64).collect()
    }

    pub fn val(c: &il::Constant) -> Value {
        json!({ "w": c.bits(), "v": limbs(c.value(), c.bits()) })
    }

    pub fn val_u64(v: u64, bits: usize) -> Value {
        val(&il::const_(v, bits))
    }

    pub fn scalar(s: &il::Scalar) -> Value {
        json!({ "k": "scalar", "n": s.name(), "w": s.bits(),
                "ssa": s.ssa().map(|x| x as i64).unwrap_or(-1) })
    }

    pub fn none() -> Value {
        json!({ "k": "none" })
    }

    pub fn expr(e: &il::Expression) -> Value {
        use il::Expression as E;
        let bin = |k: &str, a: &il::Expression, b: &il::Expression| {
            json!({ "k": k, "w": e.bits(), "a": expr(a), "b": expr(b) })
        };
        match e {
            E::Scalar(s) => scalar(s),
            E::Constant(c) => json!({ "k": "const", "w": c.bits(), "v": limbs(c.value(), c.bits()) }),
            E::Add(a, b) => bin("add", a, b),
            E::Sub(a, b) => bin("sub", a, b),
            E::Mul(a, b) => bin("mul", a, b),
            E::Divu(a, b) => bin("divu", a, b),
            E::Modu(a, b) => bin("modu", a, b),
            E::Divs(a, b) => bin("divs", a, b),
            E::Mods(a, b) => bin("mods", a, b),
            E::And(a, b) => bin("and", a, b),
            E::Or(a, b) => bin("or", a, b),
            E::Xor(a, b) => bin("xor", a, b),
            E::Shl(a, b) => bin("shl", a, b),
            E::Shr(a, b) => bin("shr", a, b),
            E::AShr(a, b) => bin("ashr", a, b),
            E::Cmpeq(a, b) => bin("cmpeq", a, b),
            E::Cmpneq(a, b) => bin("cmpneq", a, b),
            E::Cmplts(a, b) => bin("cmplts", a, b),
            E::Cmpltu(a, b) => bin("cmpltu", a, b),
            E::Zext(w, a) => json!({ "k": "zext", "w": w, "a": expr(a) }),
            E::Sext(w, a) => json!({ "k": "sext", "w": w, "a": expr(a) }),
            E::Trun(w, a) => json!({ "k": "trun", "w": w, "a": expr(a) }),
            E::Ite(c, a, b) => json!({ "k": "ite", "w": e.bits(), "c": expr(c), "a": expr(a), "b": expr(b) }),
        }
    }

    pub fn opt_expr(e: Option<&il::Expression>) -> Value {
        e.map(expr).unwrap_or_else(none)
    }

    fn opt_exprs(e: Option<&[il::Expression]>) -> Value {
        match e {
            None => none(),
            Some(xs) => json!({ "k": "some", "l": xs.iter().map(expr).collect::<Vec<_>>() }),
        }
    }

    pub fn op(o: &il::Operation) -> Value {
        use il::Operation as O;
        match o {
            O::Assign { dst, src } => json!({ "k": "assign", "dst": scalar(dst), "src": expr(src) }),
            O::Store { index, src } => json!({ "k": "store", "idx": expr(index), "src": expr(src) }),
            O::Load { dst, index } => json!({ "k": "load", "dst": scalar(dst), "idx": expr(index) }),
            O::Branch { target } => json!({ "k": "branch", "target": expr(target) }),
            O::Intrinsic { intrinsic } => json!({
                "k": "intrinsic", "mn": intrinsic.mnemonic(),
                "args": intrinsic.arguments().iter().map(expr).collect::<Vec<_>>(),
                "written": opt_exprs(intrinsic.written_expressions()),
                "read": opt_exprs(intrinsic.read_expressions()) }),
            O::Nop { placeholder: Some(p) } => json!({ "k": "nop", "ph": op(p) }),
            O::Nop { .. } => json!({ "k": "nop" }),
        }
    }

    pub fn instruction(i: &il::Instruction) -> Value {
        json!({ "i": i.index(), "addr": addr(i.address()), "op": op(i.operation()) })
    }

    /// addresses as limb values (64-bit) or `{"k":"none"}`
    pub fn addr(a: Option<u64>) -> Value {
        match a {
            Some(a) => json!({ "k": "some", "w": 64, "v": limbs(&BigUint::from(a), 64) }),
            None => none(),
        }
    }

    pub fn phi(p: &il::PhiNode, preds: &[usize]) -> Value {
        let inc: Vec<Value> = preds
            .iter()
            .filter_map(|b| p.incoming_scalar(*b).map(|s| json!({ "pred": b, "s": scalar(s) })))
            .collect();
        json!({ "out": scalar(p.out()),
                "entry": p.entry_scalar().map(scalar).unwrap_or_else(none),
                "inc": inc })
    }

    pub fn block(b: &il::Block, all_blocks: &[usize]) -> Value {
        json!({ "i": b.index(),
                "ins": b.instructions().iter().map(instruction).collect::<Vec<_>>(),
                "phi": b.phi_nodes().iter().map(|p| phi(p, all_blocks)).collect::<Vec<_>>() })
    }

    pub fn edge(e: &il::Edge) -> Value {
        json!({ "h": e.head(), "t": e.tail(), "c": opt_expr(e.condition()) })
    }

    /// blocks sorted by index, edges sorted by (head, tail); -1 for absent entry/exit
    pub fn cfg(g: &il::ControlFlowGraph) -> Value {
        let mut blocks = g.blocks();
        blocks.sort_by_key(|b| b.index());
        let idx: Vec<usize> = blocks.iter().map(|b| b.index()).collect();
        let mut edges = g.edges();
        edges.sort_by_key(|e| (e.head(), e.tail()));
        json!({ "blocks": blocks.iter().map(|b| block(b, &idx)).collect::<Vec<_>>(),
                "edges": edges.iter().map(|e| edge(e)).collect::<Vec<_>>(),
                "entry": g.entry().map(|x| x as i64).unwrap_or(-1),
                "exit": g.exit().map(|x| x as i64).unwrap_or(-1) })
    }

    pub fn function(f: &il::Function) -> Value {
        let mut v = cfg(f.control_flow_graph());
        v["address"] = addr(Some(f.address()));
        v
    }
}
