//! debugging aid: re-run constants() on the program of a replay file and print the full error
use serde_json::Value;
fn main() {
    let path = std::env::args().nth(1).unwrap();
    let v: Value = serde_json::from_str(&std::fs::read_to_string(path).unwrap()).unwrap();
    let p = if v.get("rejection").is_some() { v["rejection"]["program"].clone() } else { v["progs"][0].clone() };
    let f = fv::build::function(&p["f"]);
    println!("{}", f.control_flow_graph());
    match falcon::analysis::constants::constants(&f) {
        Ok(m) => println!("ok: {} locations", m.len()),
        Err(e) => println!("error: {:?}", e),
    }
}
