//! C18 recorder: program locations.  Builds random functions through falcon's own API (empty
//! blocks, self-loops, several in/out edges, duplicate and missing instruction addresses,
//! non-contiguous instruction indices after removals and Block::append, non-contiguous block
//! indices after merge), places them in a `Program`, clones it (Program::clone, and a deep copy),
//! and logs for every location: forward(), backward(), the owned form and its application to the
//! same / cloned / deep-copied program, migrate; per function: Function::locations() and the
//! closure of forward() from RefProgramLocation::from_function; per program: from_address for
//! every address present +-1.  Trace_C18.tla judges; nothing here computes an expected value.
//!
//!   c18 --mode random --n PROGRAMS --out FILE         (VERIF_SEED)
//!   c18 --mode replay --in FILE --out FILE            (re-drive the descriptors of `begin` lines)

use falcon::il::{self, ControlFlowGraph, FunctionLocation, Program, ProgramLocation, RefFunctionLocation, RefProgramLocation};
use fv::{guard, guard_plain, Out, Outcome, Rng};
use serde_json::{json, Value};
use std::collections::BTreeSet;

fn small(x: usize) -> i64 {
    if x < (1usize << 30) {
        x as i64
    } else {
        -2
    }
}

fn addr(a: Option<u64>) -> i64 {
    match a {
        Some(a) if a < (1u64 << 30) => a as i64,
        Some(_) => -2,
        None => -1,
    }
}

// --------------------------------------------------------------------------------------
// projection
// --------------------------------------------------------------------------------------
fn floc(l: &RefFunctionLocation) -> (String, i64, i64) {
    match l {
        RefFunctionLocation::Instruction(b, i) => ("ins".into(), small(b.index()), small(i.index())),
        RefFunctionLocation::Edge(e) => ("edge".into(), small(e.head()), small(e.tail())),
        RefFunctionLocation::EmptyBlock(b) => ("empty".into(), small(b.index()), -1),
    }
}

fn ploc(l: &RefProgramLocation) -> Value {
    let fi = l.function().index().map(small).unwrap_or(-1);
    let (k, a, b) = floc(l.function_location());
    json!([fi, k, a, b])
}

fn plocs(v: &Vec<RefProgramLocation>) -> Value {
    json!(v.iter().map(ploc).collect::<Vec<_>>())
}

fn owned(l: &FunctionLocation) -> Value {
    match l {
        FunctionLocation::Instruction(b, i) => json!(["ins", small(*b), small(*i)]),
        FunctionLocation::Edge(h, t) => json!(["edge", small(*h), small(*t)]),
        FunctionLocation::EmptyBlock(b) => json!(["empty", small(*b), -1]),
    }
}

fn function(f: &il::Function) -> Value {
    let mut blocks = f.blocks();
    blocks.sort_by_key(|b| b.index());
    let mut edges: Vec<(usize, usize)> = f.edges().iter().map(|e| (e.head(), e.tail())).collect();
    edges.sort();
    json!({
        "fi": f.index().map(small).unwrap_or(-1),
        "addr": addr(Some(f.address())),
        "blocks": blocks.iter().map(|b| json!({
            "i": small(b.index()),
            "ins": b.instructions().iter().map(|i| json!({"i": small(i.index()), "a": addr(i.address())})).collect::<Vec<_>>()
        })).collect::<Vec<_>>(),
        "edges": edges.iter().map(|(h, t)| json!([small(*h), small(*t)])).collect::<Vec<_>>(),
        "entry": f.control_flow_graph().entry().map(small).unwrap_or(-1),
    })
}

fn program(p: &Program) -> Value {
    json!(p.functions().iter().map(|f| function(f)).collect::<Vec<_>>())
}

// --------------------------------------------------------------------------------------
// building from descriptors
// --------------------------------------------------------------------------------------
fn build_function(d: &Value) -> il::Function {
    let mut g = ControlFlowGraph::new();
    let blocks = d["blocks"].as_array().unwrap();
    let mut created: Vec<Vec<(usize, bool)>> = Vec::new();
    for b in blocks {
        let blk = g.new_block().unwrap();
        let mut mine = Vec::new();
        for i in b["ins"].as_array().unwrap() {
            if i["k"] == "assign" {
                blk.assign(il::scalar("x", 32), il::expr_const(1, 32));
            } else {
                blk.nop();
            }
            let last = blk.instructions_mut().last_mut().unwrap();
            let a = i["a"].as_i64().unwrap();
            if a >= 0 {
                last.set_address(Some(a as u64));
            }
            mine.push((last.index(), i["rm"].as_bool().unwrap_or(false)));
        }
        created.push(mine);
    }
    // Block::append of a copy of another block (fresh indices, same addresses)
    for (n, b) in blocks.iter().enumerate() {
        let src = b["app"].as_i64().unwrap_or(-1);
        if src >= 0 {
            if let Ok(o) = g.block(src as usize).map(|x| x.clone()) {
                if let Ok(blk) = g.block_mut(n) {
                    blk.append(&o);
                }
            }
        }
    }
    // removals leave non-contiguous instruction indices
    for (n, mine) in created.iter().enumerate() {
        for (idx, rm) in mine {
            if *rm {
                let _ = g.block_mut(n).and_then(|blk| blk.remove_instruction(*idx));
            }
        }
    }
    for e in d["edges"].as_array().unwrap() {
        let (h, t) = (e[0].as_u64().unwrap() as usize, e[1].as_u64().unwrap() as usize);
        let _ = if e[2].as_bool().unwrap_or(false) {
            g.conditional_edge(h, t, il::expr_scalar("c", 1))
        } else {
            g.unconditional_edge(h, t)
        };
    }
    let entry = d["entry"].as_i64().unwrap_or(-1);
    if entry >= 0 {
        let _ = g.set_entry(entry as usize);
    }
    if d["merge"].as_bool().unwrap_or(false) {
        let _ = guard(|| g.merge()); // leaves non-contiguous block indices
    }
    il::Function::new(d["addr"].as_u64().unwrap_or(0), g)
}

fn build_program(d: &Value) -> Program {
    let mut p = Program::new();
    for f in d["fns"].as_array().unwrap() {
        p.add_function(build_function(f));
    }
    p
}

fn deep_copy(p: &Program) -> Program {
    let mut q = Program::new();
    for f in p.functions() {
        q.add_function(f.clone());
    }
    q
}

// --------------------------------------------------------------------------------------
// one session = one program
// --------------------------------------------------------------------------------------
fn session(out: &mut Out, sid: u64, d: &Value) {
    let p = build_program(d);
    let clone = p.clone();
    let deep = deep_copy(&p);
    out.emit(&json!({"ev": "begin", "sid": sid, "d": d, "prog": program(&p), "clone": program(&clone), "deep": program(&deep)}));

    let mut addrs: BTreeSet<i64> = BTreeSet::new();
    for f in p.functions() {
        let fi = f.index().map(small).unwrap_or(-1);
        let locs = guard_plain(|| f.locations());
        let locs = match locs {
            Outcome::Ok(l) => l,
            o => {
                out.emit(&json!({"ev": "locations", "sid": sid, "fi": fi, "res": o.json(|_| json!([]))}));
                continue;
            }
        };
        let pl: Vec<RefProgramLocation> = locs.iter().map(|l| RefProgramLocation::new(f, l.clone())).collect();
        out.emit(&json!({"ev": "locations", "sid": sid, "fi": fi, "res": {"ok": plocs(&pl)}}));

        for l in &pl {
            let fwd = guard(|| l.forward());
            let bwd = guard(|| l.backward());
            out.emit(&json!({"ev": "nav", "sid": sid, "loc": ploc(l), "fwd": fwd.json(plocs), "bwd": bwd.json(plocs)}));

            // owned form, and its application to the same, the cloned and the deep-copied program
            let o: ProgramLocation = l.clone().into();
            let same = guard(|| o.apply(&p).map(|r| ploc(&r)));
            let cl = guard(|| o.apply(&clone).map(|r| ploc(&r)));
            let dp = guard(|| o.apply(&deep).map(|r| ploc(&r)));
            let mg = guard(|| l.migrate(&deep).map(|r| ploc(&r)));
            let mg2 = guard(|| l.migrate(&clone).map(|r| ploc(&r)));
            // and back again: owned form of the applied location
            let again = guard(|| o.apply(&deep).map(|r| owned(ProgramLocation::from(r).function_location())));
            out.emit(&json!({"ev": "roundtrip", "sid": sid, "loc": ploc(l),
                "owned": owned(o.function_location()),
                "bi": o.block_index().map(small).unwrap_or(-1), "ii": o.instruction_index().map(small).unwrap_or(-1),
                "same": same.json(|v| v.clone()), "clone": cl.json(|v| v.clone()), "deep": dp.json(|v| v.clone()),
                "migrate": mg.json(|v| v.clone()), "migrate_clone": mg2.json(|v| v.clone()),
                "again": again.json(|v| v.clone())}));
        }

        // closure of forward() from the entry location
        let start = guard_plain(|| RefProgramLocation::from_function(f));
        let ev = match start {
            Outcome::Ok(None) => json!({"start": {"ok": []}, "locs": {"ok": []}}),
            Outcome::Ok(Some(Err(e))) => json!({"start": {"err": fv::err_name(&e)}, "locs": {"ok": []}}),
            Outcome::Ok(Some(Ok(s))) => {
                let mut seen: BTreeSet<String> = BTreeSet::new();
                let mut order: Vec<Value> = Vec::new();
                let mut work = vec![s.clone()];
                let mut failed: Option<Value> = None;
                seen.insert(ploc(&s).to_string());
                order.push(ploc(&s));
                let mut steps = 0;
                while let Some(x) = work.pop() {
                    steps += 1;
                    if steps > 20000 {
                        failed = Some(json!({"err": "closure-does-not-terminate"}));
                        break;
                    }
                    match guard(|| x.forward()) {
                        Outcome::Ok(ns) => {
                            for n in ns {
                                if seen.insert(ploc(&n).to_string()) {
                                    order.push(ploc(&n));
                                    work.push(n);
                                }
                            }
                        }
                        o => {
                            failed = Some(o.json(|_| json!([])));
                            break;
                        }
                    }
                }
                json!({"start": {"ok": [ploc(&s)]}, "locs": failed.unwrap_or(json!({"ok": order}))})
            }
            o => json!({"start": o.json(|_| json!([])), "locs": {"ok": []}}),
        };
        let mut ev = ev;
        ev["ev"] = json!("closure");
        ev["sid"] = json!(sid);
        ev["fi"] = json!(fi);
        out.emit(&ev);

        for b in f.blocks() {
            for i in b.instructions() {
                if let Some(a) = i.address() {
                    let a = addr(Some(a));
                    for x in [a - 1, a, a + 1] {
                        if x >= 0 {
                            addrs.insert(x);
                        }
                    }
                }
            }
        }
        // function addresses steer the first pass of from_address
        let fa = addr(Some(f.address()));
        for x in [fa - 1, fa, fa + 1] {
            if x >= 0 {
                addrs.insert(x);
            }
        }
    }
    out.emit(&json!({"ev": "converse", "sid": sid}));

    for a in addrs {
        let r = guard_plain(|| RefProgramLocation::from_address(&p, a as u64).map(|l| (ploc(&l), addr(l.address()))));
        let rc = guard_plain(|| RefProgramLocation::from_address(&clone, a as u64).map(|l| (ploc(&l), addr(l.address()))));
        let pr = |o: &Option<(Value, i64)>| match o {
            Some((l, ra)) => json!({"loc": [l], "raddr": ra}),
            None => json!({"loc": [], "raddr": -1}),
        };
        out.emit(&json!({"ev": "from_address", "sid": sid, "addr": a, "res": r.json(pr), "res_clone": rc.json(pr)}));
    }
}

// --------------------------------------------------------------------------------------
// generator
// --------------------------------------------------------------------------------------
fn gen_function(rng: &mut Rng, n: u64) -> Value {
    let nb = match rng.below(20) {
        0 => 0,
        1 | 2 => 1,
        _ => rng.range(2, 6),
    } as usize;
    // instruction addresses come from a small pool per program: duplicates within and across functions
    let pool: Vec<i64> = (0..6).map(|k| 0x400 + 2 * k + (n as i64 % 2)).collect();
    let mut blocks = Vec::new();
    for _ in 0..nb {
        let ni = match rng.below(5) {
            0 | 1 => 0,
            _ => rng.range(1, 3),
        };
        let ins: Vec<Value> = (0..ni)
            .map(|_| {
                let a = if rng.chance(1, 4) { -1 } else { *rng.pick(&pool) };
                json!({"a": a, "rm": rng.chance(1, 4), "k": if rng.bool() { "nop" } else { "assign" }})
            })
            .collect();
        let app: i64 = if nb > 0 && rng.chance(1, 6) { rng.below(nb as u64) as i64 } else { -1 };
        blocks.push(json!({"ins": ins, "app": app}));
    }
    let mut edges = Vec::new();
    if nb > 0 {
        for _ in 0..rng.below(2 * nb as u64 + 1) {
            edges.push(json!([rng.below(nb as u64), rng.below(nb as u64), rng.chance(1, 3)]));
        }
    }
    let entry: i64 = if nb == 0 || rng.chance(1, 8) { -1 } else { rng.below(nb as u64) as i64 };
    // function addresses: below, inside and above the instruction address pool, duplicates possible
    let fa = *rng.pick(&[0x3f0u64, 0x400, 0x401, 0x404, 0x408, 0x40b, 0x420]);
    json!({"addr": fa, "blocks": blocks, "edges": edges, "entry": entry, "merge": rng.chance(1, 6)})
}

fn gen_program(rng: &mut Rng) -> Value {
    let nf = rng.range(1, 3);
    json!({"fns": (0..nf).map(|n| gen_function(rng, n)).collect::<Vec<_>>()})
}

fn replay(out: &mut Out, path: &str) {
    let text = std::fs::read_to_string(path).expect("read replay input");
    let mut sid = 0;
    for line in text.lines().filter(|l| !l.trim().is_empty()) {
        let e: Value = serde_json::from_str(line).expect("json");
        if e["ev"] == "begin" {
            session(out, e["sid"].as_u64().unwrap_or(sid), &e["d"]);
            sid += 1;
        }
    }
}

fn main() {
    fv::quiet_panics();
    let mode = fv::arg_str("mode", "random");
    let mut out = Out::create(&fv::arg_str("out", "/dev/stdout"));
    // --salt separates the streams of several recorder jobs of one run (same VERIF_SEED)
    let mut rng = Rng::new(fv::seed_from_env() ^ 0xC18 ^ (fv::arg_u64("salt", 0) << 20));
    match mode.as_str() {
        "random" => {
            for sid in 0..fv::arg_u64("n", 50) {
                let d = gen_program(&mut rng);
                session(&mut out, sid, &d);
            }
        }
        "replay" => replay(&mut out, &fv::arg_str("in", "")),
        m => panic!("unknown mode {}", m),
    }
    out.finish();
}
