//! debugging aid: lift a few bytes at addresses at the top of the address space
use falcon::translator::Translator;
fn main() {
    fv::quiet_panics();
    let cases: Vec<(&str, Box<dyn Translator>, Vec<u8>)> = vec![
        ("x86", Box::new(falcon::translator::x86::X86::new()), vec![0x90]),
        ("amd64", Box::new(falcon::translator::x86::Amd64::new()), vec![0x90]),
        ("amd64-2", Box::new(falcon::translator::x86::Amd64::new()), vec![0x90, 0x90]),
        ("mips", Box::new(falcon::translator::mips::Mips::new()), vec![0, 0, 0, 0]),
        ("mipsel", Box::new(falcon::translator::mips::Mipsel::new()), vec![0, 0, 0, 0]),
        ("ppc", Box::new(falcon::translator::ppc::Ppc::new()), vec![0x60, 0, 0, 0]),
        ("aarch64", Box::new(falcon::translator::aarch64::AArch64::new()), vec![0x1f, 0x20, 0x03, 0xd5]),
    ];
    for (n, t, b) in cases {
        for a in [u64::MAX, u64::MAX - 3, u64::MAX - 7, u64::MAX - 63] {
            let r = fv::guard(|| t.translate_block(&b, a, &falcon::translator::Options::new()));
            let s = match r { fv::Outcome::Ok(_) => "ok".to_string(), fv::Outcome::Err(e) => format!("err {}", e), fv::Outcome::Panic(m) => format!("PANIC {}", m), _ => "timeout".into() };
            println!("{} {:#x}: {}", n, a, s);
        }
    }
}
