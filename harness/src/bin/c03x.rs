// scratch (not delivered): print lifted function for a word at an address
use falcon::architecture::Endian;
use falcon::memory::{backing, MemoryPermissions};
use falcon::translator::aarch64::AArch64;
use falcon::translator::Translator;
fn main() {
    let a: Vec<String> = std::env::args().collect();
    let word = u32::from_str_radix(&a[1], 16).unwrap();
    let addr = u64::from_str_radix(&a[2], 16).unwrap();
    let mut b = word.to_le_bytes().to_vec();
    b.extend(0xd503201fu32.to_le_bytes());
    b.extend(0xd503201fu32.to_le_bytes());
    let mut back = backing::Memory::new(Endian::Little);
    back.set_memory(addr, b, MemoryPermissions::EXECUTE | MemoryPermissions::READ);
    println!("{:?}", bad64::decode(word, addr));
    match AArch64::new().translate_function(&back, addr) {
        Ok(f) => println!("{}", f.control_flow_graph()),
        Err(e) => println!("ERR {:?}", e),
    }
}
