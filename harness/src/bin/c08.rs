//! C08 recorder / replayer: drives memory::paged::Memory<V> for V = il::Constant and
//! V = il::Expression and logs every call with its result.  Trace_C08.tla (over Mem.tla) judges.
//!
//!   c08 --mode random --n SESSIONS [--ops MAXOPS] [--stream K] --out FILE   (VERIF_SEED)
//!   c08 --mode gen --in HISTORIES.ndjson [--placements rotate|all] [--vt both|alternate] --out FILE
//!                                                                   (TLC-generated small histories)
//!   c08 --mode replay --in SESSION.ndjson --out FILE                (re-drive the inputs of a session)
//!
//! A session is a list of *input* events (no results); `drive` executes it against the real
//! memory and emits the same events with the observed `res`.  Nothing here computes an expected
//! value.  Addresses are `[base index, offset]` pairs over the bases below (a u64 is never
//! logged as a JSON number).

use falcon::architecture::Endian;
use falcon::executor;
use falcon::il::{self, Constant, Expression};
use falcon::memory::backing;
use falcon::memory::paged::Memory;
use falcon::memory::MemoryPermissions;
use falcon::RC;
use fv::{build, guard, guard_plain, proj, Outcome, Rng};
use num_bigint::BigUint;
use serde_json::{json, Value};
use std::collections::BTreeMap;
use std::io::{BufRead, Write};

/// 1024-aligned bases; offsets stay below 2^21.  Base 1 / 2 put offset 4096 on 2^32 / 2^63.
const BASES: [u64; 3] = [0, (1u64 << 32) - 4096, (1u64 << 63) - 4096];

/// ndjson writer that can be flushed (fv::Out cannot): a session is flushed as a whole, and in
/// replay mode every event, so that what a dying recorder (stack overflow, abort) leaves behind
/// is a well-formed prefix.
struct Out {
    w: std::io::BufWriter<std::fs::File>,
    each: bool,
}

impl Out {
    fn create(path: &str, each: bool) -> Out {
        if let Some(parent) = std::path::Path::new(path).parent() {
            let _ = std::fs::create_dir_all(parent);
        }
        Out { w: std::io::BufWriter::new(std::fs::File::create(path).expect("create output")), each }
    }
    fn emit(&mut self, v: &Value) {
        serde_json::to_writer(&mut self.w, v).unwrap();
        self.w.write_all(b"\n").unwrap();
        if self.each {
            self.w.flush().unwrap();
        }
    }
    fn flush(&mut self) {
        self.w.flush().unwrap();
    }
}

/// Drive one session; its inputs are parked in `<out>.cur` while it runs, so that the orchestrator
/// can tell which session killed the recorder (the file is removed when the recorder finishes).
struct Park {
    f: std::fs::File,
}

impl Park {
    fn create(path: &str) -> Park {
        Park { f: std::fs::File::create(path).expect("create .cur") }
    }
    fn set(&mut self, inputs: &[Value]) {
        use std::io::Seek;
        let bytes = serde_json::to_vec(inputs).unwrap();
        self.f.seek(std::io::SeekFrom::Start(0)).unwrap();
        self.f.write_all(&bytes).unwrap();
        self.f.set_len(bytes.len() as u64).unwrap();
    }
}

fn run_session(inputs: &[Value], out: &mut Out, park: &mut Park) {
    park.set(inputs);
    drive_session(inputs, out);
    out.flush();
}

fn abs(a: &Value) -> u64 {
    BASES[a[0].as_u64().unwrap() as usize] + a[1].as_u64().unwrap()
}

fn endian(v: &Value) -> Endian {
    if v.as_str().unwrap() == "big" {
        Endian::Big
    } else {
        Endian::Little
    }
}

fn unit<T>(o: &Outcome<T>) -> Value {
    o.json(|_| json!("unit"))
}

/// What the two value types need beyond falcon's `memory::Value`.
trait Cell: falcon::memory::Value {
    /// the value a store event asks for ("v": constant limbs, or "e": an expression)
    fn from_event(ev: &Value) -> Self;
    /// a loaded value as a constant (il::Expression: executor::eval)
    fn observe(&self) -> Result<Constant, falcon::Error>;
}

impl Cell for Constant {
    fn from_event(ev: &Value) -> Constant {
        build::constant(&ev["v"])
    }
    fn observe(&self) -> Result<Constant, falcon::Error> {
        Ok(self.clone())
    }
}

impl Cell for Expression {
    fn from_event(ev: &Value) -> Expression {
        build::expr(&ev["e"])
    }
    fn observe(&self) -> Result<Constant, falcon::Error> {
        executor::eval(self)
    }
}

fn load_json<V: Cell>(m: &Memory<V>, address: u64, bits: usize) -> Value {
    let r = guard(|| match m.load(address, bits)? {
        Some(v) => Ok(Some(v.observe()?)),
        None => Ok(None),
    });
    r.json(|x| match x {
        Some(c) => proj::val(c),
        None => proj::none(),
    })
}

/// Execute the input events of one session against the real memory, logging results.
fn drive<V: Cell>(inputs: &[Value], out: &mut Out) {
    let mut backs: Vec<RC<backing::Memory>> = Vec::new();
    let mut mems: BTreeMap<u64, Memory<V>> = BTreeMap::new();
    for ev in inputs {
        let mut e = ev.clone();
        e.as_object_mut().unwrap().remove("res");
        let kind = ev["ev"].as_str().unwrap();
        let h = ev["h"].as_u64().unwrap_or(0);
        match kind {
            "begin" => {
                for b in ev["backings"].as_array().unwrap() {
                    let mut bm = backing::Memory::new(endian(&b["endian"]));
                    for r in b["regions"].as_array().unwrap() {
                        let data: Vec<u8> = r["d"].as_array().unwrap().iter().map(|x| x.as_u64().unwrap() as u8).collect();
                        bm.set_memory(abs(&r["a"]), data, MemoryPermissions::from_bits_truncate(r["p"].as_u64().unwrap() as u32));
                    }
                    backs.push(RC::new(bm));
                }
                e["bases"] = json!(BASES.iter().map(|b| proj::limbs(&BigUint::from(*b), 64)).collect::<Vec<_>>());
            }
            "new" => {
                let bk = ev["bk"].as_u64().unwrap() as usize;
                let r = guard_plain(|| {
                    if bk == 0 {
                        Memory::<V>::new(endian(&ev["endian"]))
                    } else {
                        Memory::<V>::new_with_backing(endian(&ev["endian"]), backs[bk - 1].clone())
                    }
                });
                e["res"] = unit(&r);
                if let Some(m) = r.ok() {
                    mems.insert(h, m);
                }
            }
            "clone" => {
                let r = guard_plain(|| mems[&h].clone());
                e["res"] = unit(&r);
                if let Some(m) = r.ok() {
                    mems.insert(ev["to"].as_u64().unwrap(), m);
                }
            }
            "drop" => {
                let m = mems.remove(&h);
                let r = guard_plain(move || drop(m));
                e["res"] = unit(&r);
            }
            "store" => {
                let v = V::from_event(ev);
                let a = abs(&ev["a"]);
                let m = mems.get_mut(&h).unwrap();
                let r = guard(|| m.store(a, v));
                e["res"] = unit(&r);
            }
            "setperm" => {
                let a = abs(&ev["a"]);
                let len = ev["len"].as_u64().unwrap();
                let p = MemoryPermissions::from_bits_truncate(ev["p"].as_u64().unwrap() as u32);
                let m = mems.get_mut(&h).unwrap();
                let r = guard_plain(|| m.set_permissions(a, len, p));
                e["res"] = unit(&r);
            }
            "load" => {
                e["res"] = load_json(&mems[&h], abs(&ev["a"]), ev["bits"].as_u64().unwrap() as usize);
            }
            "scan" => {
                let a = abs(&ev["a"]);
                let bits = ev["bits"].as_u64().unwrap() as usize;
                let n = ev["n"].as_u64().unwrap();
                e["res"] = json!((0..n).map(|i| load_json(&mems[&h], a + i, bits)).collect::<Vec<_>>());
            }
            "perm" => {
                let a = abs(&ev["a"]);
                let r = guard_plain(|| mems[&h].permissions(a));
                e["res"] = r.json(|p| json!(p.map(|p| p.bits() as i64).unwrap_or(-1)));
            }
            "eq" => {
                let (h1, h2) = (ev["h1"].as_u64().unwrap(), ev["h2"].as_u64().unwrap());
                let r = guard_plain(|| mems[&h1] == mems[&h2]);
                e["res"] = r.json(|b| json!(*b));
            }
            other => panic!("unknown event kind {}", other),
        }
        out.emit(&e);
    }
}

fn drive_session(inputs: &[Value], out: &mut Out) {
    if inputs[0]["vt"] == "expr" {
        drive::<Expression>(inputs, out)
    } else {
        drive::<Constant>(inputs, out)
    }
}

// ------------------------------------------------------------------------------------------
// random histories
// ------------------------------------------------------------------------------------------

/// a scalar-free expression of width w (no division: evaluation cannot fail)
fn gen_expr(rng: &mut Rng, w: usize, depth: u32) -> Expression {
    if depth == 0 || rng.chance(1, 3) {
        return Expression::constant(Constant::new_big(rng.interesting(w), w));
    }
    match rng.below(8) {
        0 => Expression::add(gen_expr(rng, w, depth - 1), gen_expr(rng, w, depth - 1)).unwrap(),
        1 => Expression::sub(gen_expr(rng, w, depth - 1), gen_expr(rng, w, depth - 1)).unwrap(),
        2 => Expression::xor(gen_expr(rng, w, depth - 1), gen_expr(rng, w, depth - 1)).unwrap(),
        3 => Expression::or(gen_expr(rng, w, depth - 1), gen_expr(rng, w, depth - 1)).unwrap(),
        4 => Expression::and(gen_expr(rng, w, depth - 1), gen_expr(rng, w, depth - 1)).unwrap(),
        5 if w >= 2 => {
            let from = 1 + rng.below(w as u64 - 1) as usize;
            Expression::zext(w, gen_expr(rng, from, depth - 1)).unwrap()
        }
        6 => {
            let from = w + 1 + rng.below(16) as usize;
            Expression::trun(w, gen_expr(rng, from, depth - 1)).unwrap()
        }
        _ => {
            let k = rng.below(w as u64 + 2);
            Expression::shl(gen_expr(rng, w, depth - 1), il::expr_const(k, w)).unwrap()
        }
    }
}

fn store_value(rng: &mut Rng, expr: bool, bits: usize) -> (&'static str, Value) {
    if expr {
        let d = if bits > 64 { 1 } else { 2 };
        ("e", proj::expr(&gen_expr(rng, bits, d)))
    } else {
        let c = if rng.chance(1, 4) { rng.interesting(bits) } else { rng.big(bits) };
        ("v", proj::val(&Constant::new_big(c, bits)))
    }
}

fn width_bytes(rng: &mut Rng) -> u64 {
    match rng.below(10) {
        0 | 1 => 1,
        2 => 2,
        3 | 4 => 4,
        5 => 8,
        6 => 16,
        7 => 32,
        8 => rng.range(1, 8),
        _ => rng.range(1, 32),
    }
}

struct Window {
    base: u64,
    start: u64,
    len: u64,
}

impl Window {
    fn addr(&self, rng: &mut Rng, bytes: u64) -> Value {
        // mostly inside the window, so that values overlap; sometimes running off its end
        let hi = if rng.chance(1, 8) { self.len - 1 } else { self.len.saturating_sub(bytes).max(1) - 1 };
        json!([self.base, self.start + rng.range(0, hi)])
    }
}

fn windows(rng: &mut Rng) -> Vec<Window> {
    let mut ws = Vec::new();
    let n = rng.range(1, 3);
    for i in 0..n {
        let base = if i == 0 && rng.bool() { 0 } else { rng.below(3) };
        let len = *rng.pick(&[24u64, 48, 80, 120]);
        // a page boundary (for base 0: 1024 * k, k = 0 is address 0; for base 1 / 2 offset 4096
        // is 2^32 / 2^63), with the window straddling it at a random position
        let boundary = if base == 0 {
            match rng.below(4) {
                0 => 0,
                1 => 1024 * rng.range(1, 4),
                _ => 1024 * rng.range(1, 1500),
            }
        } else if rng.chance(2, 3) {
            4096
        } else {
            1024 * rng.range(1, 7)
        };
        let before = if boundary == 0 { 0 } else { rng.range(0, len.min(boundary)) };
        ws.push(Window { base, start: boundary - before, len });
    }
    ws
}

fn random_session(rng: &mut Rng, idx: u64, max_ops: u64) -> Vec<Value> {
    let expr = idx % 2 == 1;
    let ws = windows(rng);
    let mut evs: Vec<Value> = Vec::new();
    // backings: regions inside / around the windows (non-empty writes only: empty region writes are C16's business)
    let nb = rng.below(3);
    let mut backings = Vec::new();
    for _ in 0..nb {
        let mut regions = Vec::new();
        for _ in 0..rng.range(1, 4) {
            let w = rng.pick(&ws);
            let len = rng.range(1, w.len);
            let off = rng.range(0, w.len - 1);
            let data: Vec<u64> = (0..len).map(|_| rng.below(256)).collect();
            regions.push(json!({"a": [w.base, w.start + off], "d": data, "p": rng.below(8)}));
        }
        backings.push(json!({"endian": if rng.bool() { "big" } else { "little" }, "regions": regions}));
    }
    evs.push(json!({"ev": "begin", "vt": if expr { "expr" } else { "const" }, "backings": backings}));

    let mut live: Vec<u64> = Vec::new();
    let new_mem = |rng: &mut Rng, live: &mut Vec<u64>, evs: &mut Vec<Value>| {
        let h = (0..4).find(|h| !live.contains(h)).unwrap();
        let bk = if nb > 0 && rng.chance(2, 3) { rng.range(1, nb) } else { 0 };
        evs.push(json!({"ev": "new", "h": h, "endian": if rng.bool() { "big" } else { "little" }, "bk": bk}));
        live.push(h);
    };
    new_mem(rng, &mut live, &mut evs);
    let ops = rng.range(max_ops / 8 + 1, max_ops);
    // ranges given to set_permissions, remembered so that queries probe their edges
    let mut ranges: Vec<(u64, u64, u64)> = Vec::new();
    for _ in 0..ops {
        let h = *rng.pick(&live);
        let w = rng.pick(&ws);
        match rng.below(100) {
            0..=39 => {
                let bytes = width_bytes(rng);
                let (k, v) = store_value(rng, expr, bytes as usize * 8);
                evs.push(json!({"ev": "store", "h": h, "a": w.addr(rng, bytes), k: v}));
            }
            40..=59 => {
                let bytes = width_bytes(rng);
                evs.push(json!({"ev": "load", "h": h, "a": w.addr(rng, bytes), "bits": bytes * 8}));
            }
            60..=64 => {
                let bytes = *rng.pick(&[1u64, 2, 4, 8, 3]);
                let n = rng.range(4, 24);
                evs.push(json!({"ev": "scan", "h": h, "a": w.addr(rng, n), "n": n, "bits": bytes * 8}));
            }
            65..=70 => {
                if live.len() < 4 {
                    let to = (0..4).find(|x| !live.contains(x)).unwrap();
                    evs.push(json!({"ev": "clone", "h": h, "to": to}));
                    live.push(to);
                } else {
                    let pos = rng.below(live.len() as u64) as usize;
                    evs.push(json!({"ev": "drop", "h": live[pos]}));
                    live.remove(pos);
                }
            }
            71..=72 => {
                if live.len() < 4 {
                    new_mem(rng, &mut live, &mut evs);
                } else if live.len() > 1 {
                    let pos = rng.below(live.len() as u64) as usize;
                    evs.push(json!({"ev": "drop", "h": live[pos]}));
                    live.remove(pos);
                }
            }
            73..=79 => {
                // ranges: inside a window, page-aligned around it, or starting at address 0
                let (base, lo, len) = match rng.below(5) {
                    0 => (0, 0, *rng.pick(&[1u64, 10, 1024, 1500, 2048, 4096])),
                    1 => (w.base, w.start / 1024 * 1024, *rng.pick(&[1024u64, 2048, 100])),
                    2 => (w.base, w.start + rng.range(0, w.len - 1), rng.range(0, 2 * w.len)),
                    3 => (w.base, w.start.saturating_sub(rng.range(0, 1100)), rng.range(1, 2300)),
                    _ => (w.base, w.start + rng.range(0, w.len - 1), *rng.pick(&[0u64, 1, 2, 1024])),
                };
                ranges.push((base, lo, len));
                evs.push(json!({"ev": "setperm", "h": h, "a": [base, lo], "len": len, "p": rng.below(8)}));
            }
            80..=91 => {
                let a = if !ranges.is_empty() && rng.chance(2, 3) {
                    let (base, lo, len) = *rng.pick(&ranges);
                    let end = lo + len;
                    let cands = [lo, lo + len / 2, end.saturating_sub(1), end, lo.saturating_sub(1), lo / 1024 * 1024,
                                 end / 1024 * 1024 + 1023, lo + 1024, end + 1024];
                    json!([base, *rng.pick(&cands)])
                } else {
                    w.addr(rng, 1)
                };
                evs.push(json!({"ev": "perm", "h": h, "a": a}));
            }
            _ => {
                let h2 = *rng.pick(&live);
                evs.push(json!({"ev": "eq", "h1": h, "h2": h2}));
            }
        }
    }
    // closing observation: every live handle over every window, byte-wise and 32-bit; all pairs compared
    for h in live.iter() {
        for w in ws.iter() {
            evs.push(json!({"ev": "scan", "h": h, "a": [w.base, w.start], "n": w.len + 4, "bits": 8}));
            evs.push(json!({"ev": "scan", "h": h, "a": [w.base, w.start], "n": w.len, "bits": 32}));
        }
    }
    for (i, h1) in live.iter().enumerate() {
        for h2 in live.iter().skip(i) {
            evs.push(json!({"ev": "eq", "h1": h1, "h2": h2}));
        }
    }
    evs
}

// ------------------------------------------------------------------------------------------
// TLC-generated small histories (spec/mc/MC_Mem.tla prints them, window-relative)
// ------------------------------------------------------------------------------------------

/// Place a window-relative history so that window offset 3 is a page boundary:
/// 1024 (base 0), 2^32 (base 1), 2^63 (base 2).
fn place(base: u64, off: u64) -> Value {
    let start = if base == 0 { 1021 } else { 4093 };
    json!([base, start + off])
}

fn gen_session(hist: &Value, base: u64, expr: bool) -> Vec<Value> {
    let mut evs = Vec::new();
    let mut backings = Vec::new();
    for b in hist["backings"].as_array().unwrap() {
        let regions: Vec<Value> = b["regions"]
            .as_array()
            .unwrap()
            .iter()
            .map(|r| json!({"a": place(base, r["off"].as_u64().unwrap()), "d": r["d"], "p": r["p"]}))
            .collect();
        backings.push(json!({"endian": b["endian"], "regions": regions}));
    }
    evs.push(json!({"ev": "begin", "vt": if expr { "expr" } else { "const" }, "backings": backings}));
    let mut live: Vec<u64> = Vec::new();
    for op in hist["ops"].as_array().unwrap() {
        let mut e = op.clone();
        let o = e.as_object_mut().unwrap();
        if let Some(off) = o.remove("off") {
            o.insert("a".into(), place(base, off.as_u64().unwrap()));
        }
        match op["ev"].as_str().unwrap() {
            "new" => live.push(op["h"].as_u64().unwrap()),
            "clone" => live.push(op["to"].as_u64().unwrap()),
            "drop" => live.retain(|h| *h != op["h"].as_u64().unwrap()),
            "store" if expr => {
                let v = o.remove("v").unwrap();
                o.insert("e".into(), json!({"k": "const", "w": v["w"], "v": v["v"]}));
            }
            _ => {}
        }
        evs.push(e);
    }
    // every load the scope asks for, on every live handle
    let scan = &hist["scan"];
    let has_setperm = hist["ops"].as_array().unwrap().iter().any(|o| o["ev"] == "setperm");
    for h in live.iter() {
        for bits in scan["bits"].as_array().unwrap() {
            evs.push(json!({"ev": "scan", "h": h, "a": place(base, 0), "n": scan["n"], "bits": bits}));
        }
        // permissions: every offset when the history sets permissions, else one address per page
        let perm_n = scan["perm_n"].as_u64().unwrap();
        let offs: Vec<u64> = if has_setperm { (0..perm_n).collect() } else { [2u64, 4].iter().cloned().filter(|o| *o < perm_n).collect() };
        for off in offs {
            evs.push(json!({"ev": "perm", "h": h, "a": place(base, off)}));
        }
    }
    for (i, h1) in live.iter().enumerate() {
        for h2 in live.iter().skip(i) {
            evs.push(json!({"ev": "eq", "h1": h1, "h2": h2}));
        }
    }
    evs
}

fn read_ndjson(path: &str) -> Vec<Value> {
    let f = std::io::BufReader::new(std::fs::File::open(path).expect("open --in"));
    f.lines().map(|l| l.unwrap()).filter(|l| !l.trim().is_empty()).map(|l| serde_json::from_str(&l).expect("json")).collect()
}

fn main() {
    fv::quiet_panics();
    let mode = fv::arg_str("mode", "random");
    let path = fv::arg_str("out", "/dev/stdout");
    let cur_path = format!("{}.cur", path);
    let mut park = Park::create(&cur_path);
    let mut out = Out::create(&path, mode == "replay");
    match mode.as_str() {
        "random" => {
            let n = fv::arg_u64("n", 100);
            let max_ops = fv::arg_u64("ops", 120);
            let mut rng = Rng::new(fv::seed_from_env() ^ 0xC08 ^ (fv::arg_u64("stream", 0) << 24));
            for i in 0..n {
                let s = random_session(&mut rng, i, max_ops);
                run_session(&s, &mut out, &mut park);
            }
        }
        "gen" => {
            let placements = fv::arg_str("placements", "rotate");
            let vt = fv::arg_str("vt", "both");
            for (i, hist) in read_ndjson(&fv::arg_str("in", "")).iter().enumerate() {
                let bases: Vec<u64> = if placements == "all" { vec![0, 1, 2] } else { vec![i as u64 % 3] };
                // value types: both (default), or alternating with the history index
                let vts: Vec<bool> = if vt == "alternate" { vec![(i / 3) % 2 == 1] } else { vec![false, true] };
                for base in bases {
                    for expr in vts.iter().cloned() {
                        run_session(&gen_session(hist, base, expr), &mut out, &mut park);
                    }
                }
            }
        }
        "replay" => {
            // one or more recorded sessions: re-drive their inputs
            let evs = read_ndjson(&fv::arg_str("in", ""));
            let mut cur: Vec<Value> = Vec::new();
            for e in evs {
                if e["ev"] == "begin" && !cur.is_empty() {
                    run_session(&cur, &mut out, &mut park);
                    cur.clear();
                }
                cur.push(e);
            }
            if !cur.is_empty() {
                run_session(&cur, &mut out, &mut park);
            }
        }
        other => panic!("unknown mode {}", other),
    }
    out.flush();
    drop(park);
    let _ = std::fs::remove_file(&cur_path);
}
