//! C12 exporter: reaching_definitions / use_def / def_use on generated functions.
//!
//!   c12 --mode random --n N --out FILE     (VERIF_SEED)
//!   c12 --mode replay --in FILE --out FILE

use falcon::analysis::{def_use, reaching_definitions, use_def, LocationSet};
use falcon::il;
use fv::xplor::{self, XProg};
use fv::{build, guard, Rng};
use serde_json::{json, Value};
use std::collections::HashMap;

fn table(o: fv::Outcome<HashMap<il::ProgramLocation, LocationSet>>) -> Value {
    match o {
        fv::Outcome::Ok(map) => {
            let mut locs: Vec<&il::ProgramLocation> = map.keys().collect();
            locs.sort_by_key(|l| xplor::floc_key(l.function_location()));
            let tab: Vec<Value> = locs
                .iter()
                .map(|l| {
                    let mut defs: Vec<&il::ProgramLocation> = map[*l].locations().iter().collect();
                    defs.sort_by_key(|d| xplor::floc_key(d.function_location()));
                    json!({"loc": xplor::floc(l.function_location()),
                           "defs": defs.iter().map(|d| xplor::floc(d.function_location())).collect::<Vec<_>>()})
                })
                .collect();
            json!({"k": "ok", "tab": tab})
        }
        fv::Outcome::Err(e) => json!({"k": "err", "err": e}),
        fv::Outcome::Panic(m) => json!({"k": "panic", "msg": m}),
        fv::Outcome::Timeout(_) => json!({"k": "timeout"}),
    }
}

fn analyse(x: &XProg) -> Value {
    let f = &x.function;
    let mut v = xplor::base_json(x);
    v["ana"] = json!({
        "rd": table(guard(|| reaching_definitions(f))),
        "ud": table(guard(|| use_def(f))),
        "du": table(guard(|| def_use(f))),
    });
    v
}

fn main() {
    fv::quiet_panics();
    let mode = fv::arg_str("mode", "random");
    let out = fv::arg_str("out", "/dev/stdout");
    let mut rng = Rng::new(fv::seed_from_env() ^ 0xC12);
    let mut progs = Vec::new();
    match mode.as_str() {
        "random" => {
            for _ in 0..fv::arg_u64("n", 50) {
                let scalars = xplor::universe(&mut rng);
                let mut cfg = xplor::default_cfg(&mut rng, &scalars);
                // in a quarter of the programs some guards are not complementary (a lone guarded edge, independent
                // conditions): the chains of a guarded edge are claimed for every edge, not only for pairs
                cfg.partial_guards_pct = if rng.chance(1, 4) { 25 } else { 0 };
                cfg.unreachable_blocks = rng.chance(1, 4);
                let function = fv::gen::any_function(&mut rng, &cfg, 0x1000);
                let x = XProg {
                    function, scalars: scalars.clone(), big: rng.bool(), mem_base: 0x2000,
                    inits: xplor::initial_states(&mut rng, &scalars, 0x2000, 2),
                    havocs: xplor::havocs(&mut rng, &scalars, 2),
                };
                progs.push(analyse(&x));
            }
        }
        "lifted" => {
            // functions lifted from the llvm-mc assembled templates of corpus/c17
            for (x, archname, template) in xplor::lifted(&mut rng, &fv::arg_str("corpus", "/verif/corpus/c17")) {
                let mut v = analyse(&x);
                v["arch"] = json!(archname);
                v["template"] = json!(template);
                progs.push(v);
            }
        }
        "replay" => {
            let v: Value = serde_json::from_str(&std::fs::read_to_string(fv::arg_str("in", "")).unwrap()).unwrap();
            for p in v["progs"].as_array().unwrap() {
                let scalars: Vec<il::Scalar> = p["names"].as_array().unwrap().iter()
                    .map(|s| il::scalar(s["n"].as_str().unwrap(), s["w"].as_u64().unwrap() as usize)).collect();
                let x = XProg {
                    function: build::function(&p["f"]), scalars, big: p["big"].as_bool().unwrap(), mem_base: 0x2000,
                    inits: p["inits"].as_array().unwrap().clone(), havocs: p["havocs"].as_array().unwrap().clone(),
                };
                progs.push(analyse(&x));
            }
        }
        _ => panic!("unknown mode"),
    }
    eprintln!("c12: {} programs", progs.len());
    xplor::write_progs(&out, progs);
}
