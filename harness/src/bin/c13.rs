//! C13 exporter: runs analysis::constants::constants() on generated functions and exports
//! function + reported constants + Constants::eval results for TLC to explore.
//!
//!   c13 --mode random --n N --out FILE     (VERIF_SEED)
//!   c13 --mode replay --in FILE --out FILE  (re-analyse the functions stored in an export)

use falcon::analysis::constants;
use falcon::il;
use fv::xplor::{self, XProg};
use fv::{build, guard, proj, Rng};
use serde_json::{json, Value};

/// prepend `s = const` for every scalar to the entry block (mode "init": no scalar can be read
/// before it is assigned)
fn initialise(function: &mut il::Function, scalars: &[il::Scalar], rng: &mut Rng) {
    let entry = function.control_flow_graph().entry().unwrap();
    let old: Vec<il::Instruction> = function.block(entry).unwrap().instructions().clone();
    // rebuild the block: assignments first, then the old instructions (indices re-allocated)
    let blk = function.block_mut(entry).unwrap();
    blk.instructions_mut().clear();
    for s in scalars {
        let c = if rng.bool() { il::const_(rng.below(4), s.bits()) } else { fv::gen::constant(rng, s.bits()) };
        blk.assign(s.clone(), c.into());
    }
    for i in old {
        match i.operation().clone() {
            il::Operation::Assign { dst, src } => blk.assign(dst, src),
            il::Operation::Store { index, src } => blk.store(index, src),
            il::Operation::Load { dst, index } => blk.load(dst, index),
            il::Operation::Branch { target } => blk.branch(target),
            il::Operation::Intrinsic { intrinsic } => blk.intrinsic(intrinsic),
            il::Operation::Nop { .. } => blk.nop(),
        }
    }
}

fn analyse(x: &XProg, mode: &str) -> Value {
    let f = &x.function;
    let res = guard(|| constants::constants(f));
    let mut claims = Vec::new();
    let mut evals = Vec::new();
    let outcome = match &res {
        fv::Outcome::Ok(map) => {
            let mut locs: Vec<&il::ProgramLocation> = map.keys().collect();
            locs.sort_by_key(|l| xplor::floc_key(l.function_location()));
            for l in locs {
                let c = &map[l];
                let mut consts = Vec::new();
                for s in &x.scalars {
                    if let Some(k) = c.scalar(s) {
                        consts.push(json!({"n": s.name(), "w": k.bits(), "v": proj::limbs(k.value(), k.bits())}));
                    }
                }
                claims.push(json!({"loc": xplor::floc(l.function_location()), "consts": consts}));
                // Constants::eval on the expressions this location reads
                let rfl = l.function_location().apply(f).unwrap();
                let mut exprs: Vec<il::Expression> = Vec::new();
                match rfl {
                    il::RefFunctionLocation::Instruction(_, ins) => match ins.operation() {
                        il::Operation::Assign { src, .. } => exprs.push(src.clone()),
                        il::Operation::Store { index, src } => { exprs.push(index.clone()); exprs.push(src.clone()); }
                        il::Operation::Load { index, .. } => exprs.push(index.clone()),
                        il::Operation::Branch { target } => exprs.push(target.clone()),
                        _ => {}
                    },
                    il::RefFunctionLocation::Edge(e) => { if let Some(c) = e.condition() { exprs.push(c.clone()); } }
                    _ => {}
                }
                for e in exprs {
                    let r = guard(|| Ok(c.eval(&e)));
                    let rj = match r {
                        fv::Outcome::Ok(Some(k)) => json!({"k": "some", "w": k.bits(), "v": proj::limbs(k.value(), k.bits())}),
                        fv::Outcome::Ok(None) => json!({"k": "none"}),
                        fv::Outcome::Panic(m) => json!({"k": "panic", "msg": m}),
                        _ => json!({"k": "none"}),
                    };
                    evals.push(json!({"loc": xplor::floc(l.function_location()), "e": proj::expr(&e), "res": rj}));
                }
            }
            json!({"k": "ok"})
        }
        fv::Outcome::Err(e) => json!({"k": "err", "err": e}),
        fv::Outcome::Panic(m) => json!({"k": "panic", "msg": m}),
        fv::Outcome::Timeout(_) => json!({"k": "timeout"}),
    };
    let mut v = xplor::base_json(x);
    v["mode"] = json!(mode);
    v["outcome"] = outcome;
    v["claims"] = Value::Array(claims);
    v["evals"] = Value::Array(evals);
    v
}

fn main() {
    fv::quiet_panics();
    let mode = fv::arg_str("mode", "random");
    let out = fv::arg_str("out", "/dev/stdout");
    let mut rng = Rng::new(fv::seed_from_env() ^ 0xC13);
    let mut progs = Vec::new();
    match mode.as_str() {
        "random" => {
            for i in 0..fv::arg_u64("n", 50) {
                let scalars = xplor::universe(&mut rng);
                let mut cfg = xplor::default_cfg(&mut rng, &scalars);
                let init_mode = i % 2 == 0;
                cfg.unreachable_blocks = rng.chance(1, 3);
                let mut function = fv::gen::any_function(&mut rng, &cfg, 0x1000);
                let mut scalars = scalars;
                if init_mode {
                    initialise(&mut function, &scalars, &mut rng);
                    // scalars that are NOT initialised at the entry but only assigned later, on some paths, and read
                    // at most directly behind their assignment: still "no scalar can be read before it is assigned",
                    // but the sets of assigned scalars differ between the paths that meet at a join
                    if rng.chance(4, 5) {
                        let nb = function.blocks().len();
                        let x8: Vec<il::Scalar> = scalars.iter().filter(|s| s.bits() == 8).cloned().collect();
                        for k in 0..rng.range(1, 3) {
                            let u = il::scalar(format!("late{}", k), 8);
                            for _ in 0..rng.range(1, 3) {
                                let b = function.blocks()[rng.below(nb as u64) as usize].index();
                                let blk = function.block_mut(b).unwrap();
                                let terminal = blk.instructions().last().map_or(false, |i| i.is_branch());
                                if terminal {
                                    continue; // nothing may follow an indirect branch
                                }
                                let c: il::Expression = if rng.bool() { il::expr_const(rng.below(4), 8) }
                                    else { il::Expression::add(il::Expression::Scalar(rng.pick(&x8).clone()), il::expr_const(1, 8)).unwrap() };
                                blk.assign(u.clone(), c);
                                if rng.bool() {
                                    blk.assign(rng.pick(&x8).clone(), il::Expression::Scalar(u.clone()));
                                }
                            }
                            scalars.push(u);
                        }
                    }
                } else if rng.chance(1, 3) {
                    // a path on which nothing has been assigned yet when it reaches a join: the entry
                    // block assigns nothing (its instructions become nops)
                    let entry = function.control_flow_graph().entry().unwrap();
                    for i in function.block_mut(entry).unwrap().instructions_mut() {
                        if i.is_assign() || i.is_load() {
                            *i.operation_mut() = il::Operation::nop();
                        }
                    }
                }
                let x = XProg {
                    function, scalars: scalars.clone(), big: rng.bool(), mem_base: 0x2000,
                    inits: xplor::initial_states(&mut rng, &scalars, 0x2000, 2),
                    havocs: xplor::havocs(&mut rng, &scalars, 2),
                };
                progs.push(analyse(&x, if init_mode { "init" } else { "any" }));
            }
        }
        "lifted" => {
            // functions lifted from the llvm-mc assembled templates of corpus/c17
            for (x, archname, template) in xplor::lifted(&mut rng, &fv::arg_str("corpus", "/verif/corpus/c17")) {
                let mut v = analyse(&x, "any");
                v["arch"] = json!(archname);
                v["template"] = json!(template);
                progs.push(v);
            }
        }
        "replay" => {
            let v: Value = serde_json::from_str(&std::fs::read_to_string(fv::arg_str("in", "")).unwrap()).unwrap();
            for p in v["progs"].as_array().unwrap() {
                let scalars: Vec<il::Scalar> = p["names"].as_array().unwrap().iter()
                    .map(|s| il::scalar(s["n"].as_str().unwrap(), s["w"].as_u64().unwrap() as usize)).collect();
                let x = XProg {
                    function: build::function(&p["f"]), scalars, big: p["big"].as_bool().unwrap(), mem_base: 0x2000,
                    inits: p["inits"].as_array().unwrap().clone(), havocs: p["havocs"].as_array().unwrap().clone(),
                };
                progs.push(analyse(&x, p["mode"].as_str().unwrap_or("any")));
            }
        }
        _ => panic!("unknown mode"),
    }
    eprintln!("c13: {} programs", progs.len());
    xplor::write_progs(&out, progs);
}
