//! C17 exporter: stack_pointer_offsets on generated functions over each architecture's
//! stack-pointer scalar.
//!
//!   c17 --mode random --n N --out FILE     (VERIF_SEED)
//!   c17 --mode replay --in FILE --out FILE

use falcon::analysis::stack_pointer_offsets::stack_pointer_offsets;
use falcon::architecture::{AArch64, AArch64Eb, Amd64, Architecture, Mips, Mipsel, Ppc, X86};
use falcon::il;
use falcon::il::Expression as E;
use fv::xplor::{self, XProg};
use fv::{build, guard, proj, Rng};
use num_bigint::BigUint;
use serde_json::{json, Value};

fn arch(name: &str) -> Box<dyn Architecture> {
    match name {
        "x86" => Box::new(X86::new()),
        "amd64" => Box::new(Amd64::new()),
        "mips" => Box::new(Mips::new()),
        "mipsel" => Box::new(Mipsel::new()),
        "ppc" => Box::new(Ppc::new()),
        "aarch64" => Box::new(AArch64::new()),
        _ => Box::new(AArch64Eb::new()),
    }
}
const ARCHS: [&str; 7] = ["x86", "amd64", "mips", "mipsel", "ppc", "aarch64", "aarch64eb"];

/// stack idioms over the stack pointer `sp` and a frame pointer `fp` of the same width
fn sp_op(rng: &mut Rng, sp: &il::Scalar, fp: &il::Scalar, data: &[il::Scalar]) -> il::Operation {
    let w = sp.bits();
    let slot = (w / 8) as u64;
    let k = |v: u64| il::expr_const(v, w);
    let spx = || E::Scalar(sp.clone());
    let d = rng.pick(data).clone();
    let dw = |e: E, to: usize| -> E {
        let from = e.bits();
        if from == to { e } else if from < to { E::zext(to, e).unwrap() } else { E::trun(to, e).unwrap() }
    };
    // displacements: mostly a few slots; now and then a frame whose size does not fit 31 bits / reaches the sign bit
    // of the stack pointer's width (the reported offset is a signed quantity of that width)
    let disp = |rng: &mut Rng| -> u64 {
        if rng.chance(1, 6) {
            let half = 1u64 << (w - 1);
            *rng.pick(&[0x7fff_fff0u64, 0x8000_0000, 0x8000_0010, 0xffff_fff0, half - slot, half, half.wrapping_add(slot)]) & (if w >= 64 { u64::MAX } else { (1u64 << w) - 1 })
        } else {
            slot * rng.range(1, 4)
        }
    };
    match rng.below(24) {
        // a sub-register update of the stack pointer as the lifters emit it (add wsp, wsp, #16 / sub esp, 8 in long
        // mode): the upper half is cleared, the result is not "stack pointer plus a constant"
        21 => il::Operation::assign(sp.clone(), E::zext(w, E::add(E::trun(w / 2, spx()).unwrap(), il::expr_const(slot * rng.range(1, 4), w / 2)).unwrap()).unwrap()),
        22 => il::Operation::assign(sp.clone(), E::zext(w, E::trun(w / 2, spx()).unwrap()).unwrap()),
        // through a wider temporary and back: this IS stack pointer plus a constant (either answer is sound)
        23 => il::Operation::assign(sp.clone(), E::trun(w, E::add(E::zext(2 * w, spx()).unwrap(), il::expr_const(slot * rng.range(1, 4), 2 * w)).unwrap()).unwrap()),
        0 | 1 => il::Operation::assign(sp.clone(), E::sub(spx(), k(disp(rng))).unwrap()),
        2 | 3 => il::Operation::assign(sp.clone(), E::add(spx(), k(disp(rng))).unwrap()),
        4 => il::Operation::store(spx(), dw(E::Scalar(d), w)),
        5 => il::Operation::load(fp.clone(), spx()),
        6 => il::Operation::assign(fp.clone(), spx()),
        7 => il::Operation::assign(sp.clone(), E::Scalar(fp.clone())), // computed from another register
        8 => il::Operation::load(sp.clone(), E::add(spx(), k(slot)).unwrap()), // loaded
        9 => il::Operation::assign(sp.clone(), E::and(spx(), k(!0xfu64)).unwrap()), // alignment: depends on sp0
        10 => il::Operation::assign(sp.clone(), E::add(E::sub(spx(), k(16)).unwrap(), k(16)).unwrap()),
        11 => il::Operation::assign(sp.clone(), E::sub(spx(), dw(E::Scalar(d), w)).unwrap()), // alloca
        12 => il::Operation::assign(d.clone(), dw(spx(), d.bits())),
        // forms that are NOT "stack pointer plus/minus constants": a number must not be reported
        13 => il::Operation::assign(sp.clone(), E::sub(k(slot * rng.range(1, 64)), spx()).unwrap()), // c - sp
        14 => il::Operation::assign(sp.clone(), k(0x8000 + slot * rng.below(8))), // absolute
        15 => il::Operation::assign(sp.clone(), E::add(spx(), spx()).unwrap()), // sp + sp
        16 => il::Operation::assign(sp.clone(), E::add(k(0x4000), k(slot * rng.below(16))).unwrap()), // constant expression
        17 => il::Operation::assign(sp.clone(), E::add(E::sub(k(8), E::add(spx(), k(4)).unwrap()).unwrap(), k(12)).unwrap()),
        // additive forms with the constant on the left / nested
        18 => il::Operation::assign(sp.clone(), E::add(k(slot * rng.range(1, 4)), spx()).unwrap()),
        19 => il::Operation::assign(sp.clone(), E::sub(E::add(k(slot), E::sub(spx(), k(2 * slot)).unwrap()).unwrap(), k(slot)).unwrap()),
        _ => il::Operation::nop(),
    }
}

fn generate(rng: &mut Rng, archname: &str) -> (il::Function, Vec<il::Scalar>, il::Scalar) {
    let a = arch(archname);
    let sp = a.stack_pointer();
    let fp = il::scalar("fp", sp.bits());
    let scalars = vec![il::scalar("c0", 1), il::scalar("c1", 2), il::scalar("x", 8), il::scalar("y", 16), sp.clone(), fp.clone()];
    let data = vec![il::scalar("x", 8), il::scalar("y", 16)];
    let mut cfg = xplor::default_cfg(rng, &scalars);
    cfg.allow_intrinsic = rng.chance(1, 5);
    cfg.allow_branch = rng.chance(1, 5);
    cfg.allow_mem = false;
    cfg.no_entry_pred = rng.chance(4, 5);
    // general function, then sprinkle stack idioms into it
    let gen_scalars: Vec<il::Scalar> = vec![il::scalar("c0", 1), il::scalar("c1", 2), il::scalar("x", 8), il::scalar("y", 16)];
    cfg.scalars = gen_scalars;
    let mut f = fv::gen::function(rng, &cfg, 0x1000);
    let nb = f.blocks().len();
    for b in 0..nb {
        let n = rng.below(4);
        let blk = f.block_mut(b).unwrap();
        for _ in 0..n {
            match sp_op(rng, &sp, &fp, &data) {
                il::Operation::Assign { dst, src } => blk.assign(dst, src),
                il::Operation::Store { index, src } => blk.store(index, src),
                il::Operation::Load { dst, index } => blk.load(dst, index),
                _ => blk.nop(),
            }
        }
    }
    (f, scalars, sp)
}

fn analyse(x: &XProg, archname: &str) -> Value {
    let f = &x.function;
    let a = arch(archname);
    let sp = a.stack_pointer();
    let mut v = xplor::base_json(x);
    v["arch"] = json!(archname);
    v["sp"] = json!({"n": sp.name(), "w": sp.bits()});
    v["frozen"] = json!([sp.name()]);
    let entry = f.control_flow_graph().entry().unwrap();
    v["entry_has_pred"] = json!(!f.control_flow_graph().predecessor_indices(entry).unwrap().is_empty());
    match guard(|| stack_pointer_offsets(f, a.as_ref())) {
        fv::Outcome::Ok(map) => {
            let mut locs: Vec<&il::ProgramLocation> = map.keys().collect();
            locs.sort_by_key(|l| xplor::floc_key(l.function_location()));
            let mut claims = Vec::new();
            let mut tops = 0;
            for l in locs {
                match map[l].value() {
                    Some(k) => claims.push(json!({
                        "loc": xplor::floc(l.function_location()),
                        "off": {"w": 64, "v": proj::limbs(&BigUint::from(k as i64 as u64), 64)},
                        "off_text": format!("{}", k)})),
                    None => tops += 1,
                }
            }
            v["claims"] = Value::Array(claims);
            v["unknown_locations"] = json!(tops);
            v["outcome"] = json!({"k": "ok"});
        }
        fv::Outcome::Err(e) => { v["outcome"] = json!({"k": "err", "err": e}); v["claims"] = json!([]); }
        fv::Outcome::Panic(m) => { v["outcome"] = json!({"k": "panic", "msg": m}); v["claims"] = json!([]); }
        fv::Outcome::Timeout(_) => { v["outcome"] = json!({"k": "timeout"}); v["claims"] = json!([]); }
    }
    v
}

/// initial states: control scalars enumerated; sp0 in the window / 0 / near the top of the range
fn inits(rng: &mut Rng, scalars: &[il::Scalar], sp: &il::Scalar) -> Vec<Value> {
    let base = xplor::initial_states(rng, scalars, 0x2000, 1);
    let w = sp.bits();
    let top = if w >= 64 { u64::MAX - 7 } else { (1u64 << w) - 8 };
    let mut out = Vec::new();
    for (i, sp0) in [0x2010u64, 0, top].iter().enumerate() {
        for b in &base {
            if i > 0 && rng.chance(1, 2) { continue; }
            let mut b = b.clone();
            for s in b["sc"].as_array_mut().unwrap() {
                if s["n"] == sp.name() {
                    s["v"] = json!(proj::limbs(&BigUint::from(*sp0), w));
                }
                if s["n"] == "fp" {
                    s["v"] = json!(proj::limbs(&BigUint::from(0x2018u64), w));
                }
            }
            out.push(b);
        }
    }
    out
}

fn main() {
    fv::quiet_panics();
    let mode = fv::arg_str("mode", "random");
    let out = fv::arg_str("out", "/dev/stdout");
    let mut rng = Rng::new(fv::seed_from_env() ^ 0xC17);
    let mut progs = Vec::new();
    match mode.as_str() {
        "random" => {
            for i in 0..fv::arg_u64("n", 50) {
                let archname = ARCHS[(i % 7) as usize];
                let (function, scalars, sp) = generate(&mut rng, archname);
                let x = XProg {
                    function, scalars: scalars.clone(), big: rng.bool(), mem_base: 0x2000,
                    inits: inits(&mut rng, &scalars, &sp),
                    havocs: xplor::havocs(&mut rng, &scalars, 2),
                };
                progs.push(analyse(&x, archname));
            }
        }
        "lifted" => {
            // prologue/epilogue templates assembled by llvm-mc (corpus/c17/*.hex), lifted by the real translators
            let dir = fv::arg_str("corpus", "/verif/corpus/c17");
            // several directories may be given, separated by commas
            let mut files: Vec<(String, String)> = Vec::new();
            for d in dir.split(',') {
                files.extend(std::fs::read_dir(d).unwrap()
                    .filter_map(|e| e.ok().map(|e| e.file_name().to_string_lossy().to_string()))
                    .filter(|n| n.ends_with(".hex")).map(|n| (d.to_string(), n)));
            }
            files.sort();
            for (dir, name) in files {
                let archname = name.split('_').next().unwrap().to_string();
                let text = std::fs::read_to_string(format!("{}/{}", dir, name)).unwrap();
                let hex = text.trim();
                let bytes: Vec<u8> = (0..hex.len() / 2).map(|i| u8::from_str_radix(&hex[2 * i..2 * i + 2], 16).unwrap()).collect();
                let a = arch(&archname);
                let mut mem = falcon::memory::backing::Memory::new(a.endian());
                mem.set_memory(0x1000, bytes, falcon::memory::MemoryPermissions::READ | falcon::memory::MemoryPermissions::EXECUTE);
                let lifted = guard(|| a.translator().translate_function(&mem, 0x1000));
                let function = match lifted {
                    fv::Outcome::Ok(f) => f,
                    _ => { eprintln!("c17: could not lift {}", name); continue; }
                };
                // every scalar the lifted IL mentions
                let mut seen = std::collections::BTreeMap::new();
                for b in function.blocks() {
                    for i in b.instructions() {
                        for s in i.scalars().unwrap_or_default() { seen.insert(s.name().to_string(), s.bits()); }
                    }
                }
                for e in function.edges() {
                    if let Some(c) = e.condition() { for s in c.scalars() { seen.insert(s.name().to_string(), s.bits()); } }
                }
                let sp = a.stack_pointer();
                seen.insert(sp.name().to_string(), sp.bits());
                let scalars: Vec<il::Scalar> = seen.iter().map(|(n, w)| il::scalar(n.clone(), *w)).collect();
                // initial states: 3 sampled valuations (first all zero) x 3 entry stack pointers
                let w = sp.bits();
                let top = if w >= 64 { u64::MAX - 0xff } else { (1u64 << w) - 0x100 };
                let mut inits = Vec::new();
                for k in 0..3 {
                    for sp0 in [0x7000u64, 0x8, top] {
                        let vals: Vec<(il::Scalar, il::Constant)> = scalars.iter().map(|s| {
                            let c = if s.name() == sp.name() { il::Constant::new_big(BigUint::from(sp0), w) }
                                    else if k == 0 { il::const_(0, s.bits()) } else { fv::gen::constant(&mut rng, s.bits()) };
                            (s.clone(), c)
                        }).collect();
                        inits.push(json!({"sc": xplor::sc_json(&vals), "mem": []}));
                    }
                }
                let x = XProg {
                    function, scalars: scalars.clone(), big: matches!(a.endian(), falcon::architecture::Endian::Big), mem_base: 0x7000,
                    inits, havocs: xplor::havocs(&mut rng, &scalars, 2),
                };
                let mut v = analyse(&x, &archname);
                v["template"] = json!(name);
                progs.push(v);
            }
        }
        "replay" => {
            let v: Value = serde_json::from_str(&std::fs::read_to_string(fv::arg_str("in", "")).unwrap()).unwrap();
            for p in v["progs"].as_array().unwrap() {
                let scalars: Vec<il::Scalar> = p["names"].as_array().unwrap().iter()
                    .map(|s| il::scalar(s["n"].as_str().unwrap(), s["w"].as_u64().unwrap() as usize)).collect();
                let x = XProg {
                    function: build::function(&p["f"]), scalars, big: p["big"].as_bool().unwrap(), mem_base: 0x2000,
                    inits: p["inits"].as_array().unwrap().clone(), havocs: p["havocs"].as_array().unwrap().clone(),
                };
                progs.push(analyse(&x, p["arch"].as_str().unwrap()));
            }
        }
        _ => panic!("unknown mode"),
    }
    eprintln!("c17: {} programs", progs.len());
    xplor::write_progs(&out, progs);
}
