//! C07 recorder: random well-formed IL programs stepped with the real executor::Driver.
//! One session per (program, initial state); one event per Driver::step.
//!
//!   c07 --mode random --n N --steps K --out FILE      (VERIF_SEED)
//!   c07 --mode replay --in FILE --out FILE            (re-drive a recorded session's inputs)

use falcon::architecture::{Amd64, Architecture, Endian, Mips};
use falcon::executor::{Driver, Memory, State};
use falcon::il;
use falcon::RC;
use fv::gen::{self, GenCfg};
use fv::{build, guard, proj, Out, Rng};
use num_bigint::BigUint;
use serde_json::{json, Value};

fn loc_json(l: &il::ProgramLocation, program: &il::Program) -> Value {
    let f = l.apply(program).ok().and_then(|r| r.function().index()).map(|x| x as i64).unwrap_or(-1);
    match *l.function_location() {
        il::FunctionLocation::Instruction(b, i) => json!({"k": "ins", "f": f, "b": b, "i": i}),
        il::FunctionLocation::Edge(h, t) => json!({"k": "edge", "f": f, "h": h, "t": t}),
        il::FunctionLocation::EmptyBlock(b) => json!({"k": "empty", "f": f, "b": b}),
    }
}

fn loc_from_json(v: &Value) -> il::ProgramLocation {
    let f = Some(v["f"].as_u64().unwrap() as usize);
    let u = |k: &str| v[k].as_u64().unwrap() as usize;
    let fl = match v["k"].as_str().unwrap() {
        "ins" => il::FunctionLocation::Instruction(u("b"), u("i")),
        "edge" => il::FunctionLocation::Edge(u("h"), u("t")),
        _ => il::FunctionLocation::EmptyBlock(u("b")),
    };
    il::ProgramLocation::new(f, fl)
}

fn addr_limbs(a: u64) -> Value {
    json!(proj::limbs(&BigUint::from(a), 64))
}

fn scalars_json(state: &State, names: &[(String, usize)]) -> Value {
    let mut v = Vec::new();
    for (n, _) in names {
        if let Some(c) = state.get_scalar(n) {
            v.push(json!({"n": n, "w": c.bits(), "v": proj::limbs(c.value(), c.bits())}));
        }
    }
    Value::Array(v)
}

fn mem_json(state: &State, watch: &[u64]) -> Value {
    let mut v = Vec::new();
    for a in watch {
        let b = match guard(|| state.memory().load(*a, 8)) {
            fv::Outcome::Ok(Some(c)) => c.value_u64().map(|x| x as i64).unwrap_or(-2),
            fv::Outcome::Ok(None) => -1,
            _ => -3,
        };
        v.push(json!({"a": addr_limbs(*a), "b": b}));
    }
    Value::Array(v)
}

struct Session {
    prog: Vec<il::Function>,
    big: bool,
    sc: Vec<(String, il::Constant)>,
    mem: Vec<(u64, u8)>,
    loc: il::ProgramLocation,
    names: Vec<(String, usize)>,
    watch: Vec<u64>,
    /// executable bytes at the addresses unknown branch targets point to (the driver re-lifts there)
    code: Vec<(u64, u8)>,
}

fn run(out: &mut Out, s: &Session, steps: u64) {
    let mut program = il::Program::new();
    for f in &s.prog {
        program.add_function(f.clone());
    }
    let endian = if s.big { Endian::Big } else { Endian::Little };
    let mut memory = Memory::new(endian);
    for (a, b) in &s.mem {
        memory.store(*a, il::const_(*b as u64, 8)).unwrap();
    }
    for (a, b) in &s.code {
        memory.store(*a, il::const_(*b as u64, 8)).unwrap();
    }
    if let (Some(first), Some(last)) = (s.code.first(), s.code.last()) {
        memory.set_permissions(first.0, last.0 - first.0 + 1,
            falcon::memory::MemoryPermissions::READ | falcon::memory::MemoryPermissions::EXECUTE);
    }
    let mut state = State::new(memory);
    for (n, c) in &s.sc {
        state.set_scalar(n.clone(), c.clone());
    }
    let arch: RC<dyn Architecture> = if s.big { RC::new(Mips::new()) } else { RC::new(Amd64::new()) };
    let funcs: Vec<Value> = program.functions().iter().map(|f| proj::function(f)).collect();
    out.emit(&json!({
        "ev": "begin", "prog": funcs, "big": s.big,
        "sc": scalars_json(&state, &s.names),
        "mem": mem_json(&state, &s.watch),
        "loc": loc_json(&s.loc, &program),
        // inputs for replay
        "init_sc": s.sc.iter().map(|(n, c)| json!({"n": n, "val": proj::val(c)})).collect::<Vec<_>>(),
        "init_mem": s.mem.iter().map(|(a, b)| json!({"a": addr_limbs(*a), "b": b})).collect::<Vec<_>>(),
        "names": s.names.iter().map(|(n, w)| json!({"n": n, "w": w})).collect::<Vec<_>>(),
        "watch": s.watch.iter().map(|a| addr_limbs(*a)).collect::<Vec<_>>(),
        "code": s.code.iter().map(|(a, b)| json!({"a": addr_limbs(*a), "b": b})).collect::<Vec<_>>(),
        "steps": steps,
    }));
    let mut driver = Driver::new(RC::new(program), s.loc.clone(), state, arch);
    let mut last_mem = mem_json(driver.state(), &s.watch);
    for _ in 0..steps {
        let d2 = driver.clone();
        let r = guard(move || d2.step());
        match r {
            fv::Outcome::Ok(nd) => {
                let m = mem_json(nd.state(), &s.watch);
                let mut okv = json!({"loc": loc_json(nd.location(), nd.program()), "sc": scalars_json(nd.state(), &s.names)});
                if m != last_mem {
                    okv["mem"] = m.clone();
                    last_mem = m;
                }
                // a driver that re-lifted a function at an unknown branch target: log where it landed
                // (the address of the instruction it now sits on) and end the session
                if nd.program().functions().len() != s.prog.len() {
                    okv["relift"] = json!(1);
                    okv["at"] = proj::addr(nd.address());
                    okv["loc"] = json!({"k": "lifted"});
                    out.emit(&json!({"ev": "step", "res": {"ok": okv}}));
                    break;
                }
                out.emit(&json!({"ev": "step", "res": {"ok": okv}}));
                driver = nd;
            }
            other => {
                out.emit(&json!({"ev": "step", "res": other.json(|_| json!(0))}));
                break;
            }
        }
    }
}

fn random_session(rng: &mut Rng) -> Session {
    // scalar universe: two control scalars, data scalars of assorted widths
    let mut scalars = vec![il::scalar("c0", 1), il::scalar("c1", if rng.bool() { 2 } else { 3 })];
    let pool: [(&str, usize); 8] = [("d8", 8), ("e8", 8), ("d16", 16), ("d32", 32), ("d64", 64), ("d128", 128), ("d7", 7), ("d24", 24)];
    for (n, w) in pool.iter() {
        if rng.chance(1, 2) {
            scalars.push(il::scalar(*n, *w));
        }
    }
    let base = *rng.pick(&[0x2000u64, 0x3fc, 0xffff_fff0, 0x7fff_ffff_ffff_ff00]);
    let mut cfg = GenCfg::default_with(scalars.clone());
    cfg.mem_bases = vec![base];
    cfg.max_blocks = rng.range(1, 6) as usize;
    cfg.max_ins = rng.range(1, 4) as usize;
    cfg.allow_intrinsic = rng.chance(1, 8);
    cfg.allow_branch = rng.chance(1, 2);
    cfg.branch_pct = 6;
    cfg.unknown_target_pct = 35;
    cfg.partial_guards_pct = if rng.chance(1, 3) { 40 } else { 0 };
    cfg.expr_depth = rng.range(1, 3) as u32;
    // one program in four lives above 2^31 (a 32-bit branch target there has its top bit set)
    let fbase: u64 = if rng.chance(1, 4) { 0x8000_1000 } else { 0x1000 };
    let mut prog = vec![gen::function(rng, &cfg, fbase)];
    if rng.chance(1, 3) {
        prog.push(gen::function(rng, &cfg, 0x5000));
        // let the first function branch into the second now and then
    }
    // instruction indices need not be contiguous: remove an instruction here and there
    for f in prog.iter_mut() {
        let nb = f.blocks().len();
        for b in 0..nb {
            if rng.chance(1, 4) {
                let idxs: Vec<usize> = f.block(b).unwrap().instructions().iter().map(|i| i.index()).collect();
                if idxs.len() >= 2 {
                    let victim = idxs[rng.below((idxs.len() - 1) as u64) as usize];
                    f.block_mut(b).unwrap().remove_instruction(victim).unwrap();
                }
            }
        }
    }
    let big = rng.bool();
    let mut sc = Vec::new();
    for s in &scalars {
        if rng.chance(23, 25) {
            sc.push((s.name().to_string(), gen::constant(rng, s.bits())));
        }
    }
    let watch: Vec<u64> = (0..52u64).map(|i| base.wrapping_sub(2).wrapping_add(i)).collect();
    let mut mem = Vec::new();
    let hole = rng.chance(1, 4);
    for a in &watch {
        if !hole || rng.chance(9, 10) {
            mem.push((*a, rng.below(256) as u8));
        }
    }
    let names = scalars.iter().map(|s| (s.name().to_string(), s.bits())).collect();
    // half of the sessions have executable code where unknown branch targets point
    let mut code = Vec::new();
    if rng.bool() {
        let bytes: Vec<u8> = if big {
            // mips: nop x6 ; jr $ra ; nop
            let mut v = vec![0u8; 24];
            v.extend([0x03, 0xe0, 0x00, 0x08, 0, 0, 0, 0]);
            v
        } else {
            // amd64: nop x31 ; ret
            let mut v = vec![0x90u8; 31];
            v.push(0xc3);
            v
        };
        for (i, b) in bytes.iter().enumerate() {
            code.push((0xdead_0000u64 + i as u64, *b));
        }
    }
    let f0 = &prog[0];
    let entry = f0.control_flow_graph().entry().unwrap();
    let blk = f0.block(entry).unwrap();
    let fl = match blk.instructions().first() {
        Some(i) => il::FunctionLocation::Instruction(entry, i.index()),
        None => il::FunctionLocation::EmptyBlock(entry),
    };
    Session { prog, big, sc, mem, loc: il::ProgramLocation::new(Some(0), fl), names, watch, code }
}

fn session_from_begin(v: &Value) -> (Session, u64) {
    let prog: Vec<il::Function> = v["prog"].as_array().unwrap().iter().map(build::function).collect();
    let sc = v["init_sc"].as_array().unwrap().iter()
        .map(|x| (x["n"].as_str().unwrap().to_string(), build::constant(&x["val"]))).collect();
    let mem = v["init_mem"].as_array().unwrap().iter()
        .map(|x| (build::big_from_limbs(&x["a"]).iter_u64_digits().next().unwrap_or(0), x["b"].as_u64().unwrap() as u8)).collect();
    let names = v["names"].as_array().unwrap().iter()
        .map(|x| (x["n"].as_str().unwrap().to_string(), x["w"].as_u64().unwrap() as usize)).collect();
    let watch = v["watch"].as_array().unwrap().iter()
        .map(|x| build::big_from_limbs(x).iter_u64_digits().next().unwrap_or(0)).collect();
    let code = v["code"].as_array().map(|l| l.iter()
        .map(|x| (build::big_from_limbs(&x["a"]).iter_u64_digits().next().unwrap_or(0), x["b"].as_u64().unwrap() as u8)).collect()).unwrap_or_default();
    (Session { prog, big: v["big"].as_bool().unwrap(), sc, mem, loc: loc_from_json(&v["loc"]), names, watch, code },
     v["steps"].as_u64().unwrap_or(100))
}

fn main() {
    fv::quiet_panics();
    let mode = fv::arg_str("mode", "random");
    let mut out = Out::create(&fv::arg_str("out", "/dev/stdout"));
    let mut rng = Rng::new(fv::seed_from_env() ^ 0xC07);
    match mode.as_str() {
        "random" => {
            let n = fv::arg_u64("n", 100);
            let steps = fv::arg_u64("steps", 120);
            for _ in 0..n {
                let s = random_session(&mut rng);
                run(&mut out, &s, steps);
            }
        }
        "replay" => {
            let text = std::fs::read_to_string(fv::arg_str("in", "")).expect("read");
            for line in text.lines() {
                if line.trim().is_empty() { continue; }
                let v: Value = serde_json::from_str(line).unwrap();
                if v["ev"] == "begin" {
                    let (s, steps) = session_from_begin(&v);
                    run(&mut out, &s, steps);
                }
            }
        }
        _ => panic!("unknown mode"),
    }
    eprintln!("c07: {} events", out.finish());
}
