//! C14 exporter: dead_code_elimination on generated functions; exports input and output.
//!
//!   c14 --mode random --n N --out FILE     (VERIF_SEED)
//!   c14 --mode replay --in FILE --out FILE

use falcon::analysis::dead_code_elimination;
use falcon::il;
use fv::xplor::{self, XProg};
use fv::{build, guard, proj, Rng};
use serde_json::{json, Value};

fn analyse(x: &XProg) -> Value {
    let f = &x.function;
    let mut v = xplor::base_json(x);
    match guard(|| dead_code_elimination(f)) {
        fv::Outcome::Ok(s) => {
            v["s"] = proj::function(&s);
            v["outcome"] = json!({"k": "ok"});
        }
        fv::Outcome::Err(e) => v["outcome"] = json!({"k": "err", "err": e}),
        fv::Outcome::Panic(m) => v["outcome"] = json!({"k": "panic", "msg": m}),
        fv::Outcome::Timeout(_) => v["outcome"] = json!({"k": "timeout"}),
    }
    v
}

fn main() {
    fv::quiet_panics();
    let mode = fv::arg_str("mode", "random");
    let out = fv::arg_str("out", "/dev/stdout");
    let mut rng = Rng::new(fv::seed_from_env() ^ 0xC14);
    let mut progs = Vec::new();
    match mode.as_str() {
        "random" => {
            for _ in 0..fv::arg_u64("n", 50) {
                let scalars = xplor::universe(&mut rng);
                let mut cfg = xplor::default_cfg(&mut rng, &scalars);
                cfg.unreachable_blocks = rng.chance(1, 5);
                cfg.allow_mem = rng.chance(3, 4);
                // intrinsics and indirect branches are the observation points of the property: make them frequent
                cfg.allow_intrinsic = rng.chance(2, 3);
                cfg.intrinsic_pct = 15;
                cfg.allow_branch = rng.chance(1, 2);
                cfg.branch_pct = 10;
                cfg.terminal_pct = 35;
                let function = fv::gen::any_function(&mut rng, &cfg, 0x1000);
                let x = XProg {
                    function, scalars: scalars.clone(), big: rng.bool(), mem_base: 0x2000,
                    inits: xplor::initial_states(&mut rng, &scalars, 0x2000, 2),
                    havocs: xplor::havocs(&mut rng, &scalars, 2),
                };
                progs.push(analyse(&x));
            }
        }
        "lifted" => {
            // functions lifted from the llvm-mc assembled templates of corpus/c17
            for (x, archname, template) in xplor::lifted(&mut rng, &fv::arg_str("corpus", "/verif/corpus/c17")) {
                let mut v = analyse(&x);
                v["arch"] = json!(archname);
                v["template"] = json!(template);
                progs.push(v);
            }
        }
        "replay" => {
            let v: Value = serde_json::from_str(&std::fs::read_to_string(fv::arg_str("in", "")).unwrap()).unwrap();
            for p in v["progs"].as_array().unwrap() {
                let scalars: Vec<il::Scalar> = p["names"].as_array().unwrap().iter()
                    .map(|s| il::scalar(s["n"].as_str().unwrap(), s["w"].as_u64().unwrap() as usize)).collect();
                let x = XProg {
                    function: build::function(&p["f"]), scalars, big: p["big"].as_bool().unwrap(), mem_base: 0x2000,
                    inits: p["inits"].as_array().unwrap().clone(), havocs: p["havocs"].as_array().unwrap().clone(),
                };
                progs.push(analyse(&x));
            }
        }
        _ => panic!("unknown mode"),
    }
    eprintln!("c14: {} programs", progs.len());
    xplor::write_progs(&out, progs);
}
