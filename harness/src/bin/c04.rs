//! C04 recorder: drives il::Constant, il::Expression constructors, executor::eval and the
//! derived builders, and logs one event per call.  Trace_C04.tla recomputes every result.
//!
//!   c04 --mode exhaustive --maxw 4 --out FILE
//!   c04 --mode wide|trees|derived --n N --out FILE        (VERIF_SEED)
//!   c04 --mode replay --in FILE --out FILE                 (re-drive recorded inputs)

use falcon::executor::eval;
use falcon::il::{self, Constant, Expression};
use fv::{build, guard, proj, Out, Rng};
use num_bigint::BigUint;
use serde_json::{json, Value};

const WIDE_WIDTHS: [usize; 17] = [1, 2, 7, 8, 9, 16, 31, 32, 33, 63, 64, 65, 100, 127, 128, 129, 256];

fn const_op(op: &str, a: &Constant, b: &Constant) -> Result<Constant, falcon::Error> {
    match op {
        "add" => a.add(b),
        "sub" => a.sub(b),
        "mul" => a.mul(b),
        "divu" => a.divu(b),
        "modu" => a.modu(b),
        "divs" => a.divs(b),
        "mods" => a.mods(b),
        "and" => a.and(b),
        "or" => a.or(b),
        "xor" => a.xor(b),
        "shl" => a.shl(b),
        "shr" => a.shr(b),
        "ashr" => a.ashr(b),
        "cmpeq" => a.cmpeq(b),
        "cmpneq" => a.cmpneq(b),
        "cmplts" => a.cmplts(b),
        "cmpltu" => a.cmpltu(b),
        _ => unreachable!(),
    }
}

fn const_ext(op: &str, a: &Constant, bits: usize) -> Result<Constant, falcon::Error> {
    match op {
        "zext" => a.zext(bits),
        "sext" => a.sext(bits),
        "trun" => a.trun(bits),
        _ => unreachable!(),
    }
}

fn ctor_bin(op: &str, a: Expression, b: Expression) -> Result<Expression, falcon::Error> {
    match op {
        "add" => Expression::add(a, b),
        "sub" => Expression::sub(a, b),
        "mul" => Expression::mul(a, b),
        "divu" => Expression::divu(a, b),
        "modu" => Expression::modu(a, b),
        "divs" => Expression::divs(a, b),
        "mods" => Expression::mods(a, b),
        "and" => Expression::and(a, b),
        "or" => Expression::or(a, b),
        "xor" => Expression::xor(a, b),
        "shl" => Expression::shl(a, b),
        "shr" => Expression::shr(a, b),
        "ashr" => Expression::ashr(a, b),
        "cmpeq" => Expression::cmpeq(a, b),
        "cmpneq" => Expression::cmpneq(a, b),
        "cmplts" => Expression::cmplts(a, b),
        "cmpltu" => Expression::cmpltu(a, b),
        _ => unreachable!(),
    }
}

fn ctor_ext(op: &str, bits: usize, a: Expression) -> Result<Expression, falcon::Error> {
    match op {
        "zext" => Expression::zext(bits, a),
        "sext" => Expression::sext(bits, a),
        "trun" => Expression::trun(bits, a),
        _ => unreachable!(),
    }
}

// ---- event producers: each takes the *inputs* as JSON-representable values, calls falcon, logs ----

fn ev_constop(out: &mut Out, op: &str, a: &Constant, b: &Constant) {
    let r = guard(|| const_op(op, a, b));
    out.emit(&json!({"ev": "constop", "op": op, "a": proj::val(a), "b": proj::val(b), "res": r.json(proj::val)}));
}

fn ev_constext(out: &mut Out, op: &str, a: &Constant, bits: usize) {
    let r = guard(|| const_ext(op, a, bits));
    out.emit(&json!({"ev": "constext", "op": op, "a": proj::val(a), "bits": bits, "res": r.json(proj::val)}));
}

fn ev_construct_bin(out: &mut Out, op: &str, a: &Expression, b: &Expression) {
    let r = guard(|| ctor_bin(op, a.clone(), b.clone()));
    out.emit(&json!({"ev": "construct", "ctor": op, "a": proj::expr(a), "b": proj::expr(b), "res": r.json(proj::expr)}));
}

fn ev_construct_ext(out: &mut Out, op: &str, bits: usize, a: &Expression) {
    let r = guard(|| ctor_ext(op, bits, a.clone()));
    out.emit(&json!({"ev": "construct", "ctor": op, "bits": bits, "a": proj::expr(a), "res": r.json(proj::expr)}));
}

fn ev_construct_ite(out: &mut Out, c: &Expression, a: &Expression, b: &Expression) {
    let r = guard(|| Expression::ite(c.clone(), a.clone(), b.clone()));
    out.emit(&json!({"ev": "construct", "ctor": "ite", "c": proj::expr(c), "a": proj::expr(a), "b": proj::expr(b),
                     "res": r.json(proj::expr)}));
}

fn ev_eval(out: &mut Out, e: &Expression) {
    let r = guard(|| eval(e));
    out.emit(&json!({"ev": "eval", "e": proj::expr(e), "res": r.json(proj::val)}));
}

/// derived builders sra / rotl on constant operands: log what was built and what it evaluates to
fn ev_derived(out: &mut Out, f: &str, a: &Constant, s: &Constant) {
    let built = guard(|| match f {
        "sra" => Expression::sra(a.clone().into(), s.clone().into()),
        "rotl" => Expression::rotl(a.clone().into(), s.clone().into()),
        _ => unreachable!(),
    });
    let res = match &built {
        fv::Outcome::Ok(e) => guard(|| eval(e)).json(proj::val),
        _ => json!({"skipped": 1}),
    };
    out.emit(&json!({"ev": "derived", "f": f, "a": proj::val(a), "s": proj::val(s),
                     "built": built.json(proj::expr), "res": res}));
}

/// replace_scalar: substitute constants for every scalar of e (in the order given), then evaluate
fn ev_subst(out: &mut Out, e: &Expression, env: &[(il::Scalar, Constant)]) {
    let mut cur: fv::Outcome<Expression> = fv::Outcome::Ok(e.clone());
    for (s, c) in env {
        cur = match cur {
            fv::Outcome::Ok(x) => guard(|| x.replace_scalar(s, &c.clone().into())),
            other => other,
        };
    }
    let res = match &cur {
        fv::Outcome::Ok(x) => guard(|| eval(x)).json(proj::val),
        _ => json!({"skipped": 1}),
    };
    let envj: Vec<Value> = env.iter().map(|(s, c)| json!({"n": s.name(), "w": s.bits(), "val": proj::val(c)})).collect();
    out.emit(&json!({"ev": "subst", "e": proj::expr(e), "env": envj, "built": cur.json(proj::expr), "res": res}));
}

// ---- generators ----

fn all_values(w: usize) -> Vec<Constant> {
    (0..(1u64 << w)).map(|v| Constant::new(v, w)).collect()
}

fn exhaustive(out: &mut Out, maxw: usize) {
    for w in 1..=maxw {
        let vals = all_values(w);
        for op in fv::gen::BIN_KINDS.iter() {
            for a in &vals {
                for b in &vals {
                    ev_constop(out, op, a, b);
                }
            }
        }
        for a in &vals {
            for bits in 1..=(maxw + 10) {
                for op in ["zext", "sext", "trun"] {
                    ev_constext(out, op, a, bits);
                }
            }
        }
    }
    // width mismatch must be Sort for every operator
    for op in fv::gen::BIN_KINDS.iter() {
        for (wa, wb) in [(1usize, 2usize), (8, 7), (64, 65), (32, 64), (128, 64)] {
            ev_constop(out, op, &Constant::new(1, wa), &Constant::new(1, wb));
        }
    }
}

/// every operator x every wide width x all pairs of boundary operands (0, 1, 2, all ones,
/// min signed, max signed, min signed + 1, width, width - 1, width + 1)
fn boundary(out: &mut Out, skip_wide_div: bool) {
    for &w in WIDE_WIDTHS.iter() {
        let one = BigUint::from(1u32);
        let all = (one.clone() << w) - one.clone();
        let msb = one.clone() << (w - 1);
        let mut vals: Vec<BigUint> = vec![
            BigUint::from(0u32), one.clone(), BigUint::from(2u32) & all.clone(), all.clone(), msb.clone(),
            msb.clone() - one.clone(), (msb.clone() + one.clone()) & all.clone(),
            BigUint::from(w as u64) & all.clone(), BigUint::from((w - 1) as u64) & all.clone(),
            BigUint::from((w + 1) as u64) & all.clone(),
        ];
        vals.sort();
        vals.dedup();
        for op in fv::gen::BIN_KINDS.iter() {
            if skip_wide_div && w > 129 && ["divu", "modu", "divs", "mods"].contains(op) {
                continue;
            }
            for a in &vals {
                for b in &vals {
                    ev_constop(out, op, &Constant::new_big(a.clone(), w), &Constant::new_big(b.clone(), w));
                    // the same pair through the evaluator (executor::eval has its own code per operator)
                    if [1usize, 8, 32, 63, 64, 65, 128].contains(&w) {
                        let ea: Expression = Constant::new_big(a.clone(), w).into();
                        let eb: Expression = Constant::new_big(b.clone(), w).into();
                        if let Ok(e) = ctor_bin(op, ea, eb) {
                            ev_eval(out, &e);
                        }
                    }
                }
            }
        }
        for a in &vals {
            for bits in [1usize, w - 1, w, w + 1, w + 7, w + 8, 2 * w, 2 * w + 1] {
                if bits >= 1 {
                    for op in ["zext", "sext", "trun"] {
                        ev_constext(out, op, &Constant::new_big(a.clone(), w), bits);
                    }
                }
            }
        }
    }
}

fn amount(rng: &mut Rng, w: usize) -> Constant {
    // shift amounts around the width, and far beyond it (including beyond a machine word)
    let one = BigUint::from(1u32);
    let all = (one.clone() << w) - one.clone();
    let v = match rng.below(10) {
        0 => BigUint::from(0u32),
        1 => BigUint::from(1u32),
        2 => BigUint::from((w - 1) as u64),
        3 => BigUint::from(w as u64),
        4 => BigUint::from((w + 1) as u64),
        5 => all.clone(),
        6 => one << (rng.below(w as u64) as usize),
        7 => BigUint::from(rng.below(2 * w as u64 + 2)),
        _ => rng.big(w),
    };
    Constant::new_big(v & all, w)
}

fn wide(out: &mut Out, rng: &mut Rng, n: u64) {
    for _ in 0..n {
        let w = *rng.pick(&WIDE_WIDTHS);
        let op = *rng.pick(&fv::gen::BIN_KINDS);
        let a = fv::gen::constant(rng, w);
        let b = if ["shl", "shr", "ashr"].contains(&op) { amount(rng, w) } else { fv::gen::constant(rng, w) };
        ev_constop(out, op, &a, &b);
        if rng.chance(1, 4) {
            let op = *rng.pick(&["zext", "sext", "trun"]);
            let bits = match rng.below(4) {
                0 => *rng.pick(&WIDE_WIDTHS),
                1 => w + rng.range(1, 70) as usize,
                2 => (w as u64).saturating_sub(rng.range(0, 9)).max(1) as usize,
                _ => rng.range(1, 260) as usize,
            };
            ev_constext(out, op, &a, bits);
        }
    }
}

/// random expression tree of the requested width; with small probability a child has a wrong
/// width (built through the enum variants, so construction cannot refuse)
fn tree(rng: &mut Rng, w: usize, depth: u32, sloppy: bool) -> Expression {
    use Expression as E;
    let mut child_w = |rng: &mut Rng, w: usize| -> usize {
        if sloppy && rng.chance(1, 25) { *rng.pick(&WIDE_WIDTHS) } else { w }
    };
    if depth == 0 || rng.chance(1, 5) {
        return E::Constant(fv::gen::constant(rng, w));
    }
    let d = depth - 1;
    match rng.below(24) {
        0..=12 => {
            let ops = ["add", "sub", "mul", "divu", "modu", "divs", "mods", "and", "or", "xor", "shl", "shr", "ashr"];
            let op = *rng.pick(&ops);
            let wa = child_w(rng, w);
            let a = tree(rng, wa, d, sloppy);
            let wb = child_w(rng, w);
            let b = if ["shl", "shr", "ashr"].contains(&op) && rng.chance(2, 3) {
                E::Constant(amount(rng, wb))
            } else {
                tree(rng, wb, d, sloppy)
            };
            build::expr(&json!({"k": op, "a": proj::expr(&a), "b": proj::expr(&b)}))
        }
        13..=16 if w == 1 => {
            let op = *rng.pick(&["cmpeq", "cmpneq", "cmplts", "cmpltu"]);
            let cw = *rng.pick(&WIDE_WIDTHS);
            let wa = child_w(rng, cw);
            let a = tree(rng, wa, d, sloppy);
            let wb = child_w(rng, cw);
            let b = tree(rng, wb, d, sloppy);
            build::expr(&json!({"k": op, "a": proj::expr(&a), "b": proj::expr(&b)}))
        }
        17 | 18 if w > 1 => {
            let from = rng.range(1, (w - 1) as u64) as usize;
            let from = if sloppy && rng.chance(1, 25) { w + rng.below(3) as usize } else { from };
            let a = tree(rng, from, d, sloppy);
            if rng.bool() { E::Zext(w, Box::new(a)) } else { E::Sext(w, Box::new(a)) }
        }
        19 | 20 => {
            let from = w + rng.range(1, 40) as usize;
            let from = if sloppy && rng.chance(1, 25) { w } else { from };
            E::Trun(w, Box::new(tree(rng, from, d, sloppy)))
        }
        21 | 22 => {
            let cw = if sloppy && rng.chance(1, 25) { 2 } else { 1 };
            let c = tree(rng, cw, d, sloppy);
            let wa = child_w(rng, w);
            let a = tree(rng, wa, d, sloppy);
            let wb = child_w(rng, w);
            let b = tree(rng, wb, d, sloppy);
            E::Ite(Box::new(c), Box::new(a), Box::new(b))
        }
        _ => E::Constant(fv::gen::constant(rng, w)),
    }
}

fn trees(out: &mut Out, rng: &mut Rng, n: u64) {
    for i in 0..n {
        let w = *rng.pick(&WIDE_WIDTHS);
        let depth = rng.range(1, 5) as u32;
        let sloppy = i % 3 == 0;
        let e = tree(rng, w, depth, sloppy);
        ev_eval(out, &e);
        // constructor checks on the top-level pieces: every public constructor, operands of
        // equal and of different widths
        if i % 4 == 0 {
            let wa = *rng.pick(&WIDE_WIDTHS);
            let wb = if rng.bool() { wa } else { *rng.pick(&WIDE_WIDTHS) };
            let a = tree(rng, wa, 1, false);
            let b = tree(rng, wb, 1, false);
            let op = *rng.pick(&fv::gen::BIN_KINDS);
            ev_construct_bin(out, op, &a, &b);
            let bits = match rng.below(3) { 0 => wa, 1 => wa + rng.range(1, 9) as usize, _ => rng.range(1, 140) as usize };
            ev_construct_ext(out, *rng.pick(&["zext", "sext", "trun"]), bits, &a);
            let cw = if rng.chance(3, 4) { 1 } else { *rng.pick(&WIDE_WIDTHS) };
            let c = tree(rng, cw, 1, false);
            ev_construct_ite(out, &c, &a, &b);
        }
    }
}

fn derived(out: &mut Out, rng: &mut Rng, n: u64) {
    for _ in 0..n {
        let w = *rng.pick(&WIDE_WIDTHS);
        let a = fv::gen::constant(rng, w);
        // sra: every amount, including beyond the width
        let s = amount(rng, w);
        ev_derived(out, "sra", &a, &s);
        // rotl: amounts 0..w only (larger amounts are not specified)
        let k = rng.below(w as u64 + 1);
        let all = (BigUint::from(1u32) << w) - BigUint::from(1u32);
        let s = Constant::new_big(BigUint::from(k) & all.clone(), w);
        if BigUint::from(k) <= all {
            ev_derived(out, "rotl", &a, &s);
        }
        // mismatched widths must be refused
        if rng.chance(1, 10) {
            ev_derived(out, "sra", &a, &Constant::new(1, w + 1));
        }
        // substitution commutes with evaluation
        let x = il::scalar("x", w);
        let y = il::scalar("y", w);
        let mut e = tree(rng, w, 3, false);
        // graft scalars into the tree by replacing some constants
        e = graft(rng, &e, &x, &y);
        let env = vec![(x, fv::gen::constant(rng, w)), (y, fv::gen::constant(rng, w))];
        ev_subst(out, &e, &env);
    }
}

fn graft(rng: &mut Rng, e: &Expression, x: &il::Scalar, y: &il::Scalar) -> Expression {
    let mut v = proj::expr(e);
    fn walk(rng: &mut Rng, v: &mut Value, x: &il::Scalar, y: &il::Scalar) {
        if v["k"] == "const" {
            let w = v["w"].as_u64().unwrap() as usize;
            if w == x.bits() && rng.chance(1, 2) {
                *v = proj::scalar(if rng.bool() { x } else { y });
            }
            return;
        }
        for key in ["a", "b", "c"] {
            if v.get(key).is_some() {
                let mut child = v[key].take();
                walk(rng, &mut child, x, y);
                v[key] = child;
            }
        }
    }
    walk(rng, &mut v, x, y);
    build::expr(&v)
}

/// re-drive recorded inputs (replay of a violation, or of any recorded trace)
fn replay(out: &mut Out, path: &str) {
    let text = std::fs::read_to_string(path).expect("read replay input");
    for line in text.lines() {
        let line = line.trim();
        if line.is_empty() { continue; }
        let v: Value = serde_json::from_str(line).expect("json");
        let v = if v.get("event").is_some() { v["event"].clone() } else { v };
        match v["ev"].as_str().unwrap_or("") {
            "constop" => ev_constop(out, v["op"].as_str().unwrap(), &build::constant(&v["a"]), &build::constant(&v["b"])),
            "constext" => ev_constext(out, v["op"].as_str().unwrap(), &build::constant(&v["a"]), v["bits"].as_u64().unwrap() as usize),
            "construct" => {
                let c = v["ctor"].as_str().unwrap();
                if c == "ite" {
                    ev_construct_ite(out, &build::expr(&v["c"]), &build::expr(&v["a"]), &build::expr(&v["b"]));
                } else if v.get("bits").is_some() {
                    ev_construct_ext(out, c, v["bits"].as_u64().unwrap() as usize, &build::expr(&v["a"]));
                } else {
                    ev_construct_bin(out, c, &build::expr(&v["a"]), &build::expr(&v["b"]));
                }
            }
            "eval" => ev_eval(out, &build::expr(&v["e"])),
            "derived" => ev_derived(out, v["f"].as_str().unwrap(), &build::constant(&v["a"]), &build::constant(&v["s"])),
            "subst" => {
                let env: Vec<(il::Scalar, Constant)> = v["env"].as_array().unwrap().iter()
                    .map(|x| (il::scalar(x["n"].as_str().unwrap(), x["w"].as_u64().unwrap() as usize), build::constant(&x["val"])))
                    .collect();
                ev_subst(out, &build::expr(&v["e"]), &env);
            }
            _ => {}
        }
    }
}

fn main() {
    fv::quiet_panics();
    let mode = fv::arg_str("mode", "exhaustive");
    let mut out = Out::create(&fv::arg_str("out", "/dev/stdout"));
    let mut rng = Rng::new(fv::seed_from_env() ^ 0xC04);
    let n = fv::arg_u64("n", 1000);
    match mode.as_str() {
        "exhaustive" => exhaustive(&mut out, fv::arg_u64("maxw", 4) as usize),
        "wide" => wide(&mut out, &mut rng, n),
        "boundary" => boundary(&mut out, fv::arg_u64("skipwidediv", 1) == 1),
        "trees" => trees(&mut out, &mut rng, n),
        "derived" => derived(&mut out, &mut rng, n),
        "replay" => replay(&mut out, &fv::arg_str("in", "")),
        _ => panic!("unknown mode"),
    }
    let lines = out.finish();
    eprintln!("c04: {} events", lines);
}
