//! C19 recorder: ELF loading.
//!
//! Generates *image descriptions* (class, data encoding, machine, entry, program headers with
//! their file bytes, .symtab/.dynsym, PLT relocations), serialises each into a real ELF file with
//! the small writer below, loads the file with `falcon::loader::Elf::new` at several base
//! addresses and logs what the loader reports.  Trace_C19.tla decides, from the description
//! alone, whether every observation is `Load(desc, base)` (spec/Elf.tla).  Nothing here computes
//! an expected value.
//!
//!   c19 --mode random --n N --out F          random descriptions (VERIF_SEED)
//!   c19 --mode enum --maxsz K --out F        all two-segment layouts with memsz <= K
//!   c19 --mode files --list L --out F        real files; descriptions come from readelf (L is
//!                                            written by checks/c19.py)
//!   c19 --mode link --n N --dir D --out F    two-object sets (i386, mips, mipsel) through ElfLinker
//!   c19 --mode dump --n N --dir D --out F    write generated files + descriptions for the
//!                                            writer check against readelf
//!   c19 --mode replay --in R --dir D --out F re-drive the session stored in a replay file
//!
//! Event shapes (one session per image; addresses are 64-bit values as 8 byte limbs):
//!   {"ev":"begin","id","src","desc":{..},"file":hex | "path":p}
//!   {"ev":"load","base":A,"users":[A..]}      Elf::new(bytes, base) + add_user_function(u)*
//!   {"ev":"new","res":{"ok":1}|{"err":..}|{"panic":..}}
//!   {"ev":"arch","name":..,"endian":"little"|"big"}
//!   {"ev":"memory","res":{"ok":{"sections":[{"addr":A,"perm":[r,w,x],"data":[..]}]}},
//!        "probes":[{"addr":A,"byte":n|-1,"perm":[r,w,x]|[]}],"w32":[{"addr":A,"val":[4 limbs]|[]}]}
//!   {"ev":"entries","res":{"ok":[{"addr":A,"name":s}]}}      name "" when absent
//!   {"ev":"symbols","res":{"ok":[{"n":s,"a":A}]}}
//!   {"ev":"pentry","res":{"ok":A}}
//! linked sets:
//!   {"ev":"begin","id","src":"link","objs":[{"name","desc","file"}],"relocs":[{"obj","off":A,"sym"}],
//!        "free":[{"obj","off":A,"len"}]}
//!   {"ev":"link","res":{"ok":{"bases":[A per obj],"loaded":[names]}}}
//!   {"ev":"lmemory"|"lentries"|"lsymbols"|"lpentry", ...}     same payloads as above

use falcon::il;
use falcon::loader::{Elf, ElfLinker, Json, Loader, Pe};
use falcon::translator::Options;
use falcon::memory::backing::Memory;
use falcon::memory::MemoryPermissions;
use fv::{arg_str, arg_u64, guard, guard_plain, Out, Rng};
use num_bigint::BigUint;
use serde_json::{json, Value};

// ------------------------------------------------------------------------------------------
// descriptions
// ------------------------------------------------------------------------------------------
const EM_386: u16 = 3;
const EM_MIPS: u16 = 8;
const EM_PPC: u16 = 20;
const EM_X86_64: u16 = 62;
const EM_AARCH64: u16 = 183;

const PT_LOAD: u32 = 1;
const PT_DYNAMIC: u32 = 2;
const PT_NOTE: u32 = 4;
const PT_GNU_RELRO: u32 = 0x6474_e552;
const PT_TLS: u32 = 7;
const PT_GNU_STACK: u32 = 0x6474_e551;

const SHN_ABS: u16 = 0xfff1;

#[derive(Clone, Copy, Debug)]
struct Combo {
    machine: u16,
    is64: bool,
    le: bool,
}

const COMBOS: [Combo; 7] = [
    Combo { machine: EM_386, is64: false, le: true },
    Combo { machine: EM_X86_64, is64: true, le: true },
    Combo { machine: EM_MIPS, is64: false, le: false },
    Combo { machine: EM_MIPS, is64: false, le: true },
    Combo { machine: EM_PPC, is64: false, le: false },
    Combo { machine: EM_AARCH64, is64: true, le: true },
    Combo { machine: EM_AARCH64, is64: true, le: false },
];

#[derive(Clone, Debug)]
struct Seg {
    ptype: u32,
    vaddr: u64,
    filesz: u64,
    memsz: u64,
    flags: u32,
    content: Vec<u8>, // filesz bytes the generator wants in the file
    off: u64,         // file offset (assigned by the layout, or forced when `fixed_off`)
    fixed_off: bool,
}

#[derive(Clone, Debug)]
struct Sym {
    name: String,
    value: u64,
    typ: u8,
    bind: u8,
    shndx: u16,
}

#[derive(Clone, Debug)]
struct Rel {
    off: u64,
    sym: u32,
    typ: u32,
}

#[derive(Clone, Debug)]
struct MipsGot {
    local_gotno: u32,
    gotsym: u32, // first dynsym index with a GOT entry; entries follow dynsym order up to the end
}

#[derive(Clone, Debug)]
struct Image {
    combo: Combo,
    etype: u16,
    entry: u64,
    segs: Vec<Seg>,      // program headers in file order (the dynamic segment is appended by the writer)
    symtab: Vec<Sym>,    // without the null symbol
    dynsym: Vec<Sym>,    // without the null symbol
    pltrel: Vec<Rel>,
    dynrel: Vec<Rel>,
    needed: Vec<String>,
    dynamic: bool,
    dyn_vaddr: u64,
    mips_got: Option<MipsGot>,
    nsect: u16, // number of generic sections symbols may refer to
}

// ------------------------------------------------------------------------------------------
// the ELF writer
// ------------------------------------------------------------------------------------------
struct Wr {
    le: bool,
    is64: bool,
    b: Vec<u8>,
}

impl Wr {
    fn new(c: Combo) -> Wr {
        Wr { le: c.le, is64: c.is64, b: Vec::new() }
    }
    fn u8(&mut self, v: u8) {
        self.b.push(v);
    }
    fn u16(&mut self, v: u16) {
        if self.le { self.b.extend_from_slice(&v.to_le_bytes()) } else { self.b.extend_from_slice(&v.to_be_bytes()) }
    }
    fn u32(&mut self, v: u32) {
        if self.le { self.b.extend_from_slice(&v.to_le_bytes()) } else { self.b.extend_from_slice(&v.to_be_bytes()) }
    }
    fn u64(&mut self, v: u64) {
        if self.le { self.b.extend_from_slice(&v.to_le_bytes()) } else { self.b.extend_from_slice(&v.to_be_bytes()) }
    }
    /// an Elf32_Addr/Off/Word or Elf64_Addr/Off/Xword
    fn word(&mut self, v: u64) {
        if self.is64 { self.u64(v) } else { self.u32(v as u32) }
    }
    fn bytes(&mut self, v: &[u8]) {
        self.b.extend_from_slice(v);
    }
    fn pad_to(&mut self, n: usize) {
        while self.b.len() < n {
            self.b.push(0);
        }
    }
}

struct StrTab {
    b: Vec<u8>,
}
impl StrTab {
    fn new() -> StrTab {
        StrTab { b: vec![0] }
    }
    fn add(&mut self, s: &str) -> u32 {
        if s.is_empty() {
            return 0;
        }
        let o = self.b.len() as u32;
        self.b.extend_from_slice(s.as_bytes());
        self.b.push(0);
        o
    }
}

fn write_sym(w: &mut Wr, name: u32, s: &Sym) {
    let info = (s.bind << 4) | (s.typ & 0xf);
    if w.is64 {
        w.u32(name);
        w.u8(info);
        w.u8(0);
        w.u16(s.shndx);
        w.u64(s.value);
        w.u64(0);
    } else {
        w.u32(name);
        w.u32(s.value as u32);
        w.u32(0);
        w.u8(info);
        w.u8(0);
        w.u16(s.shndx);
    }
}

fn uses_rela(c: Combo) -> bool {
    !matches!(c.machine, EM_386 | EM_MIPS)
}

fn write_rel(w: &mut Wr, r: &Rel, rela: bool) {
    if w.is64 {
        w.u64(r.off);
        w.u64(((r.sym as u64) << 32) | r.typ as u64);
        if rela {
            w.u64(0);
        }
    } else {
        w.u32(r.off as u32);
        w.u32((r.sym << 8) | (r.typ & 0xff));
        if rela {
            w.u32(0);
        }
    }
}

struct Section {
    name: String,
    typ: u32,
    flags: u64,
    addr: u64,
    off: u64,
    size: u64,
    link: u32,
    info: u32,
    entsize: u64,
}

struct Written {
    file: Vec<u8>,
    /// final program headers (with offsets; the dynamic PT_LOAD / PT_DYNAMIC appended)
    segs: Vec<Seg>,
    /// address of the MIPS GOT (0 when absent)
    got_addr: u64,
}

fn null_sym() -> Sym {
    Sym { name: String::new(), value: 0, typ: 0, bind: 0, shndx: 0 }
}

/// Serialise an image.  Layout: ELF header, program headers, segment contents, the dynamic
/// linking tables (one extra read-only PT_LOAD + PT_DYNAMIC), .symtab/.strtab/.shstrtab,
/// section headers.
fn write_elf(img: &Image) -> Written {
    let c = img.combo;
    let ehsize: usize = if c.is64 { 64 } else { 52 };
    let phentsize: usize = if c.is64 { 56 } else { 32 };
    let shentsize: usize = if c.is64 { 64 } else { 40 };
    let symsize: u64 = if c.is64 { 24 } else { 16 };
    let rela = uses_rela(c);
    let relsize: u64 = match (c.is64, rela) {
        (true, true) => 24,
        (true, false) => 16,
        (false, true) => 12,
        (false, false) => 8,
    };
    let dynsize: u64 = if c.is64 { 16 } else { 8 };

    let mut segs = img.segs.clone();
    let phnum = segs.len() + if img.dynamic { 2 } else { 0 };
    let mut cursor = ehsize + phentsize * phnum;

    // contents of the user segments
    let mut file: Vec<u8> = vec![0; cursor];
    for s in segs.iter_mut() {
        if s.filesz == 0 && !s.fixed_off {
            s.off = cursor as u64;
            continue;
        }
        if !s.fixed_off {
            s.off = cursor as u64;
            cursor += s.filesz as usize;
        }
        let end = (s.off + s.filesz) as usize;
        if file.len() < end {
            file.resize(end, 0);
        }
        // a segment that lies over the ELF header / program headers keeps them (like the first
        // PT_LOAD of a real file); otherwise its content is written
        if s.off as usize >= ehsize + phentsize * phnum {
            file[s.off as usize..end].copy_from_slice(&s.content);
        }
        cursor = cursor.max(end);
    }
    file.resize(cursor, 0);

    // dynamic linking tables
    let mut sections: Vec<Section> = Vec::new();
    sections.push(Section { name: String::new(), typ: 0, flags: 0, addr: 0, off: 0, size: 0, link: 0, info: 0, entsize: 0 });
    let mut got_addr = 0u64;
    let mut dynsym_idx = 0u32;
    if img.dynamic {
        let align = 16usize;
        let dyn_off = (cursor + align - 1) / align * align;
        let mut w = Wr::new(c);
        let va = |o: usize| img.dyn_vaddr + o as u64;
        // .dynstr content first (needed for name offsets)
        let mut dynstr = StrTab::new();
        let mut all = vec![null_sym()];
        all.extend(img.dynsym.iter().cloned());
        let names: Vec<u32> = all.iter().map(|s| dynstr.add(&s.name)).collect();
        let needed: Vec<u32> = img.needed.iter().map(|n| dynstr.add(n)).collect();
        // .hash: one bucket, every symbol chained
        let hash_o = w.b.len();
        let n = all.len() as u32;
        w.u32(1);
        w.u32(n);
        w.u32(if n > 1 { 1 } else { 0 });
        for i in 0..n {
            w.u32(if i == 0 || i + 1 >= n { 0 } else { i + 1 });
        }
        let hash_sz = w.b.len() - hash_o;
        w.pad_to((w.b.len() + 7) / 8 * 8);
        let dynsym_o = w.b.len();
        for (s, nm) in all.iter().zip(names.iter()) {
            write_sym(&mut w, *nm, s);
        }
        let dynsym_sz = w.b.len() - dynsym_o;
        let dynstr_o = w.b.len();
        w.bytes(&dynstr.b);
        let dynstr_sz = dynstr.b.len();
        w.pad_to((w.b.len() + 7) / 8 * 8);
        let plt_o = w.b.len();
        for r in &img.pltrel {
            write_rel(&mut w, r, rela);
        }
        let plt_sz = w.b.len() - plt_o;
        let rel_o = w.b.len();
        for r in &img.dynrel {
            write_rel(&mut w, r, rela);
        }
        let rel_sz = w.b.len() - rel_o;
        w.pad_to((w.b.len() + 7) / 8 * 8);
        // MIPS GOT: local entries, then one entry per dynsym from gotsym on (defined: st_value)
        let got_o = w.b.len();
        if let Some(g) = &img.mips_got {
            w.u32(0);
            if g.local_gotno > 1 {
                w.u32(0x8000_0000);
            }
            for _ in 2..g.local_gotno {
                w.u32(0);
            }
            for s in all.iter().skip(g.gotsym as usize) {
                w.u32(if s.shndx == 0 { 0 } else { s.value as u32 });
            }
            got_addr = va(got_o);
        }
        let got_sz = w.b.len() - got_o;
        w.pad_to((w.b.len() + 7) / 8 * 8);
        let dyn_o = w.b.len();
        let mut dyns: Vec<(u64, u64)> = Vec::new();
        for n in &needed {
            dyns.push((1, *n as u64)); // DT_NEEDED
        }
        dyns.push((4, va(hash_o))); // DT_HASH
        dyns.push((5, va(dynstr_o))); // DT_STRTAB
        dyns.push((6, va(dynsym_o))); // DT_SYMTAB
        dyns.push((10, dynstr_sz as u64)); // DT_STRSZ
        dyns.push((11, symsize)); // DT_SYMENT
        if !img.pltrel.is_empty() {
            dyns.push((23, va(plt_o))); // DT_JMPREL
            dyns.push((2, plt_sz as u64)); // DT_PLTRELSZ
            dyns.push((20, if rela { 7 } else { 17 })); // DT_PLTREL
        }
        if !img.dynrel.is_empty() {
            if rela {
                dyns.push((7, va(rel_o)));
                dyns.push((8, rel_sz as u64));
                dyns.push((9, relsize));
            } else {
                dyns.push((17, va(rel_o)));
                dyns.push((18, rel_sz as u64));
                dyns.push((19, relsize));
            }
        }
        if let Some(g) = &img.mips_got {
            dyns.push((3, va(got_o))); // DT_PLTGOT
            dyns.push((0x7000_000a, g.local_gotno as u64)); // DT_MIPS_LOCAL_GOTNO
            dyns.push((0x7000_0011, all.len() as u64)); // DT_MIPS_SYMTABNO
            dyns.push((0x7000_0013, g.gotsym as u64)); // DT_MIPS_GOTSYM
        }
        dyns.push((0, 0));
        for (t, v) in &dyns {
            w.word(*t);
            w.word(*v);
        }
        let dyn_sz = w.b.len() - dyn_o;
        let total = w.b.len();
        file.resize(dyn_off, 0);
        file.extend_from_slice(&w.b);
        cursor = file.len();

        let fo = |o: usize| (dyn_off + o) as u64;
        sections.push(Section { name: ".hash".into(), typ: 5, flags: 2, addr: va(hash_o), off: fo(hash_o), size: hash_sz as u64, link: 2, info: 0, entsize: 4 });
        dynsym_idx = sections.len() as u32;
        sections.push(Section { name: ".dynsym".into(), typ: 11, flags: 2, addr: va(dynsym_o), off: fo(dynsym_o), size: dynsym_sz as u64, link: 3, info: 1 + img.dynsym.iter().take_while(|s| s.bind == 0).count() as u32, entsize: symsize });
        sections.push(Section { name: ".dynstr".into(), typ: 3, flags: 2, addr: va(dynstr_o), off: fo(dynstr_o), size: dynstr_sz as u64, link: 0, info: 0, entsize: 0 });
        if !img.pltrel.is_empty() {
            sections.push(Section { name: if rela { ".rela.plt".into() } else { ".rel.plt".into() }, typ: if rela { 4 } else { 9 }, flags: 2, addr: va(plt_o), off: fo(plt_o), size: plt_sz as u64, link: dynsym_idx, info: 0, entsize: relsize });
        }
        if !img.dynrel.is_empty() {
            sections.push(Section { name: if rela { ".rela.dyn".into() } else { ".rel.dyn".into() }, typ: if rela { 4 } else { 9 }, flags: 2, addr: va(rel_o), off: fo(rel_o), size: rel_sz as u64, link: dynsym_idx, info: 0, entsize: relsize });
        }
        if img.mips_got.is_some() {
            sections.push(Section { name: ".got".into(), typ: 1, flags: 3, addr: va(got_o), off: fo(got_o), size: got_sz as u64, link: 0, info: 0, entsize: 4 });
        }
        sections.push(Section { name: ".dynamic".into(), typ: 6, flags: 3, addr: va(dyn_o), off: fo(dyn_o), size: dyn_sz as u64, link: 3, info: 0, entsize: dynsize });

        let bytes = file[dyn_off..dyn_off + total].to_vec();
        segs.push(Seg { ptype: PT_LOAD, vaddr: img.dyn_vaddr, filesz: total as u64, memsz: total as u64, flags: 6, content: bytes, off: dyn_off as u64, fixed_off: true });
        segs.push(Seg { ptype: PT_DYNAMIC, vaddr: va(dyn_o), filesz: dyn_sz as u64, memsz: dyn_sz as u64, flags: 6, content: Vec::new(), off: fo(dyn_o), fixed_off: true });
    }
    let _ = dynsym_idx;

    // generic sections symbols can refer to: one per loadable user segment (at least nsect)
    let first_generic = sections.len() as u16;
    let mut k = 0;
    for (i, s) in img.segs.iter().enumerate().filter(|(_, s)| s.ptype == PT_LOAD) {
        let fs = segs[i].off;
        sections.push(Section { name: format!(".s{}", k), typ: if s.filesz == 0 { 8 } else { 1 }, flags: 2 | if s.flags & 2 != 0 { 1 } else { 0 } | if s.flags & 1 != 0 { 4 } else { 0 }, addr: s.vaddr, off: fs, size: if s.filesz == 0 { s.memsz } else { s.filesz }, link: 0, info: 0, entsize: 0 });
        k += 1;
    }
    while k < img.nsect {
        sections.push(Section { name: format!(".s{}", k), typ: 8, flags: 3, addr: 0, off: cursor as u64, size: 0, link: 0, info: 0, entsize: 0 });
        k += 1;
    }
    let _ = first_generic;

    // .symtab / .strtab
    let mut strtab = StrTab::new();
    let mut w = Wr::new(c);
    let mut all = vec![null_sym()];
    all.extend(img.symtab.iter().cloned());
    for s in &all {
        let nm = strtab.add(&s.name);
        write_sym(&mut w, nm, s);
    }
    let symtab_off = (cursor + 7) / 8 * 8;
    file.resize(symtab_off, 0);
    file.extend_from_slice(&w.b);
    let nlocal = 1 + all.iter().skip(1).take_while(|s| s.bind == 0).count() as u32;
    let symtab_index = sections.len() as u32;
    sections.push(Section { name: ".symtab".into(), typ: 2, flags: 0, addr: 0, off: symtab_off as u64, size: w.b.len() as u64, link: symtab_index + 1, info: nlocal, entsize: symsize });
    let strtab_off = file.len();
    file.extend_from_slice(&strtab.b);
    sections.push(Section { name: ".strtab".into(), typ: 3, flags: 0, addr: 0, off: strtab_off as u64, size: strtab.b.len() as u64, link: 0, info: 0, entsize: 0 });
    let mut shstr = StrTab::new();
    let mut shnames: Vec<u32> = sections.iter().map(|s| shstr.add(&s.name)).collect();
    shnames.push(shstr.add(".shstrtab"));
    let shstr_off = file.len();
    file.extend_from_slice(&shstr.b);
    sections.push(Section { name: ".shstrtab".into(), typ: 3, flags: 0, addr: 0, off: shstr_off as u64, size: shstr.b.len() as u64, link: 0, info: 0, entsize: 0 });
    // fix the .hash/.dynsym/.dynamic links (section 2 = .dynsym, 3 = .dynstr when dynamic)
    let shoff = (file.len() + 7) / 8 * 8;
    file.resize(shoff, 0);
    let mut w = Wr::new(c);
    for (s, nm) in sections.iter().zip(shnames.iter()) {
        if c.is64 {
            w.u32(*nm);
            w.u32(s.typ);
            w.u64(s.flags);
            w.u64(s.addr);
            w.u64(s.off);
            w.u64(s.size);
            w.u32(s.link);
            w.u32(s.info);
            w.u64(if s.typ == 0 { 0 } else { 1 });
            w.u64(s.entsize);
        } else {
            w.u32(*nm);
            w.u32(s.typ);
            w.u32(s.flags as u32);
            w.u32(s.addr as u32);
            w.u32(s.off as u32);
            w.u32(s.size as u32);
            w.u32(s.link);
            w.u32(s.info);
            w.u32(if s.typ == 0 { 0 } else { 1 });
            w.u32(s.entsize as u32);
        }
    }
    file.extend_from_slice(&w.b);

    // ELF header and program headers
    let mut h = Wr::new(c);
    h.bytes(&[0x7f, b'E', b'L', b'F', if c.is64 { 2 } else { 1 }, if c.le { 1 } else { 2 }, 1, 0, 0, 0, 0, 0, 0, 0, 0, 0]);
    h.u16(img.etype);
    h.u16(c.machine);
    h.u32(1);
    h.word(img.entry);
    h.word(ehsize as u64);
    h.word(shoff as u64);
    h.u32(if c.machine == EM_MIPS { 0x7000_1005 } else { 0 });
    h.u16(ehsize as u16);
    h.u16(phentsize as u16);
    h.u16(phnum as u16);
    h.u16(shentsize as u16);
    h.u16(sections.len() as u16);
    h.u16((sections.len() - 1) as u16);
    assert_eq!(h.b.len(), ehsize);
    for s in &segs {
        if c.is64 {
            h.u32(s.ptype);
            h.u32(s.flags);
            h.u64(s.off);
            h.u64(s.vaddr);
            h.u64(s.vaddr);
            h.u64(s.filesz);
            h.u64(s.memsz);
            h.u64(1);
        } else {
            h.u32(s.ptype);
            h.u32(s.off as u32);
            h.u32(s.vaddr as u32);
            h.u32(s.vaddr as u32);
            h.u32(s.filesz as u32);
            h.u32(s.memsz as u32);
            h.u32(s.flags);
            h.u32(1);
        }
    }
    assert_eq!(h.b.len(), ehsize + phentsize * phnum);
    file[..h.b.len()].copy_from_slice(&h.b);

    // the file bytes of every loadable segment are what the file now holds at its offset
    for s in segs.iter_mut() {
        if s.ptype == PT_LOAD {
            s.content = file[s.off as usize..(s.off + s.filesz) as usize].to_vec();
        }
    }
    Written { file, segs, got_addr }
}

// ------------------------------------------------------------------------------------------
// JSON projection of descriptions and observations
// ------------------------------------------------------------------------------------------
fn addr(a: u64) -> Value {
    json!(fv::proj::limbs(&BigUint::from(a), 64))
}

fn addr_back(v: &Value) -> u64 {
    let mut a = 0u64;
    for (i, b) in v.as_array().expect("address limbs").iter().enumerate() {
        a |= b.as_u64().unwrap() << (8 * i);
    }
    a
}

fn sym_json(s: &Sym) -> Value {
    json!({ "name": s.name, "value": addr(s.value), "type": s.typ, "bind": s.bind, "shndx": s.shndx })
}

fn desc_json(img: &Image, wr: &Written) -> Value {
    let segs: Vec<Value> = wr
        .segs
        .iter()
        .map(|s| {
            json!({ "type": s.ptype, "off": s.off, "vaddr": addr(s.vaddr), "filesz": s.filesz, "memsz": s.memsz,
                    "flags": s.flags,
                    "bytes": if s.ptype == PT_LOAD { s.content.iter().map(|b| *b as u64).collect::<Vec<_>>() } else { vec![] } })
        })
        .collect();
    let mut symtab = vec![sym_json(&null_sym())];
    symtab.extend(img.symtab.iter().map(sym_json));
    let mut dynsym = Vec::new();
    if img.dynamic {
        dynsym.push(sym_json(&null_sym()));
        dynsym.extend(img.dynsym.iter().map(sym_json));
    }
    json!({
        "cls": if img.combo.is64 { 64 } else { 32 },
        "data": if img.combo.le { "LE" } else { "BE" },
        "machine": img.combo.machine,
        "etype": img.etype,
        "entry": addr(img.entry),
        "segs": segs,
        "symtab": symtab,
        "dynsym": dynsym,
        "pltrel": img.pltrel.iter().map(|r| json!({ "off": addr(r.off), "sym": r.sym })).collect::<Vec<_>>(),
    })
}

fn hex(b: &[u8]) -> String {
    let mut s = String::with_capacity(b.len() * 2);
    for x in b {
        s.push_str(&format!("{:02x}", x));
    }
    s
}

fn unhex(s: &str) -> Vec<u8> {
    (0..s.len() / 2).map(|i| u8::from_str_radix(&s[2 * i..2 * i + 2], 16).unwrap()).collect()
}

fn perm_json(p: MemoryPermissions) -> Value {
    json!([p.contains(MemoryPermissions::READ), p.contains(MemoryPermissions::WRITE), p.contains(MemoryPermissions::EXECUTE)])
}

fn sections_json(m: &Memory) -> Value {
    let v: Vec<Value> = m
        .sections()
        .iter()
        .map(|(a, s)| json!({ "addr": addr(*a), "perm": perm_json(s.permissions()), "data": s.data().iter().map(|b| *b as u64).collect::<Vec<_>>() }))
        .collect();
    json!({ "sections": v })
}

/// where to look with get8 / permissions / get32: around the boundaries of every reported section
fn probe_points(m: &Memory, rng: &mut Rng) -> (Vec<u64>, Vec<u64>) {
    let mut pts = Vec::new();
    let mut w32 = Vec::new();
    for (a, s) in m.sections().iter() {
        let l = s.len() as u64;
        pts.push(a.wrapping_sub(1));
        pts.push(*a);
        if l > 0 {
            pts.push(a + l - 1);
            pts.push(a + rng.below(l));
        }
        pts.push(a + l);
        w32.push(*a);
        if l > 4 {
            w32.push(a + rng.below(l - 3));
            w32.push(a + l - 2);
        }
    }
    pts.sort();
    pts.dedup();
    w32.sort();
    w32.dedup();
    // keep the trace small: at most 16 / 6, chosen deterministically
    while pts.len() > 16 {
        let i = rng.below(pts.len() as u64) as usize;
        pts.remove(i);
    }
    while w32.len() > 6 {
        let i = rng.below(w32.len() as u64) as usize;
        w32.remove(i);
    }
    (pts, w32)
}

fn memory_event(ev: &str, out: &mut Out, loader: &dyn Loader, rng: &mut Rng) {
    let m = guard(|| loader.memory());
    let mut probes = Vec::new();
    let mut w32 = Vec::new();
    if let fv::Outcome::Ok(mem) = &m {
        let (pts, ws) = probe_points(mem, rng);
        for a in pts {
            let r = guard_plain(|| (mem.get8(a), mem.permissions(a)));
            match r {
                fv::Outcome::Ok((b, p)) => probes.push(json!({ "addr": addr(a),
                    "byte": b.map(|x| x as i64).unwrap_or(-1),
                    "perm": p.map(perm_json).unwrap_or_else(|| json!([])) })),
                fv::Outcome::Panic(msg) => probes.push(json!({ "addr": addr(a), "panic": msg })),
                _ => {}
            }
        }
        for a in ws {
            let r = guard_plain(|| mem.get32(a));
            match r {
                fv::Outcome::Ok(v) => w32.push(json!({ "addr": addr(a),
                    "val": v.map(|x| fv::proj::limbs(&BigUint::from(x), 32)).unwrap_or_default() })),
                fv::Outcome::Panic(msg) => w32.push(json!({ "addr": addr(a), "panic": msg })),
                _ => {}
            }
        }
    }
    out.emit(&json!({ "ev": ev, "res": m.json(sections_json), "probes": probes, "w32": w32 }));
}

fn queries(prefix: &str, out: &mut Out, loader: &dyn Loader, rng: &mut Rng) {
    memory_event(&format!("{}memory", prefix), out, loader, rng);
    let fe = guard(|| loader.function_entries());
    out.emit(&json!({ "ev": format!("{}entries", prefix), "res": fe.json(|v| {
        json!(v.iter().map(|e| json!({ "addr": addr(e.address()), "name": e.name().unwrap_or("") })).collect::<Vec<_>>())
    }) }));
    let sy = guard_plain(|| loader.symbols());
    out.emit(&json!({ "ev": format!("{}symbols", prefix), "res": sy.json(|v| {
        json!(v.iter().map(|s| json!({ "n": s.name(), "a": addr(s.address()) })).collect::<Vec<_>>())
    }) }));
    let pe = guard_plain(|| loader.program_entry());
    out.emit(&json!({ "ev": format!("{}pentry", prefix), "res": pe.json(|a| addr(*a)) }));
}

/// direct call targets found in the lifted code of a function: constant Branch targets
fn call_targets(f: &il::Function) -> Vec<u64> {
    let mut v = Vec::new();
    for b in f.blocks() {
        for i in b.instructions() {
            if let il::Operation::Branch { target } = i.operation() {
                if let Ok(c) = falcon::executor::eval(target) {
                    if let Some(t) = c.value_u64() {
                        v.push(t);
                    }
                }
            }
        }
    }
    v.sort();
    v.dedup();
    v
}

fn program_json(r: &(il::Program, Vec<(falcon::loader::FunctionEntry, falcon::Error)>)) -> Value {
    let mut funcs: Vec<&il::Function> = r.0.functions();
    funcs.sort_by_key(|f| (f.address(), f.index()));
    json!({
        "funcs": funcs.iter().map(|f| json!({ "addr": addr(f.address()), "name": f.name(),
            "calls": call_targets(f).iter().map(|t| addr(*t)).collect::<Vec<_>>() })).collect::<Vec<_>>(),
        "errors": r.1.iter().map(|(e, err)| json!({ "addr": addr(e.address()), "name": e.name().unwrap_or(""),
            "err": fv::err_name(err) })).collect::<Vec<_>>(),
    })
}

/// Loader::program_verbose and Loader::program_recursive_verbose
fn lift_events(prefix: &str, out: &mut Out, loader: &dyn Loader) {
    let r = guard(|| loader.program_verbose(&Options::default()));
    out.emit(&json!({ "ev": format!("{}program", prefix), "res": r.json(program_json) }));
    let r = guard(|| loader.program_recursive_verbose(&Options::default()));
    out.emit(&json!({ "ev": format!("{}rprogram", prefix), "res": r.json(program_json) }));
}

/// one load of one image: Elf::new at `base`, user entries, every query (and, if `lift`, the
/// lifted programs)
fn observe(out: &mut Out, bytes: &[u8], base: u64, users: &[u64], rng: &mut Rng, lift: bool) {
    out.emit(&json!({ "ev": "load", "base": addr(base), "users": users.iter().map(|u| addr(*u)).collect::<Vec<_>>() }));
    let r = guard(|| Elf::new(bytes.to_vec(), base));
    out.emit(&json!({ "ev": "new", "res": r.json(|_| json!(1)) }));
    let mut elf = match r.ok() {
        Some(e) => e,
        None => return,
    };
    for u in users {
        elf.add_user_function(*u);
    }
    let a = guard_plain(|| (elf.architecture().name().to_string(), elf.architecture().endian()));
    match a {
        fv::Outcome::Ok((name, endian)) => out.emit(&json!({ "ev": "arch", "name": name,
            "endian": match endian { falcon::architecture::Endian::Big => "big", falcon::architecture::Endian::Little => "little" } })),
        other => out.emit(&json!({ "ev": "arch", "res": other.json(|_| json!(0)) })),
    }
    queries("", out, &elf, rng);
    let ex = guard_plain(|| elf.exported_symbols());
    out.emit(&json!({ "ev": "exported", "res": ex.json(|v| {
        json!(v.iter().map(|s| json!({ "n": s.name(), "a": addr(s.address()) })).collect::<Vec<_>>())
    }) }));
    if lift {
        lift_events("", out, &elf);
    }
}

fn bases_for(is64: bool) -> Vec<u64> {
    if is64 { vec![0, 0x10000, 1u64 << 40] } else { vec![0, 0x10000, 1u64 << 31] }
}

// ------------------------------------------------------------------------------------------
// generators
// ------------------------------------------------------------------------------------------
fn rand_bytes(rng: &mut Rng, n: u64) -> Vec<u8> {
    (0..n).map(|_| 1 + rng.below(255) as u8).collect()
}

fn plt_type(c: Combo) -> u32 {
    match c.machine {
        EM_386 => 7,
        EM_X86_64 => 7,
        EM_MIPS => 127,
        EM_PPC => 21,
        _ => 1026,
    }
}

fn gen_image(rng: &mut Rng) -> (Image, Vec<u64>) {
    let combo = *rng.pick(&COMBOS);
    let region: u64 = if combo.is64 {
        *rng.pick(&[0x1000u64, 0x40_0000, 0x1000_0000, 0x7fff_0000, 0xffff_0000, 0x1_0000_0000, 0x5555_5555_0000, 0x7fff_ffff_0000])
    } else {
        *rng.pick(&[0x1000u64, 0x0804_8000, 0x40_0000, 0x1000_0000, 0x7fff_0000, 0x8000_0000, 0xffff_0000])
    };
    let nload = rng.below(5);
    let clustered = rng.chance(2, 5);
    let mut segs: Vec<Seg> = Vec::new();
    for i in 0..nload {
        let memsz = match rng.below(20) {
            0 => 0,
            1 => 1,
            _ => rng.range(1, 24),
        };
        let filesz = match rng.below(10) {
            0 => 0,
            1 | 2 | 3 => rng.below(memsz + 1),
            _ => memsz,
        };
        let vaddr = if clustered { region + rng.below(40) } else { region + i * 0x100 + rng.below(16) };
        segs.push(Seg { ptype: PT_LOAD, vaddr, filesz, memsz, flags: rng.below(8) as u32, content: rand_bytes(rng, filesz), off: 0, fixed_off: false });
    }
    // unordered program headers
    if rng.bool() {
        for i in (1..segs.len()).rev() {
            let j = rng.below(i as u64 + 1) as usize;
            segs.swap(i, j);
        }
    }
    // sometimes the first loadable segment lies over the file header, as in real files
    if !segs.is_empty() && rng.chance(1, 6) && segs[0].filesz > 0 {
        segs[0].off = 0;
        segs[0].fixed_off = true;
    }
    // headers that must not be mapped
    let nother = rng.below(3);
    for _ in 0..nother {
        let (ptype, filesz, memsz) = match rng.below(4) {
            0 => (PT_NOTE, 0, 0),
            1 => (PT_GNU_STACK, 0, 0),
            2 => (PT_TLS, 0, rng.range(1, 16)),
            _ => (PT_GNU_RELRO, 0, 0),
        };
        let pos = rng.below(segs.len() as u64 + 1) as usize;
        segs.insert(pos, Seg { ptype, vaddr: region + 0x800 + rng.below(64), filesz, memsz, flags: rng.below(8) as u32, content: Vec::new(), off: 0, fixed_off: false });
    }
    let nsect = (nload as u16).max(2);
    let dynamic = rng.chance(3, 5);
    let in_image = |rng: &mut Rng, segs: &[Seg]| -> u64 {
        let loads: Vec<&Seg> = segs.iter().filter(|s| s.ptype == PT_LOAD).collect();
        if loads.is_empty() || rng.chance(1, 5) {
            region + rng.below(0x400)
        } else {
            let s = rng.pick(&loads);
            s.vaddr + rng.below(s.memsz + 2)
        }
    };
    let mut counter = 0;
    let mut gen_sym = |rng: &mut Rng, segs: &[Seg], prefix: &str| -> Sym {
        counter += 1;
        let kind = rng.below(12);
        let typ: u8 = match kind {
            0 => 0,
            1 | 2 => 1,
            3 => 3,
            4 => 4,
            _ => 2,
        };
        let name = if typ == 3 { String::new() } else { format!("{}{}", prefix, counter) };
        let (value, shndx) = if typ == 4 {
            (0, SHN_ABS)
        } else {
            let value = if rng.chance(1, 7) { 0 } else { in_image(rng, segs) };
            let shndx = match rng.below(10) {
                0 | 1 => 0,
                2 if typ == 1 => SHN_ABS,
                _ => 1 + rng.below(nsect as u64) as u16,
            };
            (value, shndx)
        };
        Sym { name, value, typ, bind: *rng.pick(&[0u8, 1, 1, 1, 2]), shndx }
    };
    let mut dynsym = Vec::new();
    if dynamic {
        for _ in 0..rng.below(6) {
            dynsym.push(gen_sym(rng, &segs, "d"));
        }
    }
    dynsym.sort_by_key(|s| if s.bind == 0 { 0 } else { 1 });
    let mut symtab = Vec::new();
    for _ in 0..rng.below(7) {
        if !dynsym.is_empty() && rng.chance(1, 3) {
            symtab.push(rng.pick(&dynsym).clone()); // the same symbol in both tables
        } else {
            symtab.push(gen_sym(rng, &segs, "s"));
        }
    }
    symtab.sort_by_key(|s| if s.bind == 0 { 0 } else { 1 }); // locals first, as linkers emit them
    let mut pltrel = Vec::new();
    if dynamic && !dynsym.is_empty() {
        for _ in 0..rng.below(4) {
            pltrel.push(Rel { off: in_image(rng, &segs), sym: 1 + rng.below(dynsym.len() as u64) as u32, typ: plt_type(combo) });
        }
    }
    let funcs: Vec<u64> = symtab.iter().chain(dynsym.iter()).filter(|s| s.typ == 2 && s.value != 0).map(|s| s.value).collect();
    let entry = match rng.below(8) {
        0 => 0,
        1 | 2 if !funcs.is_empty() => *rng.pick(&funcs),
        _ => in_image(rng, &segs),
    };
    let mut users = Vec::new();
    for _ in 0..rng.below(3) {
        users.push(match rng.below(5) {
            0 if !funcs.is_empty() => *rng.pick(&funcs),
            1 => entry,
            _ => in_image(rng, &segs),
        });
    }
    let img = Image {
        combo,
        etype: if rng.chance(1, 3) { 3 } else { 2 },
        entry,
        segs,
        symtab,
        dynsym,
        pltrel,
        dynrel: Vec::new(),
        needed: Vec::new(),
        dynamic,
        dyn_vaddr: region + 0x4000,
        mips_got: None,
        nsect,
    };
    (img, users)
}

fn session(out: &mut Out, id: u64, src: &str, img: &Image, users: &[u64], rng: &mut Rng) {
    session_with(out, id, src, img, users, rng, None)
}

/// `extra`: further fields of the description (the intended call graph of generated code)
fn session_with(out: &mut Out, id: u64, src: &str, img: &Image, users: &[u64], rng: &mut Rng, extra: Option<Value>) {
    let wr = write_elf(img);
    let mut desc = desc_json(img, &wr);
    if let Some(Value::Object(m)) = extra {
        for (k, v) in m {
            desc[k] = v;
        }
    }
    out.emit(&json!({ "ev": "begin", "id": id, "src": src, "desc": desc, "file": hex(&wr.file) }));
    for base in bases_for(img.combo.is64) {
        observe(out, &wr.file, base, users, rng, src == "code");
    }
}

fn mode_random(out: &mut Out, n: u64, rng: &mut Rng) {
    for id in 0..n {
        let (img, users) = gen_image(rng);
        session(out, id, "gen", &img, &users, rng);
    }
}

/// every layout of two loadable segments with memsz <= maxsz: the second segment slides over the
/// first one (before, overlapping the head, inside, overlapping the tail, adjacent, after), all
/// filesz <= memsz, both header orders; class/encoding/machine rotate.
fn mode_enum(out: &mut Out, maxsz: u64, rng: &mut Rng) {
    let mut id = 0;
    let region = 0x2000u64;
    for m1 in 0..=maxsz {
        for f1 in 0..=m1 {
            for m2 in 0..=maxsz {
                for f2 in 0..=m2 {
                    for d in 0..=(2 * maxsz + 2) {
                        let combo = COMBOS[(id % 7) as usize];
                        let v1 = region + maxsz + 1;
                        let v2 = region + d;
                        let s1 = Seg { ptype: PT_LOAD, vaddr: v1, filesz: f1, memsz: m1, flags: 5, content: (0..f1).map(|i| 0x11 + i as u8).collect(), off: 0, fixed_off: false };
                        let s2 = Seg { ptype: PT_LOAD, vaddr: v2, filesz: f2, memsz: m2, flags: 6, content: (0..f2).map(|i| 0x21 + i as u8).collect(), off: 0, fixed_off: false };
                        let img = Image { combo, etype: 2, entry: v1, segs: vec![s1, s2], symtab: Vec::new(), dynsym: Vec::new(), pltrel: Vec::new(), dynrel: Vec::new(), needed: Vec::new(), dynamic: false, dyn_vaddr: 0, mips_got: None, nsect: 2 };
                        session(out, id, "enum", &img, &[], rng);
                        id += 1;
                    }
                }
            }
        }
    }
}

// ------------------------------------------------------------------------------------------
// generated code images: a text segment made of a few hand-picked instruction words per
// architecture (nop, direct call, return), with a known call graph
// ------------------------------------------------------------------------------------------
fn word_bytes(c: Combo, w: u32) -> Vec<u8> {
    // AArch64 instructions are little-endian whatever the data encoding is
    let le = c.le || c.machine == EM_AARCH64;
    if le { w.to_le_bytes().to_vec() } else { w.to_be_bytes().to_vec() }
}

fn enc_nop(c: Combo) -> Vec<u8> {
    match c.machine {
        EM_386 | EM_X86_64 => vec![0x90],
        EM_MIPS => word_bytes(c, 0),
        EM_PPC => word_bytes(c, 0x6000_0000),
        _ => word_bytes(c, 0xD503_201F),
    }
}

/// a direct call at `site` to `target` (MIPS: with its delay slot)
fn enc_call(c: Combo, site: u64, target: u64) -> Vec<u8> {
    match c.machine {
        EM_386 | EM_X86_64 => {
            let rel = (target as i64 - (site as i64 + 5)) as i32;
            let mut v = vec![0xE8];
            v.extend_from_slice(&rel.to_le_bytes());
            v
        }
        EM_MIPS => {
            let mut v = word_bytes(c, 0x0C00_0000 | (((target >> 2) as u32) & 0x03FF_FFFF));
            v.extend(word_bytes(c, 0));
            v
        }
        EM_PPC => word_bytes(c, 0x4800_0001 | (((target as i64 - site as i64) as u32) & 0x03FF_FFFC)),
        _ => word_bytes(c, 0x9400_0000 | ((((target as i64 - site as i64) >> 2) as u32) & 0x03FF_FFFF)),
    }
}

fn enc_ret(c: Combo) -> Vec<u8> {
    match c.machine {
        EM_386 | EM_X86_64 => vec![0xC3],
        EM_MIPS => {
            let mut v = word_bytes(c, 0x03E0_0008);
            v.extend(word_bytes(c, 0));
            v
        }
        EM_PPC => word_bytes(c, 0x4E80_0020),
        _ => word_bytes(c, 0xD65F_03C0),
    }
}

fn gen_code_image(rng: &mut Rng, id: u64) -> (Image, Vec<u64>, Value) {
    let combo = COMBOS[(id % 7) as usize];
    let region: u64 = *rng.pick(&[0x40_0000u64, 0x0804_8000, 0x1_0000]);
    let nfun = rng.range(2, 5);
    let slot = 0x40u64;
    let text_len = nfun * slot;
    let data_addr = region + 0x1000;
    let fun_addr = |j: u64| region + j * slot;
    let mut text: Vec<u8> = Vec::new();
    let mut code = Vec::new();
    let bad = if rng.chance(1, 6) { Some(rng.range(1, nfun - 1).min(nfun - 1)) } else { None };
    for j in 0..nfun {
        let start = text.len() as u64;
        let mut calls = Vec::new();
        if Some(j) == bad {
            // not an instruction of any of the five instruction sets
            text.extend_from_slice(&[0xFF, 0xFF, 0xFF, 0xFF]);
        } else {
            for _ in 0..rng.below(3) {
                text.extend(enc_nop(combo));
            }
            for _ in 0..rng.below(4) {
                let target = match rng.below(12) {
                    0 => data_addr + 4 * rng.below(4),         // not executable
                    1 => region + 0x3000 + 16 * rng.below(4),  // not mapped
                    _ => fun_addr(rng.below(nfun)),
                };
                let site = region + text.len() as u64;
                text.extend(enc_call(combo, site, target));
                if !calls.contains(&target) {
                    calls.push(target);
                }
                if rng.chance(1, 3) {
                    text.extend(enc_nop(combo));
                }
            }
            text.extend(enc_ret(combo));
            code.push(json!({ "addr": addr(fun_addr(j)), "calls": calls.iter().map(|t| addr(*t)).collect::<Vec<_>>(),
                              "kind": if combo.machine == EM_MIPS { "abs" } else { "rel" } }));
        }
        assert!(text.len() as u64 - start <= slot);
        while (text.len() as u64) < (j + 1) * slot {
            text.extend(enc_nop(combo));
        }
    }
    let segs = vec![
        Seg { ptype: PT_LOAD, vaddr: region, filesz: text_len, memsz: text_len, flags: 5, content: text, off: 0, fixed_off: false },
        Seg { ptype: PT_LOAD, vaddr: data_addr, filesz: 16, memsz: 24, flags: 6, content: rand_bytes(rng, 16), off: 0, fixed_off: false },
    ];
    // function 0 is always a symbol; the others are symbols, user entries, or only reachable by calls
    let mut symtab = Vec::new();
    let mut users = Vec::new();
    for j in 0..nfun {
        match if j == 0 { 0 } else { rng.below(4) } {
            0 | 1 => symtab.push(Sym { name: format!("f{}", j), value: fun_addr(j), typ: 2, bind: if rng.chance(1, 4) { 2 } else { 1 }, shndx: 1 }),
            2 => users.push(fun_addr(j)),
            _ => {}
        }
    }
    if rng.bool() {
        symtab.push(Sym { name: "datafn".into(), value: data_addr + 4, typ: 2, bind: 1, shndx: 2 }); // a function symbol in rw- memory
    }
    symtab.push(Sym { name: "obj".into(), value: data_addr, typ: 1, bind: 1, shndx: 2 });
    let entry = fun_addr(rng.below(nfun));
    let img = Image { combo, etype: 2, entry, segs, symtab, dynsym: Vec::new(), pltrel: Vec::new(), dynrel: Vec::new(), needed: Vec::new(), dynamic: false, dyn_vaddr: 0, mips_got: None, nsect: 2 };
    (img, users, json!({ "code": code }))
}

fn mode_code(out: &mut Out, n: u64, rng: &mut Rng) {
    for id in 0..n {
        let (img, users, extra) = gen_code_image(rng, id);
        session_with(out, id, "code", &img, &users, rng, Some(extra));
    }
}

// ------------------------------------------------------------------------------------------
// linked sets: an executable and a shared object, through ElfLinker
// ------------------------------------------------------------------------------------------
struct LinkObj {
    name: String,
    img: Image,
}

fn gen_link_set(rng: &mut Rng, id: u64) -> (Vec<LinkObj>, Vec<(usize, u64, String)>) {
    // i386, mips, mipsel in turn (the machines ElfLinker relocates)
    let combo = [COMBOS[0], COMBOS[2], COMBOS[3]][(id % 3) as usize];
    let mips = combo.machine == EM_MIPS;
    let exe_region: u64 = if mips { 0x40_0000 } else { 0x0804_8000 };
    let lib_region: u64 = 0x1000 * rng.range(1, 8);
    // text: 8..24 random bytes; data: `dlen` zero bytes (relocation slots live there) + a bss tail
    let mk = |rng: &mut Rng, region: u64, dlen: u64| -> Vec<Seg> {
        let t = rng.range(8, 24);
        vec![
            Seg { ptype: PT_LOAD, vaddr: region, filesz: t, memsz: t, flags: 5, content: rand_bytes(rng, t), off: 0, fixed_off: false },
            Seg { ptype: PT_LOAD, vaddr: region + 0x1000, filesz: dlen, memsz: dlen + rng.below(8), flags: 6, content: vec![0; dlen as usize], off: 0, fixed_off: false },
        ]
    };
    // Every set exports, from the library, one symbol of each type the loader has to export
    // (NOTYPE, OBJECT, FUNC) in each binding (GLOBAL, WEAK), and from the executable one of each
    // type; the other object refers to all of them.
    let lib_segs = mk(rng, lib_region, 80);
    let exe_segs = mk(rng, exe_region, 96);
    let place = |rng: &mut Rng, segs: &[Seg], typ: u8| -> (u64, u16) {
        match typ {
            2 => (segs[0].vaddr + rng.below(segs[0].memsz), 1),
            1 => (segs[1].vaddr + 4 * rng.below(4), 2),
            // untyped: anywhere, including the end of the data segment (_end, __bss_start, _edata)
            _ => match rng.below(3) {
                0 => (segs[1].vaddr + segs[1].memsz, 2),
                1 => (segs[1].vaddr + segs[1].filesz, 2),
                _ => (segs[0].vaddr + rng.below(segs[0].memsz), 1),
            },
        }
    };
    let mut lib_dyn = Vec::new();
    for (i, (typ, bind)) in [(0u8, 1u8), (0, 2), (1, 1), (1, 2), (2, 1), (2, 2)].iter().enumerate() {
        let (value, shndx) = place(rng, &lib_segs, *typ);
        lib_dyn.push(Sym { name: format!("l{}", i), value, typ: *typ, bind: *bind, shndx });
    }
    let mut exe_exports = Vec::new();
    for (i, (typ, bind)) in [(2u8, 1u8), (0, 1), (1, 2)].iter().enumerate() {
        let (value, shndx) = place(rng, &exe_segs, *typ);
        exe_exports.push(Sym { name: format!("e{}", i), value, typ: *typ, bind: *bind, shndx });
    }
    // a third object in two of three sets: liby.so, needed by libx.so (a dependency of a dependency) or by the
    // executable (a second direct dependency); libx.so refers to its two exports
    let third = (id / 3) % 3;
    let y_region: u64 = 0x1000 * rng.range(1, 8);
    let y_segs = mk(rng, y_region, 16);
    let mut y_dyn = Vec::new();
    if third != 0 {
        for (i, typ) in [2u8, 1u8].iter().enumerate() {
            let (value, shndx) = place(rng, &y_segs, *typ);
            y_dyn.push(Sym { name: format!("y{}", i), value, typ: *typ, bind: 1, shndx });
        }
    }
    // an undefined reference carries the type of its definition or none
    let mut undef = |s: &Sym| Sym { name: s.name.clone(), value: 0, typ: if rng.bool() { s.typ } else { 0 }, bind: s.bind, shndx: 0 };
    let mut exe_dyn: Vec<Sym> = lib_dyn.iter().map(&mut undef).collect();
    exe_dyn.extend(exe_exports.iter().cloned());
    let mut lib_all = lib_dyn.clone();
    lib_all.extend(exe_exports.iter().map(&mut undef));
    lib_all.extend(y_dyn.iter().map(&mut undef));
    // tables are not sorted by kind of symbol
    for v in [&mut exe_dyn, &mut lib_all] {
        for i in (1..v.len()).rev() {
            let j = rng.below(i as u64 + 1) as usize;
            v.swap(i, j);
        }
    }

    let mut relocs: Vec<(usize, u64, String)> = Vec::new();
    let mut exe = Image { combo, etype: 2, entry: exe_region, segs: exe_segs, symtab: exe_exports.clone(), dynsym: exe_dyn.clone(), pltrel: Vec::new(), dynrel: Vec::new(), needed: vec!["libx.so".into()], dynamic: true, dyn_vaddr: exe_region + 0x4000, mips_got: None, nsect: 2 };
    let mut lib = Image { combo, etype: 3, entry: 0, segs: lib_segs, symtab: lib_dyn.clone(), dynsym: lib_all.clone(), pltrel: Vec::new(), dynrel: Vec::new(), needed: Vec::new(), dynamic: true, dyn_vaddr: lib_region + 0x4000, mips_got: None, nsect: 2 };
    if mips {
        // every dynamic symbol has a global GOT entry (written by mode_link from the tables)
        let lg = rng.range(2, 3) as u32;
        exe.mips_got = Some(MipsGot { local_gotno: lg, gotsym: 1 });
        lib.mips_got = Some(MipsGot { local_gotno: lg, gotsym: 1 });
    } else {
        // the executable refers to every library symbol through every symbolic relocation the
        // linker implements: R_386_32 (1), R_386_GLOB_DAT (6), R_386_JMP_SLOT (7); one 4-byte
        // slot each in the data segment
        let data = exe.segs[1].vaddr;
        let mut slot = 0u64;
        for (i, s) in exe_dyn.iter().enumerate() {
            if s.shndx != 0 {
                continue;
            }
            // in every other set the untyped symbols are only referred to through GLOB_DAT, the
            // one relocation the linker skips silently when it cannot resolve the symbol
            let glob_only = (id / 3) % 2 == 1 && lib_dyn.iter().any(|l| l.name == s.name && l.typ == 0);
            for typ in [1u32, 6, 7] {
                if glob_only && typ != 6 {
                    continue;
                }
                let r = Rel { off: data + 4 * slot, sym: (i + 1) as u32, typ };
                slot += 1;
                relocs.push((0, r.off, s.name.clone()));
                if typ == 7 { exe.pltrel.push(r) } else { exe.dynrel.push(r) }
            }
        }
        assert!(4 * slot <= exe.segs[1].filesz);
        // the library refers to every export of the executable, and to two of its own
        let ldata = lib.segs[1].vaddr + 32;
        let mut slot = 0u64;
        for (i, s) in lib_all.iter().enumerate() {
            let own = s.shndx != 0;
            if own && !rng.chance(1, 3) {
                continue;
            }
            let untyped = exe_exports.iter().chain(lib_dyn.iter()).any(|d| d.name == s.name && d.typ == 0);
            let typ = if (id / 3) % 2 == 1 && untyped { 6 } else if rng.bool() { 6 } else { 1 };
            let r = Rel { off: ldata + 4 * slot, sym: (i + 1) as u32, typ };
            slot += 1;
            relocs.push((1, r.off, s.name.clone()));
            lib.dynrel.push(r);
        }
        assert!(32 + 4 * slot <= lib.segs[1].filesz);
    }
    let mut objs = vec![LinkObj { name: "exe".into(), img: exe }, LinkObj { name: "libx.so".into(), img: lib }];
    if third != 0 {
        let got = objs[0].img.mips_got.clone();
        let liby = Image { combo, etype: 3, entry: 0, segs: y_segs, symtab: y_dyn.clone(), dynsym: y_dyn.clone(), pltrel: Vec::new(), dynrel: Vec::new(),
                           needed: Vec::new(), dynamic: true, dyn_vaddr: y_region + 0x4000, mips_got: got, nsect: 2 };
        if third == 1 {
            objs[1].img.needed.push("liby.so".into());
        } else {
            // listed first: libx.so, which refers to liby.so's exports without naming it as a dependency, is relocated
            // when it is loaded, and the linker resolves against the objects loaded so far
            objs[0].img.needed.insert(0, "liby.so".into());
        }
        objs.push(LinkObj { name: "liby.so".into(), img: liby });
    }
    (objs, relocs)
}

fn link_session(out: &mut Out, id: u64, dir: &str, objs: &[(String, Vec<u8>, Value)], relocs: &Value, free: &Value, rng: &mut Rng) {
    let d = format!("{}/set{}", dir, id);
    std::fs::create_dir_all(&d).expect("create link dir");
    for (name, bytes, _) in objs {
        std::fs::write(format!("{}/{}", d, name), bytes).expect("write object");
    }
    out.emit(&json!({ "ev": "begin", "id": id, "src": "link",
        "objs": objs.iter().map(|(n, b, desc)| json!({ "name": n, "desc": desc, "file": hex(b) })).collect::<Vec<_>>(),
        "relocs": relocs, "free": free }));
    let primary = std::path::PathBuf::from(format!("{}/{}", d, objs[0].0));
    let r = guard(|| ElfLinker::new(primary.clone(), true, false, Some(vec![std::path::PathBuf::from(&d)])));
    out.emit(&json!({ "ev": "link", "res": r.json(|l| {
        let mut loaded: Vec<String> = l.loaded().keys().cloned().collect();
        loaded.sort();
        json!({ "bases": objs.iter().map(|(n, _, _)| l.loaded().get(n).map(|e| addr(e.base_address())).unwrap_or_else(|| json!([]))).collect::<Vec<_>>(),
                "loaded": loaded })
    }) }));
    if let Some(l) = r.ok() {
        queries("l", out, &l, rng);
    }
    let _ = std::fs::remove_dir_all(&d);
}

fn mode_link(out: &mut Out, n: u64, dir: &str, rng: &mut Rng) {
    for id in 0..n {
        let (objs, relocs) = gen_link_set(rng, id);
        let mut packed = Vec::new();
        let mut rel_json = Vec::new();
        let mut free = Vec::new();
        let mut gots = Vec::new();
        for (k, o) in objs.iter().enumerate() {
            let wr = write_elf(&o.img);
            if let Some(g) = &o.img.mips_got {
                free.push(json!({ "obj": k, "off": addr(wr.got_addr), "len": 4 * g.local_gotno }));
                gots.push((k, wr.got_addr, g.clone()));
                // every global GOT entry names a dynamic symbol
                for (i, s) in o.img.dynsym.iter().enumerate() {
                    let idx = (i + 1) as u32;
                    if idx >= g.gotsym {
                        rel_json.push(json!({ "obj": k, "off": addr(wr.got_addr + 4 * (g.local_gotno + idx - g.gotsym) as u64), "sym": s.name }));
                    }
                }
            }
            packed.push((o.name.clone(), wr.file.clone(), desc_json(&o.img, &wr)));
        }
        for (k, off, name) in &relocs {
            rel_json.push(json!({ "obj": k, "off": addr(*off), "sym": name }));
        }
        link_session(out, id, dir, &packed, &json!(rel_json), &json!(free), rng);
    }
}

// ------------------------------------------------------------------------------------------
// the JSON loader: the same Load interface, fed from a program specification in JSON
// ------------------------------------------------------------------------------------------
fn base64(b: &[u8], pad: bool) -> String {
    const T: &[u8; 64] = b"ABCDEFGHIJKLMNOPQRSTUVWXYZabcdefghijklmnopqrstuvwxyz0123456789+/";
    let mut s = String::new();
    for c in b.chunks(3) {
        let n = (c[0] as u32) << 16 | (*c.get(1).unwrap_or(&0) as u32) << 8 | *c.get(2).unwrap_or(&0) as u32;
        s.push(T[(n >> 18) as usize & 63] as char);
        s.push(T[(n >> 12) as usize & 63] as char);
        if c.len() > 1 {
            s.push(T[(n >> 6) as usize & 63] as char);
        } else if pad {
            s.push('=');
        }
        if c.len() > 2 {
            s.push(T[n as usize & 63] as char);
        } else if pad {
            s.push('=');
        }
    }
    s
}

/// description -> the text of the JSON file (what scripts/binaryninja-falcon writes: arch,
/// entry, functions [{name, address}], segments [{address, bytes: base64}])
fn json_text(j: &Value) -> String {
    let pad = j["pad"].as_bool().unwrap();
    let funcs: Vec<Value> = j["functions"].as_array().unwrap().iter()
        .map(|f| json!({ "name": f["name"], "address": addr_back(&f["address"]) })).collect();
    let segs: Vec<Value> = j["segments"].as_array().unwrap().iter()
        .map(|g| {
            let bytes: Vec<u8> = g["bytes"].as_array().unwrap().iter().map(|b| b.as_u64().unwrap() as u8).collect();
            json!({ "address": addr_back(&g["address"]), "bytes": base64(&bytes, pad) })
        }).collect();
    json!({ "arch": j["arch"], "entry": addr_back(&j["entry"]), "functions": funcs, "segments": segs }).to_string()
}

fn json_session(out: &mut Out, id: u64, dir: &str, j: &Value, rng: &mut Rng) {
    std::fs::create_dir_all(dir).expect("json dir");
    let path = format!("{}/j{}.json", dir, id);
    std::fs::write(&path, json_text(j)).expect("write json");
    out.emit(&json!({ "ev": "begin", "id": id, "src": "json", "jdesc": j }));
    out.emit(&json!({ "ev": "load", "base": addr(0), "users": [] }));
    let r = guard(|| Json::from_file(std::path::Path::new(&path)));
    out.emit(&json!({ "ev": "new", "res": r.json(|_| json!(1)) }));
    if let Some(l) = r.ok() {
        out.emit(&json!({ "ev": "arch", "name": l.architecture().name(),
            "endian": match l.architecture().endian() { falcon::architecture::Endian::Big => "big", falcon::architecture::Endian::Little => "little" } }));
        queries("", out, &l, rng);
    }
    let _ = std::fs::remove_file(&path);
}

fn mode_json(out: &mut Out, n: u64, dir: &str, rng: &mut Rng) {
    for id in 0..n {
        let region: u64 = *rng.pick(&[0x1000u64, 0x0804_8000, 0x7fff_f000, 0xffff_0000, 0x1_0000_0000, 0x7fff_ffff_ffff_0000]);
        let clustered = rng.chance(1, 3);
        let mut segs = Vec::new();
        for i in 0..rng.below(4) {
            let len = match rng.below(8) { 0 => 0, 1 => 3 * rng.range(1, 6), _ => rng.range(1, 20) };
            let a = if clustered { region + rng.below(24) } else { region + i * 0x100 + rng.below(8) };
            segs.push(json!({ "address": addr(a), "bytes": rand_bytes(rng, len).iter().map(|b| *b as u64).collect::<Vec<_>>() }));
        }
        let mut funcs = Vec::new();
        for i in 0..rng.below(5) {
            let a = match rng.below(6) { 0 => 0, _ => region + rng.below(0x120) };
            funcs.push(json!({ "address": addr(a), "name": format!("fn{}", i) }));
        }
        let entry = if rng.chance(1, 4) && !funcs.is_empty() { addr_back(&funcs[0]["address"]) } else { region + rng.below(0x40) };
        let j = json!({ "arch": "x86", "entry": addr(entry), "functions": funcs, "segments": segs, "pad": rng.chance(2, 3) });
        json_session(out, id, dir, &j, rng);
    }
}

// ------------------------------------------------------------------------------------------
// the PE loader on real files (corpus/c19/*.exe, *.dll; descriptions from llvm-readobj)
// ------------------------------------------------------------------------------------------
fn pe_session(out: &mut Out, id: u64, root: &str, item: &Value, rng: &mut Rng) {
    let rel = item["path"].as_str().unwrap();
    let bytes = std::fs::read(format!("{}/{}", root, rel)).expect("read pe file");
    out.emit(&json!({ "ev": "begin", "id": id, "src": "pe", "path": rel, "lift": item["lift"], "pdesc": item["pdesc"] }));
    out.emit(&json!({ "ev": "load", "base": addr(0), "users": [] }));
    let r = guard(|| Pe::new(bytes.clone()));
    out.emit(&json!({ "ev": "new", "res": r.json(|_| json!(1)) }));
    if let Some(l) = r.ok() {
        out.emit(&json!({ "ev": "arch", "name": l.architecture().name(),
            "endian": match l.architecture().endian() { falcon::architecture::Endian::Big => "big", falcon::architecture::Endian::Little => "little" } }));
        queries("", out, &l, rng);
        if item["lift"].as_bool().unwrap_or(false) {
            lift_events("", out, &l);
        }
    }
}

fn mode_pe(out: &mut Out, list: &str, rng: &mut Rng) {
    let l: Value = serde_json::from_str(&std::fs::read_to_string(list).expect("read list")).expect("list json");
    let root = arg_str("root", "/verif");
    for (id, item) in l.as_array().expect("list").iter().enumerate() {
        pe_session(out, id as u64, &root, item, rng);
    }
}

// ------------------------------------------------------------------------------------------
// real files, dump, replay
// ------------------------------------------------------------------------------------------
fn mode_files(out: &mut Out, list: &str, rng: &mut Rng) {
    let l: Value = serde_json::from_str(&std::fs::read_to_string(list).expect("read list")).expect("list json");
    for (id, item) in l.as_array().expect("list").iter().enumerate() {
        let path = item["path"].as_str().unwrap();
        let bytes = std::fs::read(path).expect("read elf file");
        out.emit(&json!({ "ev": "begin", "id": id, "src": "file", "desc": item["desc"], "path": item["rel"] }));
        let is64 = item["desc"]["cls"].as_u64() == Some(64);
        let users: Vec<u64> = item["users"].as_array().map(|v| v.iter().map(addr_back).collect()).unwrap_or_default();
        for base in bases_for(is64) {
            observe(out, &bytes, base, &users, rng, true);
        }
    }
}

fn mode_dump(out: &mut Out, n: u64, dir: &str, rng: &mut Rng) {
    std::fs::create_dir_all(dir).expect("dump dir");
    for id in 0..n {
        let (img, _) = gen_image(rng);
        let wr = write_elf(&img);
        let p = format!("{}/g{}.elf", dir, id);
        std::fs::write(&p, &wr.file).expect("write");
        out.emit(&json!({ "path": p, "desc": desc_json(&img, &wr) }));
    }
    // generated code images (the call graph is checked against a disassembler by checks/c19.py)
    for id in 0..(n / 2 + 7) {
        let (img, _, extra) = gen_code_image(rng, id);
        let wr = write_elf(&img);
        let p = format!("{}/c{}.elf", dir, id);
        std::fs::write(&p, &wr.file).expect("write");
        let mut d = desc_json(&img, &wr);
        d["code"] = extra["code"].clone();
        out.emit(&json!({ "path": p, "desc": d }));
    }
    // and the objects of a few linked sets (dynamic sections, relocations, MIPS GOT)
    for id in 0..(n / 4 + 3) {
        let (objs, _) = gen_link_set(rng, id);
        for o in &objs {
            let wr = write_elf(&o.img);
            let p = format!("{}/l{}-{}", dir, id, o.name);
            std::fs::write(&p, &wr.file).expect("write");
            let mut d = desc_json(&o.img, &wr);
            d["needed"] = json!(o.img.needed);
            d["dynrel"] = json!(o.img.dynrel.iter().map(|r| json!({ "off": addr(r.off), "sym": r.sym, "type": r.typ })).collect::<Vec<_>>());
            out.emit(&json!({ "path": p, "desc": d }));
        }
    }
}

fn mode_replay(out: &mut Out, input: &str, dir: &str, rng: &mut Rng) {
    let rep: Value = serde_json::from_str(&std::fs::read_to_string(input).expect("read replay")).expect("replay json");
    let s = &rep["session"];
    if s["src"] == "link" {
        let objs: Vec<(String, Vec<u8>, Value)> = s["objs"].as_array().unwrap().iter()
            .map(|o| (o["name"].as_str().unwrap().to_string(), unhex(o["file"].as_str().unwrap()), o["desc"].clone())).collect();
        link_session(out, s["id"].as_u64().unwrap_or(0), dir, &objs, &s["relocs"], &s["free"], rng);
        return;
    }
    if s["src"] == "json" {
        json_session(out, s["id"].as_u64().unwrap_or(0), dir, &s["jdesc"], rng);
        return;
    }
    if s["src"] == "pe" {
        pe_session(out, s["id"].as_u64().unwrap_or(0), &arg_str("root", "/verif"), s, rng);
        return;
    }
    let bytes = if let Some(h) = s["file"].as_str() {
        unhex(h)
    } else {
        let root = arg_str("root", "/verif");
        std::fs::read(format!("{}/{}", root, s["path"].as_str().unwrap())).expect("read corpus file")
    };
    let mut b = s.clone();
    b["ev"] = json!("begin");
    out.emit(&b);
    for l in rep["loads"].as_array().unwrap() {
        let users: Vec<u64> = l["users"].as_array().unwrap().iter().map(addr_back).collect();
        observe(out, &bytes, addr_back(&l["base"]), &users, rng, s["src"] == "code" || s["src"] == "file");
    }
}

fn main() {
    fv::quiet_panics();
    let mode = arg_str("mode", "random");
    let mut out = Out::create(&arg_str("out", "/dev/stdout"));
    let mut rng = Rng::new(fv::seed_from_env() ^ 0xC19);
    let dir = arg_str("dir", "/verif/work/c19/link");
    match mode.as_str() {
        "random" => mode_random(&mut out, arg_u64("n", 100), &mut rng),
        "enum" => mode_enum(&mut out, arg_u64("maxsz", 2), &mut rng),
        "code" => mode_code(&mut out, arg_u64("n", 20), &mut rng),
        "json" => mode_json(&mut out, arg_u64("n", 20), &dir, &mut rng),
        "pe" => mode_pe(&mut out, &arg_str("list", ""), &mut rng),
        "files" => mode_files(&mut out, &arg_str("list", ""), &mut rng),
        "link" => mode_link(&mut out, arg_u64("n", 10), &dir, &mut rng),
        "dump" => mode_dump(&mut out, arg_u64("n", 20), &dir, &mut rng),
        "replay" => mode_replay(&mut out, &arg_str("in", ""), &dir, &mut rng),
        _ => {
            eprintln!("unknown mode {}", mode);
            std::process::exit(2);
        }
    }
    out.finish();
}
