//! C06 recorder: function recovery (translate_function_extended) on real MIPS machine code.
//!
//!   c06 --mode random --arch mips|mipsel --n N --runs R --out FILE      (VERIF_SEED)
//!   c06 --mode replay --in FILE --out FILE          (re-drive the inputs of the recorded sessions)
//!
//! One *session* per program:
//!   {"ev":"begin", ...}   the program (raw words, base address, entry index, manual edges), the
//!                          outcome of translate_function_extended and - when it succeeded - the
//!                          projected function: per IL block the native addresses of its IL
//!                          instructions in order, the edges, the entry block, function.address();
//!                          plus, per word, the number of IL instructions that lifting that
//!                          instruction ALONE (translate_block on the word and its successor)
//!                          attaches to its address / pseudo-address (the "exactly once" yardstick)
//!   {"ev":"run", ...}      an initial state, the bound N, the sequence of native instruction
//!                          addresses the real executor::Driver visited (raw, pseudo-addresses
//!                          included), why it stopped, and the final registers / HI / LO / window
//!
//! Programs come from templates over the instruction classes on which C02 is clean (single- and
//! multi-block ALU, loads/stores through a fixed base register, conditional branches, b, j, jal,
//! jr $ra, jr $t9 with manual edges); delay slots never touch $ra / the jump register, so the
//! known delay-slot ordering defect of C02 cannot show up here.  Nothing is judged in here:
//! spec/trace/Trace_C06.tla decodes the words itself (Mips.tla) and decides.

use falcon::architecture::{self, Architecture, Endian};
use falcon::executor::{Driver, Memory, State};
use falcon::il;
use falcon::memory::{backing, MemoryPermissions};
use falcon::translator::{ManualEdge, Options, Translator};
use falcon::RC;
use falcon_capstone::capstone;
use fv::{guard, Out, Outcome, Rng};
use num_bigint::BigUint;
use serde_json::{json, Value};

macro_rules! pk {
    ($rng:expr, [$($x:expr),* $(,)?]) => {{
        let arr = [$($x),*];
        let i = $rng.below(arr.len() as u64) as usize;
        arr[i]
    }};
}

const WIN: usize = 64;
const MAX_IL_STEPS: usize = 4000;
const BASE_REG: u32 = 16; // $s0: base of the data window, never written by a program
const JR_REG: u32 = 25; // $t9: register of the jr with manual edges, never written by a program

#[derive(Clone, Copy, PartialEq, Debug)]
enum Arch {
    Mips,
    Mipsel,
    Ppc,
}

impl Arch {
    fn name(self) -> &'static str {
        match self {
            Arch::Mips => "mips",
            Arch::Mipsel => "mipsel",
            Arch::Ppc => "ppc",
        }
    }
    fn parse(s: &str) -> Arch {
        match s {
            "mips" => Arch::Mips,
            "mipsel" => Arch::Mipsel,
            "ppc" => Arch::Ppc,
            _ => panic!("unknown arch {}", s),
        }
    }
    fn bytes(self, w: u32) -> [u8; 4] {
        match self {
            Arch::Mipsel => w.to_le_bytes(),
            _ => w.to_be_bytes(),
        }
    }
    fn word(self, b: &[u8]) -> u32 {
        match self {
            Arch::Mipsel => u32::from_le_bytes([b[0], b[1], b[2], b[3]]),
            _ => u32::from_be_bytes([b[0], b[1], b[2], b[3]]),
        }
    }
    fn is_mips(self) -> bool {
        self != Arch::Ppc
    }
    fn gpr_name(self, i: usize) -> String {
        if self.is_mips() {
            MIPS_NAMES[i].to_string()
        } else {
            format!("r{}", i)
        }
    }
    fn endian(self) -> Endian {
        match self {
            Arch::Mipsel => Endian::Little,
            _ => Endian::Big,
        }
    }
    fn translator(self) -> Box<dyn Translator> {
        match self {
            Arch::Mips => Box::new(falcon::translator::mips::Mips::new()),
            Arch::Mipsel => Box::new(falcon::translator::mips::Mipsel::new()),
            Arch::Ppc => Box::new(falcon::translator::ppc::Ppc::new()),
        }
    }
}

const MIPS_NAMES: [&str; 32] = [
    "$zero", "$at", "$v0", "$v1", "$a0", "$a1", "$a2", "$a3", "$t0", "$t1", "$t2", "$t3", "$t4", "$t5", "$t6",
    "$t7", "$s0", "$s1", "$s2", "$s3", "$s4", "$s5", "$s6", "$s7", "$t8", "$t9", "$k0", "$k1", "$gp", "$sp",
    "$fp", "$ra",
];

fn cr_name(i: usize) -> String {
    format!("cr{}-{}", i / 4, ["lt", "gt", "eq", "so"][i % 4])
}
fn l32(v: u32) -> Value {
    json!(v.to_le_bytes())
}
fn l64(v: u64) -> Value {
    json!(v.to_le_bytes())
}
fn from_l32(v: &Value) -> u32 {
    let mut x = 0u32;
    for (i, b) in v.as_array().unwrap().iter().enumerate().take(4) {
        x |= (b.as_u64().unwrap() as u32) << (8 * i);
    }
    x
}
fn cval(c: Option<&il::Constant>) -> Value {
    match c {
        Some(c) => json!({"w": c.bits(), "v": fv::proj::limbs(c.value(), c.bits())}),
        None => json!({"w": 0, "v": []}),
    }
}
fn asm(arch: Arch, addr: u32, word: u32) -> String {
    let mode = match arch {
        Arch::Mipsel => capstone::CS_MODE_32 | capstone::CS_MODE_LITTLE_ENDIAN,
        _ => capstone::CS_MODE_32 | capstone::CS_MODE_BIG_ENDIAN,
    };
    let cs_arch = if arch.is_mips() { capstone::cs_arch::CS_ARCH_MIPS } else { capstone::cs_arch::CS_ARCH_PPC };
    let cs = match capstone::Capstone::new(cs_arch, mode) {
        Ok(cs) => cs,
        Err(_) => return "?".into(),
    };
    match cs.disasm(&arch.bytes(word), addr as u64, 1) {
        Ok(is) => match is.get(0) {
            Some(i) => format!("{} {}", i.mnemonic, i.op_str),
            None => "(undecodable)".into(),
        },
        Err(_) => "(undecodable)".into(),
    }
}

#[derive(Clone)]
struct Prog {
    arch: Arch,
    base: u32,
    entry: usize,
    words: Vec<u32>,
    manual: Vec<(usize, usize)>, // (index of a jr, index of a target)
    tmpl: String,
}

#[derive(Clone)]
struct Init {
    gpr: [u32; 32],
    hi: u32, // ppc: lr
    lo: u32, // ppc: ctr
    ca: u8,
    cr: [u8; 32],
    win: u32,
    mem0: Vec<u8>,
    n: usize,
}

impl Prog {
    fn addr(&self, i: usize) -> u32 {
        self.base.wrapping_add(4 * i as u32)
    }
    fn code_bytes(&self) -> Vec<u8> {
        self.words.iter().flat_map(|w| self.arch.bytes(*w).to_vec()).collect()
    }
    fn backing(&self, data: Option<(&Init,)>) -> backing::Memory {
        let mut bk = backing::Memory::new(self.arch.endian());
        bk.set_memory(self.base as u64, self.code_bytes(), MemoryPermissions::READ | MemoryPermissions::EXECUTE);
        if let Some((init,)) = data {
            bk.set_memory(init.win as u64, init.mem0.clone(), MemoryPermissions::READ | MemoryPermissions::WRITE);
        }
        bk
    }
    fn options(&self) -> Options {
        let mut o = Options::new();
        for (h, t) in &self.manual {
            o.add_manual_edge(ManualEdge::new(self.addr(*h) as u64, self.addr(*t) as u64, None));
        }
        o
    }
}

// --------------------------------------------------------------------------------------
// structure
// --------------------------------------------------------------------------------------
fn alone(p: &Prog, i: usize) -> Value {
    // lift word i (together with the following word: a branch needs its delay slot) on its own
    let arch = p.arch;
    let mut bytes = arch.bytes(p.words[i]).to_vec();
    if i + 1 < p.words.len() {
        bytes.extend(arch.bytes(p.words[i + 1]).iter());
    }
    let a = p.addr(i) as u64;
    let t = arch.translator();
    match guard(|| t.translate_block(&bytes, a, &Options::new())) {
        Outcome::Ok(r) => {
            let (mut n, mut np, mut nb) = (0u64, 0u64, 0u64);
            for (_, g) in r.instructions() {
                for b in g.blocks() {
                    let mut here = false;
                    for ins in b.instructions() {
                        if ins.address() == Some(a) {
                            n += 1;
                            here = true;
                        } else if ins.address() == Some(a + 1) {
                            np += 1;
                        }
                    }
                    if here {
                        nb += 1;
                    }
                }
            }
            json!([n, np, nb])
        }
        _ => json!([-1, -1, -1]),
    }
}

fn begin_event(p: &Prog, id: u64) -> (Value, Option<il::Function>) {
    let arch = p.arch;
    let mut ev = json!({
        "ev": "begin", "id": id, "arch": arch.name(), "tmpl": p.tmpl,
        "base": l32(p.base), "entry": p.entry,
        "words": p.words.iter().map(|w| json!(arch.bytes(*w))).collect::<Vec<_>>(),
        "manual": p.manual.iter().map(|(h, t)| json!([h, t])).collect::<Vec<_>>(),
        "asm": p.words.iter().enumerate().map(|(k, w)| asm(arch, p.addr(k), *w)).collect::<Vec<_>>(),
        "alone": (0..p.words.len()).map(|i| alone(p, i)).collect::<Vec<_>>(),
    });
    let bk = p.backing(None);
    let t = arch.translator();
    let opts = p.options();
    let entry = p.addr(p.entry) as u64;
    let mut msg = String::new();
    let lifted = guard(|| {
        t.translate_function_extended(&bk, entry, &opts).map_err(|e| {
            msg = format!("{}", e).chars().take(200).collect();
            e
        })
    });
    match lifted {
        Outcome::Ok(f) => {
            ev["lift"] = json!({"ok": 0});
            let g = f.control_flow_graph();
            let mut blocks = g.blocks();
            blocks.sort_by_key(|b| b.index());
            ev["blocks"] = json!(blocks
                .iter()
                .map(|b| json!({"i": b.index(),
                    "ins": b.instructions().iter().map(|i| l64(i.address().unwrap_or(u64::MAX))).collect::<Vec<_>>()}))
                .collect::<Vec<_>>());
            let mut edges = g.edges();
            edges.sort_by_key(|e| (e.head(), e.tail()));
            ev["edges"] = json!(edges
                .iter()
                .map(|e| json!({"h": e.head(), "t": e.tail(), "c": e.condition().is_some() as u8}))
                .collect::<Vec<_>>());
            ev["fentry"] = json!(g.entry().map(|x| x as i64).unwrap_or(-1));
            ev["faddr"] = l64(f.address());
            (ev, Some(f))
        }
        other => {
            ev["lift"] = other.json(|_| json!(0));
            ev["liftmsg"] = json!(msg);
            (ev, None)
        }
    }
}

// --------------------------------------------------------------------------------------
// run
// --------------------------------------------------------------------------------------
fn run_event(p: &Prog, f: &il::Function, init: &Init) -> Value {
    let arch = p.arch;
    let mut ev = json!({
        "ev": "run", "n": init.n,
        "gpr": init.gpr.iter().map(|v| l32(*v)).collect::<Vec<_>>(),
        "win": l32(init.win), "mem0": init.mem0,
    });
    if arch.is_mips() {
        ev["hi"] = l32(init.hi);
        ev["lo"] = l32(init.lo);
    } else {
        ev["lr"] = l32(init.hi);
        ev["ctr"] = l32(init.lo);
        ev["ca"] = json!(init.ca);
        ev["cr"] = json!(init.cr.to_vec());
    }
    let mut program = il::Program::new();
    program.add_function(f.clone());
    let loc: il::ProgramLocation = match guard(|| match il::RefProgramLocation::from_function(program.function(0).unwrap()) {
        Some(r) => r.map(|l| l.into()),
        None => Err(falcon::Error::Custom("no entry location".into())),
    }) {
        Outcome::Ok(l) => l,
        other => {
            ev["out"] = json!({"k": "noentry", "d": other.json(|_| json!(0))});
            ev["pcs"] = json!([]);
            return ev;
        }
    };
    let mut state = State::new(Memory::new_with_backing(arch.endian(), RC::new(p.backing(Some((init,))))));
    for i in (if arch.is_mips() { 1 } else { 0 })..32 {
        state.set_scalar(arch.gpr_name(i), il::const_(init.gpr[i] as u64, 32));
    }
    if arch.is_mips() {
        state.set_scalar("$hi", il::const_(init.hi as u64, 32));
        state.set_scalar("$lo", il::const_(init.lo as u64, 32));
    } else {
        state.set_scalar("lr", il::const_(init.hi as u64, 32));
        state.set_scalar("ctr", il::const_(init.lo as u64, 32));
        state.set_scalar("carry", il::const_(init.ca as u64, 1));
        for i in 0..32 {
            state.set_scalar(cr_name(i), il::const_(init.cr[i] as u64, 1));
        }
    }
    let arch_rc: RC<dyn Architecture> = match arch {
        Arch::Mips => RC::new(architecture::Mips::new()),
        Arch::Mipsel => RC::new(architecture::Mipsel::new()),
        Arch::Ppc => RC::new(architecture::Ppc::new()),
    };
    let mut d = Driver::new(RC::new(program), loc, state, arch_rc);
    let (lo, hi) = (p.base as u64, p.base as u64 + 4 * p.words.len() as u64);
    let mut pcs: Vec<u64> = Vec::new(); // raw addresses, logged on change
    let mut natives = 0usize; // aligned addresses started
    let mut steps = 0usize;
    let mut after_branch = false;
    let out;
    loop {
        let (cur, op) = match guard(|| {
            let l = d.location().apply(d.program())?;
            Ok((l.address(), l.instruction().map(|i| i.operation().clone())))
        }) {
            Outcome::Ok(x) => x,
            other => {
                out = json!({"k": "badloc", "d": other.json(|_| json!(0))});
                break;
            }
        };
        if let Some(a) = cur {
            // a new native instruction starts when the address changes, or right after an executed IL Branch
            // (an indirect jump may land on its own address)
            if pcs.last() != Some(&a) || after_branch {
                after_branch = false;
                if a % 4 == 0 {
                    if natives == init.n {
                        out = json!({"k": "limit", "npc": l64(a)});
                        break;
                    }
                    natives += 1;
                }
                pcs.push(a);
            }
        }
        if let Some(il::Operation::Branch { target }) = &op {
            match guard(|| d.state().symbolize_and_eval(target)) {
                Outcome::Ok(c) => match c.value_u64() {
                    Some(v) if v >= lo && v < hi && v % 4 == 0 => after_branch = true,
                    Some(v) => {
                        out = json!({"k": "exit", "npc": l64(v), "npcw": c.bits()});
                        break;
                    }
                    None => {
                        out = json!({"k": "err", "e": "branch target wider than 64 bits"});
                        break;
                    }
                },
                other => {
                    out = json!({"k": "err", "e": "branch target", "d": other.json(|_| json!(0))});
                    break;
                }
            }
        }
        if let Some(il::Operation::Intrinsic { intrinsic }) = &op {
            out = json!({"k": "intrinsic", "mn": intrinsic.mnemonic()});
            break;
        }
        if steps >= MAX_IL_STEPS {
            out = json!({"k": "steps"});
            break;
        }
        let d2 = d.clone();
        match guard(move || d2.step()) {
            Outcome::Ok(nd) => d = nd,
            Outcome::Err(e) => {
                out = json!({"k": "err", "e": e});
                break;
            }
            Outcome::Panic(m) => {
                out = json!({"k": "panic", "m": m});
                break;
            }
            Outcome::Timeout(_) => unreachable!(),
        }
        steps += 1;
    }
    ev["out"] = out;
    ev["steps"] = json!(steps);
    ev["pcs"] = json!(pcs.iter().map(|a| l64(*a)).collect::<Vec<_>>());
    ev["nfun"] = json!(d.program().functions().len());
    let st = d.state();
    let mem1: Vec<i64> = (0..WIN as u64)
        .map(|i| match guard(|| st.memory().load(init.win as u64 + i, 8)) {
            Outcome::Ok(Some(c)) => c.value_u64().map(|x| x as i64).unwrap_or(-2),
            Outcome::Ok(None) => -1,
            _ => -3,
        })
        .collect();
    let mut pages: Vec<u64> = st.memory().pages().keys().cloned().collect();
    pages.sort();
    let mut post = json!({
        "gpr": (0..32).map(|i| cval(st.get_scalar(&arch.gpr_name(i)))).collect::<Vec<_>>(),
        "mem1": mem1,
        "pages": pages.iter().map(|p| l64(*p)).collect::<Vec<_>>(),
    });
    if arch.is_mips() {
        post["hi"] = cval(st.get_scalar("$hi"));
        post["lo"] = cval(st.get_scalar("$lo"));
    } else {
        post["lr"] = cval(st.get_scalar("lr"));
        post["ctr"] = cval(st.get_scalar("ctr"));
        post["ca"] = cval(st.get_scalar("carry"));
        post["cr"] = json!((0..32).map(|i| cval(st.get_scalar(&cr_name(i)))).collect::<Vec<_>>());
    }
    ev["post"] = post;
    ev
}

// --------------------------------------------------------------------------------------
// generation
// --------------------------------------------------------------------------------------
fn v32(rng: &mut Rng) -> u32 {
    let b: BigUint = rng.interesting(32);
    b.iter_u32_digits().next().unwrap_or(0)
}
const DST: [u32; 22] = [2, 3, 4, 5, 6, 7, 8, 9, 10, 11, 12, 13, 14, 15, 17, 18, 19, 20, 21, 22, 23, 24];
fn dst(rng: &mut Rng) -> u32 {
    // a small pool makes data dependences (and loops that terminate) likely
    if rng.chance(2, 3) {
        DST[rng.below(6) as usize]
    } else {
        *rng.pick(&DST)
    }
}
fn src(rng: &mut Rng) -> u32 {
    if rng.chance(1, 8) {
        0
    } else {
        dst(rng)
    }
}
fn imm16(rng: &mut Rng) -> u32 {
    match rng.below(8) {
        0 => 0,
        1 => 1,
        2 => 0xffff,
        3 => 0x8000,
        4 => 0x7fff,
        _ => rng.below(0x10000) as u32,
    }
}

/// one non-branch instruction (never traps, never faults: memory goes through $s0 + small offset)
fn simple(rng: &mut Rng) -> u32 {
    let (rs, rt, rd) = (src(rng), src(rng), dst(rng));
    let r3 = |f: u32| (rs << 21) | (rt << 16) | (rd << 11) | f;
    let i3 = |op: u32, imm: u32| (op << 26) | (rs << 21) | (rd << 16) | imm;
    let mem = |op: u32, reg: u32, off: u32| (op << 26) | (BASE_REG << 21) | (reg << 16) | off;
    match rng.below(34) {
        0 | 1 => r3(0x21),                                                         // addu
        2 => r3(0x23),                                                             // subu
        3 => r3(0x24),                                                             // and
        4 => r3(0x25),                                                             // or
        5 => r3(0x26),                                                             // xor
        6 => (rs << 21) | (dst(rng) << 16) | (rd << 11) | 0x27,                    // nor (rt != $zero: `not` is refused)
        7 => r3(0x2a),                                                             // slt   (four IL blocks)
        8 => r3(0x2b),                                                             // sltu
        9 => r3(0x0a),                                                             // movz  (three IL blocks)
        10 => r3(0x0b),                                                            // movn
        11 => (rt << 16) | (rd << 11) | ((rng.below(32) as u32) << 6),             // sll
        12 => (rt << 16) | (rd << 11) | ((rng.below(32) as u32) << 6) | 2,         // srl
        13 => (rt << 16) | (rd << 11) | ((rng.below(32) as u32) << 6) | 3,         // sra
        14 => r3(0x04),                                                            // sllv
        15 | 16 | 17 => i3(9, imm16(rng)),                                         // addiu
        18 => i3(9, pk!(rng, [0xffffu32, 1, 0xfffe, 2])),                          // addiu +-1/2 (loop counters)
        19 => i3(12, imm16(rng)),                                                  // andi
        20 => i3(13, imm16(rng)),                                                  // ori
        21 => i3(14, imm16(rng)),                                                  // xori
        22 => (15 << 26) | (rd << 16) | imm16(rng),                                // lui
        23 => i3(10, imm16(rng)),                                                  // slti
        24 => i3(11, imm16(rng)),                                                  // sltiu
        25 | 26 => mem(35, rd, 4 * rng.below(16) as u32),                          // lw
        27 | 28 => mem(43, rt, 4 * rng.below(16) as u32),                          // sw
        29 => mem(pk!(rng, [32u32, 36]), rd, rng.below(64) as u32),                // lb / lbu
        30 => mem(40, rt, rng.below(64) as u32),                                   // sb
        31 => mem(pk!(rng, [33u32, 37, 41]), if rng.bool() { rd } else { rt.max(2) }, 2 * rng.below(32) as u32), // lh / lhu / sh
        32 => (rs << 21) | (rt << 16) | pk!(rng, [0x18u32, 0x19]),                 // mult / multu
        _ => (rd << 11) | pk!(rng, [0x10u32, 0x12]),                               // mfhi / mflo
    }
}

#[derive(Clone, Copy, PartialEq)]
enum BK {
    Cond,
    B,
    J,
    Jal,
    JrRa,
    JrMan,
}

fn gen_prog(rng: &mut Rng, arch: Arch) -> Prog {
    let n = match rng.below(8) {
        0 => rng.range(4, 10),
        1 | 2 => rng.range(15, 20),  // around one window
        3 => rng.range(30, 36),      // around two windows
        4 => rng.range(17, 48),
        _ => rng.range(6, 40),
    } as usize;
    let base: u32 = pk!(rng, [0x0040_0000u32, 0x0040_0000, 0x8000_1000, 0x0fff_f000, 0x7fff_ff80, 0x0001_0000])
        + 4 * pk!(rng, [0u32, 0, 1, 3, 7, 15, rng.below(16) as u32]);
    let mut words: Vec<u32> = (0..n).map(|_| simple(rng)).collect();
    words[n - 2] = 0x03e0_0008; // jr $ra
    words[n - 1] = 0; // nop
    let mut is_branch = vec![false; n];
    is_branch[n - 2] = true;
    // entry: mostly the first word, sometimes in the middle (code before it is reached by backward branches)
    let mut entry = if n < 8 || rng.chance(3, 5) { 0 } else { rng.below((n / 2) as u64) as usize };
    let straight = rng.chance(1, 8);
    let nb = if straight { 0 } else { rng.range(1, 2 + (n / 6) as u64) as usize };
    let mut branches: Vec<(usize, BK)> = Vec::new();
    let mut tmpl: Vec<String> = vec![if straight { "straight".into() } else { "branchy".into() }];
    for _ in 0..nb {
        // position: biased to the words 14, 15 (offsets 56, 60 of the entry window) and their neighbours
        let i = match rng.below(6) {
            0 => entry + 15,
            1 => entry + 14,
            2 => entry + 13,
            3 => entry + 16,
            _ => rng.below(n as u64) as usize,
        };
        if i + 3 >= n || is_branch[i] || is_branch[i + 1] || (i > 0 && is_branch[i - 1]) {
            continue;
        }
        let kind = match rng.below(12) {
            0 => BK::B,
            1 => BK::J,
            2 => BK::Jal,
            3 if !branches.iter().any(|b| b.1 == BK::JrMan) => BK::JrMan,
            4 if i + 4 < n && rng.chance(1, 2) => BK::JrRa,
            _ => BK::Cond,
        };
        is_branch[i] = true;
        branches.push((i, kind));
    }
    let is_delay: Vec<bool> = (0..n).map(|k| k > 0 && is_branch[k - 1]).collect();
    while is_delay[entry] {
        entry -= 1; // a function does not start in a delay slot
    }
    let pick_target = |rng: &mut Rng, from: usize| -> usize {
        for _ in 0..20 {
            let t = match rng.below(9) {
                8 => from + 2,                           // the instruction behind the delay slot: both successors coincide
                0 => entry + 15,                         // last word of the entry window
                1 => entry + 16,                         // first word of the next window
                2 => entry + rng.below(15) as usize + 1, // inside the block lifted first
                3 if from > 0 => rng.below(from as u64) as usize, // backward
                4 => from + 2 + rng.below(6) as usize,   // short forward
                _ => rng.below(n as u64) as usize,
            };
            if t >= n {
                continue;
            }
            // a target that is a delay slot is legal but rare in real code: keep it rare
            if is_delay[t] && !rng.chance(1, 30) {
                continue;
            }
            return t;
        }
        n - 2
    };
    let mut manual = Vec::new();
    let base_hi = base & 0xf000_0000;
    for (i, kind) in &branches {
        let i = *i;
        let rel = |t: usize| ((t as i64 - (i as i64 + 1)) as u32) & 0xffff;
        match kind {
            BK::Cond => {
                let t = pick_target(rng, i);
                let (rs, rt) = (dst(rng), src(rng));
                words[i] = match rng.below(8) {
                    0 | 1 => (4 << 26) | (rs << 21) | (rt << 16) | rel(t),
                    2 | 3 | 4 => (5 << 26) | (rs << 21) | (rt << 16) | rel(t),
                    5 => (6 << 26) | (rs << 21) | rel(t),
                    6 => (7 << 26) | (rs << 21) | rel(t),
                    _ => (1 << 26) | (rs << 21) | ((rng.below(2) as u32) << 16) | rel(t),
                };
                tmpl.push(format!("cond@{}->{}", i, t));
            }
            BK::B => {
                let t = pick_target(rng, i);
                words[i] = (4 << 26) | rel(t);
                tmpl.push(format!("b@{}->{}", i, t));
            }
            BK::J | BK::Jal => {
                let t = pick_target(rng, i);
                let ta = base.wrapping_add(4 * t as u32);
                if (ta & 0xf000_0000) != base_hi || (base.wrapping_add(4 * i as u32 + 4) & 0xf000_0000) != base_hi {
                    words[i] = (4 << 26) | rel(t); // region boundary: fall back to b
                } else {
                    words[i] = ((if *kind == BK::J { 2 } else { 3 }) << 26) | ((ta & 0x0fff_ffff) >> 2);
                }
                tmpl.push(format!("{}@{}->{}", if *kind == BK::J { "j" } else { "jal" }, i, t));
            }
            BK::JrRa => {
                words[i] = 0x03e0_0008;
                tmpl.push(format!("jr-ra@{}", i));
            }
            BK::JrMan => {
                words[i] = (JR_REG << 21) | 8;
                for _ in 0..rng.range(1, 3) {
                    let t = pick_target(rng, i);
                    if !is_delay[t] && !manual.contains(&(i, t)) {
                        manual.push((i, t));
                    }
                }
                tmpl.push(format!("jr-manual@{}->{:?}", i, manual.iter().map(|m| m.1).collect::<Vec<_>>()));
            }
        }
        // delay slot: a harmless instruction (registers of DST only - never $ra / $t9), sometimes a nop
        if rng.chance(1, 3) {
            words[i + 1] = 0;
        }
    }
    // a jr with manual edges but no usable target degenerates into a plain indirect jump: fine
    Prog { arch, base, entry, words, manual, tmpl: tmpl.join(" ") }
}

// ---- PPC: the lifter refuses conditional branches, so control flow is b / bl / bctr (+ manual edges) -------
const PBASE: u32 = 31; // r31: base of the data window, never written by a program
const PDST: [u32; 10] = [3, 4, 5, 6, 7, 8, 9, 10, 11, 12];
fn pdst(rng: &mut Rng) -> u32 {
    let k = if rng.chance(2, 3) { 5 } else { 10 };
    PDST[rng.below(k) as usize]
}
fn ppc_simple(rng: &mut Rng) -> u32 {
    let (rt, ra, rb) = (pdst(rng), pdst(rng), pdst(rng));
    let x = |xo: u32| (31u32 << 26) | (rt << 21) | (ra << 16) | (rb << 11) | (xo << 1);
    let d = |op: u32, imm: u32| (op << 26) | (rt << 21) | (ra << 16) | imm;
    match rng.below(20) {
        0 | 1 => d(14, imm16(rng)),                                   // addi
        2 => (14 << 26) | (rt << 21) | imm16(rng),                    // li
        3 => d(15, imm16(rng)),                                       // addis
        4 => (15 << 26) | (rt << 21) | imm16(rng),                    // lis
        5 | 6 => x(266),                                              // add
        7 => x(40),                                                   // subf
        8 => (31 << 26) | (rt << 21) | (ra << 16) | (202 << 1),       // addze
        9 => (31 << 26) | (rt << 21) | (ra << 16) | ((rng.below(32) as u32) << 11) | (824 << 1), // srawi
        10 | 11 => (21 << 26) | (rt << 21) | (ra << 16) | ((rng.below(32) as u32) << 11) | ((1 + rng.below(31) as u32) << 6) | ((rng.below(31) as u32) << 1), // rlwinm (mb != 0, me != 31: no alias form)
        12 | 13 => (32 << 26) | (rt << 21) | (PBASE << 16) | (4 * rng.below(16) as u32), // lwz
        14 | 15 => (36 << 26) | (rt << 21) | (PBASE << 16) | (4 * rng.below(16) as u32), // stw
        16 => (34 << 26) | (rt << 21) | (PBASE << 16) | rng.below(64) as u32,            // lbz
        17 => (pk!(rng, [11u32, 10]) << 26) | ((rng.below(8) as u32) << 23) | (ra << 16) | imm16(rng), // cmpwi / cmplwi
        18 => (31 << 26) | (rt << 21) | (ra << 16) | (rt << 11) | (444 << 1),            // mr
        _ => pk!(rng, [0x6000_0000u32, (31 << 26) | (rt << 21) | (8 << 16) | (339 << 1), (31 << 26) | (rt << 21) | (8 << 16) | (467 << 1)]), // nop / mflr / mtlr
    }
}

fn gen_prog_ppc(rng: &mut Rng) -> Prog {
    let n = match rng.below(6) {
        0 => rng.range(3, 10),
        1 | 2 => rng.range(15, 20),
        3 => rng.range(30, 36),
        _ => rng.range(6, 44),
    } as usize;
    let base: u32 = pk!(rng, [0x1000_0000u32, 0x0040_0000, 0x8000_1000, 0x7fff_ff80]) + 4 * pk!(rng, [0u32, 0, 1, 5, 15, rng.below(16) as u32]);
    let mut words: Vec<u32> = (0..n).map(|_| ppc_simple(rng)).collect();
    words[n - 1] = 0x4e80_0420; // bctr: the way out (CTR holds an address outside the code)
    let entry = if n < 8 || rng.chance(3, 5) { 0 } else { rng.below((n / 2) as u64) as usize };
    let mut tmpl: Vec<String> = vec!["ppc".into()];
    let mut manual = Vec::new();
    let nb = if rng.chance(1, 8) { 0 } else { rng.range(1, 2 + (n / 6) as u64) as usize };
    let mut taken = vec![false; n];
    taken[n - 1] = true;
    for _ in 0..nb {
        let i = match rng.below(6) {
            0 => entry + 15,
            1 => entry + 14,
            2 => entry + 16,
            _ => rng.below(n as u64) as usize,
        };
        if i >= n - 1 || taken[i] {
            continue;
        }
        taken[i] = true;
        let t = match rng.below(7) {
            0 => entry + 15,
            1 => entry + 16,
            2 => entry + rng.below(15) as usize + 1,
            3 if i > 0 => rng.below(i as u64) as usize,
            4 => i + 1 + rng.below(6) as usize,
            _ => rng.below(n as u64) as usize,
        }
        .min(n - 1);
        // a one-instruction loop (b .) repeats the same address without a change in between: the address log
        // of the recorder cannot show it, so it is not generated
        let t = if t == i { i + 1 } else { t };
        let li = ((t as i64 - i as i64) as u32) & 0x00ff_ffff;
        match rng.below(8) {
            0 | 1 => {
                words[i] = (18 << 26) | (li << 2) | 1; // bl
                tmpl.push(format!("bl@{}->{}", i, t));
            }
            2 if !tmpl.iter().any(|x| x.starts_with("bctr-manual")) => {
                words[i] = 0x4e80_0420;
                for _ in 0..rng.range(1, 3) {
                    let t2 = rng.below(n as u64) as usize;
                    if !manual.contains(&(i, t2)) {
                        manual.push((i, t2));
                    }
                }
                tmpl.push(format!("bctr-manual@{}->{:?}", i, manual.iter().map(|m| m.1).collect::<Vec<_>>()));
            }
            _ => {
                words[i] = (18 << 26) | (li << 2); // b
                tmpl.push(format!("b@{}->{}", i, t));
            }
        }
    }
    Prog { arch: Arch::Ppc, base, entry, words, manual, tmpl: tmpl.join(" ") }
}

fn gen_init(rng: &mut Rng, p: &Prog) -> Init {
    if p.arch == Arch::Ppc {
        let mut gpr = [0u32; 32];
        for g in gpr.iter_mut() {
            *g = if rng.chance(1, 4) { rng.below(6) as u32 } else { v32(rng) };
        }
        let win = pk!(rng, [0x2000_8000u32, 0x7fff_0fe0, 0x2345_67c0, 0x0000_0100]);
        gpr[PBASE as usize] = win;
        let mut cr = [0u8; 32];
        for c in cr.iter_mut() {
            *c = rng.below(2) as u8;
        }
        // CTR: a manual target, another word of the code, or an address outside (ends the run)
        let ctr = if !p.manual.is_empty() && rng.chance(2, 3) {
            p.addr(rng.pick(&p.manual).1)
        } else if rng.chance(1, 5) {
            p.addr(rng.below(p.words.len() as u64) as usize)
        } else {
            pk!(rng, [0x0bad_0000u32, 0x7000_0000, 0])
        };
        return Init {
            gpr,
            hi: pk!(rng, [0x0bad_0000u32, v32(rng)]),
            lo: ctr,
            ca: rng.below(2) as u8,
            cr,
            win,
            mem0: (0..WIN).map(|_| rng.below(256) as u8).collect(),
            n: pk!(rng, [8usize, 20, 40, 64, 25 + rng.below(60) as usize]),
        };
    }
    let mut gpr = [0u32; 32];
    for g in gpr.iter_mut() {
        *g = match rng.below(4) {
            0 => rng.below(6) as u32, // small: loop counters, equal values
            _ => v32(rng),
        };
    }
    let win = pk!(rng, [0x1000_8000u32, 0x7fff_0fe0, 0x2345_67c0, 0x0000_0100]);
    gpr[BASE_REG as usize] = win;
    // return address: outside the code (ends the run) or - sometimes - back into it (an indirect jump to a
    // word that is the delay slot of a branch is legal but exotic: kept rare, like direct targets of that kind)
    let is_slot = |k: usize| k > 0 && {
        let w = p.words[k - 1];
        matches!(w >> 26, 1..=7) || (w >> 26 == 0 && (w & 0x3f) == 8)
    };
    let mut back = rng.below(p.words.len() as u64) as usize;
    if is_slot(back) && !rng.chance(1, 20) {
        back -= 1;
        if is_slot(back) {
            back = p.entry;
        }
    }
    gpr[31] = if rng.chance(1, 6) { p.addr(back) } else { pk!(rng, [0x0bad_0000u32, 0x7000_0000, 0]) };
    gpr[JR_REG as usize] = if p.manual.is_empty() || rng.chance(1, 10) {
        pk!(rng, [0x0bad_0000u32, p.addr(0), p.addr(p.entry)])
    } else {
        p.addr(rng.pick(&p.manual).1)
    };
    Init {
        gpr,
        hi: v32(rng),
        lo: v32(rng),
        ca: 0,
        cr: [0u8; 32],
        win,
        mem0: (0..WIN).map(|_| rng.below(256) as u8).collect(),
        n: pk!(rng, [8usize, 20, 40, 64, 25 + rng.below(60) as usize]),
    }
}

// --------------------------------------------------------------------------------------
// replay
// --------------------------------------------------------------------------------------
fn prog_from_event(v: &Value) -> Prog {
    let arch = Arch::parse(v["arch"].as_str().unwrap());
    Prog {
        arch,
        base: from_l32(&v["base"]),
        entry: v["entry"].as_u64().unwrap() as usize,
        words: v["words"]
            .as_array()
            .unwrap()
            .iter()
            .map(|w| arch.word(&w.as_array().unwrap().iter().map(|x| x.as_u64().unwrap() as u8).collect::<Vec<_>>()))
            .collect(),
        manual: v["manual"]
            .as_array()
            .unwrap()
            .iter()
            .map(|m| (m[0].as_u64().unwrap() as usize, m[1].as_u64().unwrap() as usize))
            .collect(),
        tmpl: v["tmpl"].as_str().unwrap_or("").to_string(),
    }
}
fn init_from_event(v: &Value) -> Init {
    let mut gpr = [0u32; 32];
    for (i, g) in v["gpr"].as_array().unwrap().iter().enumerate().take(32) {
        gpr[i] = from_l32(g);
    }
    let ppc = v.get("lr").is_some();
    let mut cr = [0u8; 32];
    if let Some(c) = v["cr"].as_array() {
        for (i, x) in c.iter().enumerate().take(32) {
            cr[i] = x.as_u64().unwrap() as u8;
        }
    }
    Init {
        gpr,
        hi: from_l32(if ppc { &v["lr"] } else { &v["hi"] }),
        lo: from_l32(if ppc { &v["ctr"] } else { &v["lo"] }),
        ca: v["ca"].as_u64().unwrap_or(0) as u8,
        cr,
        win: from_l32(&v["win"]),
        mem0: v["mem0"].as_array().unwrap().iter().map(|x| x.as_u64().unwrap() as u8).collect(),
        n: v["n"].as_u64().unwrap() as usize,
    }
}

fn main() {
    fv::quiet_panics();
    let mode = fv::arg_str("mode", "random");
    let mut out = Out::create(&fv::arg_str("out", "/dev/stdout"));
    match mode.as_str() {
        "random" => {
            let arch = Arch::parse(&fv::arg_str("arch", "mips"));
            let salt: u64 = match arch {
                Arch::Mips => 0xC06_0001,
                Arch::Mipsel => 0xC06_0002,
                Arch::Ppc => 0xC06_0003,
            };
            let mut rng = Rng::new(fv::seed_from_env() ^ (salt << 24));
            let n = fv::arg_u64("n", 100);
            let runs = fv::arg_u64("runs", 3);
            for id in 0..n {
                let p = if arch == Arch::Ppc { gen_prog_ppc(&mut rng) } else { gen_prog(&mut rng, arch) };
                let (ev, f) = begin_event(&p, id);
                out.emit(&ev);
                if let Some(f) = f {
                    for _ in 0..runs {
                        let init = gen_init(&mut rng, &p);
                        out.emit(&run_event(&p, &f, &init));
                    }
                }
            }
        }
        "replay" => {
            let text = std::fs::read_to_string(fv::arg_str("in", "")).expect("read");
            let mut cur: Option<(Prog, Option<il::Function>)> = None;
            let mut id = 0;
            for line in text.lines() {
                if line.trim().is_empty() {
                    continue;
                }
                let v: Value = serde_json::from_str(line).unwrap();
                if v["ev"] == "begin" {
                    let p = prog_from_event(&v);
                    let (ev, f) = begin_event(&p, id);
                    id += 1;
                    out.emit(&ev);
                    cur = Some((p, f));
                } else if v["ev"] == "run" {
                    if let Some((p, Some(f))) = &cur {
                        out.emit(&run_event(p, f, &init_from_event(&v)));
                    }
                }
            }
        }
        _ => panic!("unknown mode"),
    }
    eprintln!("c06: {} events", out.finish());
}
