//! C01 recorder: x86 / amd64 instruction instances, lifted-and-executed by falcon AND executed
//! natively on the host processor.  Nothing is judged here: spec/X86.tla (through
//! spec/trace/Trace_C01.tla) decides about both the `lifted` and the `cpu` event.
//!
//!   c01 --mode record --arch amd64|x86 --corpus DIR --n N [--only MN] --out FILE   (VERIF_SEED)
//!   c01 --mode replay --in FILE --out FILE          re-drive the `begin` events of FILE
//!   c01 --mode native --in FILE --out FILE          (internal) child process: native runs
//!
//! One session per instruction instance:
//!   {"ev":"begin","id":k,"mode":64|32,"asm":..,"bytes":[..],"addr":[limbs],"ins":{abstract
//!    instruction of corpus/c01/gen.py + "len"},"st":{"regs":[{"n","v"}],"fl":{"CF":..},
//!    "xmm":[{"n","v"}],"mem":[bytes of the window, or empty],"membase":[limbs]}}
//!   {"ev":"cpu","res":{"ok":FINAL}|{"fault":"SIGFPE"}|{"skip":why}}
//!   {"ev":"lifted","res":{"ok":FINAL}|{"lifterr":E}|{"err":E}|{"panic":msg}|{"timeout":n}}
//! FINAL = {"regs":[changed registers {"n","w","v"}],"fl":{all five},"xmm":[changed],
//!          "mem":[[offset,byte]] changed window bytes,"pc":[limbs]}
//! (changed = differs from the initial state of the begin event; a projection, not a verdict).

use falcon::architecture::{self, Architecture, Endian};
use falcon::executor::{Driver, Memory, State};
use falcon::il;
use falcon::memory;
use falcon::translator::x86::{Amd64, X86};
use falcon::translator::Translator;
use falcon::RC;
use fv::{guard, Out, Outcome, Rng};
use serde_json::{json, Value};
use std::io::Write;

#[path = "c01/native.rs"]
mod native;

pub const WIN: u64 = 0x2000_1800;
pub const WIN_SIZE: usize = 256;
pub const CODE: u64 = 0x2100_0000;
pub const A: u64 = CODE + 0x800;
/// branch landing pads (native: code that records its id; lifted image: `nop nop nop ret`)
pub const PADS: [u64; 6] = [A - 0x400, A - 0x40, A + 0x40, A + 0x400, A + 0x80, A + 0xC0];

const R64: [&str; 16] = ["rax", "rcx", "rdx", "rbx", "rsp", "rbp", "rsi", "rdi", "r8", "r9", "r10", "r11", "r12", "r13", "r14", "r15"];
const R32: [&str; 8] = ["eax", "ecx", "edx", "ebx", "esp", "ebp", "esi", "edi"];
const FLAGS: [&str; 5] = ["CF", "ZF", "SF", "OF", "DF"];

#[derive(Clone)]
pub struct St {
    pub gpr: [u64; 16],
    pub fl: [u8; 5],
    /// parity flag: an input only (read by jp/jnp/setp/cmovp; never compared afterwards)
    pub pf: u8,
    pub xmm: [[u8; 16]; 16],
    pub xmm_listed: Vec<usize>,
    pub mem: Vec<u8>, // WIN_SIZE bytes or empty
    /// initial values of the explicit operands (limbs; [] when not known): a description of the
    /// input for the classification of findings, never used for a verdict
    pub opv: Value,
}

#[derive(Clone)]
pub struct Inst {
    pub mode: u32,
    pub bytes: Vec<u8>,
    pub ins: Value,
    pub asm: String,
}

fn limbs(v: u64, bits: usize) -> Vec<u64> {
    (0..(bits + 7) / 8).map(|i| (v >> (8 * i)) & 0xff).collect()
}
fn from_limbs(v: &Value) -> u64 {
    let mut x = 0u64;
    for (i, b) in v.as_array().unwrap().iter().enumerate().take(8) {
        x |= b.as_u64().unwrap() << (8 * i);
    }
    x
}

fn reg_index(mode: u32, full: &str) -> usize {
    if mode == 64 {
        R64.iter().position(|r| *r == full).unwrap_or(99)
    } else {
        R32.iter().position(|r| *r == full).unwrap_or(99)
    }
}

fn load_corpus(dir: &str, arch: &str) -> Vec<Inst> {
    let path = format!("{}/{}.tsv", dir, arch);
    let text = std::fs::read_to_string(&path).unwrap_or_else(|e| panic!("read {}: {}", path, e));
    let mode = if arch == "amd64" { 64 } else { 32 };
    let mut out = Vec::new();
    for line in text.lines() {
        let parts: Vec<&str> = line.split('\t').collect();
        if parts.len() < 3 {
            continue;
        }
        let bytes: Vec<u8> = (0..parts[0].len() / 2).map(|i| u8::from_str_radix(&parts[0][2 * i..2 * i + 2], 16).unwrap()).collect();
        let mut ins: Value = serde_json::from_str(parts[1]).unwrap();
        ins["len"] = json!(bytes.len());
        out.push(Inst { mode, bytes, ins, asm: parts[2].to_string() });
    }
    out
}

// --------------------------------------------------------------------------------------
// state generation (input shaping only: which states are interesting for which instruction)
// --------------------------------------------------------------------------------------
fn interesting(rng: &mut Rng, bits: usize) -> u64 {
    let v = rng.interesting(bits);
    v.iter_u64_digits().next().unwrap_or(0)
}

fn mask(bits: usize) -> u64 {
    if bits >= 64 { !0 } else { (1u64 << bits) - 1 }
}

/// value of a register operand in the state
fn reg_get(st: &St, mode: u32, op: &Value) -> u64 {
    let i = reg_index(mode, op["f"].as_str().unwrap());
    let s = op["s"].as_u64().unwrap() as usize;
    (st.gpr[i] >> op["o"].as_u64().unwrap()) & mask(s)
}
fn reg_put(st: &mut St, mode: u32, op: &Value, v: u64) {
    let i = reg_index(mode, op["f"].as_str().unwrap());
    let s = op["s"].as_u64().unwrap() as usize;
    let o = op["o"].as_u64().unwrap();
    let m = mask(s) << o;
    st.gpr[i] = (st.gpr[i] & !m) | ((v << o) & m);
    if mode == 32 {
        st.gpr[i] &= 0xffff_ffff;
    }
}

fn mem_get(st: &St, off: usize, bytes: usize) -> u64 {
    let mut v = 0u64;
    for k in 0..bytes.min(8) {
        v |= (st.mem[off + k] as u64) << (8 * k);
    }
    v
}
fn mem_put(st: &mut St, off: usize, bytes: usize, v: u64) {
    for k in 0..bytes.min(8) {
        st.mem[off + k] = (v >> (8 * k)) as u8;
    }
}

fn inv_odd(a: u64) -> u64 {
    // inverse of an odd number modulo 2^64 (Newton iteration)
    let mut x = a;
    for _ in 0..6 {
        x = x.wrapping_mul(2u64.wrapping_sub(a.wrapping_mul(x)));
    }
    x
}

const STACK_MN: [&str; 5] = ["push", "pop", "call", "ret", "leave"];
const STRING_MN: [&str; 5] = ["movs", "stos", "lods", "scas", "cmps"];

fn needs_window(ins: &Value) -> bool {
    let mn = ins["mn"].as_str().unwrap();
    if STACK_MN.contains(&mn) || STRING_MN.contains(&mn) {
        return true;
    }
    if mn == "lea" || mn == "nop" || mn.starts_with("prefetch") {
        return false;
    }
    ins["ops"].as_array().unwrap().iter().any(|o| o["k"] == "mem")
}

/// choose register values so that the explicit memory operand addresses window offset `off`;
/// returns the offset actually addressed (None: nothing to solve / not solvable)
fn solve_address(st: &mut St, mode: u32, op: &Value, rng: &mut Rng, mut off: u64, ins_len: u64) -> Option<u64> {
    let asz = op["as"].as_u64().unwrap() as usize;
    let am = mask(asz);
    let b = op["b"].as_str().unwrap();
    let i = op["i"].as_str().unwrap();
    let sc = op["sc"].as_u64().unwrap();
    let d = from_limbs(&op["d"]);
    if b == "rip" {
        return Some(A.wrapping_add(ins_len).wrapping_add(d).wrapping_sub(WIN));
    }
    if b.is_empty() && i.is_empty() {
        return Some((d & am).wrapping_sub(WIN));
    }
    let hi = |rng: &mut Rng| if asz == 32 && mode == 64 { (rng.next() & 0x7fff) << 32 } else { 0 };
    if !b.is_empty() && b == i {
        let k = sc + 1;
        let mut t = WIN.wrapping_add(off).wrapping_sub(d) & am;
        if k % 2 == 0 {
            if t % 2 == 1 {
                off -= 1;
                t = t.wrapping_sub(1) & am;
            }
            let v = (t / 2) | if rng.bool() { 1u64 << (asz - 1) } else { 0 };
            st.gpr[reg_index(mode, b)] = (v & am) | hi(rng);
        } else {
            let v = t.wrapping_mul(inv_odd(k)) & am;
            st.gpr[reg_index(mode, b)] = v | hi(rng);
        }
        return Some(off);
    }
    if b.is_empty() {
        let mut t = WIN.wrapping_add(off).wrapping_sub(d) & am;
        let r = t % sc;
        off -= r;
        t = t.wrapping_sub(r) & am;
        st.gpr[reg_index(mode, i)] = (t / sc) | hi(rng);
        return Some(off);
    }
    if !i.is_empty() && reg_index(mode, b) == 4 {
        // rsp must stay a canonical user address: pick it small and solve for the index
        let base0 = rng.next() & 0xff_ffff_ffff & am;
        let t = WIN.wrapping_add(off).wrapping_sub(d).wrapping_sub(base0) & am;
        st.gpr[reg_index(mode, i)] = (t / sc) | hi(rng);
        st.gpr[4] = base0.wrapping_add(t % sc) & am;
        return Some(off);
    }
    let iv = if i.is_empty() {
        0
    } else {
        let ii = reg_index(mode, i);
        if rng.chance(1, 3) {
            st.gpr[ii] = (interesting(rng, asz) & am) | hi(rng);
        }
        st.gpr[ii] & am
    };
    let bv = WIN.wrapping_add(off).wrapping_sub(iv.wrapping_mul(sc)).wrapping_sub(d) & am;
    st.gpr[reg_index(mode, b)] = bv | hi(rng);
    Some(off)
}

pub fn gen_state(inst: &Inst, rng: &mut Rng) -> St {
    let mode = inst.mode;
    let w = mode as usize;
    let ins = &inst.ins;
    let mn = ins["mn"].as_str().unwrap().to_string();
    let sz = ins["sz"].as_u64().unwrap() as usize;
    let pfx = ins["pfx"].as_str().unwrap();
    let ops: Vec<Value> = ins["ops"].as_array().unwrap().clone();
    let nregs = if mode == 64 { 16 } else { 8 };
    let mut st = St { gpr: [0; 16], fl: [0; 5], pf: 0, xmm: [[0; 16]; 16], xmm_listed: Vec::new(), mem: Vec::new(), opv: json!([]) };
    let same = rng.chance(1, 12);
    let common = interesting(rng, w);
    for i in 0..nregs {
        st.gpr[i] = if same { common } else if rng.chance(1, 2) { interesting(rng, w) } else { rng.next() & mask(w) };
    }
    for f in 0..5 {
        st.fl[f] = rng.bool() as u8;
    }
    if !STRING_MN.contains(&mn.as_str()) && rng.chance(3, 4) {
        st.fl[4] = 0;
    }
    st.pf = rng.bool() as u8;
    // XMM registers in play
    for o in &ops {
        if o["k"] == "xmm" {
            let idx: usize = o["n"].as_str().unwrap()[3..].parse().unwrap();
            if !st.xmm_listed.contains(&idx) {
                st.xmm_listed.push(idx);
            }
        }
    }
    if !st.xmm_listed.is_empty() {
        let extra = rng.below(if mode == 64 { 16 } else { 8 }) as usize;
        if !st.xmm_listed.contains(&extra) {
            st.xmm_listed.push(extra);
        }
        st.xmm_listed.sort();
        let lanes = [0u8, 1, 0x7f, 0x80, 0xff, 0xfe];
        let pick = rng.below(4);
        let shared: Vec<u8> = (0..16).map(|_| if rng.chance(1, 2) { *rng.pick(&lanes) } else { rng.below(256) as u8 }).collect();
        for &x in &st.xmm_listed.clone() {
            for k in 0..16 {
                st.xmm[x][k] = match pick {
                    0 => *rng.pick(&lanes),
                    1 => if rng.chance(1, 2) { shared[k] } else { rng.below(256) as u8 },
                    _ => rng.below(256) as u8,
                };
            }
        }
    }
    if needs_window(ins) {
        let style = rng.below(4);
        st.mem = (0..WIN_SIZE).map(|_| match style { 0 => *rng.pick(&[0u8, 0xff, 0x80, 0x7f, 1]), _ => rng.below(256) as u8 }).collect();
    }
    // ---- shaping by class
    let is_shift = ["shl", "shr", "sar", "rol", "ror", "shld", "shrd"].contains(&mn.as_str());
    if is_shift {
        let s = sz as u64;
        let rnd = rng.below(256);
        let c = *rng.pick(&[0, 1, 2, s - 1, s, s + 1, 31, 32, 33, 63, 64, 65, 7, 8, 9, 15, 16, 17, 128, 255, rnd]);
        st.gpr[1] = (st.gpr[1] & !0xff) | (c & 0xff);
    }
    if ["bt", "btc", "btr", "bts"].contains(&mn.as_str()) && ops[1]["k"] == "reg" {
        let s = sz as u64;
        let memform = ops[0]["k"] == "mem";
        let v: u64 = match rng.below(if memform { 4 } else { 6 }) {
            0 => rng.below(s),
            1 => s + rng.below(s),
            2 => (rng.below(64) as i64 * -1) as u64,
            3 => rng.below(128),
            _ => rng.next(),
        };
        reg_put(&mut st, mode, &ops[1], v & mask(sz));
    }
    if (mn == "bsf" || mn == "bsr") && ops[1]["k"] == "reg" {
        let v = match rng.below(4) { 0 => 0, 1 => 1u64 << rng.below(sz as u64), _ => interesting(rng, sz) };
        reg_put(&mut st, mode, &ops[1], v);
    }
    if !pfx.is_empty() && pfx != "lock" {
        st.gpr[1] = rng.below(5);
    }
    if mn.starts_with("loop") || mn == "jecxz" || mn == "jrcxz" || mn == "jcxz" {
        st.gpr[1] = match rng.below(6) { 0 => 0, 1 => 1, 2 => 2, 3 => 1u64 << 32, 4 => 0x1_0000, _ => st.gpr[1] } & mask(w);
    }
    if STRING_MN.contains(&mn.as_str()) {
        st.gpr[6] = WIN + 48 + rng.below(32);
        st.gpr[7] = if rng.chance(1, 10) { st.gpr[6] } else { WIN + 144 + rng.below(32) };
        let bytes = sz / 8;
        let dir: i64 = if st.fl[4] == 1 { -1 } else { 1 };
        let k = rng.below(5) as i64;
        if mn == "scas" && rng.chance(2, 3) {
            for j in 0..k {
                let off = (st.gpr[7] as i64 - WIN as i64 + dir * j * bytes as i64) as usize;
                let acc = st.gpr[0];
                mem_put(&mut st, off, bytes, acc);
            }
        }
        if mn == "cmps" && rng.chance(2, 3) {
            for j in 0..k {
                let so = (st.gpr[6] as i64 - WIN as i64 + dir * j * bytes as i64) as usize;
                let dof = (st.gpr[7] as i64 - WIN as i64 + dir * j * bytes as i64) as usize;
                let v = mem_get(&st, so, bytes);
                mem_put(&mut st, dof, bytes, v);
            }
        }
    }
    if STRING_MN.contains(&mn.as_str()) && mode == 64 && ins["as"].as_u64() == Some(32) {
        // address-size override: only esi / edi / ecx count, the upper halves are arbitrary
        for r in [6usize, 7, 1] {
            st.gpr[r] |= rng.next() << 32;
        }
    }
    let stack = STACK_MN.contains(&mn.as_str());
    if stack {
        st.gpr[4] = WIN + 128 + if rng.chance(1, 4) { rng.below(8) } else { 0 };
        if mn == "leave" {
            st.gpr[5] = WIN + 64 + rng.below(96);
        }
        if mn == "ret" {
            let t = *rng.pick(&PADS);
            let off = (st.gpr[4] - WIN) as usize;
            mem_put(&mut st, off, w / 8, t);
        }
    }
    // ---- explicit memory operand: make it address the window
    let mut ea_off: Option<(usize, u64)> = None;
    if !st.mem.is_empty() {
        for (k, o) in ops.iter().enumerate() {
            if o["k"] != "mem" {
                continue;
            }
            let osz = o["s"].as_u64().unwrap();
            let rsp_based = o["b"].as_str().unwrap() == R64[4] || o["b"].as_str().unwrap() == R32[4];
            if stack && rsp_based {
                // rsp is the stack pointer here: only an index register can be adjusted
                let i = o["i"].as_str().unwrap();
                if !i.is_empty() {
                    let sc = o["sc"].as_u64().unwrap();
                    let d = from_limbs(&o["d"]);
                    let mut off = 32 + rng.below(160);
                    let t = WIN.wrapping_add(off).wrapping_sub(d).wrapping_sub(st.gpr[4]) & mask(o["as"].as_u64().unwrap() as usize);
                    off -= t % sc;
                    st.gpr[reg_index(mode, i)] = (t - t % sc) / sc;
                    ea_off = Some((k, off));
                }
                continue;
            }
            let aligned = osz == 128 && !(["movdqu", "movups"].contains(&mn.as_str()) && rng.chance(1, 2));
            let mut off = 32 + rng.below(160);
            if aligned {
                off &= !15;
            }
            if let Some(o2) = solve_address(&mut st, mode, o, rng, off, inst.bytes.len() as u64) {
                ea_off = Some((k, o2));
            }
        }
    }
    // ---- indirect branch targets
    if (mn == "jmp" || mn == "call") && ops[0]["k"] != "rel" {
        let t = *rng.pick(&PADS);
        if ops[0]["k"] == "reg" {
            reg_put(&mut st, mode, &ops[0], t);
        } else if let Some((_, off)) = ea_off {
            if (off as usize) + 8 <= WIN_SIZE {
                mem_put(&mut st, off as usize, w / 8, t);
            }
        } else if ops[0]["k"] == "mem" {
            // rsp-based: [rsp + d]
            let d = from_limbs(&ops[0]["d"]) as i64;
            let off = (st.gpr[4] as i64 + d - WIN as i64) as i64;
            if off >= 0 && (off as usize) + 8 <= WIN_SIZE {
                mem_put(&mut st, off as usize, w / 8, t);
            }
        }
    }
    // ---- cmpxchg: accumulator equal to the destination half of the time
    if mn == "cmpxchg" && rng.bool() {
        let dv = if ops[0]["k"] == "reg" {
            Some(reg_get(&st, mode, &ops[0]))
        } else {
            ea_off.and_then(|(_, off)| if (off as usize) + 8 <= WIN_SIZE { Some(mem_get(&st, off as usize, sz / 8)) } else { None })
        };
        if let Some(dv) = dv {
            let m = mask(sz);
            st.gpr[0] = (st.gpr[0] & !m) | (dv & m);
            if mode == 64 && sz == 32 && rng.bool() {
                st.gpr[0] &= 0xffff_ffff;
            }
        }
    }
    // ---- division: keep most quotients representable (the others fault; contained)
    if (mn == "div" || mn == "idiv") && ops.len() == 1 {
        let dv = if ops[0]["k"] == "reg" {
            reg_get(&st, mode, &ops[0])
        } else {
            ea_off.map(|(_, off)| if (off as usize) + 8 <= WIN_SIZE { mem_get(&st, off as usize, sz / 8) } else { 1 }).unwrap_or(1)
        };
        let m = mask(sz);
        // registers that address the divisor keep their value
        let addr_regs: Vec<usize> = if ops[0]["k"] == "mem" {
            vec![reg_index(mode, ops[0]["b"].as_str().unwrap()), reg_index(mode, ops[0]["i"].as_str().unwrap())]
        } else {
            Vec::new()
        };
        let target = if sz == 8 { 0 } else { 2 };
        if rng.chance(9, 10) && !addr_regs.contains(&target) {
            let hi: u64 = if mn == "div" {
                if dv == 0 { 0 } else { rng.next() % dv }
            } else {
                let lo = if sz == 8 { st.gpr[0] & 0xff } else { st.gpr[0] & m };
                let neg = (lo >> (sz - 1)) & 1 == 1;
                if rng.chance(3, 4) {
                    if neg { m } else { 0 }
                } else {
                    let mag = if (dv >> (sz - 1)) & 1 == 1 { (!dv).wrapping_add(1) & m } else { dv };
                    let h = if mag < 2 { 0 } else { rng.next() % (mag / 2) };
                    if rng.bool() { h } else { !h & m }
                }
            };
            if sz == 8 {
                st.gpr[0] = (st.gpr[0] & !0xff00) | ((hi & 0xff) << 8);
            } else {
                st.gpr[2] = (st.gpr[2] & !m) | (hi & m);
                if mode == 64 && sz == 32 {
                    st.gpr[2] &= 0xffff_ffff;
                }
            }
        }
    }
    if mode == 32 {
        for i in 0..16 {
            st.gpr[i] &= 0xffff_ffff;
        }
    }
    // (the rsp masking below never changes an rsp that addresses the window)
    let mut opv: Vec<Value> = Vec::new();
    for (k, o) in ops.iter().enumerate() {
        let v = match o["k"].as_str().unwrap() {
            "reg" => json!(limbs(reg_get(&st, mode, o), o["s"].as_u64().unwrap() as usize)),
            "imm" => o["v"].clone(),
            "xmm" => {
                let idx: usize = o["n"].as_str().unwrap()[3..].parse().unwrap();
                json!(st.xmm[idx].to_vec())
            }
            "mem" => match ea_off {
                Some((kk, off)) if kk == k && (off as usize) + (o["s"].as_u64().unwrap() as usize) / 8 <= st.mem.len() => {
                    let n = (o["s"].as_u64().unwrap() as usize) / 8;
                    json!(st.mem[off as usize..off as usize + n].to_vec())
                }
                _ => json!([]),
            },
            _ => json!([]),
        };
        opv.push(v);
    }
    st.opv = Value::Array(opv);
    // The guest stack pointer must be a canonical user address at all times: the kernel cannot
    // return from an interrupt or page fault to user mode with a non-canonical rsp.
    st.gpr[4] &= 0x7fff_ffff_ffff;
    if mn == "pop" && ops[0]["k"] == "reg" && reg_index(mode, ops[0]["f"].as_str().unwrap()) == 4 && !st.mem.is_empty() {
        let off = (st.gpr[4].wrapping_sub(WIN)) as usize;
        if off + 8 <= WIN_SIZE {
            let v = if rng.bool() { WIN + rng.below(200) } else { rng.next() & 0x7fff_ffff_ffff };
            mem_put(&mut st, off, w / 8, v);
        }
    }
    st
}

// --------------------------------------------------------------------------------------
// JSON projection of states
// --------------------------------------------------------------------------------------
fn reg_names(mode: u32) -> Vec<&'static str> {
    if mode == 64 { R64.to_vec() } else { R32.to_vec() }
}

fn st_json(st: &St, mode: u32) -> Value {
    let names = reg_names(mode);
    let regs: Vec<Value> = names.iter().enumerate().map(|(i, n)| json!({"n": n, "v": limbs(st.gpr[i], mode as usize)})).collect();
    let xmm: Vec<Value> = st.xmm_listed.iter().map(|&i| json!({"n": format!("xmm{}", i), "v": st.xmm[i].to_vec()})).collect();
    let mut fl = serde_json::Map::new();
    for (k, f) in FLAGS.iter().enumerate() {
        fl.insert(f.to_string(), json!(st.fl[k]));
    }
    fl.insert("PF".to_string(), json!(st.pf));
    json!({"regs": regs, "fl": fl, "xmm": xmm, "mem": st.mem, "membase": limbs(WIN, mode as usize), "opv": st.opv})
}

fn st_from_json(v: &Value, mode: u32) -> St {
    let mut st = St { gpr: [0; 16], fl: [0; 5], pf: 0, xmm: [[0; 16]; 16], xmm_listed: Vec::new(), mem: Vec::new(), opv: v.get("opv").cloned().unwrap_or_else(|| json!([])) };
    for r in v["regs"].as_array().unwrap() {
        st.gpr[reg_index(mode, r["n"].as_str().unwrap())] = from_limbs(&r["v"]);
    }
    for (k, f) in FLAGS.iter().enumerate() {
        st.fl[k] = v["fl"][*f].as_u64().unwrap() as u8;
    }
    st.pf = v["fl"]["PF"].as_u64().unwrap_or(0) as u8;
    for x in v["xmm"].as_array().unwrap() {
        let idx: usize = x["n"].as_str().unwrap()[3..].parse().unwrap();
        st.xmm_listed.push(idx);
        for (k, b) in x["v"].as_array().unwrap().iter().enumerate() {
            st.xmm[idx][k] = b.as_u64().unwrap() as u8;
        }
    }
    st.mem = v["mem"].as_array().unwrap().iter().map(|b| b.as_u64().unwrap() as u8).collect();
    st
}

/// final state as differences from the initial one
pub struct Final {
    pub gpr: Vec<(usize, usize, Vec<u64>)>, // index, width, limbs (all registers)
    pub fl: [u64; 5],
    pub xmm: Vec<(usize, usize, Vec<u64>)>,
    pub mem: Vec<i64>, // window bytes (-1 unmapped); empty when there is no window
    pub pc: u64,
}

fn final_json(init: &St, f: &Final, mode: u32) -> Value {
    let names = reg_names(mode);
    let w = mode as usize;
    let mut regs = Vec::new();
    for (i, bits, v) in &f.gpr {
        if *bits != w || *v != limbs(init.gpr[*i], w) {
            regs.push(json!({"n": names[*i], "w": bits, "v": v}));
        }
    }
    let mut xmm = Vec::new();
    for (i, bits, v) in &f.xmm {
        let iv: Vec<u64> = init.xmm[*i].iter().map(|b| *b as u64).collect();
        if *bits != 128 || *v != iv {
            xmm.push(json!({"n": format!("xmm{}", i), "w": bits, "v": v}));
        }
    }
    let mut mem = Vec::new();
    for (k, b) in f.mem.iter().enumerate() {
        if k < init.mem.len() && *b != init.mem[k] as i64 {
            mem.push(json!([k, b]));
        }
    }
    let mut fl = serde_json::Map::new();
    for (k, n) in FLAGS.iter().enumerate() {
        fl.insert(n.to_string(), json!(f.fl[k]));
    }
    json!({"regs": regs, "fl": fl, "xmm": xmm, "mem": mem, "pc": limbs(f.pc, w)})
}

// --------------------------------------------------------------------------------------
// the lifted run
// --------------------------------------------------------------------------------------
fn code_image(bytes: &[u8]) -> Vec<u8> {
    // [A - 0x400, A + 0x410): zeros, the instruction at A followed by nop nop nop ret, and
    // nop nop nop ret at every landing pad
    let base = A - 0x400;
    let mut img = vec![0u8; 0x810];
    let pad = [0x90u8, 0x90, 0x90, 0xc3];
    for p in PADS.iter() {
        let o = (*p - base) as usize;
        img[o..o + 4].copy_from_slice(&pad);
    }
    let o = (A - base) as usize;
    img[o..o + bytes.len()].copy_from_slice(bytes);
    img[o + bytes.len()..o + bytes.len() + 4].copy_from_slice(&pad);
    img
}

fn lifted_run(inst: &Inst, st: &St) -> Value {
    let mode = inst.mode;
    let w = mode as usize;
    let mut backing = memory::backing::Memory::new(Endian::Little);
    backing.set_memory(A - 0x400, code_image(&inst.bytes), memory::MemoryPermissions::EXECUTE | memory::MemoryPermissions::READ);
    let lifted = guard(|| {
        if mode == 64 { Amd64::new().translate_function(&backing, A) } else { X86::new().translate_function(&backing, A) }
    });
    let function = match lifted {
        Outcome::Ok(f) => f,
        Outcome::Err(e) => return json!({"lifterr": e}),
        Outcome::Panic(m) => return json!({"panic": format!("lift: {}", m)}),
        Outcome::Timeout(t) => return json!({"timeout": t}),
    };
    if std::env::var("C01_DEBUG").is_ok() {
        eprintln!("{} {:02x?}\n{}", inst.asm, inst.bytes, function.control_flow_graph());
    }
    let mut program = il::Program::new();
    program.add_function(function);
    let loc: il::ProgramLocation = match il::RefProgramLocation::from_function(program.function(0).unwrap()) {
        Some(Ok(l)) => l.into(),
        _ => return json!({"err": "NoEntry"}),
    };
    let mut memory = Memory::new_with_backing(Endian::Little, RC::new(backing));
    for (k, b) in st.mem.iter().enumerate() {
        memory.store(WIN + k as u64, il::const_(*b as u64, 8)).unwrap();
    }
    let mut state = State::new(memory);
    let names = reg_names(mode);
    for (i, n) in names.iter().enumerate() {
        state.set_scalar(*n, il::const_(st.gpr[i], w));
    }
    for (k, f) in FLAGS.iter().enumerate() {
        state.set_scalar(*f, il::const_(st.fl[k] as u64, 1));
    }
    state.set_scalar("PF", il::const_(st.pf as u64, 1));
    for b in ["fs_base", "gs_base", "ds_base", "es_base", "cs_base", "ss_base"] {
        state.set_scalar(b, il::const_(0, w));
    }
    let nx = if mode == 64 { 16 } else { 8 };
    for i in 0..nx {
        let v = num_bigint::BigUint::from_bytes_le(&st.xmm[i]);
        state.set_scalar(format!("xmm{}", i), il::Constant::new_big(v, 128));
    }
    let arch: RC<dyn Architecture> = if mode == 64 { RC::new(architecture::Amd64::new()) } else { RC::new(architecture::X86::new()) };
    let mut driver = Driver::new(RC::new(program), loc, state, arch);
    let mut pc: Option<u64> = None;
    for _ in 0..4000 {
        let d2 = driver.clone();
        match guard(move || d2.step()) {
            Outcome::Ok(nd) => {
                let a = guard(|| Ok(nd.address()));
                driver = nd;
                match a {
                    Outcome::Ok(Some(a)) if a != A => {
                        pc = Some(a);
                        break;
                    }
                    Outcome::Ok(_) => {}
                    _ => return json!({"err": "BadLocation"}),
                }
            }
            Outcome::Err(e) => return json!({"err": e}),
            Outcome::Panic(m) => return json!({"panic": m}),
            Outcome::Timeout(t) => return json!({"timeout": t}),
        }
    }
    let pc = match pc {
        Some(p) => p,
        None => return json!({"timeout": 4000}),
    };
    let s = driver.state();
    let get = |n: &str, bits: usize| -> (usize, Vec<u64>) {
        match s.get_scalar(n) {
            Some(c) => (c.bits(), fv::proj::limbs(c.value(), c.bits())),
            None => (0, vec![0; (bits + 7) / 8]),
        }
    };
    let mut f = Final { gpr: Vec::new(), fl: [0; 5], xmm: Vec::new(), mem: Vec::new(), pc };
    for (i, n) in names.iter().enumerate() {
        let (b, v) = get(n, w);
        f.gpr.push((i, b, v));
    }
    for (k, n) in FLAGS.iter().enumerate() {
        f.fl[k] = match s.get_scalar(n) {
            Some(c) if c.bits() == 1 => c.value_u64().unwrap_or(9),
            Some(c) => 2 + c.value_u64().unwrap_or(7) % 1000,
            None => 9,
        };
    }
    for i in 0..nx {
        let (b, v) = get(&format!("xmm{}", i), 128);
        f.xmm.push((i, b, v));
    }
    for k in 0..st.mem.len() {
        let b = match guard(|| s.memory().load(WIN + k as u64, 8)) {
            Outcome::Ok(Some(c)) => c.value_u64().map(|x| x as i64).unwrap_or(-2),
            Outcome::Ok(None) => -1,
            _ => -3,
        };
        f.mem.push(b);
    }
    json!({"ok": final_json(st, &f, mode)})
}

// --------------------------------------------------------------------------------------
// native runs in a child process
// --------------------------------------------------------------------------------------
fn native_results(insts: &[(usize, Inst, St)], out_path: &str) -> Vec<Value> {
    // returns one `res` per instance
    let mut res: Vec<Value> = insts.iter().map(|_| json!({"skip": "not-run"})).collect();
    let inp = format!("{}.nat-in", out_path);
    let outp = format!("{}.nat-out", out_path);
    let mut start = 0usize;
    let exe = std::env::current_exe().expect("current_exe");
    let mut restarts = 0;
    while start < insts.len() && restarts < 50 {
        {
            let mut f = std::io::BufWriter::new(std::fs::File::create(&inp).unwrap());
            for (k, (_, inst, st)) in insts.iter().enumerate().skip(start) {
                let runnable = inst.mode == 64 && inst.ins["nat"].as_u64() == Some(1);
                let line = json!({"k": k, "run": runnable, "bytes": inst.bytes, "st": st_json(st, 64), "full": full_xmm(st)});
                serde_json::to_writer(&mut f, &line).unwrap();
                f.write_all(b"\n").unwrap();
            }
        }
        let _ = std::fs::remove_file(&outp);
        let status = std::process::Command::new(&exe)
            .args(["--mode", "native", "--in", &inp, "--out", &outp])
            .stdout(std::process::Stdio::null())
            .status();
        let text = std::fs::read_to_string(&outp).unwrap_or_default();
        let mut last = None;
        for line in text.lines() {
            if let Ok(v) = serde_json::from_str::<Value>(line) {
                let k = v["k"].as_u64().unwrap() as usize;
                if v["res"].is_object() {
                    res[k] = v["res"].clone();
                    last = Some(k);
                } else {
                    last = Some(k); // "starting k" marker
                    res[k] = json!({"skip": "crash"});
                }
            }
        }
        let ok = status.map(|s| s.success()).unwrap_or(false);
        if ok {
            break;
        }
        restarts += 1;
        start = match last {
            Some(k) => k + 1,
            None => start + 1,
        };
    }
    let _ = std::fs::remove_file(&inp);
    let _ = std::fs::remove_file(&outp);
    res
}

fn full_xmm(st: &St) -> Value {
    json!(st.xmm.iter().map(|x| x.to_vec()).collect::<Vec<_>>())
}

fn native_child(inp: &str, outp: &str) {
    let text = std::fs::read_to_string(inp).expect("read");
    let mut out = std::fs::File::create(outp).expect("create");
    let ready = unsafe { native::setup() };
    for line in text.lines() {
        let v: Value = serde_json::from_str(line).unwrap();
        let k = v["k"].as_u64().unwrap();
        if !v["run"].as_bool().unwrap() {
            writeln!(out, "{}", json!({"k": k, "res": {"skip": "not-native"}})).unwrap();
            continue;
        }
        if let Err(e) = &ready {
            writeln!(out, "{}", json!({"k": k, "res": {"skip": e}})).unwrap();
            continue;
        }
        writeln!(out, "{}", json!({"k": k, "starting": 1})).unwrap();
        out.flush().unwrap();
        let mut st = st_from_json(&v["st"], 64);
        for (i, x) in v["full"].as_array().unwrap().iter().enumerate() {
            for (j, b) in x.as_array().unwrap().iter().enumerate() {
                st.xmm[i][j] = b.as_u64().unwrap() as u8;
            }
        }
        let bytes: Vec<u8> = v["bytes"].as_array().unwrap().iter().map(|b| b.as_u64().unwrap() as u8).collect();
        let r = unsafe { native::run(&bytes, &st) };
        let res = match r {
            Ok(f) => json!({"ok": final_json(&st, &f, 64)}),
            Err(sig) => json!({"fault": sig}),
        };
        writeln!(out, "{}", json!({"k": k, "res": res})).unwrap();
        out.flush().unwrap();
    }
}

// --------------------------------------------------------------------------------------
fn emit_instance(out: &mut Out, id: usize, inst: &Inst, st: &St, cpu: &Value) {
    out.emit(&json!({"ev": "begin", "id": id, "mode": inst.mode, "asm": inst.asm, "bytes": inst.bytes,
                     "addr": limbs(A, inst.mode as usize), "ins": inst.ins, "st": st_json(st, inst.mode)}));
    out.emit(&json!({"ev": "cpu", "res": cpu}));
    out.emit(&json!({"ev": "lifted", "res": lifted_run(inst, st)}));
}

fn main() {
    fv::quiet_panics();
    let mode = fv::arg_str("mode", "record");
    if mode == "native" {
        native_child(&fv::arg_str("in", ""), &fv::arg_str("out", ""));
        return;
    }
    let out_path = fv::arg_str("out", "/dev/stdout");
    let mut out = Out::create(&out_path);
    let mut work: Vec<(usize, Inst, St)> = Vec::new();
    match mode.as_str() {
        "record" => {
            let arch = fv::arg_str("arch", "amd64");
            let corpus = load_corpus(&fv::arg_str("corpus", "/verif/corpus/c01"), &arch);
            let only = fv::arg("only");
            let pool: Vec<&Inst> = corpus.iter().filter(|i| only.as_ref().map(|m| i.ins["mn"].as_str().unwrap().starts_with(m.as_str())).unwrap_or(true)).collect();
            if pool.is_empty() {
                panic!("no templates");
            }
            let n = fv::arg_u64("n", 100) as usize;
            let part = fv::arg_u64("part", 0) as usize;
            let parts = fv::arg_u64("parts", 1) as usize;
            let seed = fv::seed_from_env() ^ 0xC01 ^ if arch == "amd64" { 0 } else { 0x3232 };
            let mut rng = Rng::new(seed);
            // a seeded permutation, walked cyclically: every template is used when the total reaches |pool|;
            // recorder job `part` of `parts` takes the instances part, part + parts, ... of the sequence
            let mut perm: Vec<usize> = (0..pool.len()).collect();
            for i in (1..perm.len()).rev() {
                let j = rng.below(i as u64 + 1) as usize;
                perm.swap(i, j);
            }
            for j in 0..n {
                let k = part + j * parts;
                let inst = pool[perm[k % perm.len()]].clone();
                let mut r = Rng::new(seed.wrapping_mul(0x2545_F491_4F6C_DD1D).wrapping_add(k as u64));
                let st = gen_state(&inst, &mut r);
                work.push((k, inst, st));
            }
        }
        "replay" => {
            let text = std::fs::read_to_string(fv::arg_str("in", "")).expect("read");
            for line in text.lines() {
                if line.trim().is_empty() {
                    continue;
                }
                let v: Value = serde_json::from_str(line).unwrap();
                if v["ev"] == "begin" {
                    let m = v["mode"].as_u64().unwrap() as u32;
                    let inst = Inst { mode: m, bytes: v["bytes"].as_array().unwrap().iter().map(|b| b.as_u64().unwrap() as u8).collect(),
                                      ins: v["ins"].clone(), asm: v["asm"].as_str().unwrap_or("").to_string() };
                    let st = st_from_json(&v["st"], m);
                    work.push((v["id"].as_u64().unwrap_or(0) as usize, inst, st));
                }
            }
        }
        _ => panic!("unknown mode"),
    }
    let cpu = if work.iter().any(|(_, i, _)| i.mode == 64) { native_results(&work, &out_path) } else { work.iter().map(|_| json!({"skip": "x86-32"})).collect() };
    for (k, (id, inst, st)) in work.iter().enumerate() {
        emit_instance(&mut out, *id, inst, st, &cpu[k]);
    }
    eprintln!("c01: {} events", out.finish());
}
