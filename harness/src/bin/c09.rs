//! C09 recorder: drives falcon's fixed-point engine with a table-driven analysis and logs
//! what the engine did.  Nothing here knows what the result should be: FixedPoint.tla /
//! Trace_C09.tla classify the table (monotone or not), compute the least solution and judge
//! the outcome.
//!
//!   c09 --mode random  --n N [--stream K] --out FILE     (VERIF_SEED)
//!   c09 --mode corners [--reps R]         --out FILE     hand-made shapes x every API variant
//!   c09 --mode replay  --in FILE          --out FILE     re-drive the cases stored in FILE
//!
//! One session per solver call:
//!   {"ev":"begin","id", "fn","lat","tab","dir","api","force","budget","kind",  <- the inputs (replayable)
//!    "n","names","pred","succ","start","cap"}                                  <- the location graph from falcon
//!   {"ev":"join","a","b","r"} / {"ev":"trans","l","in","out"}  in call order
//!   {"ev":"result","res":{"ok":[[l,v],..]} | {"err":name} | {"panic":msg}}
//! Locations are numbered 1..n in the order of falcon's `FunctionLocation` ordering; `pred`/`succ`
//! are falcon's own `backward()`/`forward()` (swapped for the backward solver, so that `pred` is
//! always "whose states are joined" and `succ` "who is re-queued").  Lattice elements are small
//! integers, -1 is "no input" (None).

use falcon::analysis::fixed_point::{
    fixed_point_backward, fixed_point_backward_options, fixed_point_forward, fixed_point_forward_options,
    FixedPointAnalysis,
};
use falcon::il;
use falcon::Error;
use fv::{Out, Rng};
use serde_json::{json, Value};
use std::cell::{Cell, RefCell};
use std::cmp::Ordering;
use std::collections::HashMap;

/// the recorder aborts a solver call after this many trans calls (trans returns an error)
const CAP: usize = 1000;

// --------------------------------------------------------------------------------------
// the analysis handed to falcon: finite lattices as small integers, transfer by table
// --------------------------------------------------------------------------------------
#[derive(Clone, Copy, Debug, PartialEq, Eq)]
enum Lat {
    Pow2,
    Flat2,
    Pow3,
    Flat3,
    Chain3,
}

impl Lat {
    fn name(self) -> &'static str {
        match self {
            Lat::Pow2 => "pow2",
            Lat::Flat2 => "flat2",
            Lat::Pow3 => "pow3",
            Lat::Flat3 => "flat3",
            Lat::Chain3 => "chain3",
        }
    }
    fn from_name(s: &str) -> Lat {
        match s {
            "pow2" => Lat::Pow2,
            "flat2" => Lat::Flat2,
            "pow3" => Lat::Pow3,
            "flat3" => Lat::Flat3,
            "chain3" => Lat::Chain3,
            _ => panic!("unknown lattice {}", s),
        }
    }
    fn size(self) -> u8 {
        match self {
            Lat::Pow2 | Lat::Flat2 => 4,
            Lat::Pow3 => 8,
            Lat::Flat3 => 5,
            Lat::Chain3 => 3,
        }
    }
    fn top(self) -> u8 {
        self.size() - 1
    }
    fn leq(self, a: u8, b: u8) -> bool {
        match self {
            Lat::Pow2 | Lat::Pow3 => a & b == a,
            Lat::Flat2 | Lat::Flat3 => a == b || a == 0 || b == self.top(),
            Lat::Chain3 => a <= b,
        }
    }
    fn join(self, a: u8, b: u8) -> u8 {
        match self {
            Lat::Pow2 | Lat::Pow3 => a | b,
            Lat::Flat2 | Lat::Flat3 => {
                if a == b {
                    a
                } else if a == 0 {
                    b
                } else if b == 0 {
                    a
                } else {
                    self.top()
                }
            }
            Lat::Chain3 => a.max(b),
        }
    }
}

#[derive(Clone, Debug, PartialEq)]
struct S {
    v: u8,
    lat: Lat,
}

impl PartialOrd for S {
    fn partial_cmp(&self, o: &S) -> Option<Ordering> {
        if self.v == o.v {
            Some(Ordering::Equal)
        } else if self.lat.leq(self.v, o.v) {
            Some(Ordering::Less)
        } else if self.lat.leq(o.v, self.v) {
            Some(Ordering::Greater)
        } else {
            None
        }
    }
}

struct Table<'a> {
    lat: Lat,
    index: &'a HashMap<il::ProgramLocation, usize>, // location -> 1..n
    tab: &'a [Vec<u8>],                             // tab[l-1][x+1], x = -1 (None) .. K-1
    log: &'a RefCell<Vec<Value>>,
    calls: &'a Cell<usize>,
    capped: &'a Cell<bool>,
}

impl<'a, 'f> FixedPointAnalysis<'f, S> for Table<'a> {
    fn trans(&self, location: il::RefProgramLocation<'f>, state: Option<S>) -> Result<S, Error> {
        if self.calls.get() >= CAP {
            self.capped.set(true);
            return Err(Error::Custom("c09 recorder: cap on trans calls reached".to_string()));
        }
        self.calls.set(self.calls.get() + 1);
        let pl: il::ProgramLocation = location.into();
        let l = self.index.get(&pl).copied().unwrap_or(0);
        let x: i64 = state.as_ref().map(|s| s.v as i64).unwrap_or(-1);
        // a location the function does not have: answer bottom, the event says l = 0
        let out = if l == 0 { 0 } else { self.tab[l - 1][(x + 1) as usize] };
        self.log.borrow_mut().push(json!({"ev": "trans", "l": l, "in": x, "out": out}));
        Ok(S { v: out, lat: self.lat })
    }

    fn join(&self, state0: S, state1: &S) -> Result<S, Error> {
        let r = self.lat.join(state0.v, state1.v);
        self.log.borrow_mut().push(json!({"ev": "join", "a": state0.v, "b": state1.v, "r": r}));
        Ok(S { v: r, lat: self.lat })
    }
}

// --------------------------------------------------------------------------------------
// functions
// --------------------------------------------------------------------------------------
/// {"blocks":[#instructions per block], "edges":[[h,t]..], "entry":i|-1, "exit":i|-1}
fn build_function(d: &Value) -> il::Function {
    let mut cfg = il::ControlFlowGraph::new();
    for k in d["blocks"].as_array().unwrap() {
        let b = cfg.new_block().unwrap();
        for _ in 0..k.as_u64().unwrap() {
            b.nop();
        }
    }
    for e in d["edges"].as_array().unwrap() {
        cfg.unconditional_edge(e[0].as_u64().unwrap() as usize, e[1].as_u64().unwrap() as usize).unwrap();
    }
    if d["entry"].as_i64().unwrap() >= 0 {
        cfg.set_entry(d["entry"].as_u64().unwrap() as usize).unwrap();
    }
    if d["exit"].as_i64().unwrap() >= 0 {
        cfg.set_exit(d["exit"].as_u64().unwrap() as usize).unwrap();
    }
    // optional gaps in the instruction indices: [[block, instruction index to remove], ..]
    if let Some(gaps) = d.get("gaps").and_then(|g| g.as_array()) {
        for g in gaps {
            let b = g[0].as_u64().unwrap() as usize;
            let i = g[1].as_u64().unwrap() as usize;
            let _ = cfg.block_mut(b).and_then(|blk| blk.remove_instruction(i));
        }
    }
    il::Function::new(0, cfg)
}

fn random_function(rng: &mut Rng) -> Value {
    let nb = 1 + rng.below(5) as usize;
    // blocks: empty ones are frequent on purpose
    let blocks: Vec<u64> = (0..nb).map(|_| *rng.pick(&[0, 0, 1, 1, 2, 3])).collect();
    let shape = rng.below(4);
    let mut edges: Vec<[usize; 2]> = Vec::new();
    let add = |edges: &mut Vec<[usize; 2]>, h: usize, t: usize| {
        if !edges.contains(&[h, t]) {
            edges.push([h, t]);
        }
    };
    match shape {
        0 => {
            // sparse random
            for h in 0..nb {
                for t in 0..nb {
                    if rng.chance(1, 4) {
                        add(&mut edges, h, t);
                    }
                }
            }
        }
        1 => {
            // chain with back edges and self-loops
            for h in 0..nb.saturating_sub(1) {
                add(&mut edges, h, h + 1);
            }
            for _ in 0..rng.below(3) {
                let h = rng.below(nb as u64) as usize;
                let t = rng.below(h as u64 + 1) as usize;
                add(&mut edges, h, t);
            }
        }
        2 => {
            // one big cycle plus chords
            for h in 0..nb {
                add(&mut edges, h, (h + 1) % nb);
            }
            for _ in 0..rng.below(3) {
                add(&mut edges, rng.below(nb as u64) as usize, rng.below(nb as u64) as usize);
            }
        }
        _ => {
            // diamond-like: forward edges only, several exits
            for h in 0..nb {
                for t in (h + 1)..nb {
                    if rng.chance(1, 2) {
                        add(&mut edges, h, t);
                    }
                }
            }
            if rng.chance(1, 3) {
                let v = rng.below(nb as u64) as usize;
                add(&mut edges, v, v);
            }
        }
    }
    while edges.len() > 9 {
        let i = rng.below(edges.len() as u64) as usize;
        edges.remove(i);
    }
    edges.sort();
    // entry / exit: often the first / last block (much is reachable), else anywhere (inside loops,
    // exits with successors, declared exit that is not a sink), rarely absent
    let entry: i64 = if rng.chance(1, 40) {
        -1
    } else if rng.bool() {
        0
    } else {
        rng.below(nb as u64) as i64
    };
    let exit: i64 = if rng.chance(1, 40) {
        -1
    } else if rng.bool() {
        nb as i64 - 1
    } else {
        rng.below(nb as u64) as i64
    };
    // gaps in the instruction indices of some blocks (nothing in falcon's constructors produces
    // them, Block::remove_instruction does)
    let mut gaps: Vec<[usize; 2]> = Vec::new();
    if rng.chance(1, 3) {
        for (b, k) in blocks.iter().enumerate() {
            if *k >= 2 && rng.bool() {
                gaps.push([b, rng.below(*k) as usize]);
            }
        }
    }
    json!({"blocks": blocks, "edges": edges, "entry": entry, "exit": exit, "gaps": gaps})
}

/// hand-made shapes: the corners named by the property
fn corner_functions() -> Vec<Value> {
    let f = |blocks: &[u64], edges: &[[usize; 2]], entry: i64, exit: i64| json!({"blocks": blocks, "edges": edges, "entry": entry, "exit": exit});
    vec![
        f(&[1], &[], 0, 0),                                            // one instruction
        f(&[0], &[], 0, 0),                                            // one empty block
        f(&[0], &[[0, 0]], 0, 0),                                      // empty block with a self-loop
        f(&[2], &[[0, 0]], 0, 0),                                      // self-loop: entry and exit in a loop
        f(&[1, 1], &[[0, 1]], 0, 1),                                   // falcon's own test
        f(&[1, 1], &[[0, 1], [1, 0]], 0, 1),                           // two-block loop
        f(&[1, 1], &[[0, 1], [1, 0]], 1, 0),                           // ... entered in the middle
        f(&[1, 0, 1, 1], &[[0, 1], [0, 2], [1, 3], [2, 3]], 0, 3),     // diamond with an empty arm
        f(&[1, 1, 1, 1], &[[0, 1], [1, 2], [2, 1], [2, 3]], 0, 3),     // loop in the middle
        f(&[1, 1, 1, 1], &[[0, 1], [1, 2], [2, 1], [2, 3]], 2, 1),     // entry inside the loop, exit inside the loop
        f(&[1, 1, 1], &[[0, 1], [0, 2]], 0, 1),                        // two exits, one declared
        f(&[1, 1, 1], &[[0, 1], [0, 2]], 0, 0),                        // exit = entry, has successors
        f(&[1, 1, 1], &[[1, 0], [2, 0], [0, 0]], 0, 0),                // unreachable predecessors + self-loop
        f(&[0, 0, 0], &[[0, 1], [1, 2], [2, 0]], 1, 1),                // cycle of empty blocks
        f(&[2, 1, 1], &[[0, 1], [1, 1], [1, 2], [2, 0]], 0, 2),        // nested: self-loop inside a cycle
        f(&[1, 1], &[[0, 1]], -1, 1),                                  // no entry
        f(&[1, 1], &[[0, 1]], 0, -1),                                  // no exit
        f(&[1, 1, 1, 0, 2], &[[0, 1], [0, 2], [1, 3], [2, 3], [3, 4], [4, 0], [4, 4]], 0, 4), // everything at once
    ]
}

// --------------------------------------------------------------------------------------
// tables
// --------------------------------------------------------------------------------------
fn random_lat(rng: &mut Rng) -> Lat {
    *rng.pick(&[Lat::Pow2, Lat::Pow2, Lat::Flat2, Lat::Flat2, Lat::Pow3, Lat::Flat3, Lat::Chain3])
}

/// one row (K+1 entries, "no input" first) per location
fn random_table(rng: &mut Rng, lat: Lat, n: usize) -> (Vec<Vec<u8>>, &'static str) {
    let k = lat.size() as usize;
    let r = rng.below(100);
    let is_pow = matches!(lat, Lat::Pow2 | Lat::Pow3);
    // a monotone row built as f(x) = base join (join of g(y) for y <= x) from a sparse random g
    let mono_row = |rng: &mut Rng| -> Vec<u8> {
        let g: Vec<u8> = (0..k).map(|_| if rng.chance(1, 3) { rng.below(k as u64) as u8 } else { 0 }).collect();
        let base = if rng.chance(1, 3) { rng.below(k as u64) as u8 } else { 0 };
        let mut row = vec![base];
        for x in 0..k {
            let mut v = base;
            for y in 0..k {
                if lat.leq(y as u8, x as u8) {
                    v = lat.join(v, g[y]);
                }
            }
            row.push(v);
        }
        row
    };
    let genkill_row = |rng: &mut Rng| -> Vec<u8> {
        let m = (k - 1) as u8;
        let gen = (rng.below(k as u64) as u8) & (rng.below(k as u64) as u8);
        let kill = (rng.below(k as u64) as u8) & (rng.below(k as u64) as u8);
        let mut row = vec![gen];
        for x in 0..k as u8 {
            row.push(((x & !kill) | gen) & m);
        }
        row
    };
    // constant-propagation flavoured rows on a flat lattice
    let flat_row = |rng: &mut Rng| -> Vec<u8> {
        let top = lat.top();
        let c = 1 + rng.below(top as u64 - 1) as u8;
        match rng.below(5) {
            0 => std::iter::once(c).chain((0..k).map(|_| c)).collect(), // assign a constant
            1 => std::iter::once(0).chain((0..k).map(|x| x as u8)).collect(), // identity
            2 => std::iter::once(0).chain((0..k).map(|x| if x == 0 { 0 } else { top })).collect(), // unknown unless bottom
            3 => std::iter::once(0)
                .chain((0..k).map(|x| if x == 0 || x as u8 == top { x as u8 } else { 1 + (x as u8 % (top - 1)) }))
                .collect(), // rotate the constants
            _ => std::iter::once(0).chain((0..k).map(|x| if x as u8 == c { top } else { x as u8 })).collect(),
        }
    };
    if r < 35 && is_pow {
        ((0..n).map(|_| genkill_row(rng)).collect(), "genkill")
    } else if r < 35 && !is_pow && lat != Lat::Chain3 {
        ((0..n).map(|_| flat_row(rng)).collect(), "flat")
    } else if r < 65 {
        ((0..n).map(|_| mono_row(rng)).collect(), "mono")
    } else if r < 85 {
        // a monotone-by-construction table with a few entries changed
        let mut t: Vec<Vec<u8>> = (0..n).map(|_| if is_pow && rng.bool() { genkill_row(rng) } else { mono_row(rng) }).collect();
        for _ in 0..(1 + rng.below(3)) {
            let l = rng.below(n as u64) as usize;
            let x = rng.below(k as u64 + 1) as usize;
            t[l][x] = rng.below(k as u64) as u8;
        }
        (t, "perturbed")
    } else {
        ((0..n).map(|_| (0..=k).map(|_| rng.below(k as u64) as u8).collect()).collect(), "random")
    }
}

// --------------------------------------------------------------------------------------
// one solver call
// --------------------------------------------------------------------------------------
fn owned(l: &il::RefProgramLocation) -> il::ProgramLocation {
    l.clone().into()
}

/// Runs the case, emits the session.  `case` = {fn, lat, tab (may be absent: then drawn from rng),
/// dir, api, force, budget, kind}.
fn run_case(out: &mut Out, id: u64, case: &mut Value, rng: &mut Rng) {
    let function = build_function(&case["fn"]);
    let lat = Lat::from_name(case["lat"].as_str().unwrap());
    let dir = case["dir"].as_str().unwrap().to_string();
    let api = case["api"].as_str().unwrap().to_string();
    let force = case["force"].as_bool().unwrap();
    let budget = case["budget"].as_i64().unwrap();

    // locations in falcon's own order of FunctionLocation, numbered from 1
    let mut locs: Vec<il::RefProgramLocation> =
        function.locations().into_iter().map(|l| il::RefProgramLocation::new(&function, l)).collect();
    locs.sort_by_key(|l| owned(l));
    let n = locs.len();
    let mut index: HashMap<il::ProgramLocation, usize> = HashMap::new();
    for (i, l) in locs.iter().enumerate() {
        index.insert(owned(l), i + 1);
    }
    let ix = |l: &il::RefProgramLocation| -> usize { index.get(&owned(l)).copied().unwrap_or(0) };
    let names: Vec<String> = locs.iter().map(|l| format!("{}", owned(l).function_location())).collect();
    let mut fw: Vec<Vec<usize>> = Vec::new();
    let mut bw: Vec<Vec<usize>> = Vec::new();
    for l in &locs {
        let mut f: Vec<usize> = l.forward().unwrap().iter().map(&ix).collect();
        let mut b: Vec<usize> = l.backward().unwrap().iter().map(&ix).collect();
        f.sort();
        b.sort();
        fw.push(f);
        bw.push(b);
    }
    // the seed location as the documentation of the solvers states it: first location of the entry
    // block / last location of the exit block
    let cfg = function.control_flow_graph();
    let start: usize = if dir == "fwd" {
        match il::RefProgramLocation::from_function(&function) {
            Some(Ok(l)) => ix(&l),
            _ => 0,
        }
    } else {
        match cfg.exit() {
            Some(x) => {
                let b = cfg.block(x).unwrap();
                let fl = match b.instructions().last() {
                    Some(i) => il::RefFunctionLocation::Instruction(b, i),
                    None => il::RefFunctionLocation::EmptyBlock(b),
                };
                ix(&il::RefProgramLocation::new(&function, fl))
            }
            None => 0,
        }
    };
    let (pred, succ) = if dir == "fwd" { (&bw, &fw) } else { (&fw, &bw) };

    if case.get("tab").is_none() || case["tab"].is_null() {
        let (t, kind) = random_table(rng, lat, n);
        case["tab"] = json!(t);
        case["kind"] = json!(kind);
    }
    let tab: Vec<Vec<u8>> = case["tab"]
        .as_array()
        .unwrap()
        .iter()
        .map(|r| r.as_array().unwrap().iter().map(|x| x.as_u64().unwrap() as u8).collect())
        .collect();
    assert_eq!(tab.len(), n, "table does not fit the function");

    let log = RefCell::new(Vec::new());
    let calls = Cell::new(0usize);
    let capped = Cell::new(false);
    let make = || Table { lat, index: &index, tab: &tab, log: &log, calls: &calls, capped: &capped };

    let res: fv::Outcome<Vec<(usize, u8)>> = fv::guard(|| {
        let mut m: Vec<(usize, u8)> = match (dir.as_str(), api.as_str()) {
            ("fwd", "plain") => fixed_point_forward(make(), &function)?
                .into_iter()
                .map(|(k, v)| (index.get(&k).copied().unwrap_or(0), v.v))
                .collect(),
            ("fwd", _) => fixed_point_forward_options(make(), &function, force, budget as usize)?
                .into_iter()
                .map(|(k, v)| (index.get(&k).copied().unwrap_or(0), v.v))
                .collect(),
            ("bwd", "plain") => {
                fixed_point_backward(make(), &function)?.into_iter().map(|(k, v)| (ix(&k), v.v)).collect()
            }
            _ => fixed_point_backward_options(make(), &function, force)?
                .into_iter()
                .map(|(k, v)| (ix(&k), v.v))
                .collect(),
        };
        m.sort();
        Ok(m)
    });

    out.emit(&json!({
        "ev": "begin", "id": id,
        // the inputs (what --mode replay re-drives)
        "fn": case["fn"].clone(), "lat": lat.name(), "tab": tab, "dir": dir, "api": api, "force": force,
        "budget": budget, "kind": case["kind"].clone(),
        // the problem as falcon's location API presents it
        "n": n, "names": names, "pred": pred, "succ": succ, "start": start, "cap": CAP,
    }));
    for e in log.borrow().iter() {
        out.emit(e);
    }
    let resj = match &res {
        fv::Outcome::Err(_) if capped.get() => json!({"err": "Diverged"}),
        _ => res.json(|m| json!(m.iter().map(|(l, v)| json!([l, v])).collect::<Vec<_>>())),
    };
    out.emit(&json!({"ev": "result", "res": resj, "calls": calls.get()}));
}

/// the API variants: (dir, api, force, budget)
fn random_variant(rng: &mut Rng) -> (&'static str, &'static str, bool, i64) {
    match rng.below(10) {
        0 | 1 => ("fwd", "plain", false, -1),
        2 | 3 => ("bwd", "plain", false, -1),
        4 | 5 | 6 => {
            let budget = match rng.below(10) {
                0 => 0,
                1 => 400,
                2 | 3 => rng.range(1, 8) as i64,
                _ => rng.range(1, 50) as i64,
            };
            ("fwd", "options", rng.chance(1, 3), budget)
        }
        _ => ("bwd", "options", rng.bool(), -1),
    }
}

fn random(out: &mut Out, rng: &mut Rng, n: u64, id0: u64) {
    for i in 0..n {
        let f = random_function(rng);
        let lat = random_lat(rng);
        let (dir, api, force, budget) = random_variant(rng);
        let mut case = json!({"fn": f, "lat": lat.name(), "dir": dir, "api": api, "force": force, "budget": budget});
        run_case(out, id0 + i, &mut case, rng);
    }
}

/// cases kept verbatim (function + table + call): regression corpus of findings
const PINNED: &str = r#"[
{"fn":{"blocks":[1,0,0],"edges":[[0,1],[1,1],[1,2]],"entry":1,"exit":2},"lat":"pow3","tab":[[4,6,7,6,1,0,4,3,1],[5,1,7,6,3,5,5,1,4],[6,5,2,1,6,1,7,1,6],[0,0,2,4,4,5,4,3,5],[2,3,3,3,5,0,5,5,3],[5,0,0,7,5,2,5,4,1]],"dir":"bwd","api":"options","force":true,"budget":-1,"kind":"pinned"},
{"fn":{"blocks":[1,0,0],"edges":[[0,1],[1,1],[1,2]],"entry":1,"exit":2},"lat":"pow3","tab":[[4,6,7,6,1,0,4,3,1],[5,1,7,6,3,5,5,1,4],[6,5,2,1,6,1,7,1,6],[0,0,2,4,4,5,4,3,5],[2,3,3,3,5,0,5,5,3],[5,0,0,7,5,2,5,4,1]],"dir":"bwd","api":"options","force":false,"budget":-1,"kind":"pinned"}
]"#;

fn corners(out: &mut Out, rng: &mut Rng, reps: u64) {
    let mut id = 0;
    let pinned: Vec<Value> = serde_json::from_str(PINNED).expect("pinned cases");
    for mut case in pinned {
        run_case(out, id, &mut case, rng);
        id += 1;
    }
    let variants: [(&str, &str, bool, i64); 9] = [
        ("fwd", "plain", false, -1),
        ("bwd", "plain", false, -1),
        ("fwd", "options", false, 400),
        ("fwd", "options", true, 400),
        ("fwd", "options", false, 3),
        ("fwd", "options", true, 7),
        ("fwd", "options", false, 0),
        ("bwd", "options", false, -1),
        ("bwd", "options", true, -1),
    ];
    for f in corner_functions() {
        for (dir, api, force, budget) in variants.iter() {
            for _ in 0..reps {
                let lat = random_lat(rng);
                let mut case =
                    json!({"fn": f.clone(), "lat": lat.name(), "dir": dir, "api": api, "force": force, "budget": budget});
                run_case(out, id, &mut case, rng);
                id += 1;
            }
        }
    }
}

fn replay(out: &mut Out, rng: &mut Rng, path: &str) {
    let text = std::fs::read_to_string(path).expect("read replay input");
    let mut id = 0;
    for line in text.lines().filter(|l| !l.trim().is_empty()) {
        let v: Value = serde_json::from_str(line).expect("json");
        // a begin event carries its own inputs; other events are skipped
        if v.get("fn").is_none() {
            continue;
        }
        let mut case = json!({"fn": v["fn"].clone(), "lat": v["lat"].clone(), "tab": v["tab"].clone(), "dir": v["dir"].clone(),
                              "api": v["api"].clone(), "force": v["force"].clone(), "budget": v["budget"].clone(),
                              "kind": v.get("kind").cloned().unwrap_or(json!("replay"))});
        run_case(out, id, &mut case, rng);
        id += 1;
    }
}

fn main() {
    fv::quiet_panics();
    let mode = fv::arg_str("mode", "random");
    let mut out = Out::create(&fv::arg_str("out", "/dev/stdout"));
    let stream = fv::arg_u64("stream", 0);
    let mut rng = Rng::new((fv::seed_from_env() ^ 0xC09).wrapping_mul(1_000_003).wrapping_add(stream));
    match mode.as_str() {
        "random" => random(&mut out, &mut rng, fv::arg_u64("n", 100), stream * 1_000_000),
        "corners" => corners(&mut out, &mut rng, fv::arg_u64("reps", 2)),
        "replay" => replay(&mut out, &mut rng, &fv::arg_str("in", "")),
        _ => panic!("unknown mode"),
    }
    let lines = out.finish();
    eprintln!("c09: {} events", lines);
}
