//! C16 recorder / replayer: drives memory::backing::Memory and logs every call with its result.
//! Trace_C16.tla (over Backing.tla) judges.
//!
//!   c16 --mode random --n SESSIONS [--writes MAX] [--stream K] --out FILE     (VERIF_SEED)
//!   c16 --mode gen --in HISTORIES.ndjson [--placements rotate|all] [--endian both|alternate] --out FILE
//!                                                          (TLC-generated small histories, MC_Backing)
//!   c16 --mode replay --in SESSION.ndjson --out FILE       (re-drive the inputs of a session)
//!
//! A session is a list of *input* events; `drive` executes it against the real memory and emits the
//! same events with the observed `res`.  Nothing here computes an expected value.  Addresses are
//! `[base index, offset]` pairs over the bases below (a u64 is never logged as a JSON number).

use falcon::architecture::Endian;
use falcon::memory::backing::Memory;
use falcon::memory::MemoryPermissions;
use fv::{build, guard, guard_plain, proj, Outcome, Rng};
use num_bigint::BigUint;
use serde_json::{json, Value};
use std::io::{BufRead, Write};

/// Offsets stay below 2^21.  Base 1 / 2 put offset 4096 on 2^32 / 2^63.
const BASES: [u64; 3] = [0, (1u64 << 32) - 4096, (1u64 << 63) - 4096];
const SPAN: u64 = 1 << 21;

/// ndjson writer that can be flushed (fv::Out cannot): a session is flushed as a whole, and in
/// replay mode every event, so that what a dying recorder (stack overflow, abort) leaves behind
/// is a well-formed prefix.
struct Out {
    w: std::io::BufWriter<std::fs::File>,
    each: bool,
}

impl Out {
    fn create(path: &str, each: bool) -> Out {
        if let Some(parent) = std::path::Path::new(path).parent() {
            let _ = std::fs::create_dir_all(parent);
        }
        Out { w: std::io::BufWriter::new(std::fs::File::create(path).expect("create output")), each }
    }
    fn emit(&mut self, v: &Value) {
        serde_json::to_writer(&mut self.w, v).unwrap();
        self.w.write_all(b"\n").unwrap();
        if self.each {
            self.w.flush().unwrap();
        }
    }
    fn flush(&mut self) {
        self.w.flush().unwrap();
    }
}

/// Drive one session; its inputs are parked in `<out>.cur` while it runs, so that the orchestrator
/// can tell which session killed the recorder (the file is removed when the recorder finishes).
struct Park {
    f: std::fs::File,
}

impl Park {
    fn create(path: &str) -> Park {
        Park { f: std::fs::File::create(path).expect("create .cur") }
    }
    fn set(&mut self, inputs: &[Value]) {
        use std::io::Seek;
        let bytes = serde_json::to_vec(inputs).unwrap();
        self.f.seek(std::io::SeekFrom::Start(0)).unwrap();
        self.f.write_all(&bytes).unwrap();
        self.f.set_len(bytes.len() as u64).unwrap();
    }
}

fn run_session(inputs: &[Value], out: &mut Out, park: &mut Park) {
    park.set(inputs);
    drive_session(inputs, out);
    out.flush();
}

fn abs(a: &Value) -> u64 {
    BASES[a[0].as_u64().unwrap() as usize] + a[1].as_u64().unwrap()
}

/// the [base index, offset] pair of an address the implementation reports (sections())
fn pair(address: u64) -> Value {
    for (i, b) in BASES.iter().enumerate().rev() {
        if address >= *b && address - *b < SPAN {
            return json!([i, address - *b]);
        }
    }
    json!([-1, 0])
}

fn unit<T>(o: &Outcome<T>) -> Value {
    o.json(|_| json!("unit"))
}

fn bytes_of(v: &Value) -> Vec<u8> {
    v.as_array().unwrap().iter().map(|x| x.as_u64().unwrap() as u8).collect()
}

/// one query of kind `what` at `address`
fn query(m: &Memory, what: &str, address: u64, bits: usize) -> Value {
    match what {
        "get8" => guard_plain(|| m.get8(address)).json(|b| json!(b.map(|b| b as i64).unwrap_or(-1))),
        "perm" => guard_plain(|| m.permissions(address)).json(|p| json!(p.map(|p| p.bits() as i64).unwrap_or(-1))),
        "get" => guard_plain(|| m.get(address, bits)).json(|c| c.as_ref().map(proj::val).unwrap_or_else(proj::none)),
        "get32" => guard_plain(|| m.get32(address))
            .json(|v| v.map(|v| proj::val_u64(v as u64, 32)).unwrap_or_else(proj::none)),
        other => panic!("unknown query {}", other),
    }
}

fn drive_session(inputs: &[Value], out: &mut Out) {
    let mut m = Memory::new(Endian::Little);
    for ev in inputs {
        let mut e = ev.clone();
        e.as_object_mut().unwrap().remove("res");
        let kind = ev["ev"].as_str().unwrap();
        match kind {
            "begin" => {
                m = Memory::new(if ev["endian"] == "big" { Endian::Big } else { Endian::Little });
                e["bases"] = json!(BASES.iter().map(|b| proj::limbs(&BigUint::from(*b), 64)).collect::<Vec<_>>());
            }
            "set_memory" => {
                let a = abs(&ev["a"]);
                let data = bytes_of(&ev["d"]);
                let p = MemoryPermissions::from_bits_truncate(ev["p"].as_u64().unwrap() as u32);
                e["res"] = unit(&guard_plain(|| m.set_memory(a, data, p)));
            }
            "set32" => {
                let a = abs(&ev["a"]);
                let v = build::constant(&ev["v"]).value_u64().unwrap() as u32;
                e["res"] = unit(&guard(|| m.set32(a, v)));
            }
            "get8" | "perm" | "get" | "get32" => {
                e["res"] = query(&m, kind, abs(&ev["a"]), ev["bits"].as_u64().unwrap_or(0) as usize);
            }
            "scan" => {
                let a = abs(&ev["a"]);
                let what = ev["what"].as_str().unwrap();
                let bits = ev["bits"].as_u64().unwrap_or(0) as usize;
                let n = ev["n"].as_u64().unwrap();
                e["res"] = json!((0..n).map(|i| query(&m, what, a + i, bits)).collect::<Vec<_>>());
            }
            "sections" => {
                let r = guard_plain(|| {
                    m.sections()
                        .iter()
                        .map(|(a, s)| json!({"a": pair(*a), "d": s.data().to_vec(), "p": s.permissions().bits()}))
                        .collect::<Vec<_>>()
                });
                e["res"] = r.json(|v| json!(v));
            }
            other => panic!("unknown event kind {}", other),
        }
        out.emit(&e);
    }
}

// ------------------------------------------------------------------------------------------
// random histories
// ------------------------------------------------------------------------------------------
fn random_session(rng: &mut Rng, max_writes: u64) -> Vec<Value> {
    let mut evs = Vec::new();
    evs.push(json!({"ev": "begin", "endian": if rng.bool() { "big" } else { "little" }}));
    // a window of 160 bytes; writes of length 0..40 land in it, so regions overlap, nest and touch
    let base = rng.below(3);
    let start = match base {
        0 => *rng.pick(&[8u64, 8, 100_000, 1_500_000]),
        _ => *rng.pick(&[4096u64 - 70, 4096 - 20, 4096, 9000]),
    };
    let wlen = 160u64;
    // with or without empty writes (those trigger a known defect, which then shadows part of the window)
    let empties = rng.chance(1, 3);
    let writes = rng.range(1, max_writes);
    let mut starts: Vec<u64> = Vec::new();
    for _ in 0..writes {
        if rng.chance(1, 7) && !starts.is_empty() {
            // a 32-bit write: mostly inside a region, sometimes straddling / unmapped
            let s = *rng.pick(&starts);
            let off = s + rng.below(12);
            evs.push(json!({"ev": "set32", "a": [base, off], "v": proj::val_u64(rng.next() & 0xffff_ffff, 32)}));
            continue;
        }
        let len = match rng.below(10) {
            0 if empties => 0,
            1 => 1,
            2 => rng.range(1, 4),
            3 => 40,
            _ => rng.range(if empties { 0 } else { 1 }, 40),
        };
        // starts: fresh, or related to an earlier region (same start, adjacent, nested)
        let off = if !starts.is_empty() && rng.chance(1, 2) {
            let s = *rng.pick(&starts);
            (s + rng.below(44)).saturating_sub(rng.below(8)).max(start).min(start + wlen - 40)
        } else {
            start + rng.below(wlen - 40)
        };
        starts.push(off);
        let data: Vec<u64> = (0..len).map(|_| rng.below(256)).collect();
        evs.push(json!({"ev": "set_memory", "a": [base, off], "d": data, "p": rng.below(8)}));
        // interleaved spot checks
        if rng.chance(1, 4) {
            let a = json!([base, start + rng.below(wlen)]);
            let bits = 8 * rng.range(1, 16);
            match rng.below(4) {
                0 => evs.push(json!({"ev": "get8", "a": a})),
                1 => evs.push(json!({"ev": "perm", "a": a})),
                2 => evs.push(json!({"ev": "get", "a": a, "bits": bits})),
                _ => evs.push(json!({"ev": "get32", "a": a})),
            }
        }
    }
    // all reads over the touched window +- 8
    let lo = json!([base, start - 8]);
    let n = wlen + 16;
    evs.push(json!({"ev": "scan", "what": "get8", "a": lo, "n": n}));
    evs.push(json!({"ev": "scan", "what": "perm", "a": lo, "n": n}));
    for bits in [16u64, 32, 64, 8 * rng.range(3, 32)] {
        evs.push(json!({"ev": "scan", "what": "get", "bits": bits, "a": lo, "n": n}));
    }
    evs.push(json!({"ev": "scan", "what": "get32", "a": lo, "n": n}));
    evs.push(json!({"ev": "sections"}));
    evs
}

// ------------------------------------------------------------------------------------------
// TLC-generated small histories (spec/mc/MC_Backing.tla prints them, window-relative)
// ------------------------------------------------------------------------------------------
fn place(base: u64, off: i64) -> Value {
    // base 0: the window starts at address 8 (reads start at 0); base 1 / 2: across 2^32 / 2^63
    let start: i64 = if base == 0 { 8 } else { 4096 - 5 };
    json!([base, start + off])
}

fn gen_session(hist: &Value, base: u64, endian: &str) -> Option<Vec<Value>> {
    let mut evs = Vec::new();
    evs.push(json!({"ev": "begin", "endian": endian}));
    for op in hist["ops"].as_array().unwrap() {
        let mut e = op.clone();
        let o = e.as_object_mut().unwrap();
        let off = o.remove("off").unwrap().as_i64().unwrap();
        o.insert("a".into(), place(base, off));
        if let Some(en) = o.remove("endian") {
            // a set32 history is specific to one endianness
            if en != endian {
                return None;
            }
        }
        evs.push(e);
    }
    let scan = &hist["scan"];
    let lo = place(base, scan["lo"].as_i64().unwrap());
    let n = &scan["n"];
    evs.push(json!({"ev": "scan", "what": "get8", "a": lo, "n": n}));
    evs.push(json!({"ev": "scan", "what": "perm", "a": lo, "n": n}));
    for bits in scan["bits"].as_array().unwrap() {
        evs.push(json!({"ev": "scan", "what": "get", "bits": bits, "a": lo, "n": n}));
    }
    evs.push(json!({"ev": "scan", "what": "get32", "a": lo, "n": n}));
    evs.push(json!({"ev": "sections"}));
    Some(evs)
}

fn read_ndjson(path: &str) -> Vec<Value> {
    let f = std::io::BufReader::new(std::fs::File::open(path).expect("open --in"));
    f.lines().map(|l| l.unwrap()).filter(|l| !l.trim().is_empty()).map(|l| serde_json::from_str(&l).expect("json")).collect()
}

fn main() {
    fv::quiet_panics();
    let mode = fv::arg_str("mode", "random");
    let path = fv::arg_str("out", "/dev/stdout");
    let cur_path = format!("{}.cur", path);
    let mut park = Park::create(&cur_path);
    let mut out = Out::create(&path, mode == "replay");
    match mode.as_str() {
        "random" => {
            let n = fv::arg_u64("n", 100);
            let writes = fv::arg_u64("writes", 60);
            let mut rng = Rng::new(fv::seed_from_env() ^ 0xC16 ^ (fv::arg_u64("stream", 0) << 24));
            for _ in 0..n {
                run_session(&random_session(&mut rng, writes), &mut out, &mut park);
            }
        }
        "gen" => {
            let placements = fv::arg_str("placements", "rotate");
            let endian_mode = fv::arg_str("endian", "both");
            for (i, hist) in read_ndjson(&fv::arg_str("in", "")).iter().enumerate() {
                let bases: Vec<u64> = if placements == "all" { vec![0, 1, 2] } else { vec![i as u64 % 3] };
                // endianness: both (default), or alternating with the history index
                let endians: Vec<&str> = match endian_mode.as_str() {
                    "alternate" => vec![if (i / 3) % 2 == 0 { "little" } else { "big" }],
                    _ => vec!["little", "big"],
                };
                for base in bases {
                    for endian in endians.iter().cloned() {
                        if let Some(s) = gen_session(hist, base, endian) {
                            run_session(&s, &mut out, &mut park);
                        }
                    }
                }
            }
        }
        "replay" => {
            let evs = read_ndjson(&fv::arg_str("in", ""));
            let mut cur: Vec<Value> = Vec::new();
            for e in evs {
                if e["ev"] == "begin" && !cur.is_empty() {
                    run_session(&cur, &mut out, &mut park);
                    cur.clear();
                }
                cur.push(e);
            }
            if !cur.is_empty() {
                run_session(&cur, &mut out, &mut park);
            }
        }
        other => panic!("unknown mode {}", other),
    }
    out.flush();
    drop(park);
    let _ = std::fs::remove_file(&cur_path);
}
