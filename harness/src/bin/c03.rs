//! C03 recorder: AArch64 instruction instances (raw word + initial architectural state) lifted
//! with the real translator and run with the real executor::Driver until control reaches an
//! instruction with a different native address.  One `inst` event per instance; Trace_C03.tla
//! decodes the word itself (spec/A64.tla), executes the Arm ARM pseudocode and compares.
//! Nothing in here computes an expected value: the generator only builds encodings from field
//! templates and aims base registers at the data window.
//!
//!   c03 --mode random --n N [--classes a,b,..] --out FILE       (VERIF_SEED)
//!   c03 --mode corpus --in corpus.json --out FILE                (fixed instances, e.g. the repo's tests)
//!   c03 --mode replay --in FILE --out FILE                       (re-drive the inputs of recorded events)
//!   c03 --mode classes                                           (print the generator classes)

use falcon::architecture::{self, Architecture, Endian};
use falcon::executor::{Driver, Memory, State};
use falcon::il;
use falcon::memory::{backing, MemoryPermissions};
use falcon::translator::aarch64::{AArch64, AArch64Eb};
use falcon::translator::Translator;
use falcon::RC;
use fv::{guard, Out, Outcome, Rng};
use serde_json::{json, Value};
use std::collections::BTreeMap;

const NOP: u32 = 0xd503_201f;
const WIN: usize = 96;
const MAX_STEPS: usize = 48;

#[derive(Clone)]
struct Inst {
    cls: String,
    word: u32,
    big: bool,
    addr: u64,
    x: [u64; 31],
    sp: u64,
    f: [u8; 4], // n z c v
    q: Option<Vec<u128>>,
    mbase: u64,
    mem: Vec<u8>,
    pads: Vec<u64>,
}

fn l64(v: u64) -> Value {
    json!(v.to_le_bytes().to_vec())
}
fn l128(v: u128) -> Value {
    json!(v.to_le_bytes().to_vec())
}
fn u64_of(v: &Value) -> u64 {
    let mut r = 0u64;
    for (i, b) in v.as_array().unwrap().iter().enumerate().take(8) {
        r |= b.as_u64().unwrap() << (8 * i);
    }
    r
}
fn u128_of(v: &Value) -> u128 {
    let mut r = 0u128;
    for (i, b) in v.as_array().unwrap().iter().enumerate().take(16) {
        r |= (b.as_u64().unwrap() as u128) << (8 * i);
    }
    r
}

fn inputs_json(i: &Inst) -> Value {
    let mut pre = json!({
        "x": i.x.iter().map(|v| l64(*v)).collect::<Vec<_>>(),
        "sp": l64(i.sp),
        "f": i.f.to_vec(),
        "mbase": l64(i.mbase),
        "mem": i.mem.clone(),
    });
    if let Some(q) = &i.q {
        pre["q"] = json!(q.iter().map(|v| l128(*v)).collect::<Vec<_>>());
    }
    json!({
        "ev": "inst", "cls": i.cls, "word": i.word.to_le_bytes().to_vec(), "big": i.big,
        "addr": l64(i.addr), "pads": i.pads.iter().map(|p| l64(*p)).collect::<Vec<_>>(), "pre": pre,
    })
}

fn inst_from_json(v: &Value) -> Inst {
    let w = v["word"].as_array().unwrap();
    let word = (0..4).fold(0u32, |a, k| a | ((w[k].as_u64().unwrap() as u32) << (8 * k)));
    let pre = &v["pre"];
    let mut x = [0u64; 31];
    for (k, xv) in pre["x"].as_array().unwrap().iter().enumerate().take(31) {
        x[k] = u64_of(xv);
    }
    let fl = pre["f"].as_array().unwrap();
    Inst {
        cls: v["cls"].as_str().unwrap_or("replay").to_string(),
        word,
        big: v["big"].as_bool().unwrap(),
        addr: u64_of(&v["addr"]),
        x,
        sp: u64_of(&pre["sp"]),
        f: [fl[0].as_u64().unwrap() as u8, fl[1].as_u64().unwrap() as u8, fl[2].as_u64().unwrap() as u8, fl[3].as_u64().unwrap() as u8],
        q: pre.get("q").map(|q| q.as_array().unwrap().iter().map(u128_of).collect()),
        mbase: u64_of(&pre["mbase"]),
        mem: pre["mem"].as_array().unwrap().iter().map(|b| b.as_u64().unwrap() as u8).collect(),
        pads: v["pads"].as_array().map(|a| a.iter().map(u64_of).collect()).unwrap_or_default(),
    }
}

/// limbs of a scalar as the executor holds it (length shows the width); [] when undefined
fn sc_limbs(state: &State, name: &str) -> Value {
    match state.get_scalar(name) {
        Some(c) => json!(fv::proj::limbs(c.value(), c.bits())),
        None => json!([]),
    }
}
fn flag(state: &State, name: &str) -> i64 {
    match state.get_scalar(name) {
        Some(c) if c.bits() == 1 => c.value_u64().unwrap_or(99) as i64,
        Some(c) => 100 + c.bits() as i64,
        None => -1,
    }
}

fn post_json(i: &Inst, state: &State) -> Value {
    let mut mem = Vec::with_capacity(i.mem.len());
    for k in 0..i.mem.len() as u64 {
        let b = match guard(|| state.memory().load(i.mbase.wrapping_add(k), 8)) {
            Outcome::Ok(Some(c)) => c.value_u64().map(|x| x as i64).unwrap_or(-2),
            Outcome::Ok(None) => -1,
            _ => -3,
        };
        mem.push(b);
    }
    let mut post = json!({
        "x": (0..31).map(|k| sc_limbs(state, &format!("x{}", k))).collect::<Vec<_>>(),
        "sp": sc_limbs(state, "sp"),
        "f": [flag(state, "n"), flag(state, "z"), flag(state, "c"), flag(state, "v")],
        "mem": mem,
    });
    if i.q.is_some() {
        post["q"] = json!((0..32).map(|k| sc_limbs(state, &format!("v{}", k))).collect::<Vec<_>>());
    }
    // pages the executor created (copy-on-write): a store that went astray shows up here
    let mut pages: Vec<u64> = state.memory().pages().keys().cloned().collect();
    pages.sort();
    post["pages"] = json!(pages.iter().map(|p| l64(*p)).collect::<Vec<_>>());
    post["psize"] = json!(falcon::memory::paged::PAGE_SIZE);
    post
}

fn record(i: &Inst) -> Value {
    let mut ev = inputs_json(i);
    // ---- code: the word, two NOPs behind it, two NOPs at every landing pad (pads never
    // overwrite code bytes; pads touching the data window or the top of the address space are dropped)
    let mut code: BTreeMap<u64, u8> = BTreeMap::new();
    for (k, w) in [i.word, NOP, NOP].iter().enumerate() {
        for (j, b) in w.to_le_bytes().iter().enumerate() {
            code.insert(i.addr.wrapping_add((4 * k + j) as u64), *b);
        }
    }
    for p in &i.pads {
        let p = *p;
        if p > u64::MAX - 64 {
            continue;
        }
        let near_win = p.wrapping_add(8).wrapping_sub(i.mbase) < (i.mem.len() as u64 + 16);
        if near_win {
            continue;
        }
        for k in 0..8u64 {
            code.entry(p + k).or_insert(NOP.to_le_bytes()[(k % 4) as usize]);
        }
    }
    let mut segs: Vec<(u64, Vec<u8>)> = Vec::new();
    for (a, b) in &code {
        match segs.last_mut() {
            Some((start, bytes)) if start.wrapping_add(bytes.len() as u64) == *a => bytes.push(*b),
            _ => segs.push((*a, vec![*b])),
        }
    }
    let endian = if i.big { Endian::Big } else { Endian::Little };
    let mut back = backing::Memory::new(endian.clone());
    for (a, b) in segs {
        back.set_memory(a, b, MemoryPermissions::EXECUTE | MemoryPermissions::READ);
    }
    back.set_memory(i.mbase, i.mem.clone(), MemoryPermissions::READ | MemoryPermissions::WRITE);

    // bad64's reading of the word: information for triage only, the specification never looks at it
    if let Ok(ins) = bad64::decode(i.word, i.addr) {
        ev["dis"] = json!({"op": format!("{:?}", ins.op()), "text": format!("{}", ins)});
    }

    // ---- lift
    let big = i.big;
    let addr = i.addr;
    let lifted = guard(|| if big { AArch64Eb::new().translate_function(&back, addr) } else { AArch64::new().translate_function(&back, addr) });
    ev["lift"] = lifted.json(|_| json!(1));
    let function = match lifted {
        Outcome::Ok(f) => f,
        _ => return ev,
    };
    let mut program = il::Program::new();
    program.add_function(function);
    let start: il::ProgramLocation = match il::RefProgramLocation::from_function(program.function(0).unwrap()) {
        Some(Ok(l)) => l.into(),
        _ => {
            ev["run"] = json!({"err": "NoEntry"});
            return ev;
        }
    };
    let mut state = State::new(Memory::new_with_backing(endian, RC::new(back)));
    for k in 0..31 {
        state.set_scalar(format!("x{}", k), il::const_(i.x[k], 64));
    }
    state.set_scalar("sp", il::const_(i.sp, 64));
    for (k, n) in ["n", "z", "c", "v"].iter().enumerate() {
        state.set_scalar(*n, il::const_(i.f[k] as u64, 1));
    }
    if let Some(q) = &i.q {
        for (k, v) in q.iter().enumerate() {
            let c = il::Constant::new_big(num_bigint::BigUint::from(*v), 128);
            state.set_scalar(format!("v{}", k), c);
        }
    }
    let arch: RC<dyn Architecture> = if i.big { RC::new(architecture::AArch64Eb::new()) } else { RC::new(architecture::AArch64::new()) };
    let mut driver = Driver::new(RC::new(program), start.clone(), state, arch);

    // ---- run: until an instruction with another native address, or back at the start
    let mut steps = 0usize;
    loop {
        let here = guard(|| Ok(driver.location().apply(driver.program())?.address()));
        let here = match here {
            Outcome::Ok(a) => a,
            other => {
                ev["run"] = other.json(|_| json!(0));
                return ev;
            }
        };
        if let Some(a) = here {
            if a != i.addr {
                ev["run"] = json!({"ok": {"pc": l64(a), "steps": steps}});
                ev["post"] = post_json(i, driver.state());
                return ev;
            }
        }
        if steps > 0 && *driver.location() == start {
            ev["run"] = json!({"ok": {"pc": l64(i.addr), "steps": steps}});
            ev["post"] = post_json(i, driver.state());
            return ev;
        }
        if steps >= MAX_STEPS {
            ev["run"] = json!({"err": "NoProgress"});
            return ev;
        }
        let d2 = driver.clone();
        match std::panic::catch_unwind(std::panic::AssertUnwindSafe(move || d2.step())) {
            Ok(Ok(nd)) => driver = nd,
            Ok(Err(falcon::Error::ExecutorLiftFail(at, _))) => {
                ev["run"] = json!({"err": "ExecutorLiftFail", "at": l64(at)});
                return ev;
            }
            Ok(Err(e)) => {
                ev["run"] = json!({"err": fv::err_name(&e), "msg": format!("{}", e).chars().take(120).collect::<String>()});
                return ev;
            }
            Err(p) => {
                let m = if let Some(s) = p.downcast_ref::<&str>() { s.to_string() } else if let Some(s) = p.downcast_ref::<String>() { s.clone() } else { "panic".into() };
                ev["run"] = json!({"panic": m.chars().take(160).collect::<String>()});
                return ev;
            }
        }
        steps += 1;
    }
}

// ------------------------------------------------------------------------------------------
// generator: encodings from field templates, states aimed at the instruction
// ------------------------------------------------------------------------------------------
fn reg(rng: &mut Rng) -> u32 {
    if rng.chance(1, 5) { 31 } else { rng.below(31) as u32 }
}
fn val64(rng: &mut Rng) -> u64 {
    if rng.chance(3, 5) {
        let v = rng.interesting(64);
        v.iter_u64_digits().next().unwrap_or(0)
    } else if rng.chance(1, 3) {
        // 32-bit boundaries inside a 64-bit register
        let v = rng.interesting(32).iter_u64_digits().next().unwrap_or(0);
        if rng.bool() { v } else { v | (rng.next() << 32) }
    } else {
        rng.next()
    }
}
fn pick_u32(rng: &mut Rng, xs: &[u32], bits: u32) -> u32 {
    if rng.chance(1, 2) { *rng.pick(xs) } else { (rng.next() as u32) & ((1u32 << bits) - 1) }
}

fn base_state(rng: &mut Rng) -> Inst {
    let mut x = [0u64; 31];
    for v in x.iter_mut() {
        *v = val64(rng);
    }
    let mbase = *rng.pick(&[0x8000u64, 0x1_ffff_ffc0, 0x7fff_ffff_ffff_ffa0, 0x0000_7ffd_1234_5000, 0x4000]);
    let addr = *rng.pick(&[0x1_0000u64, 0x40_0000, 0xffff_fff8, 0xffff_fffc, 0x0000_aaaa_bbbb_c000, 0x7fff_0000_0000_1000]);
    Inst {
        cls: String::new(),
        word: NOP,
        big: rng.chance(1, 3),
        addr,
        x,
        sp: val64(rng),
        f: [rng.below(2) as u8, rng.below(2) as u8, rng.below(2) as u8, rng.below(2) as u8],
        q: None,
        mbase,
        mem: (0..WIN).map(|_| if rng.chance(1, 8) { *rng.pick(&[0u8, 0x80, 0xff, 0x7f]) } else { rng.below(256) as u8 }).collect(),
        pads: Vec::new(),
    }
}

fn set_base(i: &mut Inst, r: u32, v: u64) {
    if r == 31 { i.sp = v } else { i.x[r as usize] = v }
}
/// aliased register fields now and then
fn alias3(rng: &mut Rng) -> (u32, u32, u32) {
    let (a, b, c) = (reg(rng), reg(rng), reg(rng));
    match rng.below(10) {
        0 => (a, a, a),
        1 => (a, a, c),
        2 => (a, b, a),
        3 => (a, b, b),
        _ => (a, b, c),
    }
}
/// an effective address inside the window for an access of `bytes` bytes
fn ea(rng: &mut Rng, i: &Inst, bytes: u64) -> u64 {
    let room = WIN as u64 - bytes;
    let k = match rng.below(6) {
        0 => 0,
        1 => room,
        2 => 1.min(room),
        3 => (room / 2) & !7,
        _ => rng.below(room + 1),
    };
    i.mbase.wrapping_add(k)
}
/// V0..V31: bytes biased to 0xff / 0x00 / 0x80 / 0x01 so that element-wise arithmetic carries
/// at lane boundaries now and then
fn with_q(rng: &mut Rng, i: &mut Inst) {
    let mut q = Vec::with_capacity(32);
    for _ in 0..32 {
        let mut v = 0u128;
        let plain = rng.chance(1, 3);
        for k in 0..16 {
            let b = if plain { rng.below(256) } else {
                match rng.below(12) { 0..=3 => 0xff, 4 | 5 => 0, 6 => 0x80, 7 => 1, 8 => 0x7f, _ => rng.below(256) }
            };
            v |= (b as u128) << (8 * k);
        }
        q.push(v);
    }
    i.q = Some(q);
}

const CLASSES: &[&str] = &[
    "addsub_imm", "addsub_shift", "addsub_ext", "movewide", "logical_shift", "logical_imm",
    "ldst_uimm", "ldst_imm9", "ldst_regoff", "ldst_pair", "ldst_ordered", "ldst_literal",
    "simd_ldst", "simd_dp", "b_bl", "b_cond", "cbz", "tbz", "br_blr_ret", "hint", "sve", "random", "scan",
];

fn gen(rng: &mut Rng, cls: &str) -> Inst {
    let mut i = base_state(rng);
    i.cls = cls.to_string();
    let sf = rng.below(2) as u32;
    let (rd, rn, rm) = alias3(rng);
    match cls {
        "addsub_imm" => {
            let (op, s, sh) = (rng.below(2) as u32, rng.below(2) as u32, rng.chance(1, 3) as u32);
            let imm = pick_u32(rng, &[0, 1, 0xfff, 0x800, 0x7ff], 12);
            // keep the CMP/CMN aliases (not accepted by the lifter) rare
            let rd = if s == 1 && rd == 31 && rng.chance(3, 4) { rng.below(31) as u32 } else { rd };
            i.word = (sf << 31) | (op << 30) | (s << 29) | (0b100010 << 23) | (sh << 22) | (imm << 10) | (rn << 5) | rd;
        }
        "addsub_shift" => {
            let (op, s) = (rng.below(2) as u32, rng.below(2) as u32);
            let shift = if rng.chance(1, 16) { 3 } else { rng.below(3) as u32 };
            let imm6 = if sf == 1 { pick_u32(rng, &[0, 1, 31, 32, 63], 6) } else if rng.chance(1, 16) { 32 + rng.below(32) as u32 } else { pick_u32(rng, &[0, 1, 31, 16], 5) };
            let rd = if s == 1 && rd == 31 && rng.chance(3, 4) { rng.below(31) as u32 } else { rd };
            let rn = if op == 1 && rn == 31 && rng.chance(3, 4) { rng.below(31) as u32 } else { rn }; // NEG alias rare
            i.word = (sf << 31) | (op << 30) | (s << 29) | (0b01011 << 24) | (shift << 22) | (rm << 16) | (imm6 << 10) | (rn << 5) | rd;
        }
        "addsub_ext" => {
            let (op, s) = (rng.below(2) as u32, rng.below(2) as u32);
            let option = rng.below(8) as u32;
            let imm3 = if rng.chance(1, 16) { 5 + rng.below(3) as u32 } else { rng.below(5) as u32 };
            let rd = if s == 1 && rd == 31 && rng.chance(3, 4) { rng.below(31) as u32 } else { rd };
            i.word = (sf << 31) | (op << 30) | (s << 29) | (0b01011 << 24) | (1 << 21) | (rm << 16) | (option << 13) | (imm3 << 10) | (rn << 5) | rd;
        }
        "movewide" => {
            let opc = *rng.pick(&[0u32, 2, 2, 3, 0, 2, 1]);
            let hw = if sf == 1 { rng.below(4) as u32 } else if rng.chance(1, 16) { 2 + rng.below(2) as u32 } else { rng.below(2) as u32 };
            let imm16 = pick_u32(rng, &[0, 1, 0xffff, 0x8000, 0x7fff], 16);
            i.word = (sf << 31) | (opc << 29) | (0b100101 << 23) | (hw << 21) | (imm16 << 5) | rd;
        }
        "logical_shift" => {
            // mostly the MOV alias (ORR Rd, ZR, Rm), the rest of the class is not accepted by the lifter
            let mov = rng.chance(3, 4);
            let opc = if mov { 1 } else { rng.below(4) as u32 };
            let (shift, n, imm6, rn) = if mov { (0, 0, 0, 31) } else { (rng.below(4) as u32, rng.below(2) as u32, rng.below(if sf == 1 { 64 } else { 32 }) as u32, rn) };
            i.word = (sf << 31) | (opc << 29) | (0b01010 << 24) | (shift << 22) | (n << 21) | (rm << 16) | (imm6 << 10) | (rn << 5) | rd;
        }
        "logical_imm" => {
            let mov = rng.chance(3, 4);
            let opc = if mov { 1 } else { rng.below(4) as u32 };
            let rn = if mov { 31 } else { rn };
            let n = if sf == 1 { rng.below(2) as u32 } else if rng.chance(1, 16) { 1 } else { 0 };
            let (immr, imms) = (rng.below(64) as u32, rng.below(64) as u32);
            i.word = (sf << 31) | (opc << 29) | (0b100100 << 23) | (n << 22) | (immr << 16) | (imms << 10) | (rn << 5) | rd;
        }
        "ldst_uimm" | "ldst_imm9" | "ldst_regoff" | "simd_ldst" => {
            let simd = cls == "simd_ldst";
            let form = if simd { *rng.pick(&["ldst_uimm", "ldst_imm9", "ldst_regoff", "pair"]) } else { cls };
            if simd {
                with_q(rng, &mut i);
            }
            if form == "pair" {
                gen_pair(rng, &mut i, 1, rd, rn, rm);
                return i;
            }
            let size = rng.below(4) as u32;
            let opc = if simd { rng.below(4) as u32 } else { rng.below(4) as u32 };
            let v = simd as u32;
            let scale = if simd { ((opc >> 1) << 2) | size } else { size };
            let bytes = 1u64 << scale.min(4);
            let (rt, rn) = (rd, rn);
            // write-back forms with Rt == Rn (n != 31) are CONSTRAINED UNPREDICTABLE: not generated
            let target = ea(rng, &i, bytes);
            match form {
                "ldst_uimm" => {
                    let imm12 = pick_u32(rng, &[0, 1, 0xfff, 2, 0x800], 12);
                    i.word = (size << 30) | (0b111 << 27) | (v << 26) | (0b01 << 24) | (opc << 22) | (imm12 << 10) | (rn << 5) | rt;
                    set_base(&mut i, rn, target.wrapping_sub((imm12 as u64) << scale.min(4)));
                }
                "ldst_imm9" => {
                    let imm9 = pick_u32(rng, &[0, 1, 0xff, 0x100, 0x1ff, 8, 0x1f8], 9);
                    let mode = *rng.pick(&[0u32, 1, 3, 0, 1, 3, 2]);
                    let off = (((imm9 << 23) as i32) >> 23) as i64 as u64;
                    let mut rn = rn;
                    if !simd && (mode == 1 || mode == 3) && rn == rt && rn != 31 {
                        rn = (rn + 1) % 31;
                    }
                    i.word = (size << 30) | (0b111 << 27) | (v << 26) | (opc << 22) | (imm9 << 12) | (mode << 10) | (rn << 5) | rt;
                    set_base(&mut i, rn, if mode == 1 { target } else { target.wrapping_sub(off) });
                }
                _ => {
                    let option = if rng.chance(1, 12) { rng.below(8) as u32 } else { *rng.pick(&[2u32, 3, 6, 7]) };
                    let s = rng.below(2) as u32;
                    let sh = if s == 1 { scale.min(4) } else { 0 };
                    i.word = (size << 30) | (0b111 << 27) | (v << 26) | (opc << 22) | (1 << 21) | (rm << 16) | (option << 13) | (s << 12) | (0b10 << 10) | (rn << 5) | rt;
                    if rm == rn && rm != 31 {
                        // base and index are one register: v + ext(v) << sh = target
                        let d = 1u64 + (1u64 << sh);
                        if option & 3 == 3 {
                            // X index: d is odd, so it has an inverse modulo 2^64
                            let mut inv = d;
                            for _ in 0..6 {
                                inv = inv.wrapping_mul(2u64.wrapping_sub(d.wrapping_mul(inv)));
                            }
                            i.x[rm as usize] = target.wrapping_mul(inv);
                        } else if target % d == 0 && target / d < 0x8000_0000 {
                            i.x[rm as usize] = target / d;
                        }
                    } else {
                        let m = if rm == 31 { 0 } else { i.x[rm as usize] };
                        let ext = match option & 7 {
                            2 => m & 0xffff_ffff,
                            6 => m as u32 as i32 as i64 as u64,
                            _ => m,
                        };
                        set_base(&mut i, rn, target.wrapping_sub(ext.wrapping_shl(sh)));
                    }
                }
            }
        }
        "simd_dp" => {
            with_q(rng, &mut i);
            let q = rng.below(2) as u32;
            match rng.below(8) {
                0..=2 => {
                    // ADD / SUB (vector): 0 Q U 01110 size 1 Rm 10000 1 Rn Rd
                    let (u, size) = (rng.below(2) as u32, rng.below(4) as u32);
                    i.word = (q << 30) | (u << 29) | (0b01110 << 24) | (size << 22) | (1 << 21) | (rm << 16) | (0b10000 << 11) | (1 << 10) | (rn << 5) | rd;
                }
                3 => {
                    // ADD / SUB (scalar): 01 U 11110 size 1 Rm 10000 1 Rn Rd (size = 11)
                    let u = rng.below(2) as u32;
                    let size = if rng.chance(1, 8) { rng.below(3) as u32 } else { 3 };
                    i.word = (1 << 30) | (u << 29) | (0b11110 << 24) | (size << 22) | (1 << 21) | (rm << 16) | (0b10000 << 11) | (1 << 10) | (rn << 5) | rd;
                }
                4 => {
                    // ORR (vector, register); MOV Vd, Vn when Rm = Rn
                    let rm = if rng.chance(3, 4) { rn } else { rm };
                    i.word = (q << 30) | (0b01110 << 24) | (2 << 22) | (1 << 21) | (rm << 16) | (0b00011 << 11) | (1 << 10) | (rn << 5) | rd;
                }
                5 => {
                    // INS (element) / INS (general): 0 1 op 01110000 imm5 0 imm4 1 Rn Rd
                    let op = rng.below(2) as u32;
                    let imm5 = rng.below(32) as u32;
                    let imm4 = if op == 1 { rng.below(16) as u32 } else { 3 };
                    i.word = (1 << 30) | (op << 29) | (0b01110000 << 21) | (imm5 << 16) | (imm4 << 11) | (1 << 10) | (rn << 5) | rd;
                }
                6 => {
                    // UMOV (MOV to general for S and D elements)
                    let imm5 = if rng.chance(1, 4) { rng.below(32) as u32 } else if q == 1 { 8 | ((rng.below(2) as u32) << 4) } else { 4 | ((rng.below(4) as u32) << 3) };
                    i.word = (q << 30) | (0b01110000 << 21) | (imm5 << 16) | (0b0111 << 11) | (1 << 10) | (rn << 5) | rd;
                }
                _ => {
                    // DUP (element, scalar) = MOV <V>d, Vn.T[i]: 01 0 11110000 imm5 0 0000 1 Rn Rd
                    let imm5 = rng.below(32) as u32;
                    i.word = (1 << 30) | (0b11110000 << 21) | (imm5 << 16) | (1 << 10) | (rn << 5) | rd;
                }
            }
        }
        "sve" => {
            // SVE prefetch hints (lifted as NOP) from their templates; now and then any word of the
            // SVE group (0010), where the lifter also accepts some ADD/SUB/MOV forms on Z registers
            let w = rng.next() as u32;
            let (msz, pg, prfop) = (rng.below(4) as u32, rng.below(8) as u32, rng.below(16) as u32);
            let tail = (pg << 10) | (rn << 5) | (((prfop >> 3) & 1) << 3) | (prfop & 7) | ((rng.chance(1, 16) as u32) << 4);
            i.word = match rng.below(9) {
                0 => (0b1000010 << 25) | (0b111 << 22) | ((rng.below(64) as u32) << 16) | (msz << 13) | tail,
                1 => (0b1000010 << 25) | (msz << 23) | (rm << 16) | (0b110 << 13) | tail,
                2 => (0b1000010 << 25) | ((rng.below(2) as u32) << 22) | (1 << 21) | (rm << 16) | (msz << 13) | tail,
                3 => (0b1000010 << 25) | (msz << 23) | (rm << 16) | (0b111 << 13) | tail,
                4 => (0b1100010 << 25) | ((rng.below(2) as u32) << 22) | (1 << 21) | (rm << 16) | (msz << 13) | tail,
                5 => (0b1100010 << 25) | (0b11 << 21) | (rm << 16) | (1 << 15) | (msz << 13) | tail,
                6 => (0b1100010 << 25) | (msz << 23) | (rm << 16) | (0b111 << 13) | tail,
                _ => (w & !(0b1111 << 25)) | (0b0010 << 25),
            };
        }
        "ldst_pair" => gen_pair(rng, &mut i, 0, rd, rn, rm),
        "ldst_ordered" => {
            let size = rng.below(4) as u32;
            let rt = rd;
            let target = ea(rng, &i, 1 << size);
            match rng.below(8) {
                0 => {
                    // STLUR / LDAPUR family (unscaled offset)
                    let opc = rng.below(4) as u32;
                    let imm9 = pick_u32(rng, &[0, 1, 0xff, 0x100, 0x1ff], 9);
                    let off = (((imm9 << 23) as i32) >> 23) as i64 as u64;
                    i.word = (size << 30) | (0b011001 << 24) | (opc << 22) | (imm9 << 12) | (rn << 5) | rt;
                    set_base(&mut i, rn, target.wrapping_sub(off));
                }
                1 => {
                    // exclusives and friends (not accepted by the lifter): any o2/L/o1/o0
                    let (o2, l, o1, o0) = (rng.below(2) as u32, rng.below(2) as u32, rng.below(2) as u32, rng.below(2) as u32);
                    i.word = (size << 30) | (0b001000 << 24) | (o2 << 23) | (l << 22) | (o1 << 21) | (rm << 16) | (o0 << 15) | (31 << 10) | (rn << 5) | rt;
                    set_base(&mut i, rn, target);
                }
                _ => {
                    // LDAR/STLR (o0 = 1), LDLAR/STLLR (o0 = 0); Rs, Rt2 = 11111
                    let (l, o0) = (rng.below(2) as u32, rng.below(2) as u32);
                    i.word = (size << 30) | (0b001000 << 24) | (1 << 23) | (l << 22) | (31 << 16) | (o0 << 15) | (31 << 10) | (rn << 5) | rt;
                    set_base(&mut i, rn, target);
                }
            }
        }
        "ldst_literal" => {
            // opc 011 V 00 imm19 Rt : LDR (literal) W/X, LDRSW, PRFM; SIMD&FP S/D/Q
            let (opc, v) = (rng.below(4) as u32, rng.chance(1, 4) as u32);
            let imm19 = pick_u32(rng, &[0, 1, 2, 0x7ffff, 0x40000, 0x3ffff, 0x100, 0x7ff00], 19);
            if v == 1 {
                with_q(rng, &mut i);
            }
            let bytes: u64 = if v == 1 { 4 << opc.min(2) } else if opc == 1 { 8 } else { 4 };
            let off = ((((imm19 << 13) as i32) >> 13) as i64 as u64).wrapping_mul(4);
            i.addr = *rng.pick(&[0x40_0000u64, 0xffff_fff8, 0x0000_aaaa_bbbb_c000]);
            let t = i.addr.wrapping_add(off);
            // the window goes where the literal points, unless that is the code itself
            if t.wrapping_sub(i.addr.wrapping_sub(512)) >= 1024 {
                let room = WIN as u64 - bytes;
                let k = match rng.below(4) { 0 => 0, 1 => room, _ => rng.below(room + 1) };
                i.mbase = t.wrapping_sub(k);
            }
            i.word = (opc << 30) | (0b011 << 27) | (v << 26) | (imm19 << 5) | rd;
        }
        "b_bl" => {
            let op = rng.below(2) as u32;
            let imm26 = pick_u32(rng, &[0, 1, 2, 3, 0x3ff_ffff, 0x3ff_fffe, 0x1ff_ffff, 0x200_0000], 26);
            let off = ((((imm26 << 6) as i32) >> 6) as i64 as u64).wrapping_mul(4);
            i.addr = *rng.pick(&[0x1000_0000u64, 0xffff_fff8, 0xffff_fffc, 0x0000_aaaa_bbbb_c000, 0x7fff_0000_0000_1000]);
            i.pads.push(i.addr.wrapping_add(off));
            i.word = (op << 31) | (0b00101 << 26) | imm26;
        }
        "b_cond" | "cbz" => {
            let imm19 = pick_u32(rng, &[0, 1, 2, 3, 0x7ffff, 0x7fffe, 0x3ffff, 0x40000], 19);
            let off = ((((imm19 << 13) as i32) >> 13) as i64 as u64).wrapping_mul(4);
            i.addr = *rng.pick(&[0x1000_0000u64, 0xffff_fff8, 0xffff_fffc, 0x0000_aaaa_bbbb_c000]);
            i.pads.push(i.addr.wrapping_add(off));
            if cls == "b_cond" {
                let cond = rng.below(16) as u32;
                let o0 = rng.chance(1, 32) as u32;
                i.word = (0b0101_0100 << 24) | (imm19 << 5) | (o0 << 4) | cond;
            } else {
                let op = rng.below(2) as u32;
                let rt = rd;
                if rt != 31 && rng.chance(1, 3) {
                    i.x[rt as usize] = *rng.pick(&[0u64, 1 << 32, 0xffff_ffff_0000_0000, 0x8000_0000, 1]);
                }
                i.word = (sf << 31) | (0b011010 << 25) | (op << 24) | (imm19 << 5) | rt;
            }
        }
        "tbz" => {
            let imm14 = pick_u32(rng, &[0, 1, 2, 0x3fff, 0x2000, 0x1fff], 14);
            let off = ((((imm14 << 18) as i32) >> 18) as i64 as u64).wrapping_mul(4);
            i.addr = *rng.pick(&[0x1000_0000u64, 0xffff_fff8, 0x0000_aaaa_bbbb_c000]);
            i.pads.push(i.addr.wrapping_add(off));
            let (op, rt) = (rng.below(2) as u32, rd);
            let bit = pick_u32(rng, &[0, 1, 31, 32, 63, 33], 6);
            if rt != 31 && rng.chance(1, 2) {
                // only the tested bit set / only the tested bit clear
                i.x[rt as usize] = if rng.bool() { 1u64 << bit } else { !(1u64 << bit) };
            }
            i.word = ((bit >> 5) << 31) | (0b011011 << 25) | (op << 24) | ((bit & 31) << 19) | (imm14 << 5) | rt;
        }
        "br_blr_ret" => {
            let opc = *rng.pick(&[0u32, 1, 2, 0, 1, 2, 2, 3]);
            let rn = if opc == 2 && rng.chance(1, 2) { 30 } else if rng.chance(1, 8) { 30 } else { rn };
            i.addr = *rng.pick(&[0x1000_0000u64, 0xffff_fff8, 0x0000_aaaa_bbbb_c000]);
            let t = match rng.below(8) {
                0 => i.addr,
                1 => i.addr.wrapping_add(4),
                2 => i.addr.wrapping_add(8),
                3 => 0,
                4 => 0x7fff_ffff_ffff_0000,
                5 => 0xffff_0000_0000_0000,
                6 => 0x5000_0002, // misaligned
                _ => rng.next() & !3 & 0x0000_ffff_ffff_ffff,
            };
            if rn != 31 {
                i.x[rn as usize] = t;
            }
            i.pads.push(t);
            if rn != 30 {
                // wherever x30 points is mapped too: a RET that ignores Rn must land observably
                i.x[30] = 0x6000_0000 + 16 * rng.below(4);
                i.pads.push(i.x[30]);
            }
            i.pads.push(0);
            i.word = (0b1101011 << 25) | (opc << 21) | (0b11111 << 16) | (rn << 5);
        }
        "hint" => {
            match rng.below(4) {
                0 => i.word = NOP,
                1 => {
                    // PRFM (unsigned offset): size=11 opc=10
                    let imm12 = rng.below(4096) as u32;
                    i.word = (3 << 30) | (0b111 << 27) | (0b01 << 24) | (2 << 22) | (imm12 << 10) | (rn << 5) | rd;
                }
                2 => {
                    // PRFUM / PRFM (register)
                    if rng.bool() {
                        let imm9 = rng.below(512) as u32;
                        i.word = (3 << 30) | (0b111 << 27) | (2 << 22) | (imm9 << 12) | (rn << 5) | rd;
                    } else {
                        let option = *rng.pick(&[2u32, 3, 6, 7]);
                        i.word = (3 << 30) | (0b111 << 27) | (2 << 22) | (1 << 21) | (rm << 16) | (option << 13) | ((rng.below(2) as u32) << 12) | (0b10 << 10) | (rn << 5) | rd;
                    }
                }
                _ => {
                    // other hints: CRm:op2 arbitrary (YIELD, WFE, ... not accepted)
                    i.word = 0xd503_201f | ((rng.below(128) as u32) << 5);
                }
            }
        }
        _ => {
            // random words inside the major encoding groups the module looks at ("scan": anywhere)
            let w = rng.next() as u32;
            i.word = match if cls == "scan" { 9 } else { rng.below(5) } {
                9 => w,
                4 => (w & !(0b111 << 25)) | (0b111 << 25),              // scalar FP and Advanced SIMD
                0 => (w & !(0b111 << 26)) | (0b100 << 26),              // data processing - immediate
                1 => (w & !(0b111 << 26)) | (0b101 << 26),              // branches, system
                2 => (w & !(0b0101 << 25)) | (0b0100 << 25),            // loads and stores  (x1x0)
                _ => (w & !(0b111 << 25)) | (0b101 << 25),              // data processing - register
            };
            with_q(rng, &mut i);
            // aim every register at the window so that loads and stores have a chance to hit it
            if rng.chance(2, 3) {
                let t = i.mbase + 32;
                for k in 0..31 {
                    if rng.chance(1, 2) {
                        i.x[k] = t;
                    }
                }
                i.sp = t;
            }
            // direct branch targets: pads for every immediate form
            for (bits, lo) in [(26u32, 0u32), (19, 5), (14, 5)] {
                let f = (i.word >> lo) & ((1u32 << bits) - 1);
                let off = ((((f << (32 - bits)) as i32) >> (32 - bits)) as i64 as u64).wrapping_mul(4);
                i.pads.push(i.addr.wrapping_add(off));
            }
            i.pads.push(i.x[((i.word >> 5) & 31).min(30) as usize]);
            i.pads.push(i.x[30]);
        }
    }
    i
}

fn gen_pair(rng: &mut Rng, i: &mut Inst, v: u32, rt: u32, rn: u32, rt2: u32) {
    let opc = if rng.chance(1, 16) { 3 } else { rng.below(3) as u32 };
    let l = rng.below(2) as u32;
    let mode = *rng.pick(&[0u32, 1, 2, 3, 1, 2, 3]);
    let scale = if v == 1 { 2 + opc } else { 2 + (opc >> 1) };
    let bytes = 1u64 << scale.min(4);
    let imm7 = pick_u32(rng, &[0, 1, 0x7f, 0x40, 0x3f, 2], 7);
    let off = ((((imm7 << 25) as i32) >> 25) as i64 as u64).wrapping_shl(scale.min(4));
    let (mut rt, mut rt2, rn) = (rt, rt2, rn);
    // not generated: load pair with Rt == Rt2; write-back with base == transfer register (n != 31)
    if v == 0 {
        if l == 1 && rt == rt2 {
            rt2 = (rt + 1) % 32;
        }
        if (mode == 1 || mode == 3) && rn != 31 {
            if rt == rn {
                rt = (rn + 1) % 31;
            }
            if rt2 == rn {
                rt2 = (rn + 2) % 31;
            }
            if l == 1 && rt == rt2 {
                rt2 = (rt + 3) % 31;
                if rt2 == rn {
                    rt2 = (rt2 + 1) % 31;
                }
            }
        }
    } else if l == 1 && rt == rt2 {
        rt2 = (rt + 1) % 32;
    }
    let target = ea(rng, i, 2 * bytes);
    i.word = (opc << 30) | (0b101 << 27) | (v << 26) | (mode << 23) | (l << 22) | (imm7 << 15) | (rt2 << 10) | (rn << 5) | rt;
    set_base(i, rn, if mode == 1 { target } else { target.wrapping_sub(off) });
}

fn main() {
    if std::env::var("C03_DEBUG").is_err() {
        fv::quiet_panics();
    }
    let mode = fv::arg_str("mode", "random");
    if mode == "classes" {
        println!("{}", CLASSES.join(","));
        return;
    }
    let mut out = Out::create(&fv::arg_str("out", "/dev/stdout"));
    let mut rng = Rng::new(fv::seed_from_env() ^ 0xC03);
    match mode.as_str() {
        "random" => {
            let n = fv::arg_u64("n", 100);
            let cl = fv::arg_str("classes", "");
            let classes: Vec<&str> = if cl.is_empty() { CLASSES.to_vec() } else { cl.split(',').collect() };
            for k in 0..n {
                let c = classes[(k as usize) % classes.len()];
                let i = gen(&mut rng, c);
                out.emit(&record(&i));
            }
        }
        "replay" | "corpus" => {
            let text = std::fs::read_to_string(fv::arg_str("in", "")).expect("read");
            for line in text.lines() {
                if line.trim().is_empty() {
                    continue;
                }
                let v: Value = serde_json::from_str(line).unwrap();
                if v["ev"] == "inst" {
                    let i = inst_from_json(&v);
                    let mut ev = record(&i);
                    // corpus lines may carry an expectation written by other authors (the
                    // repository's tests); it is passed through untouched for the specification
                    if let Some(x) = v.get("claim") {
                        ev["claim"] = x.clone();
                    }
                    out.emit(&ev);
                }
            }
        }
        _ => panic!("unknown mode"),
    }
    eprintln!("c03: {} events", out.finish());
}
