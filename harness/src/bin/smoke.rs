fn main() { println!("{}", fv::proj::expr(&falcon::il::expr_const(5, 9))); }
