//! C15 recorder: random edit histories on the real `il::ControlFlowGraph` / `il::Block`, and
//! `BlockTranslationResult::blockify` of random per-instruction graphs.  Every operation is
//! described by a JSON *descriptor* (`d`), applied to falcon, and logged together with its
//! result and the full projected graph (blocks, instruction indices + payload tags, edges +
//! condition tags, entry()/exit(), and the predecessor/successor/edges_in/edges_out query results
//! of every block).  Trace_C15.tla judges; nothing here computes an expected value.
//!
//!   c15 --mode random   --n SESSIONS [--maxops 60] [--salt S] --out FILE   (VERIF_SEED)
//!   c15 --mode blockify --n CASES --out FILE
//!   c15 --mode targeted --out FILE          (generator cases from the model findings of CfgImpl.tla)
//!   c15 --mode replay --in FILE --out FILE  (re-drive the descriptors of a recorded trace)

use falcon::il::{self, ControlFlowGraph};
use falcon::translator::BlockTranslationResult;
use fv::{guard, guard_plain, Out, Rng};
use serde_json::{json, Value};

// --------------------------------------------------------------------------------------
// projection
// --------------------------------------------------------------------------------------
fn small(x: usize) -> i64 {
    // indices are small; anything that does not fit the 32-bit integers of TLC is logged as -2
    if x < (1usize << 30) {
        x as i64
    } else {
        -2
    }
}

fn addr(a: Option<u64>) -> i64 {
    match a {
        Some(a) if a < (1u64 << 30) => a as i64,
        Some(_) => -2,
        None => -1,
    }
}

fn cond_tag(c: Option<&il::Expression>) -> String {
    match c {
        Some(c) => format!("?{}", c),
        None => String::new(),
    }
}

fn ins(i: &il::Instruction) -> Value {
    json!({ "i": small(i.index()), "p": format!("{}", i.operation()), "a": addr(i.address()) })
}

fn pairs(es: Vec<&il::Edge>) -> Value {
    let mut v: Vec<(usize, usize)> = es.iter().map(|e| (e.head(), e.tail())).collect();
    v.sort();
    json!(v.iter().map(|(h, t)| json!([small(*h), small(*t)])).collect::<Vec<_>>())
}

fn idxs(mut v: Vec<usize>) -> Value {
    v.sort();
    json!(v.iter().map(|x| small(*x)).collect::<Vec<_>>())
}

/// full observable state of a graph, through its public accessors only
fn state(g: &ControlFlowGraph) -> Value {
    let mut blocks = g.blocks();
    blocks.sort_by_key(|b| b.index());
    let mut edges = g.edges();
    edges.sort_by_key(|e| (e.head(), e.tail()));
    let bs: Vec<Value> = blocks
        .iter()
        .map(|b| {
            let i = b.index();
            json!({
                "i": small(i),
                "ins": b.instructions().iter().map(ins).collect::<Vec<_>>(),
                "succ": guard(|| g.successor_indices(i)).json(|v| idxs(v.clone())),
                "pred": guard(|| g.predecessor_indices(i)).json(|v| idxs(v.clone())),
                "eo": guard(|| g.edges_out(i)).json(|v| pairs(v.clone())),
                "ei": guard(|| g.edges_in(i)).json(|v| pairs(v.clone())),
            })
        })
        .collect();
    json!({
        "blocks": bs,
        "edges": edges.iter().map(|e| json!({"h": small(e.head()), "t": small(e.tail()), "c": cond_tag(e.condition())})).collect::<Vec<_>>(),
        "entry": g.entry().map(small).unwrap_or(-1),
        "exit": g.exit().map(small).unwrap_or(-1),
    })
}

// --------------------------------------------------------------------------------------
// applying descriptors
// --------------------------------------------------------------------------------------
fn us(v: &Value) -> usize {
    v.as_u64().unwrap_or(0) as usize
}

fn add_ins(b: &mut il::Block, kind: &str, n: u64, a: i64) -> usize {
    match kind {
        "nop" => b.nop(),
        "branch" => b.branch(il::expr_const(0x1000 + n, 32)),
        "store" => b.store(il::expr_scalar("p", 32), il::expr_const(n, 32)),
        "load" => b.load(il::scalar(format!("v{}", n), 32), il::expr_scalar("p", 32)),
        _ => b.assign(il::scalar(format!("v{}", n), 32), il::expr_const(n, 32)),
    }
    let last = b.instructions_mut().last_mut().unwrap();
    if a >= 0 {
        last.set_address(Some(a as u64));
    }
    last.index()
}

/// build a graph from a descriptor: {"hist":[op descriptors]} (applied silently) or {"self":true}
fn build_other(cur: &ControlFlowGraph, d: &Value) -> ControlFlowGraph {
    if d.get("self").is_some() {
        return cur.clone();
    }
    let mut g = ControlFlowGraph::new();
    for op in d["hist"].as_array().unwrap() {
        let _ = apply(&mut g, op);
    }
    g
}

/// Apply one operation descriptor to `g`; returns the event fields `res` (+ `other`/`graphs`/`result`).
fn apply(g: &mut ControlFlowGraph, d: &Value) -> Value {
    let op = d["op"].as_str().unwrap();
    match op {
        "new_block" => {
            let r = guard(|| g.new_block().map(|b| b.index()));
            json!({ "res": r.json(|i| json!(small(*i))) })
        }
        "add_ins" => {
            let (b, kind, n, a) = (us(&d["b"]), d["kind"].as_str().unwrap(), d["tag"].as_u64().unwrap(), d["addr"].as_i64().unwrap());
            let r = guard(|| g.block_mut(b).map(|blk| add_ins(blk, kind, n, a)));
            json!({ "res": r.json(|i| json!(small(*i))) })
        }
        "uncond_edge" => {
            let r = guard(|| g.unconditional_edge(us(&d["h"]), us(&d["t"])));
            json!({ "res": r.json(|_| json!(true)) })
        }
        "cond_edge" => {
            let c = il::expr_scalar(format!("c{}", d["c"].as_u64().unwrap()), 1);
            let tag = cond_tag(Some(&c));
            let r = guard(|| g.conditional_edge(us(&d["h"]), us(&d["t"]), c));
            json!({ "res": r.json(|_| json!(true)), "ctag": tag })
        }
        "set_entry" => {
            let r = guard(|| g.set_entry(us(&d["b"])));
            json!({ "res": r.json(|_| json!(true)) })
        }
        "set_exit" => {
            let r = guard(|| g.set_exit(us(&d["b"])));
            json!({ "res": r.json(|_| json!(true)) })
        }
        "block_append" => {
            // Block::append(&other) with `other` a copy of block `src` of the same graph
            let (b, src) = (us(&d["b"]), us(&d["src"]));
            let other = guard(|| g.block(src).map(|x| x.clone()));
            match other {
                fv::Outcome::Ok(o) => {
                    let srcins: Vec<Value> = o.instructions().iter().map(ins).collect();
                    let r = guard(|| g.block_mut(b).map(|blk| blk.append(&o)));
                    json!({ "res": r.json(|_| json!(true)), "src": srcins })
                }
                o => json!({ "res": o.json(|_| json!(true)), "src": [] }),
            }
        }
        "remove_ins" => {
            let (b, i) = (us(&d["b"]), us(&d["i"]));
            let r = guard(|| g.block_mut(b).and_then(|blk| blk.remove_instruction(i)));
            json!({ "res": r.json(|_| json!(true)) })
        }
        "merge" => {
            let r = guard(|| g.merge());
            json!({ "res": r.json(|_| json!(true)) })
        }
        "append" => {
            let other = build_other(g, &d["other"]);
            let r = guard(|| g.append(&other));
            json!({ "res": r.json(|_| json!(true)), "other": state(&other) })
        }
        "insert" => {
            let other = build_other(g, &d["other"]);
            let r = guard(|| g.insert(&other));
            json!({ "res": r.json(|(a, b)| json!([small(*a), small(*b)])), "other": state(&other) })
        }
        "blockify" => {
            let empty = ControlFlowGraph::new();
            let graphs: Vec<ControlFlowGraph> = d["graphs"].as_array().unwrap().iter().map(|x| build_other(&empty, x)).collect();
            let instrs: Vec<(u64, ControlFlowGraph)> =
                graphs.iter().enumerate().map(|(k, x)| (0x1000 + 4 * k as u64, x.clone())).collect();
            let btr = BlockTranslationResult::new(instrs, 0x1000, 4 * graphs.len(), vec![]);
            let r = guard(|| btr.blockify());
            let result = match &r {
                fv::Outcome::Ok(x) => state(x),
                _ => json!({}),
            };
            json!({ "res": r.json(|_| json!(true)), "graphs": graphs.iter().map(state).collect::<Vec<_>>(), "result": result })
        }
        other => panic!("unknown op {}", other),
    }
}

fn emit_op(out: &mut Out, g: &mut ControlFlowGraph, sid: u64, n: usize, d: &Value) {
    let mut ev = apply(g, d);
    ev["ev"] = json!("op");
    ev["op"] = d["op"].clone();
    ev["sid"] = json!(sid);
    ev["n"] = json!(n);
    ev["d"] = d.clone();
    ev["post"] = guard_plain(|| state(g)).json(|v| v.clone());
    out.emit(&ev);
}

fn begin(out: &mut Out, sid: u64, kind: &str) -> ControlFlowGraph {
    let g = ControlFlowGraph::new();
    out.emit(&json!({ "ev": "begin", "sid": sid, "kind": kind, "post": { "ok": state(&g) } }));
    g
}

// --------------------------------------------------------------------------------------
// generators of descriptors
// --------------------------------------------------------------------------------------
const KINDS: [&str; 5] = ["assign", "assign", "nop", "branch", "store"];

fn ids_of(g: &ControlFlowGraph) -> Vec<usize> {
    let mut v: Vec<usize> = g.blocks().iter().map(|b| b.index()).collect();
    v.sort();
    v
}

fn pick_block(rng: &mut Rng, ids: &[usize]) -> usize {
    // an index that existed once and was removed (a gap left by merge) is the interesting
    // kind of missing block: it is below the graph's next index
    if let Some(max) = ids.last() {
        let gaps: Vec<usize> = (0..*max).filter(|i| !ids.contains(i)).collect();
        if !gaps.is_empty() && rng.chance(1, 8) {
            return *rng.pick(&gaps);
        }
    }
    if ids.is_empty() || rng.chance(1, 20) {
        ids.last().map(|x| x + 1 + rng.below(3) as usize).unwrap_or(rng.below(3) as usize)
    } else {
        *rng.pick(ids)
    }
}

fn d_ins(rng: &mut Rng, b: usize) -> Value {
    let a: i64 = if rng.chance(1, 4) { 0x400 + rng.below(6) as i64 } else { -1 };
    json!({ "op": "add_ins", "b": b, "kind": *rng.pick(&KINDS), "tag": rng.below(7), "addr": a })
}

/// shapes a lifter produces for one native instruction (and a few it should not)
fn template(rng: &mut Rng) -> Vec<Value> {
    let mut v = Vec::new();
    let nb = |v: &mut Vec<Value>, n: usize| {
        for _ in 0..n {
            v.push(json!({"op": "new_block"}));
        }
    };
    match rng.below(8) {
        7 => {
            // a graph whose block numbering has a gap below its entry / exit (it went through merge): 0 -> 1 is
            // merged into 0; the entry and the exit are among the blocks numbered above the gap
            nb(&mut v, 4);
            for b in 0..4 {
                v.push(d_ins(rng, b));
            }
            v.push(json!({"op": "uncond_edge", "h": 0, "t": 1}));
            v.push(json!({"op": "cond_edge", "h": 2, "t": 3, "c": 1}));
            v.push(json!({"op": "cond_edge", "h": 2, "t": 0, "c": 2}));
            if rng.bool() {
                v.push(json!({"op": "uncond_edge", "h": 1, "t": 3}));
            }
            v.push(json!({"op": "merge"}));
            v.push(json!({"op": "set_entry", "b": 2}));
            v.push(json!({"op": "set_exit", "b": if rng.chance(1, 4) { 0 } else { 3 }}));
        }
        0 | 1 => {
            // one block, 0..3 instructions
            nb(&mut v, 1);
            for _ in 0..rng.below(4) {
                v.push(d_ins(rng, 0));
            }
            v.push(json!({"op": "set_entry", "b": 0}));
            v.push(json!({"op": "set_exit", "b": 0}));
        }
        2 => {
            // rep-style loop: head -c-> body -> head, head -c-> exit
            nb(&mut v, 3);
            if rng.bool() {
                v.push(d_ins(rng, 0));
            }
            v.push(d_ins(rng, 1));
            if rng.bool() {
                v.push(d_ins(rng, 2));
            }
            v.push(json!({"op": "cond_edge", "h": 0, "t": 1, "c": 1}));
            v.push(json!({"op": "cond_edge", "h": 0, "t": 2, "c": 2}));
            v.push(json!({"op": "uncond_edge", "h": 1, "t": 0}));
            v.push(json!({"op": "set_entry", "b": 0}));
            v.push(json!({"op": "set_exit", "b": 2}));
        }
        3 => {
            // diamond
            nb(&mut v, 4);
            for b in 0..4 {
                if rng.chance(2, 3) {
                    v.push(d_ins(rng, b));
                }
            }
            v.push(json!({"op": "cond_edge", "h": 0, "t": 1, "c": 1}));
            v.push(json!({"op": "cond_edge", "h": 0, "t": 2, "c": 2}));
            v.push(json!({"op": "uncond_edge", "h": 1, "t": 3}));
            v.push(json!({"op": "uncond_edge", "h": 2, "t": 3}));
            v.push(json!({"op": "set_entry", "b": 0}));
            v.push(json!({"op": "set_exit", "b": 3}));
        }
        4 => {
            // chain of 2..4 blocks (some empty)
            let n = rng.range(2, 4) as usize;
            nb(&mut v, n);
            for b in 0..n {
                for _ in 0..rng.below(3) {
                    v.push(d_ins(rng, b));
                }
            }
            for b in 0..n - 1 {
                v.push(json!({"op": "uncond_edge", "h": b, "t": b + 1}));
            }
            v.push(json!({"op": "set_entry", "b": 0}));
            v.push(json!({"op": "set_exit", "b": if rng.chance(1, 5) { rng.below(n as u64) as usize } else { n - 1 }}));
        }
        5 => {
            // conditionally executed instruction: entry -c-> body -> exit, entry -c-> exit; self-loop variants
            nb(&mut v, 3);
            v.push(d_ins(rng, 0));
            v.push(d_ins(rng, 1));
            v.push(json!({"op": "cond_edge", "h": 0, "t": 1, "c": 3}));
            v.push(json!({"op": "cond_edge", "h": 0, "t": 2, "c": 4}));
            v.push(json!({"op": "uncond_edge", "h": 1, "t": 2}));
            if rng.chance(1, 3) {
                v.push(json!({"op": "cond_edge", "h": 1, "t": 1, "c": 5}));
            }
            v.push(json!({"op": "set_entry", "b": 0}));
            v.push(json!({"op": "set_exit", "b": 2}));
        }
        _ => {
            // free-form small history
            let mut g = ControlFlowGraph::new();
            let n = rng.range(3, 14) as usize;
            for _ in 0..n {
                let d = random_op(rng, &g, false, 5);
                let _ = apply(&mut g, &d);
                v.push(d);
            }
            let ids = ids_of(&g);
            if !ids.is_empty() && rng.chance(9, 10) {
                v.push(json!({"op": "set_entry", "b": *rng.pick(&ids)}));
                v.push(json!({"op": "set_exit", "b": *rng.pick(&ids)}));
            }
        }
    }
    v
}

fn other_desc(rng: &mut Rng) -> Value {
    json!({ "hist": template(rng) })
}

/// one random operation descriptor, chosen with the current graph in view (so that most
/// arguments are meaningful; some deliberately are not)
fn random_op(rng: &mut Rng, g: &ControlFlowGraph, nested_ok: bool, max_blocks: usize) -> Value {
    let ids = ids_of(g);
    if ids.is_empty() {
        return if nested_ok && rng.chance(1, 4) {
            json!({"op": "append", "other": other_desc(rng)})
        } else {
            json!({"op": "new_block"})
        };
    }
    let room = ids.len() < max_blocks;
    loop {
        let w = rng.below(100);
        let d = match w {
            0..=13 if room => json!({"op": "new_block"}),
            0..=35 => {
                let b = pick_block(rng, &ids);
                d_ins(rng, b)
            }
            36..=60 => {
                let h = pick_block(rng, &ids);
                // bias towards "the next block" so that chains (mergeable pairs) are common
                let t = if rng.bool() {
                    ids.iter().find(|x| **x > h).copied().unwrap_or_else(|| pick_block(rng, &ids))
                } else {
                    pick_block(rng, &ids)
                };
                if w <= 51 {
                    json!({"op": "uncond_edge", "h": h, "t": t})
                } else {
                    json!({"op": "cond_edge", "h": h, "t": t, "c": rng.below(4)})
                }
            }
            61..=65 => json!({"op": "set_entry", "b": pick_block(rng, &ids)}),
            66..=70 => json!({"op": "set_exit", "b": pick_block(rng, &ids)}),
            71..=75 => json!({"op": "block_append", "b": pick_block(rng, &ids), "src": pick_block(rng, &ids)}),
            76..=81 | 89..=91 => {
                let b = pick_block(rng, &ids);
                let i = match g.block(b) {
                    Ok(blk) if !blk.instructions().is_empty() && !rng.chance(1, 8) => {
                        rng.pick(blk.instructions()).index()
                    }
                    _ => rng.below(5) as usize,
                };
                json!({"op": "remove_ins", "b": b, "i": i})
            }
            82..=88 => json!({"op": "merge"}),
            92..=95 if nested_ok && room => {
                // append needs entry and exit: usually provide them first
                if g.entry().is_none() && rng.chance(3, 4) {
                    return json!({"op": "set_entry", "b": *rng.pick(&ids)});
                }
                if g.exit().is_none() && rng.chance(3, 4) {
                    return json!({"op": "set_exit", "b": *rng.pick(&ids)});
                }
                let other = if rng.chance(1, 6) { json!({"self": true}) } else { other_desc(rng) };
                json!({"op": "append", "other": other})
            }
            96..=99 if nested_ok && room => {
                let other = if rng.chance(1, 6) { json!({"self": true}) } else { other_desc(rng) };
                json!({"op": "insert", "other": other})
            }
            _ => continue,
        };
        return d;
    }
}

fn random_sessions(out: &mut Out, rng: &mut Rng, n: u64, maxops: usize) {
    for sid in 0..n {
        let mut g = begin(out, sid, "random");
        let mut k = 0usize;
        let budget = rng.range(8, maxops as u64 - 1) as usize;
        // half of the sessions start from a template so that entry/exit and mergeable chains exist early
        if rng.bool() {
            for d in template(rng) {
                if k >= budget {
                    break;
                }
                emit_op(out, &mut g, sid, k, &d);
                k += 1;
            }
        }
        while k < budget {
            let d = random_op(rng, &g, true, 9);
            emit_op(out, &mut g, sid, k, &d);
            k += 1;
        }
        // close with a merge: every session ends by checking the language once more
        emit_op(out, &mut g, sid, k, &json!({"op": "merge"}));
    }
}

fn blockify_cases(out: &mut Out, rng: &mut Rng, n: u64) {
    for sid in 0..n {
        let mut g = begin(out, sid, "blockify");
        let k = if rng.chance(1, 25) { 0 } else { rng.range(1, 5) as usize };
        let graphs: Vec<Value> = (0..k).map(|_| other_desc(rng)).collect();
        emit_op(out, &mut g, sid, 0, &json!({"op": "blockify", "graphs": graphs}));
    }
}

/// generator cases derived from the model findings documented in spec/CfgImpl.tla
fn targeted(out: &mut Out) {
    let nb = json!({"op": "new_block"});
    let ins = |b: usize, t: u64| json!({"op": "add_ins", "b": b, "kind": "assign", "tag": t, "addr": -1});
    let ue = |h: usize, t: usize| json!({"op": "uncond_edge", "h": h, "t": t});
    let rm = |b: usize, i: usize| json!({"op": "remove_ins", "b": b, "i": i});
    let cases: Vec<Vec<Value>> = vec![
        // instruction-index gaps before merge / Block::append (indices must stay unique, also for
        // instructions created afterwards)
        vec![nb.clone(), nb.clone(), ins(0, 1), ins(0, 2), ins(0, 3), ins(1, 4), rm(0, 0), ue(0, 1),
             json!({"op": "set_entry", "b": 0}), json!({"op": "set_exit", "b": 1}), json!({"op": "merge"}), ins(0, 5), ins(0, 6)],
        vec![nb.clone(), nb.clone(), ins(0, 1), ins(0, 2), ins(1, 3), ins(1, 4), rm(0, 0), rm(1, 0),
             json!({"op": "block_append", "b": 0, "src": 1}), ins(0, 5), json!({"op": "block_append", "b": 0, "src": 1})],
        vec![nb.clone(), nb.clone(), nb.clone(), ins(0, 1), ins(0, 2), ins(1, 3), ins(1, 4), ins(2, 5), rm(0, 0), rm(1, 1), ue(0, 1), ue(1, 2),
             json!({"op": "set_entry", "b": 0}), json!({"op": "set_exit", "b": 2}), json!({"op": "merge"}), ins(0, 6)],
        // F1: chain 0->1->2, exit = 2, merge
        vec![nb.clone(), nb.clone(), nb.clone(), ins(0, 0), ins(1, 1), ins(2, 2), ue(0, 1), ue(1, 2),
             json!({"op": "set_entry", "b": 0}), json!({"op": "set_exit", "b": 2}), json!({"op": "merge"})],
        // exit is the head of a mergeable pair: merge keeps it valid
        vec![nb.clone(), nb.clone(), ins(0, 0), ins(1, 1), ue(0, 1),
             json!({"op": "set_entry", "b": 0}), json!({"op": "set_exit", "b": 0}), json!({"op": "merge"})],
        // F2: unreachable block with an unconditional self-loop
        vec![nb.clone(), nb.clone(), ins(0, 0), ins(1, 1), ue(1, 1),
             json!({"op": "set_entry", "b": 0}), json!({"op": "set_exit", "b": 0}), json!({"op": "merge"})],
        // cycle 0->1->0 with entry 0: merge gives a self-loop on 0
        vec![nb.clone(), nb.clone(), ins(0, 0), ins(1, 1), ue(0, 1), ue(1, 0),
             json!({"op": "set_entry", "b": 0}), json!({"op": "set_exit", "b": 1}), json!({"op": "merge"})],
        // the successor is the entry: not merged
        vec![nb.clone(), nb.clone(), ins(0, 0), ins(1, 1), ue(0, 1),
             json!({"op": "set_entry", "b": 1}), json!({"op": "set_exit", "b": 0}), json!({"op": "merge"})],
        // conditional single successor: not merged
        vec![nb.clone(), nb.clone(), ins(0, 0), ins(1, 1), json!({"op": "cond_edge", "h": 0, "t": 1, "c": 0}),
             json!({"op": "set_entry", "b": 0}), json!({"op": "set_exit", "b": 1}), json!({"op": "merge"})],
        // append to a graph without exit, append of a graph without entry, append of itself
        vec![nb.clone(), ins(0, 0), json!({"op": "set_entry", "b": 0}),
             json!({"op": "append", "other": {"hist": [nb.clone(), ins(0, 1), {"op": "set_entry", "b": 0}, {"op": "set_exit", "b": 0}]}}),
             json!({"op": "set_exit", "b": 0}),
             json!({"op": "append", "other": {"hist": [nb.clone(), ins(0, 1), {"op": "set_exit", "b": 0}]}}),
             json!({"op": "append", "other": {"self": true}}),
             json!({"op": "insert", "other": {"self": true}}),
             json!({"op": "merge"})],
        // insert / append of a graph whose block numbering has a gap below its entry and exit (blocks 0, 2, 3)
        vec![nb.clone(), ins(0, 0), json!({"op": "set_entry", "b": 0}), json!({"op": "set_exit", "b": 0}),
             json!({"op": "insert", "other": {"hist": [nb.clone(), nb.clone(), nb.clone(), nb.clone(), ins(0, 1), ins(1, 2), ins(2, 3), ins(3, 4),
                                                        ue(0, 1), ue(2, 3), {"op": "merge"}, {"op": "set_entry", "b": 2}, {"op": "set_exit", "b": 3}]}}),
             json!({"op": "append", "other": {"hist": [nb.clone(), nb.clone(), nb.clone(), nb.clone(), ins(0, 1), ins(1, 2), ins(2, 3), ins(3, 4),
                                                        ue(0, 1), {"op": "cond_edge", "h": 2, "t": 3, "c": 1}, {"op": "cond_edge", "h": 2, "t": 0, "c": 2},
                                                        {"op": "merge"}, {"op": "set_entry", "b": 2}, {"op": "set_exit", "b": 3}]}}),
             json!({"op": "merge"})],
        // blockify of one two-instruction "native instruction", and of nothing
        vec![json!({"op": "blockify", "graphs": [{"hist": [nb.clone(), ins(0, 0), ins(0, 1), {"op": "set_entry", "b": 0}, {"op": "set_exit", "b": 0}]},
                                                   {"hist": [nb.clone(), ins(0, 2), {"op": "set_entry", "b": 0}, {"op": "set_exit", "b": 0}]}]}),
             json!({"op": "blockify", "graphs": []})],
    ];
    for (sid, c) in cases.iter().enumerate() {
        let mut g = begin(out, sid as u64, "targeted");
        for (k, d) in c.iter().enumerate() {
            emit_op(out, &mut g, sid as u64, k, d);
        }
    }
}

/// re-drive the descriptors of a recorded trace (`begin` / `op` lines; results and states in the
/// input are ignored and recomputed from falcon)
fn replay(out: &mut Out, path: &str) {
    let text = std::fs::read_to_string(path).expect("read replay input");
    let mut g = ControlFlowGraph::new();
    let mut sid = 0u64;
    let mut k = 0usize;
    for line in text.lines().filter(|l| !l.trim().is_empty()) {
        let e: Value = serde_json::from_str(line).expect("json");
        if e["ev"] == "begin" {
            sid = e["sid"].as_u64().unwrap_or(sid + 1);
            g = begin(out, sid, e["kind"].as_str().unwrap_or("replay"));
            k = 0;
        } else {
            emit_op(out, &mut g, sid, k, &e["d"]);
            k += 1;
        }
    }
}

fn main() {
    fv::quiet_panics();
    let mode = fv::arg_str("mode", "random");
    let mut out = Out::create(&fv::arg_str("out", "/dev/stdout"));
    // --salt separates the streams of several recorder jobs of one run (same VERIF_SEED)
    let mut rng = Rng::new(fv::seed_from_env() ^ 0xC15 ^ (fv::arg_u64("salt", 0) << 20));
    match mode.as_str() {
        "random" => random_sessions(&mut out, &mut rng, fv::arg_u64("n", 50), fv::arg_u64("maxops", 60) as usize),
        "blockify" => blockify_cases(&mut out, &mut rng, fv::arg_u64("n", 50)),
        "targeted" => targeted(&mut out),
        "replay" => replay(&mut out, &fv::arg_str("in", "")),
        m => panic!("unknown mode {}", m),
    }
    out.finish();
}
