//! C20 exporter: architecture descriptors, calling-convention tables and what the translators
//! actually emit.
//!
//! For each of the seven architectures the public descriptors are exported as they are
//! (`Architecture`: name, endian, word_size, stack_pointer; `CallingConvention`: argument
//! registers, return register, return-address location, stack argument offset/length,
//! preserved/trashed sets, `argument_type(0..12)`, `is_preserved` / `is_trashed` of every
//! register in sight), together with the OBSERVED behaviour of the architecture's translator on
//! an instruction corpus assembled by llvm-mc (corpus/c20/<arch>.json): every scalar
//! (name, width) occurring in the lifted IL, the widths of the address expressions of lifted
//! loads and stores, and two executed probes (an immediate load lifted from the bytes in the
//! platform's memory order and from the reversed bytes; a memory load from known bytes through
//! falcon's executor on a memory of the descriptor's endianness).  Trace_C20.tla judges.
//!
//!   c20 --corpus DIR --out F
//!   c20 --mode replay --in R --corpus DIR --out F     (re-export one architecture)
//!
//! One session per architecture:
//!   {"ev":"begin","arch",..descriptor..,"cc":{..},"observed":{"scalars":[[n,w]..],"addr_widths":[..],
//!        "lifted":k,"failed":k}}
//!   {"ev":"desc","field":"name"|"endian"|"word"|"sp"|"sp_observed"|"addr_width", "value":..}
//!   {"ev":"ccfield","field":"args"|"ret"|"retaddr"|"stack_off"|"slot"|"sp_preserved","value":..}
//!   {"ev":"ccreg","role":"arg"|"ret"|"retaddr"|"preserved"|"trashed","s":[n,w]}
//!   {"ev":"ccname","n":name}                       every register name of the two sets
//!   {"ev":"argtype","n":k,"res":{"k":"reg","r":[n,w]}|{"k":"stack","off":k}}
//!   {"ev":"query","s":[n,w],"preserved":1|0|-1,"trashed":1|0|-1}
//!   {"ev":"immprobe","dst":[n,w],"imm":[limbs],"platform":res,"reversed":res}
//!   {"ev":"loadprobe","dst":[n,w],"bytes":[..],"res":{"ok":[limbs]}|{"err":..}}

use falcon::analysis::calling_convention::{ArgumentType, CallingConvention, ReturnAddressType};
use falcon::architecture::{self, Architecture, Endian};
use falcon::executor::State;
use falcon::il;
use falcon::memory::paged::Memory;
use falcon::translator::Options;
use fv::{arg_str, guard, Out, Outcome};
use serde_json::{json, Value};
use std::collections::BTreeSet;

fn arch_by_name(n: &str) -> Box<dyn Architecture> {
    match n {
        "x86" => Box::new(architecture::X86::new()),
        "amd64" => Box::new(architecture::Amd64::new()),
        "mips" => Box::new(architecture::Mips::new()),
        "mipsel" => Box::new(architecture::Mipsel::new()),
        "ppc" => Box::new(architecture::Ppc::new()),
        "aarch64" => Box::new(architecture::AArch64::new()),
        "aarch64eb" => Box::new(architecture::AArch64Eb::new()),
        _ => panic!("unknown architecture {}", n),
    }
}

const ARCHS: [&str; 7] = ["x86", "amd64", "mips", "mipsel", "ppc", "aarch64", "aarch64eb"];

fn sc(s: &il::Scalar) -> Value {
    json!([s.name(), s.bits()])
}

fn unhex(s: &str) -> Vec<u8> {
    (0..s.len() / 2).map(|i| u8::from_str_radix(&s[2 * i..2 * i + 2], 16).unwrap()).collect()
}

fn expr_scalars(e: &il::Expression, set: &mut BTreeSet<(String, usize)>) {
    for s in e.scalars() {
        set.insert((s.name().to_string(), s.bits()));
    }
}

/// every scalar of every operation and edge condition of a lifted block; address widths of the
/// loads and stores
fn collect(r: &falcon::translator::BlockTranslationResult, scalars: &mut BTreeSet<(String, usize)>, widths: &mut BTreeSet<usize>) {
    for (_, g) in r.instructions() {
        for b in g.blocks() {
            for i in b.instructions() {
                match i.operation() {
                    il::Operation::Assign { dst, src } => {
                        scalars.insert((dst.name().to_string(), dst.bits()));
                        expr_scalars(src, scalars);
                    }
                    il::Operation::Store { index, src } => {
                        widths.insert(index.bits());
                        expr_scalars(index, scalars);
                        expr_scalars(src, scalars);
                    }
                    il::Operation::Load { dst, index } => {
                        widths.insert(index.bits());
                        scalars.insert((dst.name().to_string(), dst.bits()));
                        expr_scalars(index, scalars);
                    }
                    il::Operation::Branch { target } => expr_scalars(target, scalars),
                    il::Operation::Intrinsic { intrinsic } => {
                        for a in intrinsic.arguments() {
                            expr_scalars(a, scalars);
                        }
                        if let Some(w) = intrinsic.written_expressions() {
                            for a in w {
                                expr_scalars(a, scalars);
                            }
                        }
                        if let Some(w) = intrinsic.read_expressions() {
                            for a in w {
                                expr_scalars(a, scalars);
                            }
                        }
                    }
                    il::Operation::Nop { .. } => {}
                }
            }
        }
        for e in g.edges() {
            if let Some(c) = e.condition() {
                expr_scalars(c, scalars);
            }
        }
    }
    for (_, c) in r.successors() {
        if let Some(c) = c {
            expr_scalars(c, scalars);
        }
    }
}

/// Lift `bytes` with the architecture's translator and run the straight-line IL on `state`;
/// returns the final value of scalar `dst`.
fn run_probe(a: &dyn Architecture, bytes: &[u8], mut state: State, dst: &str) -> Result<il::Constant, falcon::Error> {
    let r = a.translator().translate_block(bytes, 0x1000, &Options::default())?;
    let (_, g) = r.instructions().first().ok_or_else(|| falcon::Error::Custom("nothing lifted".to_string()))?;
    let mut blocks = g.blocks();
    blocks.sort_by_key(|b| b.index());
    if blocks.len() != 1 {
        return Err(falcon::Error::Custom(format!("probe lifted to {} blocks", blocks.len())));
    }
    for i in blocks[0].instructions() {
        state = state.execute(i.operation())?.into();
    }
    state.get_scalar(dst).cloned().ok_or_else(|| falcon::Error::Custom("destination not written".to_string()))
}

fn res_json(o: &Outcome<il::Constant>) -> Value {
    o.json(|c| json!(fv::proj::limbs(c.value(), c.bits())))
}

fn tri(o: Option<bool>) -> i64 {
    match o {
        Some(true) => 1,
        Some(false) => 0,
        None => -1,
    }
}

fn argtype_json(t: &ArgumentType) -> Value {
    match t {
        ArgumentType::Register(s) => json!({ "k": "reg", "r": sc(s) }),
        ArgumentType::Stack(o) => json!({ "k": "stack", "off": o }),
    }
}

fn export(out: &mut Out, name: &str, corpus_dir: &str) {
    let a = arch_by_name(name);
    let corpus: Value = serde_json::from_str(&std::fs::read_to_string(format!("{}/{}.json", corpus_dir, name)).expect("corpus file")).expect("corpus json");
    let translator = a.translator();

    // what the translator emits
    let mut scalars = BTreeSet::new();
    let mut widths = BTreeSet::new();
    let (mut lifted, mut failed) = (0, 0);
    let mut failures = Vec::new();
    for ins in corpus["insns"].as_array().unwrap() {
        let bytes = unhex(ins["hex"].as_str().unwrap());
        match guard(|| translator.translate_block(&bytes, 0x1000, &Options::default())) {
            Outcome::Ok(r) => {
                lifted += 1;
                collect(&r, &mut scalars, &mut widths);
            }
            _ => {
                failed += 1;
                if failures.len() < 8 {
                    failures.push(ins["asm"].clone());
                }
            }
        }
    }

    let cc: CallingConvention = a.calling_convention();
    let sorted = |set: &std::collections::HashSet<il::Scalar>| -> Vec<il::Scalar> {
        let mut v: Vec<il::Scalar> = set.iter().cloned().collect();
        v.sort_by(|x, y| (x.name(), x.bits()).cmp(&(y.name(), y.bits())));
        v
    };
    let preserved = sorted(cc.preserved_registers());
    let trashed = sorted(cc.trashed_registers());
    let retaddr = match cc.return_address_type() {
        ReturnAddressType::Register(s) => json!({ "k": "reg", "r": sc(s) }),
        ReturnAddressType::Stack(o) => json!({ "k": "stack", "off": o }),
    };
    let endian = match a.endian() {
        Endian::Big => "big",
        Endian::Little => "little",
    };
    let sp = a.stack_pointer();
    let args: Vec<Value> = cc.argument_registers().iter().map(sc).collect();
    out.emit(&json!({
        "ev": "begin", "arch": name, "name": a.name(), "endian": endian, "word": a.word_size(), "sp": sc(&sp),
        "cc": { "args": args, "ret": sc(cc.return_register()), "retaddr": retaddr,
                "stack_off": cc.stack_argument_offset(), "slot": cc.stack_argument_length(),
                "preserved": preserved.iter().map(sc).collect::<Vec<_>>(),
                "trashed": trashed.iter().map(sc).collect::<Vec<_>>() },
        "observed": { "scalars": scalars.iter().map(|(n, w)| json!([n, w])).collect::<Vec<_>>(),
                      "addr_widths": widths.iter().collect::<Vec<_>>(),
                      "lifted": lifted, "failed": failed, "failures": failures },
    }));

    // the descriptor, field by field
    out.emit(&json!({ "ev": "desc", "field": "name", "value": a.name() }));
    out.emit(&json!({ "ev": "desc", "field": "endian", "value": endian }));
    out.emit(&json!({ "ev": "desc", "field": "word", "value": a.word_size() }));
    out.emit(&json!({ "ev": "desc", "field": "sp", "value": sc(&sp) }));
    out.emit(&json!({ "ev": "desc", "field": "sp_observed", "value": sc(&sp) }));
    out.emit(&json!({ "ev": "desc", "field": "addr_width", "value": widths.iter().collect::<Vec<_>>() }));

    // the owned copy of the descriptor (Architecture::box_clone) publishes the same
    {
        let b = a.box_clone();
        let bend = match b.endian() {
            falcon::architecture::Endian::Big => "big",
            falcon::architecture::Endian::Little => "little",
        };
        out.emit(&json!({ "ev": "desc", "field": "name", "value": b.name(), "via": "box_clone" }));
        out.emit(&json!({ "ev": "desc", "field": "endian", "value": bend, "via": "box_clone" }));
        out.emit(&json!({ "ev": "desc", "field": "word", "value": b.word_size(), "via": "box_clone" }));
        out.emit(&json!({ "ev": "desc", "field": "sp", "value": sc(&b.stack_pointer()), "via": "box_clone" }));
    }

    // the calling convention, field by field
    out.emit(&json!({ "ev": "ccfield", "field": "args", "value": args }));
    out.emit(&json!({ "ev": "ccfield", "field": "ret", "value": sc(cc.return_register()) }));
    out.emit(&json!({ "ev": "ccfield", "field": "retaddr", "value": retaddr }));
    out.emit(&json!({ "ev": "ccfield", "field": "stack_off", "value": cc.stack_argument_offset() }));
    out.emit(&json!({ "ev": "ccfield", "field": "slot", "value": cc.stack_argument_length() }));
    out.emit(&json!({ "ev": "ccfield", "field": "sp_preserved", "value": tri(cc.is_preserved(&sp)) }));

    // every register the convention names
    for s in cc.argument_registers() {
        out.emit(&json!({ "ev": "ccreg", "role": "arg", "s": sc(s) }));
    }
    out.emit(&json!({ "ev": "ccreg", "role": "ret", "s": sc(cc.return_register()) }));
    if let ReturnAddressType::Register(s) = cc.return_address_type() {
        out.emit(&json!({ "ev": "ccreg", "role": "retaddr", "s": sc(s) }));
    }
    for s in &preserved {
        out.emit(&json!({ "ev": "ccreg", "role": "preserved", "s": sc(s) }));
    }
    for s in &trashed {
        out.emit(&json!({ "ev": "ccreg", "role": "trashed", "s": sc(s) }));
    }
    let names: BTreeSet<String> = preserved.iter().chain(trashed.iter()).map(|s| s.name().to_string()).collect();
    for n in &names {
        out.emit(&json!({ "ev": "ccname", "n": n }));
    }
    for n in 0..=12usize {
        let t = guard(|| Ok(cc.argument_type(n)));
        out.emit(&json!({ "ev": "argtype", "n": n, "res": t.json(argtype_json) }));
    }
    // is_preserved / is_trashed on every register in sight (named by the convention or emitted by
    // the translator with a register-like width)
    let mut asked: BTreeSet<(String, usize)> = BTreeSet::new();
    for s in preserved.iter().chain(trashed.iter()).chain(cc.argument_registers().iter()) {
        asked.insert((s.name().to_string(), s.bits()));
    }
    asked.insert((sp.name().to_string(), sp.bits()));
    for (n, w) in scalars.iter() {
        if *w >= 32 && !n.starts_with("temp") {
            asked.insert((n.clone(), *w));
        }
    }
    for (n, w) in &asked {
        let s = il::scalar(n.clone(), *w);
        out.emit(&json!({ "ev": "query", "s": [n, w], "preserved": tri(cc.is_preserved(&s)), "trashed": tri(cc.is_trashed(&s)) }));
    }

    // executed probes
    let ip = &corpus["imm_probe"];
    let bytes = unhex(ip["hex"].as_str().unwrap());
    let mut rev = bytes.clone();
    rev.reverse();
    let dst = ip["dst"].as_str().unwrap();
    let mem = || Memory::<il::Constant>::new(a.endian());
    let platform = guard(|| run_probe(a.as_ref(), &bytes, State::new(mem()), dst));
    let reversed = guard(|| run_probe(a.as_ref(), &rev, State::new(mem()), dst));
    out.emit(&json!({ "ev": "immprobe", "asm": ip["asm"], "dst": [dst, ip["w"]], "imm": ip["imm"],
                      "platform": res_json(&platform), "reversed": res_json(&reversed) }));

    let lp = &corpus["load_probe"];
    let bytes = unhex(lp["hex"].as_str().unwrap());
    let data: Vec<u8> = vec![0x11, 0x22, 0x33, 0x44, 0x55, 0x66, 0x77, 0x88];
    let at = 0x2000u64;
    let bw = lp["bw"].as_u64().unwrap() as usize;
    let r = guard(|| {
        let mut st = State::new(mem());
        for (i, b) in data.iter().enumerate() {
            st.memory_mut().store(at + i as u64, il::const_(*b as u64, 8))?;
        }
        st.set_scalar(lp["base"].as_str().unwrap(), il::const_(at, bw));
        run_probe(a.as_ref(), &bytes, st, lp["dst"].as_str().unwrap())
    });
    out.emit(&json!({ "ev": "loadprobe", "asm": lp["asm"], "dst": [lp["dst"], lp["w"]], "bytes": data, "res": res_json(&r) }));
}

fn main() {
    fv::quiet_panics();
    let mode = arg_str("mode", "export");
    let corpus = arg_str("corpus", "/verif/corpus/c20");
    let mut out = Out::create(&arg_str("out", "/dev/stdout"));
    match mode.as_str() {
        "export" => {
            for a in ARCHS.iter() {
                export(&mut out, a, &corpus);
            }
        }
        "replay" => {
            let rep: Value = serde_json::from_str(&std::fs::read_to_string(arg_str("in", "")).expect("replay")).expect("json");
            let arch = rep["arch"].as_str().expect("arch").to_string();
            export(&mut out, &arch, &corpus);
        }
        _ => {
            eprintln!("unknown mode {}", mode);
            std::process::exit(2);
        }
    }
    out.finish();
}
