//! C02 recorder: one *instruction instance* = raw 32-bit word(s) + an initial architectural
//! state, lifted with the real MIPS / MIPSel / PPC translator and run with the real
//! executor::Driver.  Nothing in here knows what an instruction is supposed to do: the
//! generator fills bit-field templates, the recorder logs what falcon did, and
//! spec/trace/Trace_C02.tla (decoding the raw word itself) is the judge.
//!
//!   c02 --mode random --arch mips|mipsel|ppc --n N --out FILE        (VERIF_SEED)
//!   c02 --mode replay --in FILE --out FILE       (re-drive the recorded inputs of each event)
//!
//! Layout of an instance: the unit (one word; for a MIPS branch: branch + delay slot) at
//! `addr`, followed by a landing site (nop, nop, terminator); further landing sites at the
//! addresses in `sites` (direct branch targets as the *generator* computed them - if the
//! lifter disagrees about a target it ends up in unmapped memory and the run ends in an
//! executor error, which the specification rejects).  A 64-byte data window at `win`.

use falcon::architecture::{self, Architecture, Endian};
use falcon::executor::{Driver, Memory, State};
use falcon::il;
use falcon::memory::{backing, MemoryPermissions};
use falcon::translator::Translator;
use falcon::RC;
use falcon_capstone::capstone;
use fv::{guard, Out, Outcome, Rng};
use num_bigint::BigUint;
use serde_json::{json, Value};
use std::collections::BTreeMap;

macro_rules! pk {
    ($rng:expr, [$($x:expr),* $(,)?]) => {{
        let arr = [$($x),*];
        let i = $rng.below(arr.len() as u64) as usize;
        arr[i]
    }};
}

const WIN: usize = 64;
const MAX_STEPS: usize = 600;

#[derive(Clone, Copy, PartialEq, Debug)]
enum Arch {
    Mips,
    Mipsel,
    Ppc,
}

impl Arch {
    fn name(self) -> &'static str {
        match self {
            Arch::Mips => "mips",
            Arch::Mipsel => "mipsel",
            Arch::Ppc => "ppc",
        }
    }
    fn parse(s: &str) -> Arch {
        match s {
            "mips" => Arch::Mips,
            "mipsel" => Arch::Mipsel,
            "ppc" => Arch::Ppc,
            _ => panic!("unknown arch {}", s),
        }
    }
    fn is_mips(self) -> bool {
        self != Arch::Ppc
    }
    fn bytes(self, w: u32) -> [u8; 4] {
        match self {
            Arch::Mipsel => w.to_le_bytes(),
            _ => w.to_be_bytes(),
        }
    }
    fn endian(self) -> Endian {
        match self {
            Arch::Mipsel => Endian::Little,
            _ => Endian::Big,
        }
    }
}

const MIPS_NAMES: [&str; 32] = [
    "$zero", "$at", "$v0", "$v1", "$a0", "$a1", "$a2", "$a3", "$t0", "$t1", "$t2", "$t3", "$t4", "$t5", "$t6",
    "$t7", "$s0", "$s1", "$s2", "$s3", "$s4", "$s5", "$s6", "$s7", "$t8", "$t9", "$k0", "$k1", "$gp", "$sp",
    "$fp", "$ra",
];
const CR_BITS: [&str; 4] = ["lt", "gt", "eq", "so"];

fn gpr_name(arch: Arch, i: usize) -> String {
    if arch.is_mips() {
        MIPS_NAMES[i].to_string()
    } else {
        format!("r{}", i)
    }
}
fn cr_name(i: usize) -> String {
    format!("cr{}-{}", i / 4, CR_BITS[i % 4])
}

#[derive(Clone)]
struct Inst {
    arch: Arch,
    addr: u32,
    words: Vec<u32>,
    gpr: [u32; 32],
    a: u32, // mips: $hi   ppc: lr
    b: u32, // mips: $lo   ppc: ctr
    ca: u8,
    cr: [u8; 32],
    zs: Option<u32>, // mips: garbage preset of the scalar named "$zero" (reads must still give 0)
    win: u32,
    mem0: Vec<u8>,
    sites: Vec<u32>,
    tag: String, // generator template name (informational)
    bad: bool,   // generator: re-roll (pc-relative target wraps around 0 / 2^32, code overlaps the window)
}

fn l32(v: u32) -> Value {
    json!(v.to_le_bytes())
}
fn l64(v: u64) -> Value {
    json!(v.to_le_bytes())
}
fn from_l32(v: &Value) -> u32 {
    let mut x = 0u32;
    for (i, b) in v.as_array().unwrap().iter().enumerate().take(4) {
        x |= (b.as_u64().unwrap() as u32) << (8 * i);
    }
    x
}
fn cval(c: Option<&il::Constant>) -> Value {
    match c {
        Some(c) => json!({"w": c.bits(), "v": fv::proj::limbs(c.value(), c.bits())}),
        None => json!({"w": 0, "v": []}),
    }
}

fn asm(arch: Arch, addr: u32, word: u32) -> String {
    let (a, mode) = match arch {
        Arch::Mips => (capstone::cs_arch::CS_ARCH_MIPS, capstone::CS_MODE_32 | capstone::CS_MODE_BIG_ENDIAN),
        Arch::Mipsel => (capstone::cs_arch::CS_ARCH_MIPS, capstone::CS_MODE_32 | capstone::CS_MODE_LITTLE_ENDIAN),
        Arch::Ppc => (capstone::cs_arch::CS_ARCH_PPC, capstone::CS_MODE_32 | capstone::CS_MODE_BIG_ENDIAN),
    };
    let cs = match capstone::Capstone::new(a, mode) {
        Ok(cs) => cs,
        Err(_) => return "?".into(),
    };
    match cs.disasm(&arch.bytes(word), addr as u64, 1) {
        Ok(is) => match is.get(0) {
            Some(i) => format!("{} {}", i.mnemonic, i.op_str),
            None => "(undecodable)".into(),
        },
        Err(_) => "(undecodable)".into(),
    }
}

// --------------------------------------------------------------------------------------
// run one instance
// --------------------------------------------------------------------------------------
fn run(inst: &Inst) -> Value {
    let arch = inst.arch;
    let (nop, term): (u32, Vec<u32>) = if arch.is_mips() {
        (0, vec![0x03e0_0008, 0]) // jr $ra ; nop
    } else {
        (0x6000_0000, vec![0x4e80_0420]) // ori 0,0,0 ; bctr
    };
    let mut site_words = vec![nop, nop];
    site_words.extend(term.iter());
    let mut bytes: BTreeMap<u32, u8> = BTreeMap::new();
    let put = |bytes: &mut BTreeMap<u32, u8>, at: u32, ws: &[u32]| {
        for (k, w) in ws.iter().enumerate() {
            for (j, b) in arch.bytes(*w).iter().enumerate() {
                bytes.insert(at.wrapping_add((4 * k + j) as u32), *b);
            }
        }
    };
    for s in &inst.sites {
        put(&mut bytes, *s, &site_words);
    }
    put(&mut bytes, inst.addr.wrapping_add(4 * inst.words.len() as u32), &site_words);
    put(&mut bytes, inst.addr, &inst.words);
    // disjoint contiguous segments (backing::Memory::set_memory is never given overlapping ranges)
    let mut bk = backing::Memory::new(arch.endian());
    let mut seg: Option<(u32, Vec<u8>)> = None;
    for (a, b) in &bytes {
        match seg {
            Some((s, ref mut v)) if s as u64 + v.len() as u64 == *a as u64 => v.push(*b),
            _ => {
                if let Some((s, v)) = seg.take() {
                    bk.set_memory(s as u64, v, MemoryPermissions::READ | MemoryPermissions::EXECUTE);
                }
                seg = Some((*a, vec![*b]));
            }
        }
    }
    if let Some((s, v)) = seg.take() {
        bk.set_memory(s as u64, v, MemoryPermissions::READ | MemoryPermissions::EXECUTE);
    }
    bk.set_memory(inst.win as u64, inst.mem0.clone(), MemoryPermissions::READ | MemoryPermissions::WRITE);

    let mut ev = json!({
        "ev": "inst", "arch": arch.name(), "tag": inst.tag,
        "addr": l32(inst.addr),
        "words": inst.words.iter().map(|w| json!(arch.bytes(*w))).collect::<Vec<_>>(),
        "asm": inst.words.iter().enumerate().map(|(k, w)| asm(arch, inst.addr.wrapping_add(4 * k as u32), *w)).collect::<Vec<_>>(),
        "gpr": inst.gpr.iter().map(|v| l32(*v)).collect::<Vec<_>>(),
        "win": l32(inst.win), "mem0": inst.mem0,
        "sites": inst.sites.iter().map(|s| l32(*s)).collect::<Vec<_>>(),
    });
    if arch.is_mips() {
        ev["hi"] = l32(inst.a);
        ev["lo"] = l32(inst.b);
        ev["zs"] = match inst.zs {
            Some(z) => json!([l32(z)]),
            None => json!([]),
        };
    } else {
        ev["lr"] = l32(inst.a);
        ev["ctr"] = l32(inst.b);
        ev["ca"] = json!(inst.ca);
        ev["cr"] = json!(inst.cr.to_vec());
    }

    // ---- lift
    let addr = inst.addr as u64;
    let lifted = {
        let bkr = &bk;
        guard(move || match arch {
            Arch::Mips => falcon::translator::mips::Mips::new().translate_function(bkr, addr),
            Arch::Mipsel => falcon::translator::mips::Mipsel::new().translate_function(bkr, addr),
            Arch::Ppc => falcon::translator::ppc::Ppc::new().translate_function(bkr, addr),
        })
    };
    let function = match lifted {
        Outcome::Ok(f) => {
            ev["lift"] = json!({"ok": 0});
            f
        }
        other => {
            ev["lift"] = other.json(|_| json!(0));
            return ev;
        }
    };

    // ---- initial state
    let mut program = il::Program::new();
    program.add_function(function);
    let loc: il::ProgramLocation = match guard(|| {
        match il::RefProgramLocation::from_function(program.function(0).unwrap()) {
            Some(r) => r.map(|l| l.into()),
            None => Err(falcon::Error::Custom("no entry location".into())),
        }
    }) {
        Outcome::Ok(l) => l,
        other => {
            ev["out"] = json!({"k": "noentry", "d": other.json(|_| json!(0))});
            return ev;
        }
    };
    let mut state = State::new(Memory::new_with_backing(arch.endian(), RC::new(bk)));
    for i in 0..32 {
        if arch.is_mips() && i == 0 {
            if let Some(z) = inst.zs {
                state.set_scalar("$zero", il::const_(z as u64, 32));
            }
            continue;
        }
        state.set_scalar(gpr_name(arch, i), il::const_(inst.gpr[i] as u64, 32));
    }
    if arch.is_mips() {
        state.set_scalar("$hi", il::const_(inst.a as u64, 32));
        state.set_scalar("$lo", il::const_(inst.b as u64, 32));
    } else {
        state.set_scalar("lr", il::const_(inst.a as u64, 32));
        state.set_scalar("ctr", il::const_(inst.b as u64, 32));
        state.set_scalar("carry", il::const_(inst.ca as u64, 1));
        for i in 0..32 {
            state.set_scalar(cr_name(i), il::const_(inst.cr[i] as u64, 1));
        }
    }
    let arch_rc: RC<dyn Architecture> = match arch {
        Arch::Mips => RC::new(architecture::Mips::new()),
        Arch::Mipsel => RC::new(architecture::Mipsel::new()),
        Arch::Ppc => RC::new(architecture::Ppc::new()),
    };
    let mut d = Driver::new(RC::new(program), loc, state, arch_rc);

    // ---- step until control leaves the unit
    let mut unit: Vec<u64> = (0..inst.words.len()).map(|k| addr + 4 * k as u64).collect();
    if arch.is_mips() {
        unit.push(addr + 1); // pseudo-address of the branch effect that runs after the delay slot
    }
    let mut steps = 0usize;
    let out;
    loop {
        let (cur, op) = match guard(|| {
            let l = d.location().apply(d.program())?;
            Ok((l.address(), l.instruction().map(|i| i.operation().clone())))
        }) {
            Outcome::Ok(x) => x,
            other => {
                out = json!({"k": "badloc", "d": other.json(|_| json!(0))});
                break;
            }
        };
        if let Some(a) = cur {
            if !unit.contains(&a) {
                out = json!({"k": "ok", "via": "addr", "npc": l64(a)});
                break;
            }
        }
        match op {
            Some(il::Operation::Branch { target }) => {
                out = match guard(|| d.state().symbolize_and_eval(&target)) {
                    Outcome::Ok(c) => match c.value_u64() {
                        Some(v) => json!({"k": "ok", "via": "branch", "npc": l64(v), "npcw": c.bits()}),
                        None => json!({"k": "err", "e": "branch target wider than 64 bits"}),
                    },
                    other => json!({"k": "err", "e": "branch target", "d": other.json(|_| json!(0))}),
                };
                break;
            }
            Some(il::Operation::Intrinsic { intrinsic }) => {
                out = json!({"k": "intrinsic", "mn": intrinsic.mnemonic()});
                break;
            }
            _ => {}
        }
        if steps >= MAX_STEPS {
            out = json!({"k": "steps"});
            break;
        }
        let d2 = d.clone();
        match guard(move || d2.step()) {
            Outcome::Ok(nd) => d = nd,
            Outcome::Err(e) => {
                out = json!({"k": "err", "e": e});
                break;
            }
            Outcome::Panic(m) => {
                out = json!({"k": "panic", "m": m});
                break;
            }
            Outcome::Timeout(_) => unreachable!(),
        }
        steps += 1;
    }
    ev["out"] = out;
    ev["steps"] = json!(steps);

    // ---- final state
    let st = d.state();
    let mut post = json!({
        "gpr": (0..32).map(|i| cval(st.get_scalar(&gpr_name(arch, i)))).collect::<Vec<_>>(),
    });
    if arch.is_mips() {
        post["hi"] = cval(st.get_scalar("$hi"));
        post["lo"] = cval(st.get_scalar("$lo"));
    } else {
        post["lr"] = cval(st.get_scalar("lr"));
        post["ctr"] = cval(st.get_scalar("ctr"));
        post["ca"] = cval(st.get_scalar("carry"));
        post["cr"] = json!((0..32).map(|i| cval(st.get_scalar(&cr_name(i)))).collect::<Vec<_>>());
    }
    let mem1: Vec<i64> = (0..WIN as u64)
        .map(|i| match guard(|| st.memory().load(inst.win as u64 + i, 8)) {
            Outcome::Ok(Some(c)) => c.value_u64().map(|x| x as i64).unwrap_or(-2),
            Outcome::Ok(None) => -1,
            _ => -3,
        })
        .collect();
    post["mem1"] = json!(mem1);
    // pages the executor has written to (copy-on-write pages exist only after a store)
    let mut pages: Vec<u64> = st.memory().pages().keys().cloned().collect();
    pages.sort();
    post["pages"] = json!(pages.iter().map(|p| l64(*p)).collect::<Vec<_>>());
    ev["post"] = post;
    ev
}

// --------------------------------------------------------------------------------------
// generation: bit-field templates + boundary-biased states
// --------------------------------------------------------------------------------------
fn v32(rng: &mut Rng) -> u32 {
    let b: BigUint = rng.interesting(32);
    b.iter_u32_digits().next().unwrap_or(0)
}
fn reg(rng: &mut Rng) -> u32 {
    match rng.below(10) {
        0 => 0,
        1 => 31,
        _ => rng.below(32) as u32,
    }
}
fn reg_nz(rng: &mut Rng) -> u32 {
    rng.range(1, 31) as u32
}
fn imm16(rng: &mut Rng) -> u32 {
    match rng.below(10) {
        0 => 0,
        1 => 1,
        2 => 0x7fff,
        3 => 0x8000,
        4 => 0xffff,
        5 => 0xfffe,
        6 => rng.below(64) as u32,
        _ => rng.below(0x10000) as u32,
    }
}
/// pc-relative target stays inside [0, 2^32) without wrapping (the wrap-around corner is not generated)
fn no_wrap(base: u32, disp: u32) -> bool {
    let t = base as i64 + (disp as i32) as i64;
    t >= 0 && t + 16 <= (1i64 << 32)
}
/// code (unit + landing site) and data window are disjoint
fn code_clear_of_window(inst: &Inst) -> bool {
    let (ca, cb) = (inst.addr as i64, inst.addr as i64 + 4 * inst.words.len() as i64 + 16);
    let (wa, wb) = (inst.win as i64 - 16, inst.win as i64 + WIN as i64 + 16);
    cb <= wa || wb <= ca
}
fn sext16(x: u32) -> u32 {
    (x as u16 as i16) as i32 as u32
}

/// where the data window goes and which offset inside it an access should hit
fn pick_window(rng: &mut Rng, low_only: bool) -> u32 {
    if low_only {
        pk!(rng, [0x100u32, 0xffff_ff80])
    } else {
        pk!(rng, [0x100u32, 0x1000_8000, 0x7fff_ffe0, 0xffff_ff80, 0x1000_8000, 0x2345_67c0])
    }
}

struct MemPlan {
    base: u32,   // register number (0 = no register / literal zero)
    simm: u32,   // 16-bit immediate field
    align: u32,  // required alignment of the effective address
    span: u32,   // bytes touched starting at the effective address (upper bound)
}

/// choose window + base register value so that base + sext(simm) lands inside the window
fn plan_memory(rng: &mut Rng, inst: &mut Inst, p: &mut MemPlan) {
    let lo = 16u32;
    let hi = (WIN as u32) - 16 - p.span.max(4);
    let mut k = lo + rng.below((hi - lo + 1) as u64) as u32;
    k -= k % p.align;
    if p.base == 0 {
        inst.win = pick_window(rng, true);
        p.simm = inst.win.wrapping_add(k) & 0xffff;
    } else {
        inst.win = pick_window(rng, false);
        inst.gpr[p.base as usize] = inst.win.wrapping_add(k).wrapping_sub(sext16(p.simm));
    }
}

fn fresh(arch: Arch, rng: &mut Rng) -> Inst {
    let mut gpr = [0u32; 32];
    for g in gpr.iter_mut() {
        *g = v32(rng);
    }
    let mut cr = [0u8; 32];
    for c in cr.iter_mut() {
        *c = rng.below(2) as u8;
    }
    let addr = if arch.is_mips() {
        pk!(rng, [0x0040_0000u32, 0x0040_1000, 0x8000_2000, 0x0fff_fff8, 0x0fff_fffc, 0x7fff_fff0, 0x1000])
    } else {
        pk!(rng, [0x1000_0000u32, 0x0040_1000, 0x8000_2000, 0x7fff_fffc, 0x01ff_fff8, 0x1000])
    };
    Inst {
        arch,
        addr,
        words: vec![],
        gpr,
        a: v32(rng),
        b: v32(rng),
        ca: rng.below(2) as u8,
        cr,
        zs: if rng.chance(1, 4) { Some(v32(rng) | 1) } else { None },
        win: 0x1000_8000,
        mem0: (0..WIN).map(|_| rng.below(256) as u8).collect(),
        sites: vec![],
        tag: String::new(),
        bad: false,
    }
}

// ---- MIPS -----------------------------------------------------------------------------
#[derive(Clone, Copy, PartialEq)]
enum MK {
    R3,    // rd, rs, rt
    ShI,   // rd, rt, sa
    ShV,   // rd, rt, rs
    MulDiv, // rs, rt
    MfHL,  // rd
    MtHL,  // rs
    S2R3,  // special2 rd, rs, rt
    S2Acc, // special2 rs, rt
    S2Cl,  // special2 rd, rs (rt = rd)
    Imm,   // rt, rs, imm16
    Lui,   // rt, imm16
    Mem,   // rt, off(base)
    Teq,
    Code,  // syscall / break
    Sync,
    Rdhwr,
    Pref,
}

const MIPS_SIMPLE: &[(&str, MK, u32)] = &[
    ("add", MK::R3, 0x20), ("addu", MK::R3, 0x21), ("sub", MK::R3, 0x22), ("subu", MK::R3, 0x23),
    ("and", MK::R3, 0x24), ("or", MK::R3, 0x25), ("xor", MK::R3, 0x26), ("nor", MK::R3, 0x27),
    ("slt", MK::R3, 0x2a), ("sltu", MK::R3, 0x2b), ("movz", MK::R3, 0x0a), ("movn", MK::R3, 0x0b),
    ("sll", MK::ShI, 0x00), ("srl", MK::ShI, 0x02), ("sra", MK::ShI, 0x03),
    ("sllv", MK::ShV, 0x04), ("srlv", MK::ShV, 0x06), ("srav", MK::ShV, 0x07),
    ("mult", MK::MulDiv, 0x18), ("multu", MK::MulDiv, 0x19), ("div", MK::MulDiv, 0x1a), ("divu", MK::MulDiv, 0x1b),
    ("mfhi", MK::MfHL, 0x10), ("mflo", MK::MfHL, 0x12), ("mthi", MK::MtHL, 0x11), ("mtlo", MK::MtHL, 0x13),
    ("mul", MK::S2R3, 0x02),
    ("madd", MK::S2Acc, 0x00), ("maddu", MK::S2Acc, 0x01), ("msub", MK::S2Acc, 0x04), ("msubu", MK::S2Acc, 0x05),
    ("clz", MK::S2Cl, 0x20), ("clo", MK::S2Cl, 0x21),
    ("addi", MK::Imm, 8), ("addiu", MK::Imm, 9), ("slti", MK::Imm, 10), ("sltiu", MK::Imm, 11),
    ("andi", MK::Imm, 12), ("ori", MK::Imm, 13), ("xori", MK::Imm, 14), ("lui", MK::Lui, 15),
    ("lb", MK::Mem, 32), ("lh", MK::Mem, 33), ("lwl", MK::Mem, 34), ("lw", MK::Mem, 35), ("lbu", MK::Mem, 36),
    ("lhu", MK::Mem, 37), ("lwr", MK::Mem, 38), ("sb", MK::Mem, 40), ("sh", MK::Mem, 41), ("swl", MK::Mem, 42),
    ("sw", MK::Mem, 43), ("swr", MK::Mem, 46), ("ll", MK::Mem, 48), ("sc", MK::Mem, 56),
    ("teq", MK::Teq, 0x34), ("syscall", MK::Code, 0x0c), ("break", MK::Code, 0x0d), ("sync", MK::Sync, 0x0f),
    ("rdhwr", MK::Rdhwr, 0x3b), ("pref", MK::Pref, 51),
];

/// instructions allowed in a delay slot (ALU / load / store classes that cannot trap)
const MIPS_DELAY: &[&str] = &[
    "addu", "subu", "and", "or", "xor", "nor", "slt", "sltu", "sll", "srl", "sra", "addiu", "andi", "ori", "xori",
    "lui", "slti", "sltiu", "lw", "sw", "lb", "lbu", "sb", "lh", "sh", "movz", "movn", "mult", "mflo", "mfhi", "mul",
];

fn boundary_pair(rng: &mut Rng) -> (u32, u32) {
    let a = pk!(rng, [0x7fff_ffffu32, 0x8000_0000, 0xffff_ffff, 0, 1, 0x7fff_fffe, 0x8000_0001, 0x4000_0000, 0xc000_0000]);
    let b = pk!(rng, [0x7fff_ffffu32, 0x8000_0000, 0xffff_ffff, 0, 1, 0x7fff_fffe, 0x8000_0001, 0x4000_0000, 0xc000_0000]);
    (a, b)
}

/// one non-branch MIPS instruction; adjusts `inst` (registers, window) to make it interesting.
/// `force`: registers the caller wants to appear as destination / source (delay-slot interplay)
fn mips_simple(rng: &mut Rng, inst: &mut Inst, name: &str, want_dst: Option<u32>, want_src: Option<u32>, avoid_base: &[u32]) -> u32 {
    let &(_, kind, code) = MIPS_SIMPLE.iter().find(|t| t.0 == name).unwrap();
    let (mut rs, mut rt, mut rd) = (reg(rng), reg(rng), reg(rng));
    if rng.chance(1, 6) {
        rt = rs; // aliasing
    }
    if rng.chance(1, 6) {
        rd = rs;
    }
    let sa = pk!(rng, [0u32, 1, 31, 16, 15, rng.below(32) as u32, rng.below(32) as u32]);
    let mut imm = imm16(rng);
    if let Some(s) = want_src {
        rs = s;
    }
    match kind {
        MK::R3 => {
            if let Some(d) = want_dst {
                rd = d;
            }
            if (name == "add" || name == "sub" || name == "slt" || name == "sltu") && rng.chance(1, 2) {
                let (a, b) = boundary_pair(rng);
                inst.gpr[rs as usize] = a;
                inst.gpr[rt as usize] = b;
            }
            if (name == "movz" || name == "movn") && rng.chance(1, 2) {
                inst.gpr[rt as usize] = 0;
            }
            (rs << 21) | (rt << 16) | (rd << 11) | code
        }
        MK::ShI => {
            if let Some(d) = want_dst {
                rd = d;
            }
            if let Some(s) = want_src {
                rt = s;
            }
            (rt << 16) | (rd << 11) | (sa << 6) | code
        }
        MK::ShV => {
            if let Some(d) = want_dst {
                rd = d;
            }
            if rng.chance(2, 3) {
                inst.gpr[rs as usize] = pk!(rng, [0u32, 1, 31, 32, 33, 63, 64, 0x8000_0005, 0xffff_ffff, 0x20, 0x1f, 0x100]);
            }
            (rs << 21) | (rt << 16) | (rd << 11) | code
        }
        MK::MulDiv => {
            if name == "div" || name == "divu" {
                if rng.chance(1, 3) {
                    let (a, b) = boundary_pair(rng);
                    inst.gpr[rs as usize] = a;
                    inst.gpr[rt as usize] = b;
                }
                // a zero divisor is UNPREDICTABLE: rare on purpose (the specification does not judge it)
                if inst.gpr[rt as usize] == 0 && rt != 0 && !rng.chance(1, 8) {
                    inst.gpr[rt as usize] = v32(rng) | 1;
                }
                if rt == 0 && !rng.chance(1, 8) {
                    rt = reg_nz(rng);
                    if inst.gpr[rt as usize] == 0 {
                        inst.gpr[rt as usize] = 3;
                    }
                }
            }
            (rs << 21) | (rt << 16) | code
        }
        MK::MfHL => {
            if let Some(d) = want_dst {
                rd = d;
            }
            (rd << 11) | code
        }
        MK::MtHL => (rs << 21) | code,
        MK::S2R3 => {
            if let Some(d) = want_dst {
                rd = d;
            }
            (0x1c << 26) | (rs << 21) | (rt << 16) | (rd << 11) | code
        }
        MK::S2Acc => (0x1c << 26) | (rs << 21) | (rt << 16) | code,
        MK::S2Cl => {
            if rng.chance(1, 2) {
                let k = rng.below(33) as u32;
                let run = if k == 32 { 0xffff_ffffu32 } else { !(0xffff_ffffu32 >> k) };
                let tail = if k >= 31 { 0 } else { v32(rng) & (0x7fff_ffffu32 >> k) };
                // k leading ones then a zero (clo), or the complement (clz)
                let v = (run | tail) & !(if k == 32 { 0 } else { 0x8000_0000u32 >> k });
                inst.gpr[rs as usize] = if name == "clo" { v } else { !v };
            }
            (0x1c << 26) | (rs << 21) | (rd << 16) | (rd << 11) | code
        }
        MK::Imm => {
            if let Some(d) = want_dst {
                rt = d;
            }
            if name == "addi" && rng.chance(1, 2) {
                inst.gpr[rs as usize] = pk!(rng, [0x7fff_ffffu32, 0x8000_0000, 0x7fff_8000, 0x8000_7fff, 0x7fff_7fff, 0xffff_ffff]);
            }
            if (name == "slti" || name == "sltiu") && rng.chance(1, 3) {
                inst.gpr[rs as usize] = pk!(rng, [sext16(imm), sext16(imm).wrapping_sub(1), sext16(imm).wrapping_add(1), imm, 0x8000_0000, 0x7fff_ffff]);
            }
            (code << 26) | (rs << 21) | (rt << 16) | imm
        }
        MK::Lui => {
            if let Some(d) = want_dst {
                rt = d;
            }
            (code << 26) | (rt << 16) | imm
        }
        MK::Mem => {
            let mut base = rs;
            while avoid_base.contains(&base) {
                base = reg(rng);
            }
            let is_load = code < 40 || code == 48;
            if let Some(d) = want_dst {
                if is_load {
                    rt = d;
                }
            }
            if (name == "lwl" || name == "lwr") && rt == base {
                rt = (base + 1 + rng.below(30) as u32) % 32;
            }
            let align = match name {
                "lw" | "sw" | "ll" | "sc" => 4,
                "lh" | "lhu" | "sh" => 2,
                _ => 1,
            };
            let mut p = MemPlan { base, simm: imm, align, span: 4 };
            plan_memory(rng, inst, &mut p);
            imm = p.simm;
            (code << 26) | (base << 21) | (rt << 16) | imm
        }
        MK::Teq => {
            if rng.chance(1, 2) {
                inst.gpr[rt as usize] = inst.gpr[rs as usize];
            }
            (rs << 21) | (rt << 16) | ((rng.below(1024) as u32) << 6) | code
        }
        MK::Code => ((if rng.bool() { 0 } else { rng.below(1 << 20) as u32 }) << 6) | code,
        MK::Sync => code,
        MK::Rdhwr => (0x1f << 26) | (rt << 16) | ((pk!(rng, [29u32, 0, 1, 2, 3])) << 11) | code,
        MK::Pref => {
            let mut p = MemPlan { base: rs, simm: imm, align: 1, span: 4 };
            plan_memory(rng, inst, &mut p);
            (code << 26) | (rs << 21) | ((rng.below(32) as u32) << 16) | p.simm
        }
    }
}

const MIPS_BRANCH: &[&str] = &["beq", "bne", "blez", "bgtz", "bltz", "bgez", "bltzal", "bgezal", "j", "jal", "jr", "jalr"];

fn br_off(rng: &mut Rng) -> u32 {
    // word offset relative to the delay slot; -1 (self) and 0 (the delay slot) are excluded
    match rng.below(12) {
        0 => 2,
        1 => 3,
        2 => 0x7fff,
        3 => 0x8000,
        4 => 0xfffe, // -2
        5 => 0xfff0,
        6 => 1, // target == fall-through
        7 => 0x1000,
        _ => {
            let o = rng.below(0x10000) as u32;
            if o == 0 || o == 0xffff {
                5
            } else {
                o
            }
        }
    }
}

fn mips_branch_unit(rng: &mut Rng, inst: &mut Inst, name: &str) {
    let a = inst.addr;
    let (mut rs, mut rt, mut rd) = (reg(rng), reg(rng), reg(rng));
    if rng.chance(1, 5) {
        rt = rs;
    }
    let off = br_off(rng);
    let rel_target = a.wrapping_add(4).wrapping_add(sext16(off) << 2);
    let rel_ok = no_wrap(a.wrapping_add(4), sext16(off) << 2);
    let mut links = false;
    let word = match name {
        "beq" | "bne" => {
            if rng.chance(1, 2) {
                inst.gpr[rt as usize] = inst.gpr[rs as usize];
            }
            inst.sites.push(rel_target);
            inst.bad |= !rel_ok;
            ((if name == "beq" { 4 } else { 5 }) << 26) | (rs << 21) | (rt << 16) | off
        }
        "blez" | "bgtz" => {
            inst.sites.push(rel_target);
            inst.bad |= !rel_ok;
            ((if name == "blez" { 6 } else { 7 }) << 26) | (rs << 21) | off
        }
        "bltz" | "bgez" | "bltzal" | "bgezal" => {
            inst.sites.push(rel_target);
            inst.bad |= !rel_ok;
            let c = match name {
                "bltz" => 0,
                "bgez" => 1,
                "bltzal" => 16,
                _ => 17,
            };
            links = c >= 16;
            if links && rs == 31 {
                rs = 4; // rs = 31 is UNPREDICTABLE for the and-link forms
            }
            (1 << 26) | (rs << 21) | (c << 16) | off
        }
        "j" | "jal" => {
            links = name == "jal";
            let idx = match rng.below(6) {
                0 => 0x0010_0040 >> 2,
                1 => 0x03ff_fffc,
                2 => 0x0000_4000 >> 2,
                _ => (rng.below(1 << 26) as u32) & !0x3,
            };
            let t = (a.wrapping_add(4) & 0xf000_0000) | (idx << 2);
            inst.sites.push(t);
            ((if links { 3 } else { 2 }) << 26) | idx
        }
        "jr" => {
            if rs == 0 {
                rs = 31;
            }
            inst.gpr[rs as usize] = pk!(rng, [0x0050_0000u32, 0x8000_4000, 0x7fff_fffc, 0x0000_2000, 0xffff_fff0, v32(rng) & !3]);
            (rs << 21) | 8
        }
        _ => {
            // jalr rd, rs  (rd = rs is UNPREDICTABLE)
            links = true;
            if rs == 0 {
                rs = 25;
            }
            if rng.chance(1, 2) {
                rd = 31;
            }
            if rd == rs {
                rd = if rs == 31 { 30 } else { 31 };
            }
            inst.gpr[rs as usize] = pk!(rng, [0x0050_0000u32, 0x8000_4000, 0x7fff_fffc, 0x0000_2000, 0xffff_fff0, v32(rng) & !3]);
            (rs << 21) | (rd << 11) | 9
        }
    };
    let link_reg = if name == "jalr" { rd } else { 31 };
    // delay slot: biased towards interplay with the branch (writes its source, reads / writes the link register)
    let dname = *rng.pick(MIPS_DELAY);
    let src_of_branch = if ["j", "jal"].contains(&name) { None } else { Some(rs) };
    let (mut want_dst, mut want_src) = (None, None);
    match rng.below(6) {
        0 | 1 => want_dst = src_of_branch.filter(|r| *r != 0),
        2 if links => want_dst = Some(link_reg),
        3 if links => want_src = Some(link_reg),
        4 if name == "beq" || name == "bne" => want_dst = Some(rt).filter(|r| *r != 0),
        _ => {}
    }
    let avoid: Vec<u32> = if links { vec![link_reg] } else { vec![] };
    // remember what the branch needs: the delay-slot generator may change register *values*
    let keep: Vec<(u32, u32)> = [rs, rt].iter().map(|r| (*r, inst.gpr[*r as usize])).collect();
    let dword = mips_simple(rng, inst, dname, want_dst, want_src, &avoid);
    if matches!(name, "jr" | "jalr") {
        // the jump register keeps the (aligned, interesting) target unless it is the memory base
        let (r, v) = keep[0];
        if (dword >> 26) < 32 || ((dword >> 21) & 31) != r {
            inst.gpr[r as usize] = v;
        }
    }
    inst.words = vec![word, dword];
    inst.tag = format!("{}+{}", name, dname);
    // drop landing sites that start inside the unit, touch the window or run past 2^32
    let (wa, wb) = (inst.win as u64, inst.win as u64 + WIN as u64);
    inst.sites.retain(|s| {
        let (sa, sb) = (*s as u64, *s as u64 + 16);
        !(sa >= a as u64 && sa < a as u64 + 8) && !(sa < wb + 16 && wa < sb + 16) && sb <= (1u64 << 32)
    });
}

fn gen_mips(rng: &mut Rng, arch: Arch) -> Inst {
    loop {
        let mut inst = fresh(arch, rng);
        let r = rng.below(100);
        if r < 32 {
            let name = *rng.pick(MIPS_BRANCH);
            mips_branch_unit(rng, &mut inst, name);
            // a direct target inside the unit itself (self loop / the delay slot) is not generated
            let w = inst.words[0];
            let direct = (w >> 26) != 0;
            if direct && inst.sites.is_empty() {
                continue;
            }
        } else if r < 95 {
            let t = rng.pick(MIPS_SIMPLE);
            let w = mips_simple(rng, &mut inst, t.0, None, None, &[]);
            inst.words = vec![w];
            inst.tag = t.0.to_string();
        } else {
            // wild: a dispatched major opcode with arbitrary remaining fields (reserved fields included)
            let t = rng.pick(MIPS_SIMPLE);
            let w0 = mips_simple(rng, &mut inst, t.0, None, None, &[]);
            let w = if w0 >> 26 == 0 || w0 >> 26 == 0x1c { w0 | ((rng.next() as u32) & (rng.next() as u32) & 0x03ff_ffc0) } else { w0 };
            // never turn it into a branch / jump (a branch needs a delay slot and landing sites)
            let is_br = (w >> 26 == 0 && (w & 0x3f == 8 || w & 0x3f == 9)) || matches!(w >> 26, 1..=7 | 20..=23);
            if is_br {
                continue;
            }
            inst.words = vec![w];
            inst.tag = format!("wild-{}", t.0);
        }
        if inst.bad || !code_clear_of_window(&inst) {
            continue;
        }
        return inst;
    }
}

// ---- PPC ------------------------------------------------------------------------------
const PPC_TEMPLATES: &[&str] = &[
    "addi", "addis", "add", "add.", "subf", "subf.", "addze", "srawi", "srawi.", "rlwinm", "rlwinm.", "slwi", "cmpwi", "cmplwi",
    "cmpw", "cmplw", "lwz", "lwzu", "lbz", "stw", "stwu", "stb", "stmw", "mflr", "mfctr", "mtlr", "mtctr", "mr", "or",
    "nop", "ori", "slw", "srw", "b", "bl", "bc", "bcl", "bclr", "blr", "bcctr", "bctr", "li", "lis",
];

fn ppc_bo(rng: &mut Rng, allow_ctr: bool) -> u32 {
    // valid BO encodings only (z bits zero); y/hint bit free
    let y = rng.below(2) as u32;
    let forms: &[u32] = if allow_ctr {
        &[0b00000, 0b00010, 0b00100, 0b01000, 0b01010, 0b01100, 0b10000, 0b10010, 0b10100]
    } else {
        &[0b00100, 0b01100, 0b10100]
    };
    let f = *rng.pick(forms);
    if f == 0b10100 {
        f
    } else {
        f | y
    }
}

fn gen_ppc(rng: &mut Rng) -> Inst {
    loop {
        let mut inst = fresh(Arch::Ppc, rng);
        let name = *rng.pick(PPC_TEMPLATES);
        let a = inst.addr;
        let (mut rt, ra, mut rb) = (reg(rng), reg(rng), reg(rng));
        if rng.chance(1, 6) {
            rb = ra;
        }
        if rng.chance(1, 6) {
            rt = ra;
        }
        let imm = imm16(rng);
        let crf = if rng.chance(1, 3) { 0 } else { rng.below(8) as u32 };
        let x = |xo: u32, rc: u32| (31u32 << 26) | (rt << 21) | (ra << 16) | (rb << 11) | (xo << 1) | rc;
        let mem = |inst: &mut Inst, rng: &mut Rng, opcd: u32, rt: u32, ra: u32, span: u32, align: u32| -> u32 {
            let mut p = MemPlan { base: ra, simm: imm, align, span };
            plan_memory(rng, inst, &mut p);
            (opcd << 26) | (rt << 21) | (ra << 16) | p.simm
        };
        let w = match name {
            "addi" => (14 << 26) | (rt << 21) | (ra.max(1) << 16) | imm,
            "li" => (14 << 26) | (rt << 21) | imm,
            "addis" => (15 << 26) | (rt << 21) | (ra.max(1) << 16) | imm,
            "lis" => (15 << 26) | (rt << 21) | imm,
            "add" | "add." => {
                if rng.chance(1, 3) {
                    let (p, q) = boundary_pair(rng);
                    inst.gpr[ra as usize] = p;
                    inst.gpr[rb as usize] = q;
                }
                x(266, (name == "add.") as u32)
            }
            "subf" | "subf." => {
                if rng.chance(1, 3) {
                    let (p, q) = boundary_pair(rng);
                    inst.gpr[ra as usize] = p;
                    inst.gpr[rb as usize] = q;
                }
                x(40, (name == "subf.") as u32)
            }
            "addze" => {
                if rng.chance(1, 3) {
                    inst.gpr[ra as usize] = pk!(rng, [0xffff_ffffu32, 0x7fff_ffff, 0, 0xffff_fffe]);
                }
                (31 << 26) | (rt << 21) | (ra << 16) | (202 << 1)
            }
            "srawi" | "srawi." => {
                let sh = pk!(rng, [0u32, 1, 31, 16, rng.below(32) as u32]);
                if rng.chance(1, 2) {
                    inst.gpr[rt as usize] = pk!(rng, [0x8000_0000u32, 0x8000_0001, 0xffff_ffff, 0xffff_0000, 0x7fff_ffff, 0xc000_0000]);
                }
                (31 << 26) | (rt << 21) | (ra << 16) | (sh << 11) | (824 << 1) | (name == "srawi.") as u32
            }
            "rlwinm" | "rlwinm." => {
                let sh = pk!(rng, [0u32, 1, 31, rng.below(32) as u32, rng.below(32) as u32]);
                let mb = pk!(rng, [0u32, 31, 1, rng.below(32) as u32, rng.below(32) as u32]);
                let me = match rng.below(6) {
                    0 => mb,
                    1 => (mb + 31) % 32, // mb = me + 1: the full mask
                    2 => 31,
                    3 => 0,
                    _ => rng.below(32) as u32,
                };
                (21 << 26) | (rt << 21) | (ra << 16) | (sh << 11) | (mb << 6) | (me << 1) | (name == "rlwinm.") as u32
            }
            "slwi" => {
                let sh = pk!(rng, [1u32, 31, 16, 1 + rng.below(31) as u32]);
                (21 << 26) | (rt << 21) | (ra << 16) | (sh << 11) | ((31 - sh) << 1)
            }
            "cmpwi" | "cmplwi" => {
                if rng.chance(1, 3) {
                    inst.gpr[ra as usize] = if name == "cmpwi" { sext16(imm) } else { imm };
                } else if rng.chance(1, 3) {
                    inst.gpr[ra as usize] = pk!(rng, [0x8000_0000u32, 0x7fff_ffff, 0xffff_ffff, 0, 1, sext16(imm).wrapping_add(1), sext16(imm).wrapping_sub(1)]);
                }
                ((if name == "cmpwi" { 11 } else { 10 }) << 26) | (crf << 23) | (ra << 16) | imm
            }
            "cmpw" | "cmplw" => {
                if rng.chance(1, 3) {
                    inst.gpr[rb as usize] = inst.gpr[ra as usize];
                }
                (31 << 26) | (crf << 23) | (ra << 16) | (rb << 11) | ((if name == "cmpw" { 0 } else { 32 }) << 1)
            }
            "lwz" => mem(&mut inst, rng, 32, rt, ra, 4, 1),
            "lbz" => mem(&mut inst, rng, 34, rt, ra, 1, 1),
            "stw" => mem(&mut inst, rng, 36, rt, ra, 4, 1),
            "stb" => mem(&mut inst, rng, 38, rt, ra, 1, 1),
            "lwzu" => {
                // RA = 0 and RA = RT are invalid forms
                let ra = ra.max(1);
                let rt = if rt == ra { (ra % 31) + 1 } else { rt };
                let rt = if rt == ra { 0 } else { rt };
                mem(&mut inst, rng, 33, rt, ra, 4, 1)
            }
            "stwu" => mem(&mut inst, rng, 37, rt, ra.max(1), 4, 1),
            "stmw" => {
                let rs = 24 + rng.below(8) as u32;
                let mut p = MemPlan { base: ra, simm: imm, align: 4, span: 4 * (32 - rs) };
                plan_memory(rng, &mut inst, &mut p);
                (47 << 26) | (rs << 21) | (ra << 16) | p.simm
            }
            "mflr" => (31 << 26) | (rt << 21) | (8 << 16) | (339 << 1),
            "mfctr" => (31 << 26) | (rt << 21) | (9 << 16) | (339 << 1),
            "mtlr" => (31 << 26) | (rt << 21) | (8 << 16) | (467 << 1),
            "mtctr" => (31 << 26) | (rt << 21) | (9 << 16) | (467 << 1),
            "mr" => (31 << 26) | (rt << 21) | (ra << 16) | (rt << 11) | (444 << 1),
            "or" => x(444, 0),
            "nop" => 0x6000_0000,
            "ori" => (24 << 26) | (rt << 21) | (ra << 16) | imm,
            "slw" => x(24, 0),
            "srw" => x(536, 0),
            "b" | "bl" => {
                let li = match rng.below(6) {
                    0 => 2u32,
                    1 => 0x00ff_fffe, // -2 words
                    2 => 0x0080_0000, // most negative
                    3 => 0x007f_fff0,
                    _ => {
                        let v = rng.below(1 << 24) as u32;
                        if v <= 1 || v == 0x00ff_ffff { 7 } else { v }
                    }
                };
                let disp = (((li << 2) as i32) << 6 >> 6) as u32;
                inst.sites.push(a.wrapping_add(disp));
                inst.bad |= !no_wrap(a, disp);
                (18 << 26) | (li << 2) | (name == "bl") as u32
            }
            "bc" | "bcl" => {
                let bo = ppc_bo(rng, true);
                let bi = rng.below(32) as u32;
                let bd = match rng.below(6) {
                    0 => 2u32,
                    1 => 0x3ffe,
                    2 => 0x2000,
                    3 => 0x1ff0,
                    _ => {
                        let v = rng.below(1 << 14) as u32;
                        if v <= 1 || v == 0x3fff { 9 } else { v }
                    }
                };
                let disp = (((bd << 2) as i32) << 16 >> 16) as u32;
                inst.sites.push(a.wrapping_add(disp));
                inst.bad |= !no_wrap(a, disp);
                if rng.chance(1, 3) {
                    inst.b = pk!(rng, [1u32, 0, 2]);
                }
                (16 << 26) | (bo << 21) | (bi << 16) | (bd << 2) | (name == "bcl") as u32
            }
            "bclr" | "blr" => {
                let (bo, bi) = if name == "blr" { (0b10100, 0) } else { (ppc_bo(rng, true), rng.below(32) as u32) };
                inst.a = pk!(rng, [0x0050_0000u32, 0x8000_4000, 0x7fff_fffc, 0x2000, 0x2001, 0x2003, v32(rng)]);
                if rng.chance(1, 3) {
                    inst.b = pk!(rng, [1u32, 0, 2]);
                }
                (19 << 26) | (bo << 21) | (bi << 16) | (16 << 1)
            }
            _ => {
                // bcctr / bctr
                let (bo, bi) = if name == "bctr" { (0b10100, 0) } else { (ppc_bo(rng, false), rng.below(32) as u32) };
                inst.b = pk!(rng, [0x0050_0000u32, 0x8000_4000, 0x7fff_fffc, 0x2000, 0x2002, v32(rng)]);
                (19 << 26) | (bo << 21) | (bi << 16) | (528 << 1)
            }
        };
        inst.words = vec![w];
        inst.tag = name.to_string();
        let (ua, ub) = (a as u64, a as u64 + 4);
        let ok_sites = inst.sites.iter().all(|s| {
            let (sa, sb) = (*s as u64, *s as u64 + 12);
            let (wa, wb) = (inst.win as u64, inst.win as u64 + WIN as u64);
            (sa >= ub || sb <= ua) && !(sa < wb + 16 && wa < sb + 16) && sb <= (1u64 << 32)
        });
        if !ok_sites || inst.bad || !code_clear_of_window(&inst) {
            continue;
        }
        return inst;
    }
}

// --------------------------------------------------------------------------------------
// replay
// --------------------------------------------------------------------------------------
fn inst_from_event(v: &Value) -> Inst {
    let arch = Arch::parse(v["arch"].as_str().unwrap());
    let word = |w: &Value| {
        let b: Vec<u8> = w.as_array().unwrap().iter().map(|x| x.as_u64().unwrap() as u8).collect();
        match arch {
            Arch::Mipsel => u32::from_le_bytes([b[0], b[1], b[2], b[3]]),
            _ => u32::from_be_bytes([b[0], b[1], b[2], b[3]]),
        }
    };
    let mut gpr = [0u32; 32];
    for (i, g) in v["gpr"].as_array().unwrap().iter().enumerate().take(32) {
        gpr[i] = from_l32(g);
    }
    let mut cr = [0u8; 32];
    if let Some(c) = v["cr"].as_array() {
        for (i, x) in c.iter().enumerate().take(32) {
            cr[i] = x.as_u64().unwrap() as u8;
        }
    }
    Inst {
        arch,
        addr: from_l32(&v["addr"]),
        words: v["words"].as_array().unwrap().iter().map(word).collect(),
        gpr,
        a: from_l32(if arch.is_mips() { &v["hi"] } else { &v["lr"] }),
        b: from_l32(if arch.is_mips() { &v["lo"] } else { &v["ctr"] }),
        ca: v["ca"].as_u64().unwrap_or(0) as u8,
        cr,
        zs: v["zs"].as_array().and_then(|a| a.first()).map(from_l32),
        win: from_l32(&v["win"]),
        mem0: v["mem0"].as_array().unwrap().iter().map(|x| x.as_u64().unwrap() as u8).collect(),
        sites: v["sites"].as_array().unwrap().iter().map(from_l32).collect(),
        tag: v["tag"].as_str().unwrap_or("").to_string(),
        bad: false,
    }
}

fn main() {
    fv::quiet_panics();
    let mode = fv::arg_str("mode", "random");
    let mut out = Out::create(&fv::arg_str("out", "/dev/stdout"));
    match mode.as_str() {
        "random" => {
            let arch = Arch::parse(&fv::arg_str("arch", "mips"));
            let salt = match arch {
                Arch::Mips => 0xC02_0001u64,
                Arch::Mipsel => 0xC02_0002,
                Arch::Ppc => 0xC02_0003,
            };
            let mut rng = Rng::new(fv::seed_from_env() ^ (salt << 24)); // salt in the high bits: streams of different architectures never coincide
            let n = fv::arg_u64("n", 100);
            for _ in 0..n {
                let inst = if arch.is_mips() { gen_mips(&mut rng, arch) } else { gen_ppc(&mut rng) };
                out.emit(&run(&inst));
            }
        }
        "replay" => {
            let text = std::fs::read_to_string(fv::arg_str("in", "")).expect("read");
            for line in text.lines() {
                if line.trim().is_empty() {
                    continue;
                }
                let v: Value = serde_json::from_str(line).unwrap();
                if v["ev"] == "inst" {
                    out.emit(&run(&inst_from_event(&v)));
                }
            }
        }
        _ => panic!("unknown mode"),
    }
    eprintln!("c02: {} events", out.finish());
}
