//! C06 (x86 part): function recovery on x86-64 images with variable-length instructions.
//! The generator lays out instructions from a small table of encodings of known length and kind
//! (independent of capstone), so that the specification can compute the architecture's successor
//! relation from the *description*; the recovered function is projected to native addresses.
//!
//! Architectures: amd64, x86 (32-bit), aarch64, aarch64eb (A64 instructions are little-endian in both).
//!
//!   c06x --mode random --n N --out FILE     (VERIF_SEED)
//!   c06x --mode replay --in FILE --out FILE

use falcon::il;
use falcon::memory::backing::Memory;
use falcon::memory::MemoryPermissions;
use falcon::translator::aarch64::{AArch64, AArch64Eb};
use falcon::translator::x86::{Amd64, X86};
use falcon::translator::Translator;
use fv::{guard, Out, Rng};
use serde_json::{json, Value};

const BASE: u64 = 0x40_1000;

#[derive(Clone)]
struct Ins {
    bytes: Vec<u8>,
    kind: &'static str, // fall | jump | cond | ind
    rel: usize,         // width of the relative displacement at the end of the encoding (0, 1, 4)
    target: i64,        // index of the target instruction (jump/cond), -1 otherwise
}

fn plain32(rng: &mut Rng) -> Ins {
    let b: Vec<u8> = match rng.below(9) {
        0 => vec![0x90],                                                   // nop
        1 => { let mut v = vec![0xb8 + rng.below(4) as u8]; v.extend((rng.next() as u32).to_le_bytes()); v } // mov r32, imm32
        2 => vec![0x01, 0xd8],                                             // add eax, ebx
        3 => vec![0x31, 0xc9],                                             // xor ecx, ecx
        4 => vec![0x8d, 0x44, 0x58, 0x10],                                 // lea eax, [eax+ebx*2+0x10]
        5 => { let mut v = vec![0x8d, 0x83]; v.extend((rng.next() as u32 & 0xffff).to_le_bytes()); v } // lea eax, [ebx+disp32] (6 bytes)
        6 => vec![0x83, 0xf8, rng.below(128) as u8],                       // cmp eax, imm8
        7 => vec![0x85, 0xc0],                                             // test eax, eax
        _ => { let mut v = vec![0x81, 0xc3]; v.extend((rng.next() as u32 & 0x7fff_ffff).to_le_bytes()); v } // add ebx, imm32 (6 bytes)
    };
    Ins { bytes: b, kind: "fall", rel: 0, target: -1 }
}

/// A64: every instruction is 4 bytes; `rel` is unused, displacements are encoded after the layout is known
fn generate_a64(rng: &mut Rng) -> (Vec<Ins>, usize, Vec<(usize, usize)>) {
    let n = rng.range(4, 44) as usize;
    let mut v: Vec<Ins> = Vec::new();
    for i in 0..n {
        let last = i + 1 == n;
        let r = rng.below(100);
        let t = rng.below(n as u64) as i64;
        let d = ((t - i as i64) as i32) as u32; // displacement in words
        let enc = |w: u32| w.to_le_bytes().to_vec();
        let ins = if (last && rng.chance(1, 3)) || (!last && (10..13).contains(&r)) {
            Ins { bytes: enc(0x1400_0000 | (d & 0x03ff_ffff)), kind: "jump", rel: 0, target: t }            // b
        } else if last || (13..16).contains(&r) {
            let w = if rng.bool() { 0xd65f_03c0 } else { 0xd61f_0000 | ((rng.below(30) as u32) << 5) };        // ret | br xN
            Ins { bytes: enc(w), kind: "ind", rel: 0, target: -1 }
        } else if r < 10 {
            let w = match rng.below(4) {
                0 => 0x5400_0000 | ((d & 0x7ffff) << 5) | rng.below(14) as u32,                               // b.cond (not al/nv)
                1 => 0xb400_0000 | ((d & 0x7ffff) << 5) | rng.below(31) as u32,                               // cbz xN
                2 => 0x3500_0000 | ((d & 0x7ffff) << 5) | rng.below(31) as u32,                               // cbnz wN
                _ => (if rng.bool() { 0x3600_0000 } else { 0x3700_0000 }) | ((rng.below(32) as u32) << 19)
                        | ((d & 0x3fff) << 5) | rng.below(31) as u32,                                          // tbz / tbnz wN, #b
            };
            Ins { bytes: enc(w), kind: "cond", rel: 0, target: t }
        } else {
            let w = match rng.below(5) {
                0 => 0xd503_201f,                                                                             // nop
                1 => 0x9100_0000 | ((rng.below(4096) as u32) << 10) | ((rng.below(31) as u32) << 5) | rng.below(31) as u32, // add xd, xn, #imm
                2 => 0xd280_0000 | ((rng.below(65536) as u32) << 5) | rng.below(31) as u32,                   // movz xd, #imm
                3 => 0xeb00_0000 | ((rng.below(31) as u32) << 16) | ((rng.below(31) as u32) << 5) | rng.below(31) as u32, // subs xd, xn, xm
                _ => 0xd100_0000 | ((rng.below(4096) as u32) << 10) | ((rng.below(31) as u32) << 5) | rng.below(31) as u32, // sub xd, xn, #imm
            };
            Ins { bytes: enc(w), kind: "fall", rel: 0, target: -1 }
        };
        v.push(ins);
    }
    let entry = if rng.chance(1, 4) { rng.below(n as u64) as usize } else { 0 };
    let mut manual = Vec::new();
    for i in 0..n {
        if v[i].kind == "ind" && rng.chance(1, 4) {
            manual.push((i, rng.below(n as u64) as usize));
        }
    }
    (v, entry, manual)
}

fn plain(rng: &mut Rng) -> Ins {
    let b: Vec<u8> = match rng.below(9) {
        0 => vec![0x90],                                                   // nop
        1 => { let mut v = vec![0xb8 + rng.below(4) as u8]; v.extend((rng.next() as u32).to_le_bytes()); v } // mov r32, imm32
        2 => vec![0x01, 0xd8],                                             // add eax, ebx
        3 => vec![0x31, 0xc9],                                             // xor ecx, ecx
        4 => vec![0x48, 0x8d, 0x44, 0x58, 0x10],                           // lea rax, [rax+rbx*2+0x10]
        5 => { let mut v = vec![0x48, 0xb8]; v.extend(rng.next().to_le_bytes()); v } // mov rax, imm64 (10 bytes)
        6 => vec![0x83, 0xf8, rng.below(128) as u8],                       // cmp eax, imm8
        7 => vec![0x85, 0xc0],                                             // test eax, eax
        _ => { let mut v = vec![0x48, 0x81, 0xc3]; v.extend((rng.next() as u32 & 0x7fff_ffff).to_le_bytes()); v } // add rbx, imm32 (7 bytes)
    };
    Ins { bytes: b, kind: "fall", rel: 0, target: -1 }
}

fn generate(rng: &mut Rng, arch: &str) -> (Vec<Ins>, usize, Vec<(usize, usize)>) {
    if arch.starts_with("aarch64") {
        return generate_a64(rng);
    }
    let n = rng.range(4, 36) as usize;
    let mut v: Vec<Ins> = Vec::new();
    for i in 0..n {
        let last = i + 1 == n;
        let r = rng.below(100);
        let ins = if last {
            if rng.chance(1, 3) {
                Ins { bytes: vec![0xe9, 0, 0, 0, 0], kind: "jump", rel: 4, target: rng.below(n as u64) as i64 }
            } else {
                Ins { bytes: vec![0xc3], kind: "ind", rel: 0, target: -1 }
            }
        } else if r < 3 {
            // jrcxz / jecxz / loop: conditional jumps that only exist with an 8-bit displacement
            let op = if arch == "x86" && rng.bool() { 0xe3 } else { 0xe2 }; // the amd64 lifter refuses jrcxz
            Ins { bytes: vec![op, 0], kind: "cond", rel: 1, target: rng.below(n as u64) as i64 }
        } else if r < 10 {
            let near = rng.bool();
            let cc = rng.below(16) as u8;
            if near {
                Ins { bytes: vec![0x70 + cc, 0], kind: "cond", rel: 1, target: rng.below(n as u64) as i64 }
            } else {
                Ins { bytes: vec![0x0f, 0x80 + cc, 0, 0, 0, 0], kind: "cond", rel: 4, target: rng.below(n as u64) as i64 }
            }
        } else if r < 15 {
            if rng.bool() {
                Ins { bytes: vec![0xeb, 0], kind: "jump", rel: 1, target: rng.below(n as u64) as i64 }
            } else {
                Ins { bytes: vec![0xe9, 0, 0, 0, 0], kind: "jump", rel: 4, target: rng.below(n as u64) as i64 }
            }
        } else if r < 18 {
            Ins { bytes: vec![0xc3], kind: "ind", rel: 0, target: -1 }
        } else if arch == "x86" {
            plain32(rng)
        } else {
            plain(rng)
        };
        v.push(ins);
    }
    // offsets, then patch displacements; a rel8 that does not reach is widened to rel32 (re-layout)
    loop {
        let mut off = vec![0usize; n + 1];
        for i in 0..n {
            off[i + 1] = off[i] + v[i].bytes.len();
        }
        let mut changed = false;
        for i in 0..n {
            if v[i].rel == 0 {
                continue;
            }
            let disp = off[v[i].target as usize] as i64 - off[i + 1] as i64;
            if v[i].rel == 1 {
                if (disp < -128 || disp > 127) && (v[i].bytes[0] == 0xe3 || v[i].bytes[0] == 0xe2) {
                    // no wide form: aim at the next instruction instead
                    v[i].target = ((i + 1) % n) as i64;
                    changed = true;
                } else if disp < -128 || disp > 127 {
                    // widen
                    let op = v[i].bytes[0];
                    v[i].bytes = if op == 0xeb { vec![0xe9, 0, 0, 0, 0] } else { vec![0x0f, 0x80 + (op - 0x70), 0, 0, 0, 0] };
                    v[i].rel = 4;
                    changed = true;
                } else {
                    let l = v[i].bytes.len();
                    v[i].bytes[l - 1] = disp as i8 as u8;
                }
            } else {
                let l = v[i].bytes.len();
                v[i].bytes[l - 4..].copy_from_slice(&(disp as i32).to_le_bytes());
            }
        }
        if !changed {
            break;
        }
    }
    let entry = if rng.chance(1, 4) { rng.below(n as u64) as usize } else { 0 };
    // manual edges from some `ret`s (indirect jumps) to instruction starts
    let mut manual = Vec::new();
    for i in 0..n {
        if v[i].kind == "ind" && rng.chance(1, 4) {
            manual.push((i, rng.below(n as u64) as usize));
        }
    }
    (v, entry, manual)
}

fn translator(arch: &str) -> Box<dyn Translator> {
    match arch {
        "amd64" => Box::new(Amd64::new()),
        "x86" => Box::new(X86::new()),
        "aarch64" => Box::new(AArch64::new()),
        "aarch64eb" => Box::new(AArch64Eb::new()),
        _ => panic!("unknown architecture"),
    }
}

fn run(out: &mut Out, arch: &str, v: &[Ins], entry: usize, manual: &[(usize, usize)]) {
    let n = v.len();
    let mut off = vec![0usize; n + 1];
    let mut bytes = Vec::new();
    for i in 0..n {
        off[i + 1] = off[i] + v[i].bytes.len();
        bytes.extend(&v[i].bytes);
    }
    let prog: Vec<Value> = (0..n)
        .map(|i| json!({"a": off[i], "len": v[i].bytes.len(), "kind": v[i].kind,
                        "t": if v[i].target >= 0 { off[v[i].target as usize] as i64 } else { -1 },
                        "bytes": v[i].bytes}))
        .collect();
    let mut mem = Memory::new(if arch == "aarch64eb" { falcon::architecture::Endian::Big } else { falcon::architecture::Endian::Little });
    mem.set_memory(BASE, bytes.clone(), MemoryPermissions::READ | MemoryPermissions::EXECUTE);
    let mut options = falcon::translator::Options::new();
    for (h, t) in manual {
        options.add_manual_edge(falcon::translator::ManualEdge::new(BASE + off[*h] as u64, BASE + off[*t] as u64, None));
    }
    let res = guard(|| translator(arch).translate_function_extended(&mem, BASE + off[entry] as u64, &options));
    let resj = res.json(|f: &il::Function| {
        let mut blocks: Vec<&il::Block> = f.blocks();
        blocks.sort_by_key(|b| b.index());
        let bj: Vec<Value> = blocks
            .iter()
            .map(|b| {
                let mut ins: Vec<i64> = Vec::new();
                for i in b.instructions() {
                    // offset of the native instruction from BASE, -1 for an instruction without address
                    let a = i.address().map(|a| a as i64 - BASE as i64).unwrap_or(-1);
                    if ins.last() != Some(&a) {
                        ins.push(a);
                    }
                }
                json!({"id": b.index(), "ins": ins})
            })
            .collect();
        let mut edges: Vec<(usize, usize, bool)> = f.edges().iter().map(|e| (e.head(), e.tail(), e.condition().is_some())).collect();
        edges.sort();
        json!({"blocks": bj,
               "edges": edges.iter().map(|e| json!([e.0, e.1, e.2])).collect::<Vec<_>>(),
               "entry": f.control_flow_graph().entry().map(|x| x as i64).unwrap_or(-1)})
    });
    // multiplicity reference: in how many blocks does the instruction's address occur when the
    // instruction is lifted alone (a jcc is several IL blocks)
    let alone: Vec<i64> = (0..n)
        .map(|i| {
            match guard(|| translator(arch).translate_block(&v[i].bytes, BASE + off[i] as u64, &falcon::translator::Options::new())) {
                fv::Outcome::Ok(r) => r.instructions().iter().map(|(_, g)| {
                    g.blocks().iter().filter(|b| !b.instructions().is_empty()).count() as i64
                }).sum(),
                _ => -1,
            }
        })
        .collect();
    out.emit(&json!({"ev": "xstruct", "mode": arch, "size": off[n], "prog": prog, "entry": off[entry], "alone": alone,
                     "manual": manual.iter().map(|(h, t)| json!([off[*h], off[*t]])).collect::<Vec<_>>(),
                     "res": resj}));
}

fn from_event(e: &Value) -> (Vec<Ins>, usize, Vec<(usize, usize)>) {
    let prog = e["prog"].as_array().unwrap();
    let offs: Vec<u64> = prog.iter().map(|p| p["a"].as_u64().unwrap()).collect();
    let idx = |a: u64| offs.iter().position(|x| *x == a).unwrap();
    let v: Vec<Ins> = prog
        .iter()
        .map(|p| Ins {
            bytes: p["bytes"].as_array().unwrap().iter().map(|b| b.as_u64().unwrap() as u8).collect(),
            kind: match p["kind"].as_str().unwrap() { "fall" => "fall", "jump" => "jump", "cond" => "cond", _ => "ind" },
            rel: 0,
            target: if p["t"].as_i64().unwrap() >= 0 { idx(p["t"].as_u64().unwrap()) as i64 } else { -1 },
        })
        .collect();
    let entry = idx(e["entry"].as_u64().unwrap());
    let manual = e["manual"].as_array().unwrap().iter().map(|m| (idx(m[0].as_u64().unwrap()), idx(m[1].as_u64().unwrap()))).collect();
    (v, entry, manual)
}

fn main() {
    fv::quiet_panics();
    let mode = fv::arg_str("mode", "random");
    let mut out = Out::create(&fv::arg_str("out", "/dev/stdout"));
    let mut rng = Rng::new((fv::seed_from_env() << 20) ^ 0xC06A);
    match mode.as_str() {
        "random" => {
            let archs: Vec<String> = fv::arg_str("arch", "amd64,x86,aarch64,aarch64eb").split(',').map(|s| s.to_string()).collect();
            for k in 0..fv::arg_u64("n", 200) {
                let arch = &archs[k as usize % archs.len()];
                let (v, entry, manual) = generate(&mut rng, arch);
                run(&mut out, arch, &v, entry, &manual);
            }
        }
        "replay" => {
            let text = std::fs::read_to_string(fv::arg_str("in", "")).unwrap();
            for line in text.lines() {
                if line.trim().is_empty() { continue; }
                let e: Value = serde_json::from_str(line).unwrap();
                let e = if e.get("event").is_some() { e["event"].clone() } else { e };
                if e["ev"] == "xstruct" {
                    let (v, entry, manual) = from_event(&e);
                    run(&mut out, e["mode"].as_str().unwrap_or("amd64"), &v, entry, &manual);
                }
            }
        }
        _ => panic!("unknown mode"),
    }
    eprintln!("c06x: {} events", out.finish());
}
