//! C11 recorder: drives falcon::graph::Graph and logs what it does.  Trace_C11.tla decides.
//!
//!   c11 --mode exhaustive --maxn 3|4 [--part I --parts K] --out FILE
//!         every labelled digraph (self-loops allowed) on the first n of the ids 1,4,7,9, n <= maxn;
//!         per graph: one session = begin (build + views), one gquery, one query per root
//!   c11 --mode random --n N --out FILE           (VERIF_SEED) random graphs of 5..9 vertices
//!   c11 --mode edits  --n N --out FILE           (VERIF_SEED) random edit histories (<= 80 ops)
//!   c11 --mode replay --in FILE --out FILE       re-drive the inputs of recorded sessions
//!
//! Events (one JSON object per line):
//!   {"ev":"begin","kind":..,"pool":[ids],"V":[ids],"E":[[h,t]..],"build":outcome,"views":VIEWS}
//!   {"ev":"op","op":"insert_vertex"|"remove_vertex","v":id,"res":outcome,"views":VIEWS}
//!   {"ev":"op","op":"insert_edge"|"remove_edge","h":id,"t":id,"res":outcome,"views":VIEWS}
//!   {"ev":"op","op":"remove_unreachable","r":id,"res":outcome,"views":VIEWS}
//!   {"ev":"query","root":r,"V":[ids],"reach":..,"unreach":..,"pre":..,"post":..,"idom":..,"dom":..,
//!    "domtree":..,"df":..,"loops":..,"looptree":..,"red":..,"acy":..,"acyclic":..,"dfstree":..}
//!   {"ev":"gquery","topo":..,"tpred":..,"nopred":..,"nosucc":..}
//! Every result is an outcome {"ok":..} | {"err":name} | {"panic":msg} | {"timeout":ms}.
//! VIEWS = outcome of {"V","E","nv","acc":[{"id","hasv","succ","pred","succv","predv","eout","ein"}],
//!                     "hase":[[h,t]..],"canon":bool}: the four views read through the public accessors
//! for every id of the session's pool (ids that are not vertices included).
//! Sets are logged sorted; nothing here computes an expected value.

use falcon::graph::{Edge, Graph, Loop, NullEdge, NullVertex, Vertex};
use fv::{guard, guard_plain, Out, Rng};
use serde_json::{json, Value};
use std::sync::mpsc::{channel, Receiver, Sender};
use std::sync::Arc;

type G = Graph<NullVertex, NullEdge>;

const ROOT_FNS: [&str; 14] = [
    "reach", "unreach", "pre", "post", "idom", "dom", "domtree", "df", "loops", "looptree", "red", "acy",
    "acyclic", "dfstree",
];
const GLOBAL_FNS: [&str; 4] = ["topo", "tpred", "nopred", "nosucc"];
const FN_TIMEOUT_MS: u64 = 4000;

// ---------------------------------------------------------------------------------------
// projections
// ---------------------------------------------------------------------------------------
fn sorted<I: IntoIterator<Item = usize>>(it: I) -> Vec<usize> {
    let mut v: Vec<usize> = it.into_iter().collect();
    v.sort();
    v
}

fn map_of_sets<'a, I, S>(it: I) -> Value
where
    I: IntoIterator<Item = (&'a usize, S)>,
    S: IntoIterator<Item = &'a usize>,
{
    let mut rows: Vec<(usize, Vec<usize>)> = it.into_iter().map(|(k, s)| (*k, sorted(s.into_iter().cloned()))).collect();
    rows.sort();
    Value::Array(rows.into_iter().map(|(k, s)| json!([k, s])).collect())
}

fn graph_json<V: Vertex, E: Edge>(g: &Graph<V, E>) -> Value {
    let vs: Vec<usize> = g.vertices().iter().map(|v| v.index()).collect();
    let es: Vec<Value> = g.edges().iter().map(|e| json!([e.head(), e.tail()])).collect();
    json!({ "V": vs, "E": es })
}

fn loop_json(l: &Loop) -> Value {
    json!([l.header(), l.nodes().iter().cloned().collect::<Vec<usize>>()])
}

/// One public algorithm of falcon::graph::Graph, by name.  The result is projected, never judged.
fn call(g: &G, name: &str, root: usize) -> Value {
    match name {
        "reach" => guard(|| g.reachable_vertices(root)).json(|s| json!(sorted(s.iter().cloned()))),
        "unreach" => guard(|| g.unreachable_vertices(root)).json(|s| json!(sorted(s.iter().cloned()))),
        "pre" => guard(|| g.compute_pre_order(root)).json(|s| json!(s)),
        "post" => guard(|| g.compute_post_order(root)).json(|s| json!(s)),
        "idom" => guard(|| g.compute_immediate_dominators(root)).json(|m| {
            let mut rows: Vec<(usize, usize)> = m.iter().map(|(k, v)| (*k, *v)).collect();
            rows.sort();
            json!(rows.iter().map(|(k, v)| json!([k, v])).collect::<Vec<_>>())
        }),
        "dom" => guard(|| g.compute_dominators(root)).json(|m| map_of_sets(m.iter())),
        "domtree" => guard(|| g.compute_dominator_tree(root)).json(graph_json),
        "df" => guard(|| g.compute_dominance_frontiers(root)).json(|m| map_of_sets(m.iter())),
        "loops" => guard(|| g.compute_loops(root)).json(|ls| json!(ls.iter().map(loop_json).collect::<Vec<_>>())),
        "looptree" => guard(|| g.compute_loop_tree(root)).json(|t| {
            let loops: Vec<Value> = t.vertices().iter().map(|l| loop_json(l)).collect();
            let es: Vec<Value> = t.edges().iter().map(|e| json!([e.head(), e.tail()])).collect();
            json!({ "loops": loops, "E": es })
        }),
        "red" => guard(|| g.is_reducible(root)).json(|b| json!(b)),
        "acy" => guard_plain(|| g.is_acyclic(root)).json(|b| json!(b)),
        "acyclic" => guard(|| g.compute_acyclic(root)).json(graph_json),
        "dfstree" => guard(|| g.compute_dfs_tree(root)).json(graph_json),
        "topo" => guard(|| g.compute_topological_ordering()).json(|s| json!(s)),
        "tpred" => guard(|| g.compute_predecessors()).json(|m| map_of_sets(m.iter())),
        "nopred" => guard_plain(|| g.vertices_without_predecessors().iter().map(|v| v.index()).collect::<Vec<_>>())
            .json(|s| json!(s)),
        "nosucc" => guard_plain(|| g.vertices_without_successors().iter().map(|v| v.index()).collect::<Vec<_>>())
            .json(|s| json!(s)),
        _ => unreachable!(),
    }
}

// ---------------------------------------------------------------------------------------
// a worker thread with a watchdog: a call that does not return is data ({"timeout":ms})
// ---------------------------------------------------------------------------------------
struct Job {
    g: Arc<G>,
    root: usize,
    names: Vec<&'static str>,
}

struct Worker {
    tx: Sender<Job>,
    rx: Receiver<Value>,
}

impl Worker {
    fn spawn() -> Worker {
        let (tx, jrx) = channel::<Job>();
        let (rtx, rx) = channel::<Value>();
        std::thread::Builder::new()
            .stack_size(256 << 20)
            .spawn(move || {
                while let Ok(job) = jrx.recv() {
                    for n in &job.names {
                        if rtx.send(call(&job.g, n, job.root)).is_err() {
                            return;
                        }
                    }
                }
            })
            .expect("spawn worker");
        Worker { tx, rx }
    }
}

struct Runner {
    w: Worker,
}

impl Runner {
    fn new() -> Runner {
        Runner { w: Worker::spawn() }
    }
    /// results of the named algorithms, in order
    fn run(&mut self, g: &G, root: usize, names: &[&'static str]) -> Vec<Value> {
        let g = Arc::new(g.clone());
        let mut out: Vec<Value> = Vec::new();
        let mut start = 0;
        while start < names.len() {
            self.w.tx.send(Job { g: g.clone(), root, names: names[start..].to_vec() }).expect("worker alive");
            let mut timed_out = false;
            while out.len() < names.len() {
                match self.w.rx.recv_timeout(std::time::Duration::from_millis(FN_TIMEOUT_MS)) {
                    Ok(v) => out.push(v),
                    Err(_) => {
                        out.push(json!({ "timeout": FN_TIMEOUT_MS }));
                        timed_out = true;
                        break;
                    }
                }
            }
            if timed_out {
                // the old worker is abandoned (it may be looping); continue after the hanging call
                self.w = Worker::spawn();
            }
            start = out.len();
        }
        out
    }
}

// ---------------------------------------------------------------------------------------
// views: the four views through the public accessors
// ---------------------------------------------------------------------------------------
fn views(g: &G, pool: &[usize]) -> Value {
    guard_plain(|| {
        let vs: Vec<usize> = g.vertices().iter().map(|v| v.index()).collect();
        let es: Vec<Value> = g.edges().iter().map(|e| json!([e.head(), e.tail()])).collect();
        let mut acc = Vec::new();
        for &id in pool {
            let idx = |vs: &Vec<&NullVertex>| json!(vs.iter().map(|v| v.index()).collect::<Vec<_>>());
            let prs = |es: &Vec<&NullEdge>| json!(es.iter().map(|e| json!([e.head(), e.tail()])).collect::<Vec<_>>());
            acc.push(json!({
                "id": id,
                "hasv": g.has_vertex(id),
                "vertex": guard(|| g.vertex(id).map(|v| v.index())).json(|i| json!(i)),
                "succ": guard(|| g.successor_indices(id)).json(|s| json!(s)),
                "pred": guard(|| g.predecessor_indices(id)).json(|s| json!(s)),
                "succv": guard(|| g.successors(id)).json(idx),
                "predv": guard(|| g.predecessors(id)).json(idx),
                "eout": guard(|| g.edges_out(id)).json(prs),
                "ein": guard(|| g.edges_in(id)).json(prs),
            }));
        }
        let mut hase = Vec::new();
        for &h in pool {
            for &t in pool {
                if g.has_edge(h, t) {
                    hase.push(json!([h, t]));
                }
            }
        }
        // a graph rebuilt from what vertices()/edges() report compares equal (derived PartialEq
        // over all four maps): observation of falcon's own equality, no expectation involved here
        let canon = guard(|| {
            let mut c: G = Graph::new();
            for v in g.vertices() {
                c.insert_vertex(v.clone())?;
            }
            for e in g.edges() {
                c.insert_edge(e.clone())?;
            }
            Ok(c == *g)
        })
        .json(|b| json!(b));
        json!({ "V": vs, "E": es, "nv": g.num_vertices(), "acc": acc, "hase": hase, "canon": canon })
    })
    .json(|v| v.clone())
}

// ---------------------------------------------------------------------------------------
// session pieces
// ---------------------------------------------------------------------------------------
struct Session {
    g: G,
    pool: Vec<usize>,
}

fn begin(out: &mut Out, kind: &str, pool: &[usize], vs: &[usize], es: &[(usize, usize)]) -> Session {
    let mut g: G = Graph::new();
    let build = guard(|| {
        for &v in vs {
            g.insert_vertex(NullVertex::new(v))?;
        }
        for &(h, t) in es {
            g.insert_edge(NullEdge::new(h, t))?;
        }
        Ok(0)
    })
    .json(|x| json!(x));
    let e: Vec<Value> = es.iter().map(|(h, t)| json!([h, t])).collect();
    out.emit(&json!({ "ev": "begin", "kind": kind, "pool": pool, "V": vs, "E": e, "build": build,
                      "views": views(&g, pool) }));
    Session { g, pool: pool.to_vec() }
}

fn query(out: &mut Out, rn: &mut Runner, s: &Session, root: usize) {
    let res = rn.run(&s.g, root, &ROOT_FNS);
    let mut o = serde_json::Map::new();
    o.insert("ev".into(), json!("query"));
    o.insert("root".into(), json!(root));
    o.insert("V".into(), json!(s.g.vertices().iter().map(|v| v.index()).collect::<Vec<_>>()));
    for (n, r) in ROOT_FNS.iter().zip(res) {
        o.insert(n.to_string(), r);
    }
    out.emit(&Value::Object(o));
}

fn gquery(out: &mut Out, rn: &mut Runner, s: &Session) {
    let res = rn.run(&s.g, 0, &GLOBAL_FNS);
    let mut o = serde_json::Map::new();
    o.insert("ev".into(), json!("gquery"));
    for (n, r) in GLOBAL_FNS.iter().zip(res) {
        o.insert(n.to_string(), r);
    }
    out.emit(&Value::Object(o));
}

fn query_all(out: &mut Out, rn: &mut Runner, s: &Session) {
    gquery(out, rn, s);
    let roots: Vec<usize> = s.g.vertices().iter().map(|v| v.index()).collect();
    for r in roots {
        query(out, rn, s, r);
    }
}

/// apply one edit (the operation record carries its arguments) and log result + views
fn apply(out: &mut Out, s: &mut Session, op: &Value) {
    let name = op["op"].as_str().unwrap().to_string();
    let a = |k: &str| op[k].as_u64().unwrap() as usize;
    let g = &mut s.g;
    let res = match name.as_str() {
        "insert_vertex" => guard(|| g.insert_vertex(NullVertex::new(a("v")))),
        "remove_vertex" => guard(|| g.remove_vertex(a("v"))),
        "insert_edge" => guard(|| g.insert_edge(NullEdge::new(a("h"), a("t")))),
        "remove_edge" => guard(|| g.remove_edge(a("h"), a("t"))),
        "remove_unreachable" => guard(|| g.remove_unreachable_vertices(a("r"))),
        _ => panic!("unknown op"),
    }
    .json(|_| json!(0));
    let mut o = op.as_object().unwrap().clone();
    o.insert("ev".into(), json!("op"));
    o.insert("res".into(), res);
    o.insert("views".into(), views(&s.g, &s.pool));
    out.emit(&Value::Object(o));
}

// ---------------------------------------------------------------------------------------
// generators
// ---------------------------------------------------------------------------------------
const EXH_IDS: [usize; 4] = [1, 4, 7, 9];

fn exhaustive(out: &mut Out, maxn: usize, part: u64, parts: u64) {
    let mut rn = Runner::new();
    let mut count: u64 = 0;
    for n in 0..=maxn {
        let ids: Vec<usize> = EXH_IDS[..n].to_vec();
        let mut pool = ids.clone();
        pool.push(5); // an id that is never a vertex
        let pairs: Vec<(usize, usize)> = ids.iter().flat_map(|&a| ids.iter().map(move |&b| (a, b))).collect();
        let total = 1u64 << pairs.len();
        for mask in 0..total {
            count += 1;
            if count % parts != part {
                continue;
            }
            let es: Vec<(usize, usize)> =
                pairs.iter().enumerate().filter(|(i, _)| mask >> i & 1 == 1).map(|(_, p)| *p).collect();
            let s = begin(out, "exhaustive", &pool, &ids, &es);
            query_all(out, &mut rn, &s);
        }
    }
}

const ID_POOL: [usize; 22] =
    [0, 1, 2, 3, 4, 5, 6, 7, 8, 9, 10, 11, 12, 13, 14, 15, 100, 255, 256, 65535, 1 << 20, 2147483647];

fn pick_ids(rng: &mut Rng, n: usize) -> Vec<usize> {
    let mut ids: Vec<usize> = Vec::new();
    while ids.len() < n {
        let c = if rng.chance(1, 4) { ID_POOL[16 + rng.below(6) as usize] } else { ID_POOL[rng.below(16) as usize] };
        if !ids.contains(&c) {
            ids.push(c);
        }
    }
    ids
}

fn add(es: &mut Vec<(usize, usize)>, h: usize, t: usize) {
    if !es.contains(&(h, t)) {
        es.push((h, t));
    }
}

/// random digraph on `ids`; the shapes are biased towards what the unit tests do not have:
/// irreducible regions (two entries into a cycle), parts unreachable from most roots (with edges
/// into the rest), cycles through the first vertices (roots inside loops), self-loops.
fn random_edges(rng: &mut Rng, ids: &[usize]) -> Vec<(usize, usize)> {
    let n = ids.len();
    let mut es: Vec<(usize, usize)> = Vec::new();
    if n < 2 {
        if n == 1 && rng.bool() {
            add(&mut es, ids[0], ids[0]);
        }
        return es;
    }
    match rng.below(5) {
        0 => {
            // uniform density
            let d = rng.range(1, 5);
            for &a in ids {
                for &b in ids {
                    if rng.chance(d, 12) {
                        add(&mut es, a, b);
                    }
                }
            }
        }
        _ => {
            // a spine over a prefix of the vertices, the rest starts out disconnected
            // (often the whole graph, and then often closed into a cycle through the first vertex,
            // so that many roots - also roots inside loops - reach everything)
            let k = if rng.chance(1, 2) { n } else { rng.range(2, n as u64) as usize };
            if k == n && rng.chance(1, 2) {
                let a = rng.range(1, n as u64 - 1) as usize;
                add(&mut es, ids[a], ids[0]);
                add(&mut es, ids[n - 1], ids[rng.below(n as u64) as usize]);
            }
            for i in 1..k {
                let p = rng.below(i as u64) as usize;
                add(&mut es, ids[p], ids[i]);
            }
            // back edges (natural loops, also into the first vertex) and forward/cross edges
            for _ in 0..rng.range(0, 4) {
                let a = rng.below(k as u64) as usize;
                let b = rng.below(k as u64) as usize;
                add(&mut es, ids[a.max(b)], ids[a.min(b)]);
            }
            for _ in 0..rng.range(0, 3) {
                let a = rng.below(k as u64) as usize;
                let b = rng.below(k as u64) as usize;
                add(&mut es, ids[a.min(b)], ids[a.max(b)]);
            }
            // irreducible region: a cycle x <-> y entered at both x and y from a common ancestor
            if k >= 3 && rng.chance(2, 3) {
                let x = rng.range(1, k as u64 - 1) as usize;
                let mut y = rng.range(1, k as u64 - 1) as usize;
                if y == x {
                    y = if x + 1 < k { x + 1 } else { x - 1 };
                }
                let z = rng.below(x.min(y) as u64) as usize;
                add(&mut es, ids[x], ids[y]);
                add(&mut es, ids[y], ids[x]);
                add(&mut es, ids[z], ids[x]);
                add(&mut es, ids[z], ids[y]);
            }
            // the remaining vertices: edges among themselves and into (rarely from) the spine
            for i in k..n {
                for _ in 0..rng.range(0, 3) {
                    let j = rng.below(n as u64) as usize;
                    add(&mut es, ids[i], ids[j]);
                }
                if rng.chance(1, 5) {
                    let j = rng.below(k as u64) as usize;
                    add(&mut es, ids[j], ids[i]);
                }
            }
            if rng.chance(1, 3) {
                let a = rng.below(n as u64) as usize;
                add(&mut es, ids[a], ids[a]);
            }
        }
    }
    es
}

fn random(out: &mut Out, n: u64, rng: &mut Rng) {
    let mut rn = Runner::new();
    for _ in 0..n {
        let nv = rng.range(5, 9) as usize;
        let ids = pick_ids(rng, nv);
        let es = random_edges(rng, &ids);
        let mut pool = ids.clone();
        pool.push(77);
        let s = begin(out, "random", &pool, &ids, &es);
        query_all(out, &mut rn, &s);
    }
}

fn edits(out: &mut Out, n: u64, rng: &mut Rng) {
    let mut rn = Runner::new();
    for _ in 0..n {
        let np = rng.range(3, 8) as usize;
        let pool = pick_ids(rng, np);
        // start from the empty graph or from a random one
        let (vs, es) = if rng.chance(1, 3) {
            let k = rng.range(1, pool.len() as u64) as usize;
            let vs = pool[..k].to_vec();
            let es = random_edges(rng, &vs);
            (vs, es)
        } else {
            (vec![], vec![])
        };
        let mut s = begin(out, "edits", &pool, &vs, &es);
        let nops = rng.range(10, 80);
        let mut until_query = rng.range(4, 25);
        for _ in 0..nops {
            let cur: Vec<usize> = s.g.vertices().iter().map(|v| v.index()).collect();
            let cur_e: Vec<(usize, usize)> = s.g.edges().iter().map(|e| (e.head(), e.tail())).collect();
            let any = |rng: &mut Rng| *rng.pick(&s.pool);
            let op = match rng.below(20) {
                0..=4 => json!({ "op": "insert_vertex", "v": any(rng) }),
                5..=11 => {
                    // mostly between existing vertices, sometimes anything (missing endpoint / duplicate)
                    if !cur.is_empty() && rng.chance(5, 6) {
                        json!({ "op": "insert_edge", "h": *rng.pick(&cur), "t": *rng.pick(&cur) })
                    } else {
                        json!({ "op": "insert_edge", "h": any(rng), "t": any(rng) })
                    }
                }
                12..=14 => json!({ "op": "remove_vertex", "v": any(rng) }),
                15..=17 => {
                    if !cur_e.is_empty() && rng.chance(3, 4) {
                        let e = *rng.pick(&cur_e);
                        json!({ "op": "remove_edge", "h": e.0, "t": e.1 })
                    } else {
                        json!({ "op": "remove_edge", "h": any(rng), "t": any(rng) })
                    }
                }
                _ => json!({ "op": "remove_unreachable", "r": any(rng) }),
            };
            apply(out, &mut s, &op);
            until_query -= 1;
            if until_query == 0 {
                until_query = rng.range(4, 25);
                gquery(out, &mut rn, &s);
                // two roots (queries are the expensive part for TLC); the other modes use all roots
                let cur: Vec<usize> = s.g.vertices().iter().map(|v| v.index()).collect();
                if !cur.is_empty() {
                    let r1 = *rng.pick(&cur);
                    query(out, &mut rn, &s, r1);
                    let r2 = *rng.pick(&cur);
                    if r2 != r1 {
                        query(out, &mut rn, &s, r2);
                    }
                }
            }
        }
        query_all(out, &mut rn, &s);
    }
}

/// re-drive the inputs of recorded sessions (begin / op / query / gquery events)
fn replay(out: &mut Out, path: &str) {
    let mut rn = Runner::new();
    let text = std::fs::read_to_string(path).expect("read --in");
    let mut s: Option<Session> = None;
    let ids = |v: &Value| -> Vec<usize> { v.as_array().unwrap().iter().map(|x| x.as_u64().unwrap() as usize).collect() };
    for line in text.lines().filter(|l| !l.trim().is_empty()) {
        let e: Value = serde_json::from_str(line).expect("json");
        match e["ev"].as_str().unwrap() {
            "begin" => {
                let es: Vec<(usize, usize)> = e["E"]
                    .as_array()
                    .unwrap()
                    .iter()
                    .map(|p| (p[0].as_u64().unwrap() as usize, p[1].as_u64().unwrap() as usize))
                    .collect();
                s = Some(begin(out, e["kind"].as_str().unwrap_or("replay"), &ids(&e["pool"]), &ids(&e["V"]), &es));
            }
            "op" => {
                let mut o = serde_json::Map::new();
                for k in ["op", "v", "h", "t", "r"] {
                    if let Some(x) = e.get(k) {
                        o.insert(k.to_string(), x.clone());
                    }
                }
                apply(out, s.as_mut().expect("begin first"), &Value::Object(o));
            }
            "query" => query(out, &mut rn, s.as_ref().expect("begin first"), e["root"].as_u64().unwrap() as usize),
            "gquery" => gquery(out, &mut rn, s.as_ref().expect("begin first")),
            _ => panic!("unknown event"),
        }
    }
}

fn main() {
    fv::quiet_panics();
    let mode = fv::arg_str("mode", "random");
    let mut out = Out::create(&fv::arg_str("out", "/dev/stdout"));
    let seed = fv::seed_from_env();
    match mode.as_str() {
        "exhaustive" => exhaustive(&mut out, fv::arg_u64("maxn", 3) as usize, fv::arg_u64("part", 0), fv::arg_u64("parts", 1)),
        "random" => random(&mut out, fv::arg_u64("n", 100), &mut Rng::new(seed ^ 0xC11A)),
        "edits" => edits(&mut out, fv::arg_u64("n", 50), &mut Rng::new(seed ^ 0xC11B)),
        "replay" => replay(&mut out, &fv::arg_str("in", "")),
        _ => panic!("unknown mode"),
    }
    out.finish();
    // abandoned workers (timeouts) must not keep the process alive
    std::process::exit(0);
}
