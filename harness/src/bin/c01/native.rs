//! Native execution of one amd64 instruction (grounding of spec/X86.tla on the host CPU).
//!
//! Fixed mappings (addresses shared with corpus/c01/gen.py and tramp.s):
//!   0x20000000 .. 0x20003000  data pages (the window is [WIN, WIN+256) in the middle one)
//!   0x20003000 .. 0x20004000  context block (GPRs, RFLAGS, pad id, host rsp, XMM)
//!   0x21000000 .. 0x21002000  code: trampoline of corpus/c01/tramp.hex, instruction slot at +0x800
//! Faults (SIGSEGV, SIGFPE, SIGILL, SIGBUS, SIGTRAP) raised while the guest instruction runs
//! are caught on an alternate stack and resumed at the `recover` stub; the outcome is then
//! `Err(signal name)`.  The whole thing runs in a child process of the recorder.

use super::{Final, St, A, CODE, WIN, WIN_SIZE};

extern "C" {
    fn mmap(addr: *mut u8, len: usize, prot: i32, flags: i32, fd: i32, off: i64) -> *mut u8;
    fn sigaction(sig: i32, act: *const SigAction, old: *mut SigAction) -> i32;
    fn sigaltstack(ss: *const StackT, old: *mut StackT) -> i32;
}

#[repr(C)]
struct SigAction {
    handler: usize,
    mask: [u64; 16],
    flags: i32,
    restorer: usize,
}
#[repr(C)]
struct StackT {
    sp: *mut u8,
    flags: i32,
    size: usize,
}

const DATA: u64 = 0x2000_0000;
const CTX: u64 = 0x2000_3000;
const PAD_IDS: [u64; 7] = [0, A - 0x400, A - 0x40, A + 0x40, A + 0x400, A + 0x80, A + 0xC0];
const RECOVER: u64 = CODE + 0x1400;

static mut IN_GUEST: bool = false;
static mut FAULT: i32 = 0;

unsafe extern "C" fn on_fault(sig: i32, _info: *mut u8, uc: *mut u8) {
    if !IN_GUEST {
        // a genuine crash of the recorder: die with the default action
        let dfl = SigAction { handler: 0, mask: [0; 16], flags: 0, restorer: 0 };
        sigaction(sig, &dfl, std::ptr::null_mut());
        return;
    }
    FAULT = sig;
    IN_GUEST = false;
    // ucontext_t: uc_flags 8, uc_link 8, uc_stack 24, then gregs[23]; REG_RIP = 16
    // and REG_RSP = 15: a non-canonical guest rsp must not reach the return to user mode
    let rip = uc.add(40 + 16 * 8) as *mut u64;
    *rip = RECOVER;
    let rsp = uc.add(40 + 15 * 8) as *mut u64;
    *rsp = *((CTX + 0x90) as *const u64);
}

pub unsafe fn setup() -> Result<(), String> {
    let prot_rw = 3;
    let prot_rwx = 7;
    let flags = 0x02 | 0x20 | 0x10_0000; // MAP_PRIVATE | MAP_ANONYMOUS | MAP_FIXED_NOREPLACE
    let d = mmap(DATA as *mut u8, 0x4000, prot_rw, flags, -1, 0);
    if d as u64 != DATA {
        return Err("mmap-data".into());
    }
    let c = mmap(CODE as *mut u8, 0x2000, prot_rwx, flags, -1, 0);
    if c as u64 != CODE {
        return Err("mmap-code".into());
    }
    // touch every page now: no demand-paging fault while a guest register file is loaded
    std::ptr::write_bytes(DATA as *mut u8, 0, 0x4000);
    std::ptr::write_bytes(CODE as *mut u8, 0xcc, 0x2000);
    // trampoline
    let exe = std::env::current_exe().map_err(|_| "exe")?;
    let mut dirs = vec![std::path::PathBuf::from("/verif/corpus/c01")];
    if let Ok(p) = std::env::var("C01_CORPUS") {
        dirs.insert(0, p.into());
    }
    let _ = exe;
    let mut text = None;
    for dpath in dirs {
        if let Ok(t) = std::fs::read_to_string(dpath.join("tramp.hex")) {
            text = Some(t);
            break;
        }
    }
    let text = text.ok_or("tramp.hex")?;
    let mut off = 0usize;
    for line in text.lines() {
        let line = line.trim();
        for i in 0..line.len() / 2 {
            let b = u8::from_str_radix(&line[2 * i..2 * i + 2], 16).map_err(|_| "hex")?;
            *(CODE as *mut u8).add(off) = b;
            off += 1;
        }
    }
    if off < 0x1400 {
        return Err("tramp-short".into());
    }
    // alternate signal stack + handlers
    let stack = mmap(std::ptr::null_mut(), 1 << 16, prot_rw, 0x22, -1, 0);
    let ss = StackT { sp: stack, flags: 0, size: 1 << 16 };
    if sigaltstack(&ss, std::ptr::null_mut()) != 0 {
        return Err("sigaltstack".into());
    }
    for sig in [4, 5, 7, 8, 11] {
        // SIGILL SIGTRAP SIGBUS SIGFPE SIGSEGV; SA_SIGINFO | SA_ONSTACK | SA_NODEFER
        let act = SigAction { handler: on_fault as usize, mask: [0; 16], flags: 0x4 | 0x0800_0000 | 0x4000_0000, restorer: 0 };
        if sigaction(sig, &act, std::ptr::null_mut()) != 0 {
            return Err("sigaction".into());
        }
    }
    Ok(())
}

pub unsafe fn run(bytes: &[u8], st: &St) -> Result<Final, String> {
    let ctx = CTX as *mut u64;
    for i in 0..16 {
        *ctx.add(i) = st.gpr[i];
    }
    // RFLAGS: reserved bit 1, IF, and CF(0) PF(2) ZF(6) SF(7) DF(10) OF(11)
    let fl = 0x202u64 | ((st.pf as u64) << 2) | (st.fl[0] as u64) | ((st.fl[1] as u64) << 6) | ((st.fl[2] as u64) << 7) | ((st.fl[3] as u64) << 11) | ((st.fl[4] as u64) << 10);
    *ctx.add(0x80 / 8) = fl;
    *ctx.add(0x88 / 8) = 0xffff;
    for i in 0..16 {
        for k in 0..16 {
            *((CTX + 0x100) as *mut u8).add(16 * i + k) = st.xmm[i][k];
        }
    }
    // the middle data page is cleared, then the window installed
    std::ptr::write_bytes((DATA + 0x1000) as *mut u8, 0, 0x1000);
    for (k, b) in st.mem.iter().enumerate() {
        *(WIN as *mut u8).add(k) = *b;
    }
    let slot = A as *mut u8;
    for k in 0..32 {
        *slot.add(k) = 0x90;
    }
    for (k, b) in bytes.iter().enumerate() {
        *slot.add(k) = *b;
    }
    FAULT = 0;
    let entry: extern "C" fn() = std::mem::transmute(CODE as *const u8);
    std::ptr::write_volatile(std::ptr::addr_of_mut!(IN_GUEST), true);
    entry();
    std::ptr::write_volatile(std::ptr::addr_of_mut!(IN_GUEST), false);
    let fault = std::ptr::read_volatile(std::ptr::addr_of!(FAULT));
    if fault != 0 {
        return Err(match fault { 4 => "SIGILL", 5 => "SIGTRAP", 7 => "SIGBUS", 8 => "SIGFPE", 11 => "SIGSEGV", _ => "SIG" }.to_string());
    }
    let pad = *ctx.add(0x88 / 8) & 0xffff_ffff;
    if pad > 6 {
        return Err("NOPAD".to_string());
    }
    let mut f = Final { gpr: Vec::new(), fl: [0; 5], xmm: Vec::new(), mem: Vec::new(), pc: if pad == 0 { A + bytes.len() as u64 } else { PAD_IDS[pad as usize] } };
    for i in 0..16 {
        let v = *ctx.add(i);
        f.gpr.push((i, 64, (0..8).map(|k| (v >> (8 * k)) & 0xff).collect()));
    }
    let r = *ctx.add(0x80 / 8);
    f.fl = [r & 1, (r >> 6) & 1, (r >> 7) & 1, (r >> 11) & 1, (r >> 10) & 1];
    for i in 0..16 {
        f.xmm.push((i, 128, (0..16).map(|k| *((CTX + 0x100) as *const u8).add(16 * i + k) as u64).collect()));
    }
    if !st.mem.is_empty() {
        for k in 0..WIN_SIZE {
            f.mem.push(*(WIN as *const u8).add(k) as i64);
        }
    }
    Ok(f)
}
