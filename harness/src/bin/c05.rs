//! C05 recorder: lifts byte strings with each of falcon's seven translators under both
//! unsupported-instruction policies and logs one event per lift.  Trace_C05.tla decides whether
//! the outcome is acceptable (ILWF!WellFormedLift); nothing is judged here.
//!
//!   c05 --mode corpus --corpus DIR [--arch A] --out FILE
//!   c05 --mode random --corpus DIR [--arch A] --n N --out FILE      (VERIF_SEED)
//!   c05 --mode replay --in FILE --out FILE                          (re-lift recorded inputs)
//!   options: --dedupe 0|1 (default 1)  --max-err K (events per arch/policy/error name, default 300)
//!
//! Event:
//!   {"ev":"lift","arch":A,"intr":0|1,"addr":"<hex>","bytes":"<hex>","kind":K,
//!    "lab":[{"mn":..,"ops":..,"form":..,"o":offset}],      labelling disassembly (never judged)
//!    "res":{"err":name} | {"panic":msg} | {"timeout":ms} |
//!          {"ok":{"n":number of instruction graphs returned,
//!                 "ins":[{"off":k,"blocks":[{"i":n,"ops":[op]}],"edges":[{"h","t","c"}],"entry":n,"exit":n}],
//!                 "succ":[{"c":expr|{"k":"none"}}]}},
//!    "loc":{"file":..,"line":n,"fn":..}                     only for panics (from the panic hook)
//!    "culprit":{"i":k,"mn":..,"ops":..,"form":..,"bytes":..} only for panic/timeout: first single
//!                                                           instruction whose solo lift fails alike
//!    "rv":[[{"n":name,"val":{"w":..,"v":[..]}}]]            pseudo-random valuations of the scalars
//!                                                           occurring in guards (only when they
//!                                                           mention more than 12 bits)
//!
//! `ok` results are de-duplicated by IL *shape* per instruction graph (everything the specification
//! looks at: structure, widths, guards in full; constants and scalar names outside guards are
//! blanked in the key only): "ins" lists only the graphs whose shape this process has not logged
//! before ("off" = offset of the native instruction in the bytes), and an event with no new graph
//! and an already seen successor list is not logged.  `err` events are capped per error name.  Counts
//! of everything lifted go to FILE.stats.json.  A timed-out lift leaks its thread: the recorder
//! then re-executes itself and continues after that case.

use falcon::il;
use falcon::translator::{self, BlockTranslationResult, Options, Translator};
use falcon_capstone::capstone;
use fv::{proj, Out, Outcome, Rng};
use serde_json::{json, Map, Value};
use std::collections::{BTreeMap, HashSet};
use std::sync::Mutex;

const ARCHS: [&str; 7] = ["x86", "amd64", "mips", "mipsel", "ppc", "aarch64", "aarch64eb"];
// the last one: the block ends at the very top of the 64-bit address space
const ADDRS: [u64; 5] = [0, 0x1000, 0xffff_fff8, 0x8000_0000_0000_0000, 0xffff_ffff_ffff_fffc];
const TIMEOUT_MS: u64 = 2000;
const MAX_EVENT_BYTES: usize = 400_000;

fn translator_for(arch: &str) -> Box<dyn Translator + Send> {
    match arch {
        "x86" => Box::new(translator::x86::X86::new()),
        "amd64" => Box::new(translator::x86::Amd64::new()),
        "mips" => Box::new(translator::mips::Mips::new()),
        "mipsel" => Box::new(translator::mips::Mipsel::new()),
        "ppc" => Box::new(translator::ppc::Ppc::new()),
        "aarch64" => Box::new(translator::aarch64::AArch64::new()),
        "aarch64eb" => Box::new(translator::aarch64::AArch64Eb::new()),
        _ => panic!("unknown arch {}", arch),
    }
}

fn is_x86(arch: &str) -> bool {
    arch == "x86" || arch == "amd64"
}

// --------------------------------------------------------------------------------------
// panic hook: message is already in the payload; the location and the innermost falcon
// function come from here
// --------------------------------------------------------------------------------------
static LAST_PANIC: Mutex<Option<(String, u32, String)>> = Mutex::new(None);

fn short_path(p: &str) -> String {
    if let Some(i) = p.find("/lib/") {
        if !p.contains(".cargo/registry") {
            return p[i + 1..].to_string();
        }
    }
    if let Some(i) = p.find(".cargo/registry/src/") {
        let rest = &p[i + ".cargo/registry/src/".len()..];
        if let Some(j) = rest.find('/') {
            return rest[j + 1..].to_string();
        }
    }
    if let Some(i) = p.find("/rustc/") {
        let rest = &p[i + 7..];
        if let Some(j) = rest.find('/') {
            return format!("rust:{}", &rest[j + 1..]);
        }
    }
    p.to_string()
}

fn install_hook() {
    std::panic::set_hook(Box::new(|info| {
        let (file, line) = info.location().map(|l| (short_path(l.file()), l.line())).unwrap_or_default();
        // (the enclosing function is looked up from file:line by the orchestrator; a backtrace
        // costs 3 s of symbol loading per process)
        let func = String::new();
        if let Ok(mut g) = LAST_PANIC.lock() {
            *g = Some((file, line, func));
        }
    }));
}

// --------------------------------------------------------------------------------------
// labelling disassembly (capstone / bad64): names what was lifted; never compared with anything
// --------------------------------------------------------------------------------------
struct Label {
    mn: String,
    ops: String,
    form: String,
    size: usize,
}

impl Label {
    fn json(&self, off: usize) -> Value {
        json!({"mn": self.mn, "ops": self.ops, "form": self.form, "o": off})
    }
}

/// operand form: numbers replaced by N
fn form_of(ops: &str) -> String {
    let mut out = String::new();
    let cs: Vec<char> = ops.chars().collect();
    let mut i = 0;
    while i < cs.len() {
        let c = cs[i];
        let prev_alnum = i > 0 && (cs[i - 1].is_ascii_alphanumeric() || cs[i - 1] == '_' || cs[i - 1] == '$');
        if c.is_ascii_digit() && !prev_alnum {
            // a number (decimal or 0x..)
            let mut j = i;
            if c == '0' && j + 1 < cs.len() && (cs[j + 1] == 'x' || cs[j + 1] == 'X') {
                j += 2;
            }
            while j < cs.len() && cs[j].is_ascii_hexdigit() {
                j += 1;
            }
            out.push('N');
            i = j;
        } else {
            out.push(c);
            i += 1;
        }
    }
    out.chars().take(60).collect()
}

fn a64_reg_class(r: &str) -> String {
    let s: String = r.chars().filter(|c| !c.is_ascii_digit()).collect();
    s
}

fn label_a64(bytes: &[u8], address: u64) -> Vec<Label> {
    let mut out = Vec::new();
    let mut off = 0;
    while off + 4 <= bytes.len() && out.len() < 16 {
        let w = u32::from_le_bytes([bytes[off], bytes[off + 1], bytes[off + 2], bytes[off + 3]]);
        match std::panic::catch_unwind(|| bad64::decode(w, address.wrapping_add(off as u64))) {
            Ok(Ok(ins)) => {
                let mn = format!("{:?}", ins.op()).to_lowercase();
                let text = format!("{}", ins);
                let ops = text.splitn(2, ' ').nth(1).unwrap_or("").trim().to_string();
                let mut forms = Vec::new();
                for o in ins.operands() {
                    let d = format!("{:?}", o);
                    let kind = d.split(|c: char| c == ' ' || c == '(' || c == '{').next().unwrap_or("").to_string();
                    let extra = match o {
                        bad64::Operand::Reg { reg, .. } => format!(":{}", a64_reg_class(&format!("{}", reg))),
                        bad64::Operand::ShiftReg { reg, .. } => format!(":{}", a64_reg_class(&format!("{}", reg))),
                        _ => String::new(),
                    };
                    forms.push(format!("{}{}", kind, extra));
                }
                out.push(Label { mn, ops: ops.chars().take(60).collect(), form: forms.join(","), size: 4 });
            }
            _ => {
                out.push(Label { mn: "(undecodable)".into(), ops: format!("{:08x}", w), form: String::new(), size: 4 });
            }
        }
        off += 4;
    }
    out
}

fn label_cs(arch: &str, bytes: &[u8], address: u64) -> Vec<Label> {
    let (a, m) = match arch {
        "x86" => (capstone::cs_arch::CS_ARCH_X86, capstone::CS_MODE_32),
        "amd64" => (capstone::cs_arch::CS_ARCH_X86, capstone::CS_MODE_64),
        "mips" => (capstone::cs_arch::CS_ARCH_MIPS, capstone::CS_MODE_32 | capstone::CS_MODE_BIG_ENDIAN),
        "mipsel" => (capstone::cs_arch::CS_ARCH_MIPS, capstone::CS_MODE_32 | capstone::CS_MODE_LITTLE_ENDIAN),
        "ppc" => (capstone::cs_arch::CS_ARCH_PPC, capstone::CS_MODE_32 | capstone::CS_MODE_BIG_ENDIAN),
        _ => unreachable!(),
    };
    let mut out = Vec::new();
    let cs = match capstone::Capstone::new(a, m) {
        Ok(cs) => cs,
        Err(_) => return out,
    };
    let mut off = 0;
    while off < bytes.len() && out.len() < 16 {
        let r = cs.disasm(&bytes[off..], address.wrapping_add(off as u64), 1);
        let ins = match r {
            Ok(buf) if buf.count() > 0 => buf.get(0).unwrap(),
            _ => {
                out.push(Label { mn: "(undecodable)".into(), ops: String::new(), form: String::new(), size: 0 });
                break;
            }
        };
        let ops: String = ins.op_str.chars().take(60).collect();
        out.push(Label { mn: ins.mnemonic.clone(), form: form_of(&ops), ops, size: ins.size as usize });
        off += ins.size as usize;
    }
    out
}

fn label(arch: &str, bytes: &[u8], address: u64) -> Vec<Label> {
    if arch.starts_with("aarch64") {
        label_a64(bytes, address)
    } else {
        label_cs(arch, bytes, address)
    }
}

// --------------------------------------------------------------------------------------
// projection of a lift result (compact: no per-instruction addresses, no phi nodes)
// --------------------------------------------------------------------------------------
fn proj_cfg(g: &il::ControlFlowGraph) -> Value {
    let mut blocks = g.blocks();
    blocks.sort_by_key(|b| b.index());
    let mut edges = g.edges();
    edges.sort_by_key(|e| (e.head(), e.tail()));
    json!({
        "blocks": blocks.iter().map(|b| json!({
            "i": b.index(),
            "ops": b.instructions().iter().map(|i| proj::op(i.operation())).collect::<Vec<_>>() })).collect::<Vec<_>>(),
        "edges": edges.iter().map(|e| json!({"h": e.head(), "t": e.tail(), "c": proj::opt_expr(e.condition())})).collect::<Vec<_>>(),
        "entry": g.entry().map(|x| x as i64).unwrap_or(-1),
        "exit": g.exit().map(|x| x as i64).unwrap_or(-1),
    })
}

fn proj_result(r: &BlockTranslationResult, base: u64) -> Value {
    json!({
        "n": r.instructions().len(),
        "ins": r.instructions().iter().map(|(a, g)| {
            // offset of the native instruction inside the lifted bytes (labelling only)
            let off = a.wrapping_sub(base);
            let mut v = proj_cfg(g);
            v["off"] = json!(if off < (1 << 20) { off as i64 } else { -1 });
            v
        }).collect::<Vec<_>>(),
        "succ": r.successors().iter().map(|(_, c)| json!({"c": proj::opt_expr(c.as_ref())})).collect::<Vec<_>>(),
    })
}

/// the de-duplication key of one instruction graph: the projection with constants and scalar
/// names blanked outside guards (the specification only looks at widths there)
fn shape_key(g: &Value) -> String {
    fn blank(v: &Value) -> Value {
        match v {
            Value::Object(m) => {
                let mut o = Map::new();
                for (k, x) in m {
                    if k == "c" && m.contains_key("h") {
                        o.insert(k.clone(), x.clone()); // edge guard: in full
                    } else if k == "v" && m.get("k").map(|k| k == "const").unwrap_or(false) {
                        o.insert(k.clone(), json!(0));
                    } else if k == "n" && m.get("k").map(|k| k == "scalar").unwrap_or(false) {
                        o.insert(k.clone(), json!(""));
                    } else if k == "mn" || k == "off" {
                        o.insert(k.clone(), json!(""));
                    } else {
                        o.insert(k.clone(), blank(x));
                    }
                }
                Value::Object(o)
            }
            Value::Array(a) => Value::Array(a.iter().map(blank).collect()),
            x => x.clone(),
        }
    }
    blank(g).to_string()
}

fn hash_key(key: &str) -> String {
    use std::hash::{Hash, Hasher};
    let mut s = std::collections::hash_map::DefaultHasher::new();
    key.hash(&mut s);
    format!("{:016x}{:x}", s.finish(), key.len())
}

// scalars occurring in guards and successor conditions
fn guard_scalars(ok: &Value) -> BTreeMap<String, u64> {
    fn walk(e: &Value, acc: &mut BTreeMap<String, u64>) {
        if let Some(k) = e.get("k").and_then(|k| k.as_str()) {
            if k == "scalar" {
                let n = e["n"].as_str().unwrap_or("").to_string();
                acc.entry(n).or_insert(e["w"].as_u64().unwrap_or(0));
            }
            for key in ["a", "b", "c"] {
                if let Some(ch) = e.get(key) {
                    walk(ch, acc);
                }
            }
        }
    }
    let mut acc = BTreeMap::new();
    for g in ok["ins"].as_array().unwrap() {
        for e in g["edges"].as_array().unwrap() {
            walk(&e["c"], &mut acc);
        }
    }
    for s in ok["succ"].as_array().unwrap() {
        walk(&s["c"], &mut acc);
    }
    acc
}

fn random_valuations(rng: &mut Rng, ok: &Value, count: usize) -> Value {
    let sc = guard_scalars(ok);
    let total: u64 = sc.values().sum();
    if total <= 12 || sc.values().any(|w| *w == 0 || *w > 4096) {
        return json!([]);
    }
    let mut out = Vec::new();
    for i in 0..count {
        let mut row = Vec::new();
        // a third of the valuations give every scalar of one width the same value (equal operands)
        let same = i % 3 == 2;
        let mut per_width: BTreeMap<u64, num_bigint::BigUint> = BTreeMap::new();
        for (n, w) in &sc {
            let w_ = *w as usize;
            let v = if same {
                per_width.entry(*w).or_insert_with(|| rng.interesting(w_)).clone()
            } else if i % 3 == 0 {
                rng.big(w_)
            } else {
                rng.interesting(w_)
            };
            row.push(json!({"n": n, "val": {"w": w, "v": proj::limbs(&v, w_)}}));
        }
        out.push(Value::Array(row));
    }
    Value::Array(out)
}

// --------------------------------------------------------------------------------------
// one lift
// --------------------------------------------------------------------------------------
#[derive(Clone)]
struct Case {
    arch: &'static str,
    intr: bool,
    addr: u64,
    bytes: Vec<u8>,
    kind: &'static str,
}

fn hex(b: &[u8]) -> String {
    b.iter().map(|x| format!("{:02x}", x)).collect()
}

fn unhex(s: &str) -> Vec<u8> {
    (0..s.len() / 2).map(|i| u8::from_str_radix(&s[2 * i..2 * i + 2], 16).unwrap()).collect()
}

// The watchdog: fv::guard_timeout spawns one 64 MB-stack thread per call, which costs ~7 ms per
// lift on this machine; the same contract (catch_unwind + 2 s watchdog, thread leaked on
// timeout) is kept here with one long-lived worker thread that is replaced only after a timeout.
type Job = (&'static str, bool, u64, Vec<u8>);
struct Worker {
    tx: std::sync::mpsc::Sender<Job>,
    rx: std::sync::mpsc::Receiver<Outcome<BlockTranslationResult>>,
}
static WORKER: Mutex<Option<Worker>> = Mutex::new(None);

fn spawn_worker() -> Worker {
    let (tx, jrx) = std::sync::mpsc::channel::<Job>();
    let (rtx, rx) = std::sync::mpsc::channel();
    std::thread::Builder::new()
        .stack_size(64 << 20)
        .spawn(move || {
            while let Ok((arch, intr, addr, b)) = jrx.recv() {
                // test hooks for the watchdog / restart logic only (checks/c05.py selftest):
                // C05_FAKE_HANG=<hex bytes> hangs on those bytes; with C05_FAKE_HANG_ONCE=<path>
                // only while <path> does not exist (a spurious, non-reproducing expiry)
                if let Ok(h) = std::env::var("C05_FAKE_HANG") {
                    if h == hex(&b) {
                        let once = std::env::var("C05_FAKE_HANG_ONCE").ok();
                        let hang = match &once {
                            Some(p) if std::path::Path::new(p).exists() => false,
                            Some(p) => {
                                let _ = std::fs::write(p, "x");
                                true
                            }
                            None => true,
                        };
                        if hang {
                            std::thread::sleep(std::time::Duration::from_secs(3600));
                        }
                    }
                }
                let r = fv::guard(move || {
                    let t = translator_for(arch);
                    let mut o = Options::new();
                    o.set_unsupported_are_intrinsics(intr);
                    t.translate_block(&b, addr, &o)
                });
                if rtx.send(r).is_err() {
                    break;
                }
            }
        })
        .expect("spawn");
    Worker { tx, rx }
}

fn lift_once_ms(ms: u64, arch: &'static str, intr: bool, addr: u64, bytes: &[u8]) -> (Outcome<BlockTranslationResult>, Option<(String, u32, String)>) {
    *LAST_PANIC.lock().unwrap() = None;
    let mut g = WORKER.lock().unwrap();
    if g.is_none() {
        *g = Some(spawn_worker());
    }
    let w = g.as_ref().unwrap();
    w.tx.send((arch, intr, addr, bytes.to_vec())).expect("worker alive");
    let r = match w.rx.recv_timeout(std::time::Duration::from_millis(ms)) {
        Ok(r) => r,
        Err(_) => {
            *g = None; // the worker is leaked (it may be looping); the caller restarts the process
            Outcome::Timeout(ms)
        }
    };
    let loc = if matches!(r, Outcome::Panic(_)) { LAST_PANIC.lock().unwrap().take() } else { None };
    (r, loc)
}

fn lift_once(arch: &'static str, intr: bool, addr: u64, bytes: &[u8]) -> (Outcome<BlockTranslationResult>, Option<(String, u32, String)>) {
    lift_once_ms(TIMEOUT_MS, arch, intr, addr, bytes)
}

fn outcome_class(r: &Outcome<BlockTranslationResult>, loc: &Option<(String, u32, String)>) -> String {
    match r {
        Outcome::Ok(_) => "ok".into(),
        Outcome::Err(e) => format!("err:{}", e),
        Outcome::Panic(m) => format!("panic:{}:{}", loc.as_ref().map(|l| format!("{}:{}", l.0, l.1)).unwrap_or_default(), m),
        Outcome::Timeout(_) => "timeout".into(),
    }
}

struct Recorder {
    out: Out,
    rng: Rng,
    dedupe: bool,
    max_err: u64,
    seen: HashSet<String>,
    stats: BTreeMap<String, u64>,
    timed_out: bool,
    /// this case timed out in the previous process: second attempt, with a longer watchdog
    confirming: bool,
    /// set when a first timeout was seen (not logged yet: it is re-tried in a fresh process)
    retry: bool,
}

impl Recorder {
    fn bump_by(&mut self, key: String, n: u64) {
        *self.stats.entry(key).or_insert(0) += n;
    }

    fn bump(&mut self, key: String) -> u64 {
        let c = self.stats.entry(key).or_insert(0);
        *c += 1;
        *c
    }

    /// lifts one case and logs it (unless de-duplicated); returns false after a timeout
    fn run(&mut self, c: &Case) {
        // A watchdog expiry is only logged when it reproduces in a fresh process with a three times
        // longer watchdog: on a heavily loaded machine a descheduled worker must not be reported
        // as a hang (a real hang is deterministic and expires again).
        let ms = if self.confirming { 3 * TIMEOUT_MS } else { TIMEOUT_MS };
        let (r, loc) = lift_once_ms(ms, c.arch, c.intr, c.addr, &c.bytes);
        if matches!(r, Outcome::Timeout(_)) && !self.confirming {
            self.bump("timeouts_retried".into());
            self.timed_out = true;
            self.retry = true;
            return;
        }
        self.confirming = false;
        let intr = c.intr as u8;
        self.bump(format!("lifts:{}", c.arch));
        self.bump(format!("kind:{}", c.kind));
        let mut ev = json!({"ev": "lift", "arch": c.arch, "intr": intr, "addr": format!("{:x}", c.addr),
                            "bytes": hex(&c.bytes), "kind": c.kind});
        match &r {
            Outcome::Ok(res) => {
                self.bump(format!("ok:{}", c.arch));
                let mut ok = proj_result(res, c.addr);
                if self.dedupe {
                    // keep only instruction graphs whose shape has not been logged by this
                    // process; drop the event when nothing in it is new
                    let graphs = ok["ins"].as_array().unwrap().clone();
                    let mut fresh = Vec::new();
                    for g in graphs {
                        let h = hash_key(&format!("G|{}|{}", c.arch, shape_key(&g)));
                        if self.seen.insert(h) {
                            fresh.push(g);
                        } else {
                            self.bump("deduped_graphs".into());
                        }
                    }
                    let succ_new = self.seen.insert(hash_key(&format!("S|{}|{}", c.arch, ok["succ"])));
                    if fresh.is_empty() && !succ_new {
                        self.bump("deduped_ok".into());
                        return;
                    }
                    ok["ins"] = Value::Array(fresh);
                }
                self.bump_by("graphs_logged".into(), ok["ins"].as_array().unwrap().len() as u64);
                ev["rv"] = random_valuations(&mut self.rng, &ok, 24);
                ev["res"] = json!({ "ok": ok });
            }
            Outcome::Err(e) => {
                let n = self.bump(format!("err:{}:{}:{}", c.arch, intr, e));
                if n > self.max_err {
                    self.bump("capped_err".into());
                    return;
                }
                ev["res"] = json!({ "err": e });
            }
            Outcome::Panic(m) => {
                self.bump(format!("panic:{}", c.arch));
                ev["res"] = json!({ "panic": m });
                if let Some((f, l, func)) = &loc {
                    let _ = func;
                    ev["loc"] = json!({"file": f, "line": l});
                }
            }
            Outcome::Timeout(ms) => {
                self.bump(format!("timeout:{}", c.arch));
                let _ = ms;
                ev["res"] = json!({ "timeout": TIMEOUT_MS });
                self.timed_out = true;
            }
        }
        let labels = label(c.arch, &c.bytes, c.addr);
        let mut lab_off = 0usize;
        let mut labs = Vec::new();
        for l in &labels {
            labs.push(l.json(lab_off));
            lab_off += l.size;
        }
        ev["lab"] = Value::Array(labs);
        if matches!(r, Outcome::Panic(_)) {
            // which single instruction fails alike when lifted alone (recorded observation)
            let class = outcome_class(&r, &loc);
            let mut off = 0usize;
            let mut culprit = json!({"i": -1});
            {
                for (i, l) in labels.iter().enumerate() {
                    if l.size == 0 || off + l.size > c.bytes.len() {
                        break;
                    }
                    // MIPS needs the delay slot to lift a branch: give it the rest of the bytes
                    let end = if c.arch.starts_with("mips") { (off + 2 * l.size).min(c.bytes.len()) } else { off + l.size };
                    let solo = &c.bytes[off..end];
                    let (r2, loc2) = lift_once(c.arch, c.intr, c.addr.wrapping_add(off as u64), solo);
                    if matches!(r2, Outcome::Timeout(_)) {
                        self.timed_out = true;
                        break;
                    }
                    if outcome_class(&r2, &loc2) == class {
                        culprit = json!({"i": i as i64, "mn": l.mn, "ops": l.ops, "form": l.form, "bytes": hex(solo)});
                        break;
                    }
                    off += l.size;
                }
            }
            ev["culprit"] = culprit;
            // panics are de-duplicated by root cause + culprit mnemonic + operand form (3 instances each)
            if self.dedupe {
                let key = format!("P|{}|{}|{}|{}|{}", c.arch, intr, class, ev["culprit"]["mn"], ev["culprit"]["form"]);
                let n = self.bump(key);
                if n > 3 {
                    self.bump("deduped_panic".into());
                    return;
                }
            }
        }
        let text = ev.to_string();
        if text.len() > MAX_EVENT_BYTES {
            // never drop silently: an oversized result is counted and reported in the stats
            self.bump(format!("oversized:{}", c.arch));
            return;
        }
        self.bump("logged".into());
        self.out.emit(&ev);
    }
}

// --------------------------------------------------------------------------------------
// corpus and generators
// --------------------------------------------------------------------------------------
fn load_corpus(dir: &str, arch: &str) -> Vec<Vec<u8>> {
    let p = format!("{}/{}.hex", dir, arch);
    let text = std::fs::read_to_string(&p).unwrap_or_else(|_| panic!("corpus file {} missing", p));
    text.lines()
        .filter_map(|l| {
            let h = l.split('#').next().unwrap().trim();
            if h.is_empty() { None } else { Some(unhex(h)) }
        })
        .collect()
}

fn nop_bytes(arch: &str) -> Vec<u8> {
    match arch {
        "x86" | "amd64" => vec![0x90],
        "mips" | "mipsel" => vec![0, 0, 0, 0],
        "ppc" => vec![0x60, 0, 0, 0],
        _ => vec![0x1f, 0x20, 0x03, 0xd5],
    }
}

fn corpus_cases(dir: &str, arch: &'static str, rng: &mut Rng) -> Vec<Case> {
    let corpus = load_corpus(dir, arch);
    let mut out = Vec::new();
    for (k, ins) in corpus.iter().enumerate() {
        for intr in [false, true] {
            for addr in ADDRS {
                out.push(Case { arch, intr, addr, bytes: ins.clone(), kind: "corpus" });
            }
            // followed by a nop (the MIPS delay slot; block continuation elsewhere)
            let mut b = ins.clone();
            b.extend(nop_bytes(arch));
            out.push(Case { arch, intr, addr: ADDRS[k % ADDRS.len()], bytes: b, kind: "corpus+nop" });
            // followed by another template
            let mut b = ins.clone();
            b.extend(rng.pick(&corpus).clone());
            if arch.starts_with("mips") {
                // e.g. a branch in the delay slot of a branch, followed by its own delay slot
                let mut b3 = b.clone();
                b3.extend(nop_bytes(arch));
                out.push(Case { arch, intr, addr: ADDRS[(k + 2) % ADDRS.len()], bytes: b3, kind: "corpus+corpus+nop" });
            }
            out.push(Case { arch, intr, addr: ADDRS[(k + 1) % ADDRS.len()], bytes: b, kind: "corpus+corpus" });
        }
    }
    out
}

const X86_PREFIXES: [u8; 11] = [0x66, 0x67, 0xf2, 0xf3, 0xf0, 0x2e, 0x36, 0x3e, 0x26, 0x64, 0x65];

fn random_case(rng: &mut Rng, arch: &'static str, corpus: &[Vec<u8>]) -> Case {
    let intr = rng.bool();
    let addr = *rng.pick(&ADDRS);
    let (bytes, kind): (Vec<u8>, &'static str) = if is_x86(arch) {
        match rng.below(10) {
            0 | 1 | 2 => {
                let n = rng.range(1, 15) as usize;
                ((0..n).map(|_| rng.next() as u8).collect(), "x86-random")
            }
            3 => {
                // 0f-escaped opcode with random tail (denser in decodable SSE/system encodings)
                let n = rng.range(1, 8) as usize;
                let mut b = vec![];
                if rng.bool() { b.push(*rng.pick(&[0x66u8, 0xf2, 0xf3])); }
                if arch == "amd64" && rng.bool() { b.push(0x40 | rng.below(16) as u8); }
                b.push(0x0f);
                b.extend((0..n).map(|_| rng.next() as u8));
                (b, "x86-0f-random")
            }
            4 | 5 => {
                let mut b = vec![];
                for _ in 0..rng.range(1, 4) {
                    b.push(*rng.pick(&X86_PREFIXES));
                }
                if arch == "amd64" && rng.chance(1, 3) { b.push(0x40 | rng.below(16) as u8); }
                let ins = rng.pick(corpus);
                b.extend(ins.iter());
                b.truncate(15);
                (b, "x86-prefixed")
            }
            6 => {
                let ins = rng.pick(corpus);
                let k = if ins.len() > 1 { rng.range(1, ins.len() as u64 - 1) as usize } else { 1 };
                (ins[..k].to_vec(), "x86-truncated")
            }
            7 | 8 => {
                // one byte of a valid instruction replaced (opcode, modrm, sib, displacement, immediate)
                let mut b = rng.pick(corpus).clone();
                let i = rng.below(b.len() as u64) as usize;
                b[i] = if rng.bool() { rng.next() as u8 } else { b[i] ^ (1 << rng.below(8)) };
                if rng.chance(1, 4) { b.extend((0..rng.range(1, 4)).map(|_| rng.next() as u8)); }
                b.truncate(15);
                (b, "x86-mutated")
            }
            _ => {
                // a valid instruction followed by random bytes (block continuation)
                let mut b = rng.pick(corpus).clone();
                b.extend((0..rng.range(1, 6)).map(|_| rng.next() as u8));
                b.truncate(15);
                (b, "x86-valid+random")
            }
        }
    } else {
        let be = matches!(arch, "mips" | "ppc");
        let to_bytes = |w: u32| if be { w.to_be_bytes().to_vec() } else { w.to_le_bytes().to_vec() };
        let from_bytes = |b: &[u8]| if be { u32::from_be_bytes([b[0], b[1], b[2], b[3]]) } else { u32::from_le_bytes([b[0], b[1], b[2], b[3]]) };
        match rng.below(10) {
            0 | 1 | 2 | 3 => (to_bytes(rng.next() as u32), "word-random"),
            4 | 5 | 6 | 7 => {
                // a valid word with one field replaced by random bits
                let v: &Vec<u8> = rng.pick(corpus);
                let w = from_bytes(v);
                let len = rng.range(1, 12) as u32;
                let lo = rng.below(33 - len as u64) as u32;
                let mask = (((1u64 << len) - 1) as u32) << lo;
                let m = (w & !mask) | ((rng.next() as u32) & mask);
                let mut b = to_bytes(m);
                if arch.starts_with("mips") && rng.chance(1, 2) {
                    b.extend(if rng.bool() { vec![0, 0, 0, 0] } else { rng.pick(corpus).clone() });
                    if rng.chance(1, 3) {
                        b.extend(vec![0, 0, 0, 0]); // e.g. branch, branch, nop
                    }
                }
                (b, "word-mutated")
            }
            8 => {
                // a valid word followed by a random word (e.g. a random delay slot)
                let mut b = rng.pick(corpus).clone();
                b.extend(to_bytes(rng.next() as u32));
                (b, "word-valid+random")
            }
            _ => {
                // short and odd lengths
                let n = *rng.pick(&[1usize, 2, 3, 5, 6, 7]);
                let mut b = rng.pick(corpus).clone();
                b.extend(to_bytes(rng.next() as u32));
                b.truncate(n);
                (b, "word-truncated")
            }
        }
    };
    Case { arch, intr, addr, bytes, kind }
}

// --------------------------------------------------------------------------------------
// main
// --------------------------------------------------------------------------------------
fn restart_after_timeout(next: u64, confirm: bool) -> ! {
    use std::os::unix::process::CommandExt;
    let mut args: Vec<String> = std::env::args().skip(1).collect();
    for key in ["--skip", "--confirm"] {
        if let Some(i) = args.iter().position(|a| a == key) {
            args.drain(i..i + 2);
        }
    }
    args.push("--skip".into());
    args.push(next.to_string());
    args.push("--confirm".into());
    args.push((confirm as u8).to_string());
    let e = std::process::Command::new(std::env::current_exe().unwrap()).args(args).exec();
    panic!("re-exec failed: {}", e);
}

fn main() {
    install_hook();
    let mode = fv::arg_str("mode", "corpus");
    let out_path = fv::arg_str("out", "/dev/stdout");
    let skip = fv::arg_u64("skip", 0);
    let stats_path = format!("{}.stats.json", out_path);
    // continuing after a timeout: keep what the earlier process wrote
    let resumed = fv::arg("confirm").is_some();
    let (out, stats) = if resumed {
        let old = std::fs::read_to_string(&out_path).unwrap_or_default();
        let mut o = Out::create(&out_path);
        for l in old.lines() {
            o.emit(&serde_json::from_str::<Value>(l).expect("own output"));
        }
        let st: BTreeMap<String, u64> = std::fs::read_to_string(&stats_path).ok()
            .and_then(|s| serde_json::from_str(&s).ok()).unwrap_or_default();
        (o, st)
    } else {
        (Out::create(&out_path), BTreeMap::new())
    };
    let seed = fv::seed_from_env();
    let mut rec = Recorder {
        out,
        rng: Rng::new(seed ^ 0xC05_0001),
        dedupe: fv::arg_u64("dedupe", 1) == 1,
        max_err: fv::arg_u64("max-err", 300),
        seen: HashSet::new(),
        stats,
        timed_out: false,
        confirming: false,
        retry: false,
    };
    let corpus_dir = fv::arg_str("corpus", concat!(env!("CARGO_MANIFEST_DIR"), "/../corpus/c05"));
    let only = fv::arg("arch");
    let archs: Vec<&'static str> = ARCHS.iter().copied().filter(|a| only.as_deref().map(|o| o == *a).unwrap_or(true)).collect();

    // the list of cases is a function of (mode, seed, arguments) only, so that a restarted
    // process regenerates the same list and skips what was done
    let mut cases: Vec<Case> = Vec::new();
    match mode.as_str() {
        "corpus" => {
            let mut rng = Rng::new(seed ^ 0xC05_0002);
            for a in &archs {
                cases.extend(corpus_cases(&corpus_dir, a, &mut rng));
            }
        }
        "random" => {
            let n = fv::arg_u64("n", 1000);
            let mut rng = Rng::new(seed ^ 0xC05_0003 ^ fv::arg_u64("stream", 0).wrapping_mul(0x1234_5678_9abc_def1));
            let corp: Vec<Vec<Vec<u8>>> = archs.iter().map(|a| load_corpus(&corpus_dir, a)).collect();
            for i in 0..n {
                let k = (i % archs.len() as u64) as usize;
                cases.push(random_case(&mut rng, archs[k], &corp[k]));
            }
        }
        "replay" => {
            let text = std::fs::read_to_string(fv::arg_str("in", "")).expect("read replay input");
            rec.dedupe = false;
            rec.max_err = u64::MAX;
            for line in text.lines().filter(|l| !l.trim().is_empty()) {
                let v: Value = serde_json::from_str(line).expect("json");
                let v = if v.get("event").is_some() { v["event"].clone() } else { v };
                let arch = ARCHS.iter().copied().find(|a| v["arch"] == *a).expect("arch");
                cases.push(Case {
                    arch,
                    intr: v["intr"].as_u64().unwrap_or(0) == 1,
                    addr: u64::from_str_radix(v["addr"].as_str().unwrap(), 16).unwrap(),
                    bytes: unhex(v["bytes"].as_str().unwrap()),
                    kind: "replay",
                });
            }
        }
        _ => panic!("unknown mode"),
    }

    for (i, c) in cases.iter().enumerate() {
        if (i as u64) < skip {
            continue;
        }
        if i as u64 == skip && fv::arg_u64("confirm", 0) == 1 {
            rec.confirming = true;
        }
        rec.run(c);
        if rec.timed_out {
            // the watchdog leaked a thread that may be spinning or allocating: continue in a fresh process
            rec.out.finish();
            std::fs::write(&stats_path, serde_json::to_string(&rec.stats).unwrap()).unwrap();
            let again = rec.retry;
            restart_after_timeout(if again { i as u64 } else { i as u64 + 1 }, again);
        }
    }
    let lines = rec.out.finish();
    std::fs::write(&stats_path, serde_json::to_string(&rec.stats).unwrap()).unwrap();
    eprintln!("c05: {} cases, {} events", cases.len(), lines);
}
