//! JSON (the shapes of `proj`) -> falcon values.  Used by replay, by generators that
//! describe their cases as data, and to feed TLC-generated behaviours to falcon.
//! Expressions are built through the enum variants directly, so that ill-sorted trees
//! can be represented.

use falcon::il;
use num_bigint::BigUint;
use serde_json::Value;

pub fn big_from_limbs(v: &Value) -> BigUint {
    let bytes: Vec<u8> = v.as_array().expect("limbs").iter().map(|x| x.as_u64().unwrap() as u8).collect();
    BigUint::from_bytes_le(&bytes)
}

pub fn constant(v: &Value) -> il::Constant {
    il::Constant::new_big(big_from_limbs(&v["v"]), v["w"].as_u64().unwrap() as usize)
}

pub fn scalar(v: &Value) -> il::Scalar {
    let mut s = il::Scalar::new(v["n"].as_str().unwrap(), v["w"].as_u64().unwrap() as usize);
    let ssa = v["ssa"].as_i64().unwrap_or(-1);
    if ssa >= 0 {
        s.set_ssa(Some(ssa as usize));
    }
    s
}

pub fn expr(v: &Value) -> il::Expression {
    use il::Expression as E;
    let k = v["k"].as_str().expect("expression kind");
    let a = || Box::new(expr(&v["a"]));
    let b = || Box::new(expr(&v["b"]));
    let w = || v["w"].as_u64().unwrap() as usize;
    match k {
        "const" => E::Constant(constant(v)),
        "scalar" => E::Scalar(scalar(v)),
        "add" => E::Add(a(), b()),
        "sub" => E::Sub(a(), b()),
        "mul" => E::Mul(a(), b()),
        "divu" => E::Divu(a(), b()),
        "modu" => E::Modu(a(), b()),
        "divs" => E::Divs(a(), b()),
        "mods" => E::Mods(a(), b()),
        "and" => E::And(a(), b()),
        "or" => E::Or(a(), b()),
        "xor" => E::Xor(a(), b()),
        "shl" => E::Shl(a(), b()),
        "shr" => E::Shr(a(), b()),
        "ashr" => E::AShr(a(), b()),
        "cmpeq" => E::Cmpeq(a(), b()),
        "cmpneq" => E::Cmpneq(a(), b()),
        "cmplts" => E::Cmplts(a(), b()),
        "cmpltu" => E::Cmpltu(a(), b()),
        "zext" => E::Zext(w(), a()),
        "sext" => E::Sext(w(), a()),
        "trun" => E::Trun(w(), a()),
        "ite" => E::Ite(Box::new(expr(&v["c"])), a(), b()),
        other => panic!("unknown expression kind {}", other),
    }
}

fn opt_exprs(v: &Value) -> Option<Vec<il::Expression>> {
    if v["k"] == "none" {
        None
    } else {
        Some(v["l"].as_array().unwrap().iter().map(expr).collect())
    }
}

pub fn operation(v: &Value) -> il::Operation {
    match v["k"].as_str().unwrap() {
        "assign" => il::Operation::assign(scalar(&v["dst"]), expr(&v["src"])),
        "store" => il::Operation::store(expr(&v["idx"]), expr(&v["src"])),
        "load" => il::Operation::load(scalar(&v["dst"]), expr(&v["idx"])),
        "branch" => il::Operation::branch(expr(&v["target"])),
        "nop" if v.get("ph").is_some() => il::Operation::placeholder(operation(&v["ph"])),
        "nop" => il::Operation::nop(),
        "intrinsic" => il::Operation::intrinsic(il::Intrinsic::new(
            v["mn"].as_str().unwrap(),
            v["mn"].as_str().unwrap(),
            v["args"].as_array().unwrap().iter().map(expr).collect(),
            opt_exprs(&v["written"]),
            opt_exprs(&v["read"]),
            vec![],
        )),
        other => panic!("unknown operation kind {}", other),
    }
}

pub fn addr_u64(v: &Value) -> Option<u64> {
    if v["k"] == "none" {
        None
    } else {
        let b = big_from_limbs(&v["v"]);
        Some(b.iter_u64_digits().next().unwrap_or(0))
    }
}

/// Build a ControlFlowGraph from the `proj::cfg` shape.  Block indices must be
/// 0..n-1 in order (new_block allocates them sequentially); instruction indices are kept.
pub fn cfg(v: &Value) -> il::ControlFlowGraph {
    let mut g = il::ControlFlowGraph::new();
    for (n, b) in v["blocks"].as_array().unwrap().iter().enumerate() {
        let blk = g.new_block().unwrap();
        assert_eq!(blk.index() as u64, b["i"].as_u64().unwrap(), "block indices must be dense");
        assert_eq!(blk.index(), n);
        for ins in b["ins"].as_array().unwrap() {
            // keep the recorded instruction index (indices need not be contiguous)
            let mut i = il::Instruction::new(ins["i"].as_u64().unwrap() as usize, operation(&ins["op"]));
            i.set_address(addr_u64(&ins["addr"]));
            blk.instructions_mut().push(i);
        }
    }
    for e in v["edges"].as_array().unwrap() {
        let h = e["h"].as_u64().unwrap() as usize;
        let t = e["t"].as_u64().unwrap() as usize;
        if e["c"]["k"] == "none" {
            g.unconditional_edge(h, t).unwrap();
        } else {
            g.conditional_edge(h, t, expr(&e["c"])).unwrap();
        }
    }
    if v["entry"].as_i64().unwrap_or(-1) >= 0 {
        g.set_entry(v["entry"].as_u64().unwrap() as usize).unwrap();
    }
    if v["exit"].as_i64().unwrap_or(-1) >= 0 {
        g.set_exit(v["exit"].as_u64().unwrap() as usize).unwrap();
    }
    g
}

pub fn function(v: &Value) -> il::Function {
    let a = if v.get("address").is_some() { addr_u64(&v["address"]).unwrap_or(0) } else { 0 };
    il::Function::new(a, cfg(v))
}
