//! Common part of the "program exploration" exports (C10, C12, C13, C14, C17): a generated
//! function together with the initial states and call-havoc valuations TLC explores it from.

use crate::gen::{self, GenCfg};
use crate::{proj, Rng};
use falcon::il;
use num_bigint::BigUint;
use serde_json::{json, Value};

pub struct XProg {
    pub function: il::Function,
    pub scalars: Vec<il::Scalar>,
    pub big: bool,
    pub mem_base: u64,
    pub inits: Vec<Value>,
    pub havocs: Vec<Value>,
}

pub fn sc_json(vals: &[(il::Scalar, il::Constant)]) -> Value {
    Value::Array(
        vals.iter()
            .map(|(s, c)| json!({"n": s.name(), "w": s.bits(), "v": proj::limbs(c.value(), c.bits())}))
            .collect(),
    )
}

fn addr_limbs(a: u64) -> Value {
    json!(proj::limbs(&BigUint::from(a), 64))
}

/// The standard small scalar universe of the explorations: control scalars (all values are
/// enumerated) and data scalars (sampled).
pub fn universe(rng: &mut Rng) -> Vec<il::Scalar> {
    let mut v = vec![il::scalar("c0", 1), il::scalar("c1", 2)];
    v.push(il::scalar("x", 8));
    // names carry no meaning in the IL; half of the programs use names shaped like the lifters' (a temporary, a
    // flag, a register), so that anything keyed on a name rather than on the data flow shows up
    let lifterish = rng.bool();
    v.push(il::scalar(if lifterish { "temp_0x1000_0" } else { "y" }, 8));
    if rng.bool() {
        v.push(il::scalar("z", 16));
    }
    if rng.chance(1, 3) {
        v.push(il::scalar("w", 32));
    }
    v
}

pub fn default_cfg(rng: &mut Rng, scalars: &[il::Scalar]) -> GenCfg {
    let mut cfg = GenCfg::default_with(scalars.to_vec());
    cfg.small_consts = true;
    cfg.max_blocks = rng.range(3, 6) as usize;
    cfg.min_blocks = 2;
    cfg.ensure_exit = rng.chance(3, 4);
    cfg.max_ins = rng.range(1, 3) as usize;
    cfg.expr_depth = rng.range(1, 2) as u32;
    cfg.allow_div = rng.chance(1, 4);
    cfg.allow_mem = rng.chance(2, 3);
    cfg.allow_intrinsic = rng.chance(1, 3);
    cfg.allow_branch = rng.chance(1, 4);
    cfg.intrinsic_pct = 10;
    cfg.branch_pct = 8;
    cfg.mem_bases = vec![0x2000];
    cfg
}

/// all valuations of the control scalars (<= 3 bits each) x `samples` valuations of the rest
pub fn initial_states(rng: &mut Rng, scalars: &[il::Scalar], mem_base: u64, samples: usize) -> Vec<Value> {
    let control: Vec<&il::Scalar> = scalars.iter().filter(|s| s.bits() <= 3).collect();
    let data: Vec<&il::Scalar> = scalars.iter().filter(|s| s.bits() > 3).collect();
    let mut combos: Vec<Vec<(il::Scalar, il::Constant)>> = vec![vec![]];
    for c in &control {
        let mut next = Vec::new();
        for base in &combos {
            for v in 0..(1u64 << c.bits()) {
                let mut b = base.clone();
                b.push(((*c).clone(), il::const_(v, c.bits())));
                next.push(b);
            }
        }
        combos = next;
    }
    let mem: Vec<Value> = (0..40u64)
        .map(|i| json!({"a": addr_limbs(mem_base + i), "b": (i * 7 + 3) % 256}))
        .collect();
    let mut out = Vec::new();
    for k in 0..samples {
        let dv: Vec<(il::Scalar, il::Constant)> = data
            .iter()
            .map(|s| {
                let c = if k == 0 { il::const_(0, s.bits()) } else { gen::constant(rng, s.bits()) };
                ((*s).clone(), c)
            })
            .collect();
        for c in &combos {
            let mut all = c.clone();
            all.extend(dv.iter().cloned());
            out.push(json!({"sc": sc_json(&all), "mem": mem}));
        }
    }
    out
}

pub fn havocs(rng: &mut Rng, scalars: &[il::Scalar], k: usize) -> Vec<Value> {
    (0..k)
        .map(|_| {
            let v: Vec<(il::Scalar, il::Constant)> =
                scalars.iter().map(|s| (s.clone(), gen::constant(rng, s.bits()))).collect();
            sc_json(&v)
        })
        .collect()
}

/// `{k, b, i | h, t}` for a FunctionLocation (harness terms: instruction *index*)
pub fn floc(l: &il::FunctionLocation) -> Value {
    match *l {
        il::FunctionLocation::Instruction(b, i) => json!({"k": "ins", "b": b, "i": i}),
        il::FunctionLocation::Edge(h, t) => json!({"k": "edge", "h": h, "t": t}),
        il::FunctionLocation::EmptyBlock(b) => json!({"k": "empty", "b": b}),
    }
}

/// sort key making exports independent of HashMap order
pub fn floc_key(l: &il::FunctionLocation) -> (u8, usize, usize) {
    match *l {
        il::FunctionLocation::Instruction(b, i) => (0, b, i),
        il::FunctionLocation::Edge(h, t) => (1, h, t),
        il::FunctionLocation::EmptyBlock(b) => (2, b, 0),
    }
}

pub fn base_json(x: &XProg) -> Value {
    json!({
        "f": proj::function(&x.function),
        "big": x.big,
        "names": x.scalars.iter().map(|s| json!({"n": s.name(), "w": s.bits()})).collect::<Vec<_>>(),
        "inits": x.inits,
        "havocs": x.havocs,
    })
}

/// Write `{"progs": [...]}`
pub fn write_progs(path: &str, progs: Vec<Value>) {
    if let Some(parent) = std::path::Path::new(path).parent() {
        let _ = std::fs::create_dir_all(parent);
    }
    std::fs::write(path, serde_json::to_vec(&json!({ "progs": progs })).unwrap()).expect("write export");
}


/// Functions lifted by the real translators from the llvm-mc assembled prologue/epilogue templates
/// of corpus/c17 (`<arch>_<name>.hex`): a second source of programs for the explorations.
pub fn lifted(rng: &mut Rng, dir: &str) -> Vec<(XProg, String, String)> {
    use falcon::architecture::{AArch64, AArch64Eb, Amd64, Architecture, Mips, Mipsel, Ppc, X86};
    // `dir` may name several directories separated by commas
    let mut files: Vec<(String, String)> = Vec::new();
    for d in dir.split(',') {
        if let Ok(rd) = std::fs::read_dir(d) {
            files.extend(rd.filter_map(|e| e.ok().map(|e| e.file_name().to_string_lossy().to_string()))
                .filter(|n| n.ends_with(".hex")).map(|n| (d.to_string(), n)));
        }
    }
    files.sort();
    let mut out = Vec::new();
    for (dir, name) in files {
        let archname = name.split('_').next().unwrap().to_string();
        let a: Box<dyn Architecture> = match archname.as_str() {
            "x86" => Box::new(X86::new()),
            "amd64" => Box::new(Amd64::new()),
            "mips" => Box::new(Mips::new()),
            "mipsel" => Box::new(Mipsel::new()),
            "ppc" => Box::new(Ppc::new()),
            "aarch64" => Box::new(AArch64::new()),
            _ => Box::new(AArch64Eb::new()),
        };
        let text = std::fs::read_to_string(format!("{}/{}", dir, name)).unwrap();
        let hex = text.trim();
        let bytes: Vec<u8> = (0..hex.len() / 2).map(|i| u8::from_str_radix(&hex[2 * i..2 * i + 2], 16).unwrap()).collect();
        let mut mem = falcon::memory::backing::Memory::new(a.endian());
        mem.set_memory(0x1000, bytes, falcon::memory::MemoryPermissions::READ | falcon::memory::MemoryPermissions::EXECUTE);
        let function = match crate::guard(|| a.translator().translate_function(&mem, 0x1000)) {
            crate::Outcome::Ok(f) => f,
            _ => continue,
        };
        let mut seen = std::collections::BTreeMap::new();
        for b in function.blocks() {
            for i in b.instructions() {
                for s in i.scalars().unwrap_or_default() {
                    seen.insert(s.name().to_string(), s.bits());
                }
            }
        }
        for e in function.edges() {
            if let Some(c) = e.condition() {
                for s in c.scalars() {
                    seen.insert(s.name().to_string(), s.bits());
                }
            }
        }
        let sp = a.stack_pointer();
        seen.insert(sp.name().to_string(), sp.bits());
        let scalars: Vec<il::Scalar> = seen.iter().map(|(n, w)| il::scalar(n.clone(), *w)).collect();
        let mut inits = Vec::new();
        for k in 0..4 {
            let vals: Vec<(il::Scalar, il::Constant)> = scalars.iter().map(|s| {
                let c = if s.name() == sp.name() { il::Constant::new_big(BigUint::from(0x7000u64), sp.bits()) }
                        else if k == 0 { il::const_(0, s.bits()) } else { gen::constant(rng, s.bits()) };
                (s.clone(), c)
            }).collect();
            inits.push(json!({"sc": sc_json(&vals), "mem": []}));
        }
        let x = XProg {
            function, scalars: scalars.clone(), big: matches!(a.endian(), falcon::architecture::Endian::Big),
            mem_base: 0x7000, inits, havocs: havocs(rng, &scalars, 2),
        };
        out.push((x, archname, name));
    }
    out
}
