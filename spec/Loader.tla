-------------------------------- MODULE Loader --------------------------------
(***************************************************************************)
(* Growth of C19: what Loader::program_verbose and                         *)
(* Loader::program_recursive_verbose (lib/loader/mod.rs) must return for   *)
(* a loaded image.                                                         *)
(*                                                                         *)
(* A result is abstracted to                                               *)
(*   F      the addresses of the functions in the il::Program              *)
(*   E      the addresses of the function entries reported with an error   *)
(*   calls  for f in F, the direct call targets found in the lifted code   *)
(*          of f (constant targets of its Branch operations)               *)
(* and judged against the function-entry bounds of Elf (lower: entries     *)
(* every loader reports; upper: entries a loader may report) and the set   *)
(* of executable addresses of the image:                                   *)
(*   ProgramOK   one function per executable entry, or an error reported   *)
(*               for that entry (a failure never aborts the whole call);   *)
(*               nothing that is not an entry.  Entries in memory that is  *)
(*               not executable may be skipped.                            *)
(*   ClosureOK   (recursive variant) additionally closed under the direct  *)
(*               call targets of lifted functions, and nothing that is not *)
(*               reachable from an entry through calls of lifted functions.*)
(*                                                                         *)
(* The second half is a work-list machine over an abstract program (each   *)
(* address either lifts, with a set of call targets, or fails); MC_Loader  *)
(* checks that every schedule terminates in a result satisfying ClosureOK. *)
(***************************************************************************)
EXTENDS Elf

\* is address a executable in the image: the LAST PT_LOAD covering it has PF_X
ExecAt(d, base, a) ==
  LET ks == { k \in LoadIdx(d) : Covers(d.segs[k], base, a) } IN
  /\ ks # {}
  /\ FlagSet(d.segs[CHOOSE k \in ks : \A j \in ks : j <= k].flags, PF_X)

ProgramOK(lower, upper, exec, F, E) ==
  /\ F \cap E = {}
  /\ (lower \cap exec) \subseteq (F \cup E)
  /\ (F \cup E) \subseteq upper

\* least set containing roots and the call targets of its lifted members
RECURSIVE ReachFrom(_,_,_)
ReachFrom(S, F, calls) ==
  LET T == S \cup UNION { calls[f] : f \in S \cap F } IN
  IF T = S THEN S ELSE ReachFrom(TLCEval(T), F, calls)

ClosureOK(lower, upper, exec, F, E, calls) ==
  /\ F \cap E = {}
  /\ (lower \cap exec) \subseteq (F \cup E)
  /\ \A f \in F : calls[f] \subseteq (F \cup E)
  /\ (F \cup E) \subseteq ReachFrom(upper, F, calls)

\* names come from the symbols: where a named function symbol is defined at the address, the
\* function carries one of those names
FuncNames(d, base, a) ==
  { s.name : s \in { t \in AllSyms(d) : DefinedFunc(t) /\ t.name # "" /\ AddA(t.value, base) = a } }
FuncNameOK(d, base, a, n) == FuncNames(d, base, a) # {} => n \in FuncNames(d, base, a)

(* ------------------------ the work-list machine ------------------------- *)
(* ap: abstract program, a function from addresses to [ok, calls];          *)
(* ents: the function entries.  program_verbose lifts the entries; the      *)
(* recursive variant then repeatedly takes a lifted function it has not     *)
(* looked at, and lifts those of its call targets that are not functions    *)
(* yet.                                                                     *)
WLInit(ap, ents) == [F |-> { a \in ents : ap[a].ok }, E |-> { a \in ents : ~ap[a].ok }, done |-> {}]
WLStep(ap, st, f) ==
  LET new == ap[f].calls \ st.F IN
  [F |-> st.F \cup { c \in new : ap[c].ok }, E |-> st.E \cup { c \in new : ~ap[c].ok }, done |-> st.done \cup {f}]
WLFinished(st) == st.F \subseteq st.done
=============================================================================
