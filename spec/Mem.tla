-------------------------------- MODULE Mem --------------------------------
(***************************************************************************)
(* C08 - the paged memory (lib/memory/paged.rs, value.rs) is a byte array  *)
(* layered over an optional, immutable backing, with independent clones.   *)
(*                                                                         *)
(* Design level.  There is no page, no cell, no back-reference here: the   *)
(* state of a memory handle is                                             *)
(*    bytes[h]   address key -> byte    the bytes stored through h (or the *)
(*                                      handle it was cloned from)         *)
(*    perms[h]   the set_permissions calls made on h, in order             *)
(*    endian[h], bk[h]  endianness and backing (index into backs, 0 none)  *)
(*    ver[h]     a modification stamp: copied by Clone, refreshed by every *)
(*               mutating operation (so ver[h1] = ver[h2] iff one is an    *)
(*               unmodified clone of the other, or h1 = h2)                *)
(* Address keys, values and backing cells are those of Backing.tla.        *)
(*                                                                         *)
(* What the property (properties.jsonl, C08) says, and nothing more:       *)
(*  - a load returns exactly the bytes most recently stored at each        *)
(*    address, falling back to the backing's bytes, assembled in the       *)
(*    memory's endianness; absent iff some byte was never stored nor       *)
(*    backed                                         (LoadRes)             *)
(*  - clones are independent                (bytes/perms are per handle)   *)
(*  - equality is reflexive (a memory equals its unmodified clone) and     *)
(*    implies identical results for every load; it may be finer than       *)
(*    extensional equality                           (EqAllowed)           *)
(*  - permissions set on a range are reported for every address in it,     *)
(*    never-set addresses report the backing's, stores never change them.  *)
(*    The implementation keeps permissions per 1024-byte page; the         *)
(*    statement does not forbid rounding a range outward to pages, so for  *)
(*    an address in a page touched by a later set_permissions but outside  *)
(*    its range both the old and the new answer are accepted               *)
(*                                                   (PermAllowed)         *)
(* Every action below is total on live handles and always succeeds: a      *)
(* store of a byte-multiple width never fails.                             *)
(***************************************************************************)
EXTENDS Backing

PageSize == 1024
PageOf(k) == k \div PageSize                    \* bases are 1024-aligned: pages of keys are pages of addresses

VARIABLES live, endian, bk, bytes, perms, ver, stamp, backs
mvars == <<live, endian, bk, bytes, perms, ver, stamp, backs>>

\* backs: sequence of [endian |-> .., cells |-> Backing cells]
MemInit(bs) ==
  /\ live = {} /\ endian = EmptyCells /\ bk = EmptyCells /\ bytes = EmptyCells
  /\ perms = EmptyCells /\ ver = EmptyCells
  /\ stamp = 1 /\ backs = bs

Bind(f, h, x) == (h :> x) @@ f                  \* f with h (re)bound to x
Unbind(f, h)  == [g \in (DOMAIN f) \ {h} |-> f[g]]

(* ------------------------------ actions -------------------------------- *)
New(h, e, b) ==
  /\ h \notin live /\ e \in {"little", "big"} /\ b \in 0..Len(backs)
  /\ live' = live \cup {h}
  /\ endian' = Bind(endian, h, e) /\ bk' = Bind(bk, h, b)
  /\ bytes' = Bind(bytes, h, EmptyCells) /\ perms' = Bind(perms, h, <<>>)
  /\ ver' = Bind(ver, h, stamp) /\ stamp' = stamp + 1
  /\ UNCHANGED backs

\* h2 becomes an independent copy of h; both carry the same stamp until one is modified
Clone(h, h2) ==
  /\ h \in live /\ h2 \notin live
  /\ live' = live \cup {h2}
  /\ endian' = Bind(endian, h2, endian[h]) /\ bk' = Bind(bk, h2, bk[h])
  /\ bytes' = Bind(bytes, h2, bytes[h]) /\ perms' = Bind(perms, h2, perms[h])
  /\ ver' = Bind(ver, h2, ver[h])
  /\ UNCHANGED <<stamp, backs>>

Drop(h) ==
  /\ h \in live
  /\ live' = live \ {h}
  /\ endian' = Unbind(endian, h) /\ bk' = Unbind(bk, h) /\ bytes' = Unbind(bytes, h)
  /\ perms' = Unbind(perms, h) /\ ver' = Unbind(ver, h)
  /\ UNCHANGED <<stamp, backs>>

\* store the value with little-endian byte limbs `limbs` at key k through h
StoreBytes(f, k, bs) ==
  LET R == k..(k + Len(bs) - 1) IN
  [x \in DOMAIN f \cup R |-> IF x \in R THEN bs[x - k + 1] ELSE f[x]]
Store(h, k, limbs) ==
  /\ h \in live /\ Len(limbs) >= 1
  /\ bytes' = [bytes EXCEPT ![h] = StoreBytes(@, k, Layout(endian[h], limbs))]
  /\ ver' = [ver EXCEPT ![h] = stamp] /\ stamp' = stamp + 1
  /\ UNCHANGED <<live, endian, bk, perms, backs>>

SetPerm(h, k, len, p) ==
  /\ h \in live /\ len >= 0
  /\ perms' = [perms EXCEPT ![h] = Append(@, [lo |-> k, len |-> len, p |-> p])]
  /\ ver' = [ver EXCEPT ![h] = stamp] /\ stamp' = stamp + 1
  /\ UNCHANGED <<live, endian, bk, bytes, backs>>

(* ------------------------------ queries -------------------------------- *)
BackCells(h) == IF bk[h] = 0 THEN EmptyCells ELSE backs[bk[h]].cells

\* the byte array seen through h: own bytes over the backing's
ViewByte(h, x) == IF x \in DOMAIN bytes[h] THEN bytes[h][x] ELSE Get8(BackCells(h), x)

\* bytes read at increasing addresses -> the value of a load, NoVal iff some byte is absent
LoadOfBytes(e, bits, bs) ==
  IF \E i \in 1..Len(bs) : bs[i] = Absent THEN NoVal ELSE MVal(bits, Assemble(e, bs))

\* load(k, bits), bits a positive multiple of 8
LoadRes(h, k, bits) ==
  LoadOfBytes(endian[h], bits, [i \in 1..(bits \div 8) |-> ViewByte(h, k + i - 1)])

\* the loads at k, k+1, .., k+n-1 (ScanRes(h,k,n,bits)[i] = LoadRes(h, k+i-1, bits): checked by
\* MC_Mem; the byte array is read once instead of once per load)
ScanRes(h, k, n, bits) ==
  LET nb == bits \div 8
      bs == TLCEval([i \in 1..(n + nb - 1) |-> ViewByte(h, k + i - 1)])
  IN [i \in 1..n |-> LoadOfBytes(endian[h], bits, [j \in 1..nb |-> bs[i + j - 1]])]

\* permissions(k): fold over the set_permissions calls of h, oldest first
InRange(q, k)   == q.lo <= k /\ k < q.lo + q.len
\* pages a page-granular implementation may touch for the range (an empty range: the page of its start)
InPages(q, k)   == PageOf(q.lo) <= PageOf(k) /\ PageOf(k) <= PageOf(IF q.len = 0 THEN q.lo ELSE q.lo + q.len - 1)
RECURSIVE PermFold(_,_,_,_)
PermFold(ps, i, k, acc) ==
  IF i > Len(ps) THEN acc
  ELSE PermFold(ps, i + 1, k,
                TLCEval(IF InRange(ps[i], k) THEN {ps[i].p}
                        ELSE IF InPages(ps[i], k) THEN acc \cup {ps[i].p} ELSE acc))
PermAllowed(h, k) == PermFold(perms[h], 1, k, {Perm(BackCells(h), k)})

\* index of the last set_permissions call whose exact range contains k (0: none) - diagnosis only
RECURSIVE LastExact(_,_,_)
LastExact(ps, i, k) == IF i = 0 THEN 0 ELSE IF InRange(ps[i], k) THEN i ELSE LastExact(ps, i - 1, k)

\* the whole byte array seen through h, as a function (finite: stored bytes and backing cells)
View(h) ==
  LET c == BackCells(h) IN
  [x \in DOMAIN bytes[h] \cup DOMAIN c |-> IF x \in DOMAIN bytes[h] THEN bytes[h][x] ELSE c[x].b]

\* two byte arrays give identical results for every load (of every width, at every address)
SameLoads(h1, h2) ==
  LET v1 == View(h1)  v2 == View(h2) IN
  /\ v1 = v2
  /\ \/ endian[h1] = endian[h2]
     \/ \A x \in DOMAIN v1 : (x + 1) \in DOMAIN v1 => v1[x] = v1[x + 1]

\* answers `h1 == h2` may give
EqAllowed(h1, h2) ==
  IF ver[h1] = ver[h2] THEN {TRUE}                         \* reflexive / unmodified clone
  ELSE IF SameLoads(h1, h2) THEN {TRUE, FALSE}             \* may be finer than extensional equality
  ELSE {FALSE}                                             \* equality implies identical loads
=============================================================================
