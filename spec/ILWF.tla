-------------------------------- MODULE ILWF --------------------------------
(***************************************************************************)
(* C05: what "well-formed, deterministic IL" means for the result of       *)
(* lifting one block (Translator::translate_block).                        *)
(*                                                                         *)
(* Operation    [k |-> "assign", dst |-> scalar, src |-> expr]             *)
(*              [k |-> "store",  idx |-> expr, src |-> expr]               *)
(*              [k |-> "load",   dst |-> scalar, idx |-> expr]             *)
(*              [k |-> "branch", target |-> expr]                          *)
(*              [k |-> "intrinsic", mn, args |-> <<expr>>,                 *)
(*                  written, read |-> [k |-> "none"] or [k |-> "some", l]] *)
(*              [k |-> "nop"]                                              *)
(* Graph        [blocks |-> <<[i |-> index, ops |-> <<op>>]>>,             *)
(*               edges  |-> <<[h |-> head, t |-> tail, c |-> guard]>>,     *)
(*               entry, exit |-> block index or -1]                        *)
(*              a guard is an expression or [k |-> "none"] (unconditional) *)
(* Lift         [ins  |-> <<graph>>,  one graph per native instruction     *)
(*               succ |-> <<[c |-> guard]>>] successors of the block       *)
(*                                                                         *)
(* The property demands widths "the operation requires", not the word size *)
(* of the architecture: a 32-bit effective address in 64-bit mode is       *)
(* legitimate, so addresses and branch targets may be 1..64 bits wide.     *)
(***************************************************************************)
EXTENDS IL

(* ------------------------------- sorts --------------------------------- *)
(* SortW(e): the width of e when e obeys the width rules of the IL, 0 otherwise.  One pass  *)
(* over the tree (IL!WellFormedExpr re-computes IL!Bits at every level); MC_ILWF checks     *)
(* SortW(e) = IF WellFormedExpr(e) THEN Bits(e) ELSE 0 on a small universe of expressions.   *)
RECURSIVE SortW(_)
SortW(e) ==
  CASE e.k = "scalar" -> IF e.w >= 1 THEN e.w ELSE 0
    [] e.k = "const"  -> IF e.w >= 1 /\ IsBV(e.w, e.v) THEN e.w ELSE 0
    [] e.k \in ArithOps ->
         LET a == TLCEval(SortW(e.a)) IN
         IF a = 0 THEN 0 ELSE IF SortW(e.b) = a THEN a ELSE 0
    [] e.k \in CmpOps ->
         LET a == TLCEval(SortW(e.a)) IN
         IF a = 0 THEN 0 ELSE IF SortW(e.b) = a THEN 1 ELSE 0
    [] e.k \in {"zext", "sext"} ->
         LET a == TLCEval(SortW(e.a)) IN IF a # 0 /\ a < e.w THEN e.w ELSE 0
    [] e.k = "trun" ->
         LET a == TLCEval(SortW(e.a)) IN IF a # 0 /\ e.w >= 1 /\ e.w < a THEN e.w ELSE 0
    [] e.k = "ite" ->
         LET a == TLCEval(SortW(e.a)) IN
         IF a = 0 THEN 0 ELSE IF SortW(e.c) = 1 /\ SortW(e.b) = a THEN a ELSE 0
    [] OTHER -> 0
WellSorted(e) == SortW(e) # 0

(* ----------------------------- operations ------------------------------ *)
AddrWidth(w) == w >= 1 /\ w <= 64
ByteWidth(w) == w >= 8 /\ w % 8 = 0

OptExprs(x) == IF x.k = "none" THEN <<>> ELSE x.l
AllWF(s)    == \A i \in 1..Len(s) : WellSorted(s[i])

WellFormedOp(op) ==
  CASE op.k = "assign" -> op.dst.w >= 1 /\ SortW(op.src) = op.dst.w
    [] op.k = "store"  -> AddrWidth(SortW(op.idx)) /\ ByteWidth(SortW(op.src))
    [] op.k = "load"   -> AddrWidth(SortW(op.idx)) /\ ByteWidth(op.dst.w)
    [] op.k = "branch" -> AddrWidth(SortW(op.target))
    [] op.k = "intrinsic" -> /\ AllWF(op.args) /\ AllWF(OptExprs(op.written))
                             /\ AllWF(OptExprs(op.read))
    [] op.k = "nop"    -> TRUE
    [] OTHER           -> FALSE

\* which clause of WellFormedOp fails (diagnosis only)
OpWhy(op) ==
  CASE op.k = "assign" ->
         IF ~WellSorted(op.src) THEN [clause |-> "expr-sort"]
         ELSE [clause |-> "assign-width", dst |-> op.dst.n, dstw |-> op.dst.w, srcw |-> SortW(op.src)]
    [] op.k = "store"  ->
         IF ~(WellSorted(op.idx) /\ WellSorted(op.src)) THEN [clause |-> "expr-sort"]
         ELSE IF ~AddrWidth(SortW(op.idx)) THEN [clause |-> "addr-width", w |-> SortW(op.idx)]
         ELSE [clause |-> "store-width", w |-> SortW(op.src)]
    [] op.k = "load"   ->
         IF ~WellSorted(op.idx) THEN [clause |-> "expr-sort"]
         ELSE IF ~AddrWidth(SortW(op.idx)) THEN [clause |-> "addr-width", w |-> SortW(op.idx)]
         ELSE [clause |-> "load-width", dst |-> op.dst.n, w |-> op.dst.w]
    [] op.k = "branch" ->
         IF ~WellSorted(op.target) THEN [clause |-> "expr-sort"]
         ELSE [clause |-> "branch-width", w |-> SortW(op.target)]
    [] op.k = "intrinsic" -> [clause |-> "expr-sort"]
    [] OTHER -> [clause |-> "unknown-operation"]

(* ------------------------------- guards -------------------------------- *)
IsNone(c)  == c.k = "none"
\* a guard has to be a well-sorted 1-bit expression
WellFormedGuard(c) == IsNone(c) \/ SortW(c) = 1

True1 == <<1>>
Enabled(c, env) ==
  IsNone(c) \/ LET r == Eval(c, env) IN IsOk(r) /\ r.ok.w = 1 /\ r.ok.v = True1

NumEnabled(gs, env) == Cardinality({ i \in 1..Len(gs) : Enabled(gs[i], env) })
\* lo = 1: exactly one guard enabled;  lo = 0: at most one
OneOf(gs, env, lo) == NumEnabled(gs, env) \in lo..1

\* <<name, width>> of the scalars of a sequence of guards, as a sequence without repetition
GuardScalarSet(gs) ==
  UNION { IF IsNone(gs[i]) THEN {} ELSE { <<s[1], s[2]>> : s \in Scalars(gs[i]) } : i \in 1..Len(gs) }
RECURSIVE SeqOfSet(_)
SeqOfSet(S) == IF S = {} THEN <<>> ELSE LET x == CHOOSE x \in S : TRUE IN <<x>> \o SeqOfSet(S \ {x})
RECURSIVE SumW(_)
SumW(sc) == IF sc = <<>> THEN 0 ELSE sc[1][2] + SumW(Tail(sc))

EnvOf(sc, vals) ==
  [nm \in { sc[i][1] : i \in 1..Len(sc) } |->
     LET i == CHOOSE i \in 1..Len(sc) : sc[i][1] = nm IN vals[i]]

\* the n-th valuation of sc (n < 2^SumW(sc) <= 2^12): bit slices of n
RECURSIVE NthVals(_,_)
NthVals(sc, n) ==
  IF sc = <<>> THEN <<>>
  ELSE LET w == sc[1][2] IN <<Val(w, FromNat(w, n % 2^w))>> \o NthVals(Tail(sc), n \div 2^w)

\* boundary values of a width; fewer per scalar when there are many scalars
Boundary(w, k) ==
  IF w = 1 THEN {Zero(1), One(1)}
  ELSE IF k <= 4 THEN {Zero(w), One(w), Ones(w), Shl(w, One(w), w - 1), Shr(w, Ones(w), 1)}
  ELSE IF k <= 7 THEN {Zero(w), One(w), Ones(w)}
  ELSE {Zero(w), Ones(w)}
RECURSIVE BoundaryVals(_,_)
BoundaryVals(sc, k) ==
  IF sc = <<>> THEN {<<>>}
  ELSE LET w == sc[1][2]  rest == BoundaryVals(Tail(sc), k)
       IN { <<Val(w, v)>> \o t : v \in Boundary(w, k), t \in rest }

\* valuations supplied with the observation: rows <<[n |-> name, val |-> value]>>; only rows
\* that give every scalar of sc a value of its width are used
RowCovers(row, sc) ==
  \A i \in 1..Len(sc) : \E j \in 1..Len(row) :
     row[j].n = sc[i][1] /\ row[j].val.w = sc[i][2] /\ IsBV(row[j].val.w, row[j].val.v)
RowEnv(row) == [nm \in { row[j].n : j \in 1..Len(row) } |->
                  LET j == CHOOSE j \in 1..Len(row) : row[j].n = nm IN row[j].val]

(* The complement rule: two guards one of which is syntactically the negation of the other  *)
(* are exclusive and exhaustive for EVERY valuation under which they evaluate (MC_ILWF      *)
(* checks this from BV/IL by enumeration).                                                   *)
IsConst1(e, b) == e.k = "const" /\ e.w = 1 /\ e.v = <<b>>
NegatedBy(h, g) ==      \* h is a negation of the 1-bit expression g
  \/ /\ h.k \in {"cmpeq", "cmpneq", "xor"}
     /\ LET b == IF h.k = "cmpeq" THEN 0 ELSE 1 IN
        \/ (SameExpr(h.a, g) /\ IsConst1(h.b, b))
        \/ (SameExpr(h.b, g) /\ IsConst1(h.a, b))
  \/ /\ g.k = "cmpeq" /\ h.k = "cmpneq"
     /\ \/ (SameExpr(g.a, h.a) /\ SameExpr(g.b, h.b))
        \/ (SameExpr(g.a, h.b) /\ SameExpr(g.b, h.a))
ComplementPair(gs) ==
  /\ Len(gs) = 2 /\ ~IsNone(gs[1]) /\ ~IsNone(gs[2])
  /\ NegatedBy(gs[2], gs[1]) \/ NegatedBy(gs[1], gs[2])

ExhaustiveLimit == 12

(* Exactly one guard of gs (lo = 1; at most one for lo = 0) is enabled under every valuation *)
(* considered: all valuations when the guards mention at most 12 bits; otherwise the         *)
(* complement rule, or (bounded) the boundary product set and the valuations rv recorded     *)
(* with the observation.                                                                     *)
GuardsOneOf(gs, rv, lo) ==
  LET sc == TLCEval(SeqOfSet(GuardScalarSet(gs)))
      bits == SumW(sc)
  IN IF bits <= ExhaustiveLimit
     THEN \A n \in 0..(2^bits - 1) :
            LET env == TLCEval(EnvOf(sc, NthVals(sc, n))) IN OneOf(gs, env, lo)
     ELSE \/ ComplementPair(gs)
          \/ /\ \A vals \in BoundaryVals(sc, Len(sc)) :
                  LET env == TLCEval(EnvOf(sc, vals)) IN OneOf(gs, env, lo)
             /\ \A r \in 1..Len(rv) :
                  RowCovers(rv[r], sc) =>
                    LET env == TLCEval(RowEnv(rv[r])) IN OneOf(gs, env, lo)
GuardsDeterministic(gs, rv) == GuardsOneOf(gs, rv, 1)

\* a witness valuation for the diagnosis
GuardsWitness(gs, rv, lo) ==
  LET sc == SeqOfSet(GuardScalarSet(gs))
      bits == SumW(sc)
      show(env) == [enabled |-> NumEnabled(gs, env),
                    at |-> [i \in 1..Len(sc) |-> [n |-> sc[i][1], val |-> env[sc[i][1]]]]]
  IN IF bits <= ExhaustiveLimit
     THEN LET n == CHOOSE n \in 0..(2^bits - 1) : ~OneOf(gs, EnvOf(sc, NthVals(sc, n)), lo)
          IN show(EnvOf(sc, NthVals(sc, n)))
     ELSE IF \E vals \in BoundaryVals(sc, Len(sc)) : ~OneOf(gs, EnvOf(sc, vals), lo)
     THEN LET vals == CHOOSE vals \in BoundaryVals(sc, Len(sc)) : ~OneOf(gs, EnvOf(sc, vals), lo)
          IN show(EnvOf(sc, vals))
     ELSE LET r == CHOOSE r \in 1..Len(rv) : RowCovers(rv[r], sc) /\ ~OneOf(gs, RowEnv(rv[r]), lo)
          IN show(RowEnv(rv[r]))

(* ------------------------------- graphs -------------------------------- *)
BlockIds(g)   == { g.blocks[i].i : i \in 1..Len(g.blocks) }
OutEdges(g, b) == SelectSeq(g.edges, LAMBDA e : e.h = b)
OutGuards(g, b) == LET oe == OutEdges(g, b) IN [i \in 1..Len(oe) |-> oe[i].c]
SuccOf(g, b)  == { g.edges[i].t : i \in { i \in 1..Len(g.edges) : g.edges[i].h = b } }

RECURSIVE ReachFrom(_,_,_)
ReachFrom(g, S, F) ==
  IF F = {} THEN S
  ELSE LET N == (UNION { SuccOf(g, v) : v \in F }) \ S IN ReachFrom(g, S \cup N, N)
\* blocks reachable from the entry along edges between existing blocks
Reach(g) == ReachFrom(g, {g.entry}, {g.entry})

BlocksDistinct(g) == Cardinality(BlockIds(g)) = Len(g.blocks)
OpsWF(g)       == \A i \in 1..Len(g.blocks) : \A j \in 1..Len(g.blocks[i].ops) : WellFormedOp(g.blocks[i].ops[j])
EdgeEndsExist(g) == \A i \in 1..Len(g.edges) : g.edges[i].h \in BlockIds(g) /\ g.edges[i].t \in BlockIds(g)
GuardsWF(g)    == \A i \in 1..Len(g.edges) : WellFormedGuard(g.edges[i].c)
EntryExit(g)   == g.entry \in BlockIds(g) /\ g.exit \in BlockIds(g)
ExitReachable(g) == g.exit \in Reach(g)

(* Out-edges of one block that can be reached from the entry ("in every state": no state is *)
(* ever at an unreachable block, so a stray unreachable block is not judged here).          *)
(* A block without out-edges has to be the exit (control leaves                             *)
(* the instruction there).  The exit itself may have out-edges (the statement does not      *)
(* exclude a loop whose head is also where the instruction is left; the edge to the next    *)
(* instruction is only added when graphs are joined): then at most one may be enabled.      *)
BlockLo(g, b) == IF b = g.exit THEN 0 ELSE 1
BlockDeterministic(g, b, rv) ==
  LET gs == OutGuards(g, b) IN
  IF Len(gs) = 0 THEN b = g.exit ELSE GuardsOneOf(gs, rv, BlockLo(g, b))

WellFormedCfg(g, rv) ==
  /\ BlocksDistinct(g)
  /\ OpsWF(g)
  /\ EdgeEndsExist(g)
  /\ GuardsWF(g)
  /\ EntryExit(g)
  /\ ExitReachable(g)
  /\ \A b \in Reach(g) : BlockDeterministic(g, b, rv)

(* -------------------------------- lift --------------------------------- *)
SuccGuards(res) == [i \in 1..Len(res.succ) |-> res.succ[i].c]
\* a block ending in a return or an indirect branch has no static successor
SuccessorsDeterministic(res, rv) ==
  \/ Len(res.succ) = 0
  \/ /\ \A i \in 1..Len(res.succ) : WellFormedGuard(res.succ[i].c)
     /\ GuardsDeterministic(SuccGuards(res), rv)

WellFormedLift(res, rv) ==
  /\ \A i \in 1..Len(res.ins) : WellFormedCfg(res.ins[i], rv)
  /\ SuccessorsDeterministic(res, rv)
=============================================================================
