----------------------------- MODULE FixedPoint -----------------------------
(***************************************************************************)
(* C09: a work-list data-flow solver as chaotic iteration, and the least   *)
(* solution of the data-flow equations defined independently of it.        *)
(*                                                                         *)
(* A problem P is a record                                                 *)
(*   n      number of locations; locations are 1..n                        *)
(*   pred   pred[l] : sequence of the locations whose states are joined    *)
(*          into the input of l  (forward solver: predecessors; backward   *)
(*          solver: successors - the trace gives them already oriented)    *)
(*   succ   succ[l] : sequence of the locations to re-examine when the     *)
(*          state of l changes                                             *)
(*   start  the seed location (0: there is none - no entry / no exit)      *)
(*   lat    name of a finite lattice (below)                               *)
(*   tab    transfer table: tab[l][x + 2] = trans(l, x) for x in           *)
(*          None (= -1: "no input", the first row) and the lattice         *)
(*          elements 0..K-1                                                *)
(*   force  the solver's force flag                                        *)
(*                                                                         *)
(* Lattice elements are small integers.  Maps location -> state are total  *)
(* functions into the lattice lifted with None as a new bottom ("partial   *)
(* map": Dom(m) is the set of locations that have a state).                *)
(***************************************************************************)
EXTENDS Integers, Sequences, FiniteSets, TLC

None == -1
SeqSet(q) == { q[i] : i \in 1..Len(q) }

-----------------------------------------------------------------------------
(* Finite lattices.  powN: subsets of an N-set as bit masks; flatN: bottom *)
(* 0, constants 1..N, top N+1; chain3: 0 < 1 < 2.                          *)

LatNames == {"pow1", "pow2", "flat2", "pow3", "flat3", "chain3"}

Elems(lat) == CASE lat = "pow1"   -> 0..1
                [] lat = "pow2"   -> 0..3
                [] lat = "flat2"  -> 0..3
                [] lat = "pow3"   -> 0..7
                [] lat = "flat3"  -> 0..4
                [] lat = "chain3" -> 0..2
ElemsO(lat) == Elems(lat) \cup {None}

Bit(x, i) == (x \div 2^i) % 2

LeqDef(lat, x, y) ==
  CASE lat \in {"pow1", "pow2", "pow3"} -> \A i \in 0..2 : Bit(x, i) <= Bit(y, i)
    [] lat = "flat2"            -> x = y \/ x = 0 \/ y = 3
    [] lat = "flat3"            -> x = y \/ x = 0 \/ y = 4
    [] lat = "chain3"           -> x <= y

\* the order as a relation, one constant per lattice (TLC evaluates a constant once)
RelOf(lat) == { p \in Elems(lat) \X Elems(lat) : LeqDef(lat, p[1], p[2]) }
RelPow1 == RelOf("pow1")  RelPow2 == RelOf("pow2")  RelPow3 == RelOf("pow3")
RelFlat2 == RelOf("flat2")  RelFlat3 == RelOf("flat3")  RelChain3 == RelOf("chain3")
Rel(lat) == CASE lat = "pow2" -> RelPow2 [] lat = "flat2" -> RelFlat2 [] lat = "pow3" -> RelPow3
              [] lat = "flat3" -> RelFlat3 [] lat = "chain3" -> RelChain3 [] lat = "pow1" -> RelPow1
Leq(lat, x, y) == <<x, y>> \in Rel(lat)

\* length of the longest strictly ascending chain, minus one
Height(lat) == CASE lat = "pow1" -> 1 [] lat = "pow2" -> 2 [] lat = "flat2" -> 2 [] lat = "pow3" -> 3
                 [] lat = "flat3" -> 2 [] lat = "chain3" -> 2

\* least upper bound of a set of elements, declaratively; None for the empty set
Lub(lat, S) ==
  IF S = {} THEN None
  ELSE CHOOSE z \in Elems(lat) :
         /\ \A s \in S : Leq(lat, s, z)
         /\ \A u \in Elems(lat) : (\A s \in S : Leq(lat, s, u)) => Leq(lat, z, u)
Join(lat, x, y) == Lub(lat, {x, y})

\* the lifted order: None below everything
LeqO(lat, x, y) == x = None \/ (y # None /\ Leq(lat, x, y))
JoinO(lat, x, y) == IF x = None THEN y ELSE IF y = None THEN x ELSE Join(lat, x, y)

-----------------------------------------------------------------------------
(* The data-flow equations of a problem *)

Locs(P)    == 1..P.n
Pred(P, l) == SeqSet(P.pred[l])
Succ(P, l) == SeqSet(P.succ[l])
T(P, l, x) == P.tab[l][x + 2]

Dom(m) == { l \in DOMAIN m : m[l] # None }
Empty(P) == [l \in Locs(P) |-> None]

\* input of l under the map m: join of the states of those predecessors that have one
In(P, m, l) == Lub(P.lat, { m[p] : p \in { q \in Pred(P, l) : m[q] # None } })
\* right-hand side of the equation at l
Rhs(P, m, l) == T(P, l, In(P, m, l))

RECURSIVE ReachFrom(_,_,_)
ReachFrom(P, S, Fr) ==
  IF Fr = {} THEN S
  ELSE LET N == (UNION { Succ(P, v) : v \in Fr }) \ S IN ReachFrom(P, TLCEval(S \cup N), TLCEval(N))
Reach(P) == IF P.start = 0 THEN {} ELSE ReachFrom(P, {P.start}, {P.start})

\* "returns a state for exactly the locations reachable from the entry (exit), each equal to
\*  the transfer function applied to the join of the states of its predecessors (successors)"
IsSolution(P, m) ==
  /\ Dom(m) = Reach(P)
  /\ \A l \in Reach(P) : m[l] = Rhs(P, m, l)

\* what the solver promises with the force flag on a non-monotone analysis: the states were
\* joined upwards, so each state is *above* the transfer of its input (an inductive solution
\* of the inequations, the usual soundness condition), not necessarily equal to it
IsPostSolution(P, m) ==
  /\ Dom(m) = Reach(P)
  /\ \A l \in Reach(P) : Leq(P.lat, Rhs(P, m, l), m[l])

\* Monotonicity of the analysis where it matters: on the reachable locations; the "no input"
\* row is the bottom of the lifted lattice and is only ever used at the start location.
Monotone(P) ==
  \A l \in Reach(P) :
    /\ \A x, y \in Elems(P.lat) : Leq(P.lat, x, y) => Leq(P.lat, T(P, l, x), T(P, l, y))
    /\ l = P.start => \A y \in Elems(P.lat) : Leq(P.lat, T(P, l, None), T(P, l, y))

-----------------------------------------------------------------------------
(* The least solution, by Kleene iteration over whole maps from the empty map:           *)
(* F(m)[l] is the right-hand side at l if l is the start or some predecessor has a       *)
(* state, and "no state" otherwise.  For a monotone table F is monotone on the lifted    *)
(* maps, the iterates ascend and stabilise after at most n * (Height + 1) rounds; the    *)
(* round limit only keeps the definition total for non-monotone tables (where LFP is     *)
(* not used).                                                                            *)

Live(P, m, l) == l = P.start \/ \E q \in Pred(P, l) : m[q] # None
F(P, m) == [l \in Locs(P) |-> IF Live(P, m, l) THEN Rhs(P, m, l) ELSE None]

RECURSIVE Kleene(_,_,_)
Kleene(P, m, k) ==
  LET m2 == TLCEval(F(P, m)) IN
  IF m2 = m \/ k = 0 THEN m2 ELSE Kleene(P, m2, k - 1)
LFP(P) == IF P.start = 0 THEN Empty(P) ELSE Kleene(P, Empty(P), P.n * (Height(P.lat) + 1) + 1)

-----------------------------------------------------------------------------
(* The solver: chaotic iteration.  s = [st, dirty, oc]; oc = "run" or "ErrOrdering".     *)
(* Process(l) for any l in dirty (the FIFO work list with de-duplication of the code is  *)
(* one schedule).  Re-examining a location that has a state but is not dirty is also a   *)
(* step of chaotic iteration (it cannot change the state when force is off).             *)

InitState(P) == [st |-> Empty(P), dirty |-> IF P.start = 0 THEN {} ELSE {P.start}, oc |-> "run"]

Step(P, s, l) ==
  LET out  == Rhs(P, s.st, l)
      old  == s.st[l]
      rest == s.dirty \ {l}
      Upd(v) == [st |-> [s.st EXCEPT ![l] = v], dirty |-> rest \cup Succ(P, l), oc |-> "run"]
      Same   == [st |-> s.st, dirty |-> rest, oc |-> "run"]
  IN IF old = None THEN Upd(out)
     ELSE IF out = old THEN Same
     ELSE IF Leq(P.lat, old, out) THEN Upd(out)
     ELSE IF P.force
          THEN LET j == Join(P.lat, out, old) IN IF j = old THEN Same ELSE Upd(j)
          ELSE [st |-> s.st, dirty |-> s.dirty, oc |-> "ErrOrdering"]

CanProcess(P, s, l) == s.oc = "run" /\ l \in s.dirty
CanRevisit(P, s, l) == s.oc = "run" /\ l \notin s.dirty /\ s.st[l] # None
Done(s) == s.oc = "run" /\ s.dirty = {}

\* Any schedule that de-duplicates its work list makes at most this many Process steps: a
\* location enters the work list once as the start, and otherwise only when the state of a
\* predecessor changed, which happens at most Height + 1 times per location.
NumEdges(P) == LET R == Reach(P) IN Cardinality({ <<a, b>> \in R \X R : b \in Succ(P, a) })
Bound(P) == 1 + (Height(P.lat) + 1) * NumEdges(P)

-----------------------------------------------------------------------------
(* Judging an outcome of the real solver (used by Trace_C09; MC_FixedPoint checks that   *)
(* every outcome of the model is judged acceptable).  res is {"ok": map} | {"err": name} *)
(* | {"panic": ..}; budget is max_analysis_steps or -1 if the call had none; nt is the   *)
(* number of trans calls made.  The result is "" (acceptable) or the reason.             *)

JudgeM(P, budget, nt, res, mono) ==      \* mono = Monotone(P), evaluated by the caller once
  IF ~("ok" \in DOMAIN res \/ "err" \in DOMAIN res) THEN "the solver panicked or hung"
  ELSE IF P.start = 0
  THEN IF "err" \in DOMAIN res \/ res.ok = Empty(P) THEN "" ELSE "states without an entry/exit"
  ELSE IF "err" \in DOMAIN res
  THEN CASE res.err = "FixedPointMaxSteps" ->
              IF budget < 0 THEN "FixedPointMaxSteps from a call without a step budget"
              ELSE IF nt < budget THEN "FixedPointMaxSteps before the budget was used"
              ELSE IF mono /\ budget >= Bound(P)
                   THEN "FixedPointMaxSteps although the budget suffices for every schedule"
              ELSE ""
         [] res.err = "Diverged" -> "no result within the recorder's cap on trans calls"
         [] OTHER -> IF mono THEN "error for a monotone analysis" ELSE ""
  \* "if a step budget is exhausted it returns an error": the code tests the budget before each step and counts
  \* from zero, so at most budget + 1 transfer calls can precede a result
  ELSE IF budget >= 0 /\ nt > budget + 1 THEN "a result although the step budget was exhausted"
  ELSE IF mono THEN (IF res.ok = LFP(P) THEN "" ELSE "not the least solution")
  ELSE IF P.force THEN (IF IsPostSolution(P, res.ok) THEN "" ELSE "forced result is not a post-solution")
  ELSE IF IsSolution(P, res.ok) THEN "" ELSE "result is not a solution of the equations"
Judge(P, budget, nt, res) == JudgeM(P, budget, nt, res, Monotone(P))
=============================================================================
