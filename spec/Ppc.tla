-------------------------------- MODULE Ppc ---------------------------------
(***************************************************************************)
(* 32-bit PowerPC (big endian, user instruction set architecture /         *)
(* Power ISA Book I) as far as falcon's PPC lifter dispatches it, plus the *)
(* closest relatives (cmpw/cmplw, stb, or/ori, slw/srw, mfctr) so that an  *)
(* extension of the lifter is judged at once.                              *)
(*                                                                         *)
(*   PDecode(w)        raw word -> record of fields + mnemonic             *)
(*   PExec(d, st, pc)  sequence of allowed outcomes (Isa.tla)              *)
(*                                                                         *)
(* Bits are numbered as in the manual: bit 0 is the most significant.      *)
(* State: [gpr |-> 32 values (index r+1), lr, ctr, ca (XER[CA], 0/1),      *)
(* cr |-> 32 bits (index = CR bit + 1: 1 = cr0 lt, 2 = cr0 gt, 3 = cr0 eq,  *)
(* 4 = cr0 so, 5 = cr1 lt ...), mem, win].                                 *)
(* XER[SO] and XER[OV] are not part of the state (the lifter has no such   *)
(* scalar): the SO bit a compare or a record form copies into a CR field   *)
(* is a don't-care, and OE = 1 forms are "unspec".  Invalid forms (lwzu    *)
(* with RA = 0 or RA = RT, stwu with RA = 0, bcctr with a CTR-decrementing *)
(* BO, reserved bits set) and alignment-sensitive cases (stmw at an        *)
(* unaligned address) are "unspec".                                        *)
(***************************************************************************)
EXTENDS Isa

\* ---- fields (w = <<b0,b1,b2,b3>>, b3 = first byte in memory = bits 0..7) ---------------
PWord(raw) == <<raw[4], raw[3], raw[2], raw[1]>>
POp(w)   == w[4] \div 4                                     \* bits 0..5
PRt(w)   == (w[4] % 4) * 8 + w[3] \div 32                   \* bits 6..10   (RT / RS / BO)
PRa(w)   == w[3] % 32                                       \* bits 11..15  (RA / BI)
PRb(w)   == w[2] \div 8                                     \* bits 16..20  (RB / SH)
PXo(w)   == ((w[2] % 8) * 256 + w[1]) \div 2                \* bits 21..30
PXo9(w)  == ((w[2] % 4) * 256 + w[1]) \div 2                \* bits 22..30  (XO-form)
POe(w)   == (w[2] % 8) \div 4                               \* bit 21
PRc(w)   == w[1] % 2                                        \* bit 31  (Rc / LK)
PAa(w)   == (w[1] \div 2) % 2                               \* bit 30
PMb(w)   == (w[2] % 8) * 4 + w[1] \div 64                   \* bits 21..25
PMe(w)   == (w[1] % 64) \div 2                              \* bits 26..30
PImm(w)  == <<w[1], w[2]>>                                  \* bits 16..31

PMn(w) ==
  LET op == POp(w)  xo == PXo(w)  rc == PRc(w) IN
  CASE op = 10 -> "cmplwi"
    [] op = 11 -> "cmpwi"
    [] op = 14 -> "addi"
    [] op = 15 -> "addis"
    [] op = 16 -> "bc"
    [] op = 18 -> "b"
    [] op = 19 /\ xo = 16  /\ PRb(w) = 0 -> "bclr"
    [] op = 19 /\ xo = 528 /\ PRb(w) = 0 -> "bcctr"
    [] op = 21 -> "rlwinm"
    [] op = 24 -> "ori"
    [] op = 31 /\ xo = 0   /\ rc = 0 -> "cmpw"
    [] op = 31 /\ xo = 32  /\ rc = 0 -> "cmplw"
    [] op = 31 /\ PXo9(w) = 266 -> "add"
    [] op = 31 /\ PXo9(w) = 40  -> "subf"
    [] op = 31 /\ PXo9(w) = 202 /\ PRb(w) = 0 -> "addze"
    [] op = 31 /\ xo = 824 -> "srawi"
    [] op = 31 /\ xo = 444 -> "or"
    [] op = 31 /\ xo = 24  -> "slw"
    [] op = 31 /\ xo = 536 -> "srw"
    [] op = 31 /\ xo = 339 /\ rc = 0 -> "mfspr"
    [] op = 31 /\ xo = 467 /\ rc = 0 -> "mtspr"
    [] op = 32 -> "lwz"
    [] op = 33 -> "lwzu"
    [] op = 34 -> "lbz"
    [] op = 36 -> "stw"
    [] op = 37 -> "stwu"
    [] op = 38 -> "stb"
    [] op = 47 -> "stmw"
    [] OTHER   -> "?"

PDecode(w) == [mn |-> PMn(w), rt |-> PRt(w), ra |-> PRa(w), rb |-> PRb(w), rc |-> PRc(w), oe |-> POe(w),
               aa |-> PAa(w), mb |-> PMb(w), me |-> PMe(w), imm |-> PImm(w), w |-> w]

\* ---- registers and condition register --------------------------------------------------
PR(st, r)    == st.gpr[r + 1]
PR0(st, r)   == IF r = 0 THEN Zero(32) ELSE st.gpr[r + 1]           \* (RA|0)
PW(st, r, v) == [st EXCEPT !.gpr[r + 1] = TLCEval(v)]
PSImm(d)     == Sext(16, 32, d.imm)
PUImm(d)     == Zext(32, d.imm)

\* CR field f (0..7) := lt, gt, eq ; so := XER[SO], which is not modelled (don't-care "cr<f>so")
SetCrField(st, f, lt, gt, eq) ==
  [st EXCEPT !.cr = [i \in 1..32 |-> IF i = 4 * f + 1 THEN BoolBit(lt)
                                     ELSE IF i = 4 * f + 2 THEN BoolBit(gt)
                                     ELSE IF i = 4 * f + 3 THEN BoolBit(eq)
                                     ELSE st.cr[i]]]
CrSoName(f) == "cr" \o ToString(f) \o "so"
CmpS(st, f, a, b) == SetCrField(st, f, Lts(32, a, b), Lts(32, b, a), Eq(32, a, b))
CmpU(st, f, a, b) == SetCrField(st, f, Ltu(32, a, b), Ltu(32, b, a), Eq(32, a, b))
\* record form: CR0 from the result compared with zero as a signed number
Record(d, st, v) == IF d.rc = 1 THEN OkDc(CmpS(st, 0, v, Zero(32)), {CrSoName(0)}) ELSE OkR(st)

\* ---- rotate-and-mask: MASK(mb, me) has ones in PPC bit positions mb..me, wrapping around --
MaskBit(mb, me, i) == IF mb <= me THEN i >= mb /\ i <= me ELSE i >= mb \/ i <= me     \* PPC bit i
\* value bit v (0 = least significant) is PPC bit 31 - v
RECURSIVE MaskLimb(_, _, _, _)
MaskLimb(mb, me, lo, n) == IF n = 0 THEN 0
                           ELSE BoolBit(MaskBit(mb, me, 31 - lo)) + 2 * MaskLimb(mb, me, lo + 1, n - 1)
Mask32(mb, me) == [j \in 1..4 |-> MaskLimb(mb, me, 8 * (j - 1), 8)]

\* ---- memory ----------------------------------------------------------------------------
PEA(d, st)  == Add(32, PR0(st, d.ra), PSImm(d))
PLoad(st, ea, n)     == Zext(32, ValOf(LoadBytes(st, ea, n), TRUE))
PStore(st, ea, v, n) == StoreBytes(st, ea, BytesOf(Trun(8 * n, v), TRUE))

RECURSIVE Stmw(_, _, _)
Stmw(st, r, ea) == IF r > 31 THEN st ELSE Stmw(TLCEval(PStore(st, ea, PR(st, r), 4)), r + 1, Add(32, ea, N32(4)))

\* ---- branches --------------------------------------------------------------------------
BoBit(bo, i) == (bo \div (2 ^ (4 - i))) % 2                          \* BO[i], i = 0..4, BO[0] most significant
BoValid(bo)  ==                                                      \* the z bits must be zero
  \/ bo \div 2 \in {0, 1, 4, 5}                                      \* 0000y 0001y 0100y 0101y
  \/ bo \div 2 \in {2, 6}                                            \* 001zy 011zy with z = 0
  \/ bo \in {16, 17, 18, 19}                                         \* 1z00y 1z01y with z = 0
  \/ bo = 20                                                         \* 1z1zz with z = 0
\* returns [ctr (new), taken]
BranchCond(st, bo, bi) ==
  LET dec    == BoBit(bo, 2) = 0
      ctr1   == IF dec THEN Sub(32, st.ctr, One(32)) ELSE st.ctr
      ctrok  == ~dec \/ ((~IsZero(ctr1)) # (BoBit(bo, 3) = 1))
      condok == BoBit(bo, 0) = 1 \/ st.cr[bi + 1] = BoBit(bo, 1)
  IN [ctr |-> ctr1, taken |-> ctrok /\ condok]
Next4(pc)  == Add(32, pc, N32(4))
LinkIf(st, lk, pc) == IF lk = 1 THEN [st EXCEPT !.lr = Next4(pc)] ELSE st
Npc(r, npc) == [r EXCEPT !.npc = npc]

\* ---- execute ---------------------------------------------------------------------------
PExec(d, st, pc) ==
  LET mn == d.mn  nx == Next4(pc)
      seq(r) == <<IF r.k = "unspec" THEN r ELSE Npc(r, nx)>> IN
  CASE mn = "addi"   -> seq(OkR(PW(st, d.rt, Add(32, PR0(st, d.ra), PSImm(d)))))
    [] mn = "addis"  -> seq(OkR(PW(st, d.rt, Add(32, PR0(st, d.ra), Shl(32, PUImm(d), 16)))))
    [] mn = "add"    -> IF d.oe = 1 THEN seq(UnspecR("OE = 1: XER[OV,SO] are not modelled")) ELSE
                        LET v == Add(32, PR(st, d.ra), PR(st, d.rb)) IN seq(Record(d, PW(st, d.rt, v), v))
    [] mn = "subf"   -> IF d.oe = 1 THEN seq(UnspecR("OE = 1: XER[OV,SO] are not modelled")) ELSE
                        LET v == Sub(32, PR(st, d.rb), PR(st, d.ra)) IN seq(Record(d, PW(st, d.rt, v), v))
    [] mn = "addze"  -> IF d.oe = 1 THEN seq(UnspecR("OE = 1: XER[OV,SO] are not modelled")) ELSE
                        LET a == PR(st, d.ra)
                            v == AddCin(32, a, Zero(32), st.ca)
                            c == CarryOut(32, a, Zero(32), st.ca)
                        IN seq(Record(d, [PW(st, d.rt, v) EXCEPT !.ca = c], v))
    [] mn = "srawi"  -> LET s == PR(st, d.rt)  n == d.rb
                            v == AShr(32, s, n)
                            lost == ~IsZero(BvAnd(32, s, LowMask(n)))
                            c == BoolBit(Msb(32, s) = 1 /\ lost)
                        IN seq(Record(d, [PW(st, d.ra, v) EXCEPT !.ca = c], v))
    [] mn = "rlwinm" -> LET v == BvAnd(32, Rotl32(PR(st, d.rt), d.rb), Mask32(d.mb, d.me))
                        IN seq(Record(d, PW(st, d.ra, v), v))
    [] mn = "ori"    -> seq(OkR(PW(st, d.ra, BvOr(32, PR(st, d.rt), PUImm(d)))))
    [] mn = "or"     -> LET v == BvOr(32, PR(st, d.rt), PR(st, d.rb)) IN seq(Record(d, PW(st, d.ra, v), v))
    [] mn = "slw"    -> LET n == Low(PR(st, d.rb), 6)  v == IF n >= 32 THEN Zero(32) ELSE Shl(32, PR(st, d.rt), n)
                        IN seq(Record(d, PW(st, d.ra, v), v))
    [] mn = "srw"    -> LET n == Low(PR(st, d.rb), 6)  v == IF n >= 32 THEN Zero(32) ELSE Shr(32, PR(st, d.rt), n)
                        IN seq(Record(d, PW(st, d.ra, v), v))
    [] mn \in {"cmpwi", "cmplwi", "cmpw", "cmplw"} ->
         LET f == d.rt \div 4 IN
         IF d.rt % 4 # 0 THEN seq(UnspecR("compare with L = 1 or a reserved bit set"))
         ELSE LET a == PR(st, d.ra)
                  r == CASE mn = "cmpwi"  -> CmpS(st, f, a, PSImm(d))
                         [] mn = "cmplwi" -> CmpU(st, f, a, PUImm(d))
                         [] mn = "cmpw"   -> CmpS(st, f, a, PR(st, d.rb))
                         [] mn = "cmplw"  -> CmpU(st, f, a, PR(st, d.rb))
              IN seq(OkDc(r, {CrSoName(f)}))
    [] mn \in {"lwz", "lbz"} ->
         LET ea == PEA(d, st)  n == IF mn = "lwz" THEN 4 ELSE 1 IN
         IF ~InWin(st, ea, n) THEN seq(UnspecR("address outside the data window"))
         ELSE seq(OkR(PW(st, d.rt, PLoad(st, ea, n))))
    [] mn = "lwzu"   -> LET ea == Add(32, PR(st, d.ra), PSImm(d)) IN
                        IF d.ra = 0 \/ d.ra = d.rt THEN seq(UnspecR("invalid form (RA = 0 or RA = RT)"))
                        ELSE IF ~InWin(st, ea, 4) THEN seq(UnspecR("address outside the data window"))
                        ELSE seq(OkR(PW(PW(st, d.rt, PLoad(st, ea, 4)), d.ra, ea)))
    [] mn \in {"stw", "stb"} ->
         LET ea == PEA(d, st)  n == IF mn = "stw" THEN 4 ELSE 1 IN
         IF ~InWin(st, ea, n) THEN seq(UnspecR("address outside the data window"))
         ELSE seq(OkR(PStore(st, ea, PR(st, d.rt), n)))
    [] mn = "stwu"   -> LET ea == Add(32, PR(st, d.ra), PSImm(d)) IN
                        IF d.ra = 0 THEN seq(UnspecR("invalid form (RA = 0)"))
                        ELSE IF ~InWin(st, ea, 4) THEN seq(UnspecR("address outside the data window"))
                        ELSE seq(OkR(PW(PStore(st, ea, PR(st, d.rt), 4), d.ra, ea)))
    [] mn = "stmw"   -> LET ea == PEA(d, st) IN
                        IF ea[1] % 4 # 0 THEN seq(UnspecR("stmw at an unaligned address"))
                        ELSE IF ~InWin(st, ea, 4 * (32 - d.rt)) THEN seq(UnspecR("address outside the data window"))
                        ELSE seq(OkR(Stmw(st, d.rt, ea)))
    [] mn = "mfspr"  -> LET spr == d.rb * 32 + d.ra IN
                        IF spr = 8 THEN seq(OkR(PW(st, d.rt, st.lr)))
                        ELSE IF spr = 9 THEN seq(OkR(PW(st, d.rt, st.ctr)))
                        ELSE seq(UnspecR("special purpose register other than LR / CTR"))
    [] mn = "mtspr"  -> LET spr == d.rb * 32 + d.ra IN
                        IF spr = 8 THEN seq(OkR([st EXCEPT !.lr = PR(st, d.rt)]))
                        ELSE IF spr = 9 THEN seq(OkR([st EXCEPT !.ctr = PR(st, d.rt)]))
                        ELSE seq(UnspecR("special purpose register other than LR / CTR"))
    [] mn = "b"      -> \* LI = bits 6..29
                        LET disp == Sext(26, 32, BvAnd(32, d.w, <<252, 255, 255, 3>>))
                            tgt  == IF d.aa = 1 THEN disp ELSE Add(32, pc, disp)
                        IN <<Npc(OkR(LinkIf(st, d.rc, pc)), tgt)>>
    [] mn = "bc"     -> IF ~BoValid(d.rt) THEN <<UnspecR("invalid BO encoding")>> ELSE
                        LET c    == BranchCond(st, d.rt, d.ra)
                            disp == Sext(16, 32, <<d.imm[1] - (d.imm[1] % 4), d.imm[2]>>)      \* BD || 00
                            tgt  == IF d.aa = 1 THEN disp ELSE Add(32, pc, disp)
                            st1  == LinkIf([st EXCEPT !.ctr = c.ctr], d.rc, pc)
                        IN <<Npc(OkR(st1), IF c.taken THEN tgt ELSE nx)>>
    [] mn = "bclr"   -> IF ~BoValid(d.rt) THEN <<UnspecR("invalid BO encoding")>> ELSE
                        LET c    == BranchCond(st, d.rt, d.ra)
                            st1  == LinkIf([st EXCEPT !.ctr = c.ctr], d.rc, pc)
                        IN <<Npc(OkR(st1), IF c.taken THEN AlignDown4(st.lr) ELSE nx)>>
    [] mn = "bcctr"  -> IF ~BoValid(d.rt) \/ BoBit(d.rt, 2) = 0 THEN <<UnspecR("invalid BO encoding for bcctr")>> ELSE
                        LET c    == BranchCond(st, d.rt, d.ra)
                            st1  == LinkIf(st, d.rc, pc)
                        IN <<Npc(OkR(st1), IF c.taken THEN AlignDown4(st.ctr) ELSE nx)>>
    [] OTHER         -> <<UnspecR("reserved or unknown encoding")>>

PUnit(ws, st, pc) == IF Len(ws) # 1 THEN <<UnspecR("a PPC unit is one word")>> ELSE PExec(PDecode(ws[1]), st, pc)
=============================================================================
