-------------------------------- MODULE A64 --------------------------------
(***************************************************************************)
(* A64 (AArch64) integer instruction semantics for C03: decode of the raw  *)
(* 32-bit instruction word by bit fields and execution of the Arm ARM      *)
(* pseudocode on BV values.  This module is a TRANSCRIPTION of the Arm     *)
(* Architecture Reference Manual (DDI 0487), sections C4 (encoding index)  *)
(* and C6 (instruction pseudocode), plus the shared functions              *)
(* AddWithCarry, ShiftReg, ExtendReg, DecodeBitMasks, ConditionHolds,      *)
(* Mem[] (J1).  It does not look at falcon's decoder (bad64) or lifter.    *)
(*                                                                         *)
(* The word is given as its four bytes, least significant first (A64       *)
(* instructions are little-endian in memory whatever the data endianness), *)
(* i.e. as a 32-bit BV value with LimbBits = 8.                            *)
(*                                                                         *)
(* Architectural state  s:                                                 *)
(*   x     sequence of 31 64-bit values, x[r+1] = Xr                       *)
(*   sp    64-bit value                                                    *)
(*   f     <<N, Z, C, V>> as 0/1                                           *)
(*   q     sequence of 32 128-bit values (SIMD&FP registers) or <<>>       *)
(*   mbase 64-bit address of the data window,  mem  its bytes              *)
(*                                                                         *)
(* Exec(word, pc, big, s) returns                                          *)
(*   [k |-> "ok", s |-> state after, pc |-> next pc, tags |-> ...]  or     *)
(*   [k |-> "unspec", why |-> ..., tags |-> ...]                           *)
(* "unspec" covers: encodings outside the classes below, encodings the     *)
(* manual calls UNDEFINED / unallocated (an exception is outside the IL),  *)
(* CONSTRAINED UNPREDICTABLE cases, accesses that leave the data window    *)
(* (the rest of memory is not modelled).  Such instances are counted and   *)
(* never judged.  Alignment checks (SP, PC, data) are not modelled:        *)
(* SCTLR_ELx.{A,SA} = 0, and a misaligned branch target is simply the next *)
(* pc.  Memory ordering, exclusives monitors and prefetch hints have no    *)
(* effect on the sequential state and are executed as plain accesses/NOP.  *)
(*                                                                         *)
(* Classes: add/sub (immediate, shifted register, extended register, with  *)
(* and without flags), move wide, logical (shifted register, immediate:    *)
(* the MOV aliases live here), load/store (unsigned offset, unscaled,      *)
(* pre/post-index, register offset, pair, ordered, RCpc unscaled, literal; *)
(* general and SIMD&FP scalar registers), branches (B, BL, B.cond, CBZ,    *)
(* CBNZ, TBZ, TBNZ, BR, BLR, RET), NOP/PRFM, and the Advanced SIMD integer *)
(* forms the lifter dispatches under ADD/SUB/MOV: ADD/SUB (vector and      *)
(* scalar), ORR (vector) = MOV, INS, UMOV, DUP (scalar); SVE prefetches.   *)
(***************************************************************************)
EXTENDS BV

(* ------------------------------ fields --------------------------------- *)
\* bits lo .. lo+n-1 of the word as a natural number (n <= 16) / as an n-bit value
F(w, lo, n)  == ToNatCap(Extract(32, w, lo, n), 65536)
FB(w, lo, n) == Extract(32, w, lo, n)

C4  == FromNat(64, 4)
Min(a, b) == IF a < b THEN a ELSE b

\* SignExtend(field : Zeros(z), 64)
SImm(w, lo, n, z) == Sext(n + z, 64, Shl(n + z, Zext(n + z, FB(w, lo, n)), z))

(* ------------------------------ registers ------------------------------ *)
XR(s, r)   == IF r = 31 THEN Zero(64) ELSE s.x[r + 1]          \* X[r]: 31 is the zero register
XSP(s, r)  == IF r = 31 THEN s.sp ELSE s.x[r + 1]              \* 31 is the stack pointer
RegZ(s, r, ds)  == Trun(ds, XR(s, r))                           \* X[r, ds]
RegSP(s, r, ds) == Trun(ds, XSP(s, r))
\* X[r, ds] = v : writes of W registers clear the upper half; X[31] discards
SetX(s, r, v)   == IF r = 31 THEN s ELSE [s EXCEPT !.x[r + 1] = Zext(64, v)]
SetXSP(s, r, v) == IF r = 31 THEN [s EXCEPT !.sp = Zext(64, v)] ELSE [s EXCEPT !.x[r + 1] = Zext(64, v)]

(* ------------------------------ shared functions ----------------------- *)
\* AddWithCarry (J1.3): result and NZCV.  The V formula is the usual sign rule; MC_A64
\* checks the whole record against the integer definitions of the manual.
AddWithCarry(w, x, y, cin) ==
  LET r == AddCin(w, x, y, cin)
  IN [res |-> r,
      f |-> << Msb(w, r),
               IF IsZero(r) THEN 1 ELSE 0,
               CarryOut(w, x, y, cin),
               IF Msb(w, x) = Msb(w, y) /\ Msb(w, r) # Msb(w, x) THEN 1 ELSE 0 >>]

Ror(ds, v, k) == LET a == k % ds IN
                 IF a = 0 THEN v ELSE BvOr(ds, Shr(ds, v, a), Shl(ds, v, ds - a))

\* ShiftReg: 0 LSL, 1 LSR, 2 ASR, 3 ROR
ShiftVal(ds, v, type, amt) ==
  CASE type = 0 -> Shl(ds, v, amt)
    [] type = 1 -> Shr(ds, v, amt)
    [] type = 2 -> AShr(ds, v, amt)
    [] type = 3 -> Ror(ds, v, amt)

\* ExtendReg: option 0..7 = UXTB UXTH UXTW UXTX SXTB SXTH SXTW SXTX, shift 0..4
\*   len = Min(len, N - shift);  Extend(val<len-1:0> : Zeros(shift), N, unsigned)
ExtLen(option) == CASE option % 4 = 0 -> 8 [] option % 4 = 1 -> 16 [] option % 4 = 2 -> 32 [] option % 4 = 3 -> 64
ExtendVal(ds, val, option, shift) ==
  LET len == Min(ExtLen(option), ds - shift)
      low == Trun(len, val)
      ext == IF len = ds THEN low
             ELSE IF option < 4 THEN Zext(ds, low) ELSE Sext(len, ds, low)
  IN Shl(ds, ext, shift)

\* DecodeBitMasks(immN, imms, immr, TRUE): the wmask, or <<>> when UNDEFINED
RECURSIVE HighBit(_,_)
HighBit(v, k) == IF k < 0 THEN -1 ELSE IF (v \div 2^k) % 2 = 1 THEN k ELSE HighBit(v, k - 1)
RECURSIVE Replicate(_,_,_,_)
Replicate(ds, e, esize, k) ==
  IF k * esize >= ds THEN Zero(ds) ELSE BvOr(ds, Shl(ds, e, k * esize), Replicate(ds, e, esize, k + 1))
BitMask(ds, immN, imms, immr) ==
  LET len == HighBit(immN * 64 + (63 - imms), 6) IN
  IF len < 1 THEN <<>> ELSE
  LET levels == 2^len - 1
      S == imms % 2^len
      R == immr % 2^len
      esize == 2^len
  IN IF S = levels \/ esize > ds THEN <<>> ELSE
     LET welem == Shr(ds, Ones(ds), ds - (S + 1))
         emask == Shr(ds, Ones(ds), ds - esize)
         rot   == IF R = 0 THEN welem
                  ELSE BvAnd(ds, BvOr(ds, Shr(ds, welem, R), Shl(ds, welem, esize - R)), emask)
     IN Replicate(ds, rot, esize, 0)

\* ConditionHolds(cond) on f = <<N,Z,C,V>>
CondHolds(cond, f) ==
  LET base == CASE cond \div 2 = 0 -> f[2] = 1
                [] cond \div 2 = 1 -> f[3] = 1
                [] cond \div 2 = 2 -> f[1] = 1
                [] cond \div 2 = 3 -> f[4] = 1
                [] cond \div 2 = 4 -> f[3] = 1 /\ f[2] = 0
                [] cond \div 2 = 5 -> f[1] = f[4]
                [] cond \div 2 = 6 -> f[1] = f[4] /\ f[2] = 0
                [] cond \div 2 = 7 -> TRUE
  IN IF cond % 2 = 1 /\ cond # 15 THEN ~base ELSE base

(* ------------------------------ memory --------------------------------- *)
\* offset of address a in the window (saturated far beyond the window when outside)
Off(s, a) == ToNatCap(Sub(64, a, s.mbase), 100000)
InWin(s, a, n) == Off(s, a) + n <= Len(s.mem)
\* Mem[a, n]: n bytes as an 8n-bit value; big-endian data reverses the bytes
MemRead(s, big, a, n) ==
  LET o == Off(s, a) IN [i \in 1..n |-> IF big THEN s.mem[o + n + 1 - i] ELSE s.mem[o + i]]
MemWrite(s, big, a, n, val) ==
  LET o == Off(s, a) IN
  [s EXCEPT !.mem = [j \in 1..Len(s.mem) |->
                       IF j > o /\ j <= o + n
                       THEN (IF big THEN val[n + 1 - (j - o)] ELSE val[j - o])
                       ELSE s.mem[j]]]

(* ------------------------------ results -------------------------------- *)
Ok(s, pc, tags)    == [k |-> "ok", s |-> s, pc |-> pc, tags |-> tags]
Unspec(why, tags)  == [k |-> "unspec", why |-> why, tags |-> tags]
Seq4(pc) == Add(64, pc, C4)
Str(n) == ToString(n)
AliasTags(d, n, m) == (IF d = n THEN <<"d=n">> ELSE <<>>) \o (IF d = m THEN <<"d=m">> ELSE <<>>)
                      \o (IF n = m THEN <<"n=m">> ELSE <<>>)
ExtName(o) == <<"UXTB", "UXTH", "UXTW", "UXTX", "SXTB", "SXTH", "SXTW", "SXTX">>[o + 1]
ShName(t)  == <<"LSL", "LSR", "ASR", "ROR">>[t + 1]

(* ------------------------------ add / subtract ------------------------- *)
AddSubName(op, S) == IF op = 0 THEN (IF S = 1 THEN "ADDS" ELSE "ADD") ELSE (IF S = 1 THEN "SUBS" ELSE "SUB")

\* common tail: operand2 already formed; op = 1 subtracts; d31sp: Rd = 31 names SP (when no flags)
AddSubFinish(s, pc, ds, op, S, d, d31sp, o1, o2, tags) ==
  LET r == IF op = 1 THEN AddWithCarry(ds, o1, BvNot(ds, o2), 1) ELSE AddWithCarry(ds, o1, o2, 0)
      s1 == IF S = 1 THEN [s EXCEPT !.f = r.f] ELSE s
      s2 == IF d = 31 /\ d31sp /\ S = 0 THEN SetXSP(s1, 31, r.res) ELSE SetX(s1, d, r.res)
  IN Ok(s2, Seq4(pc), tags)

\* C6.2 ADD/ADDS/SUB/SUBS (immediate):  sf op S 100010 sh imm12 Rn Rd
AddSubImm(w, pc, s) ==
  LET sf == F(w, 31, 1)  op == F(w, 30, 1)  S == F(w, 29, 1)  sh == F(w, 22, 1)
      n == F(w, 5, 5)  d == F(w, 0, 5)
      ds == IF sf = 1 THEN 64 ELSE 32
      imm == Shl(ds, Zext(ds, FB(w, 10, 12)), 12 * sh)
      tags == <<"addsub_imm", AddSubName(op, S), "sf" \o Str(sf), "sh" \o Str(sh)>> \o AliasTags(d, n, 32)
                \o (IF n = 31 THEN <<"n=sp">> ELSE <<>>) \o (IF d = 31 THEN <<"d=31">> ELSE <<>>)
  IN AddSubFinish(s, pc, ds, op, S, d, TRUE, RegSP(s, n, ds), imm, tags)

\* ADD/ADDS/SUB/SUBS (shifted register):  sf op S 01011 shift 0 Rm imm6 Rn Rd
AddSubShift(w, pc, s) ==
  LET sf == F(w, 31, 1)  op == F(w, 30, 1)  S == F(w, 29, 1)  sh == F(w, 22, 2)
      m == F(w, 16, 5)  imm6 == F(w, 10, 6)  n == F(w, 5, 5)  d == F(w, 0, 5)
      ds == IF sf = 1 THEN 64 ELSE 32
      tags == <<"addsub_shift", AddSubName(op, S), "sf" \o Str(sf), ShName(sh)>> \o AliasTags(d, n, m)
  IN IF sh = 3 THEN Unspec("undefined", tags)
     ELSE IF sf = 0 /\ imm6 >= 32 THEN Unspec("undefined", tags)
     ELSE AddSubFinish(s, pc, ds, op, S, d, FALSE, RegZ(s, n, ds),
                       ShiftVal(ds, RegZ(s, m, ds), sh, imm6), tags)

\* ADD/ADDS/SUB/SUBS (extended register):  sf op S 01011 00 1 Rm option imm3 Rn Rd
AddSubExt(w, pc, s) ==
  LET sf == F(w, 31, 1)  op == F(w, 30, 1)  S == F(w, 29, 1)  opt == F(w, 22, 2)
      m == F(w, 16, 5)  option == F(w, 13, 3)  imm3 == F(w, 10, 3)  n == F(w, 5, 5)  d == F(w, 0, 5)
      ds == IF sf = 1 THEN 64 ELSE 32
      tags == <<"addsub_ext", AddSubName(op, S), "sf" \o Str(sf), ExtName(option), "sh" \o Str(imm3)>>
                \o AliasTags(d, n, m) \o (IF n = 31 THEN <<"n=sp">> ELSE <<>>) \o (IF d = 31 THEN <<"d=31">> ELSE <<>>)
  IN IF opt # 0 \/ imm3 > 4 THEN Unspec("undefined", tags)
     ELSE AddSubFinish(s, pc, ds, op, S, d, TRUE, RegSP(s, n, ds),
                       ExtendVal(ds, RegZ(s, m, ds), option, imm3), tags)

(* ------------------------------ moves, logical ------------------------- *)
\* MOVN/MOVZ/MOVK:  sf opc 100101 hw imm16 Rd
MoveWide(w, pc, s) ==
  LET sf == F(w, 31, 1)  opc == F(w, 29, 2)  hw == F(w, 21, 2)  d == F(w, 0, 5)
      ds == IF sf = 1 THEN 64 ELSE 32
      pos == 16 * hw
      imm == Shl(ds, Zext(ds, FB(w, 5, 16)), pos)
      hole == BvNot(ds, Shl(ds, Zext(ds, Ones(16)), pos))
      name == <<"MOVN", "UNALLOC", "MOVZ", "MOVK">>[opc + 1]
      tags == <<"movewide", name, "sf" \o Str(sf), "hw" \o Str(hw)>>
  IN IF opc = 1 \/ (sf = 0 /\ hw >= 2) THEN Unspec("undefined", tags)
     ELSE LET res == CASE opc = 0 -> BvNot(ds, imm)
                       [] opc = 2 -> imm
                       [] opc = 3 -> BvOr(ds, BvAnd(ds, RegZ(s, d, ds), hole), imm)
          IN Ok(SetX(s, d, res), Seq4(pc), tags)

LogicOp(ds, opc, a, b) ==
  CASE opc = 0 -> BvAnd(ds, a, b) [] opc = 1 -> BvOr(ds, a, b) [] opc = 2 -> BvXor(ds, a, b) [] opc = 3 -> BvAnd(ds, a, b)
LogicName(opc, N) == IF N = 0 THEN <<"AND", "ORR", "EOR", "ANDS">>[opc + 1] ELSE <<"BIC", "ORN", "EON", "BICS">>[opc + 1]
LogicFlags(ds, res) == << Msb(ds, res), IF IsZero(res) THEN 1 ELSE 0, 0, 0 >>

\* AND/ORR/EOR/ANDS/BIC/ORN/EON/BICS (shifted register):  sf opc 01010 shift N Rm imm6 Rn Rd
\* (MOV Rd, Rm is ORR Rd, ZR, Rm)
LogicShift(w, pc, s) ==
  LET sf == F(w, 31, 1)  opc == F(w, 29, 2)  sh == F(w, 22, 2)  N == F(w, 21, 1)
      m == F(w, 16, 5)  imm6 == F(w, 10, 6)  n == F(w, 5, 5)  d == F(w, 0, 5)
      ds == IF sf = 1 THEN 64 ELSE 32
      tags == <<"logical_shift", LogicName(opc, N), "sf" \o Str(sf), ShName(sh)>> \o AliasTags(d, n, m)
                \o (IF n = 31 THEN <<"n=zr">> ELSE <<>>)
  IN IF sf = 0 /\ imm6 >= 32 THEN Unspec("undefined", tags)
     ELSE LET o2a == ShiftVal(ds, RegZ(s, m, ds), sh, imm6)
              o2 == IF N = 1 THEN BvNot(ds, o2a) ELSE o2a
              res == LogicOp(ds, opc, RegZ(s, n, ds), o2)
              s1 == IF opc = 3 THEN [s EXCEPT !.f = LogicFlags(ds, res)] ELSE s
          IN Ok(SetX(s1, d, res), Seq4(pc), tags)

\* AND/ORR/EOR/ANDS (immediate):  sf opc 100100 N immr imms Rn Rd   (Rd = 31 is SP unless ANDS)
LogicImm(w, pc, s) ==
  LET sf == F(w, 31, 1)  opc == F(w, 29, 2)  N == F(w, 22, 1)  immr == F(w, 16, 6)  imms == F(w, 10, 6)
      n == F(w, 5, 5)  d == F(w, 0, 5)
      ds == IF sf = 1 THEN 64 ELSE 32
      tags == <<"logical_imm", LogicName(opc, 0), "sf" \o Str(sf)>> \o AliasTags(d, n, 32)
                \o (IF n = 31 THEN <<"n=zr">> ELSE <<>>) \o (IF d = 31 THEN <<"d=31">> ELSE <<>>)
  IN IF sf = 0 /\ N = 1 THEN Unspec("undefined", tags)
     ELSE LET imm == BitMask(ds, N, imms, immr) IN
          IF imm = <<>> THEN Unspec("undefined", tags)
          ELSE LET res == LogicOp(ds, opc, RegZ(s, n, ds), imm)
                   s1 == IF opc = 3 THEN [s EXCEPT !.f = LogicFlags(ds, res)] ELSE s
               IN Ok(IF opc = 3 THEN SetX(s1, d, res) ELSE SetXSP(s1, d, res), Seq4(pc), tags)

(* ------------------------------ loads and stores ----------------------- *)
\* size/opc decode of the general-register forms (C6.2 LDR.. / STR.. / LDRS.. immediate and register)
LsGpr(size, opc) ==
  IF opc < 2 THEN [k |-> IF opc = 1 THEN "load" ELSE "store", rs |-> IF size = 3 THEN 64 ELSE 32,
                   sg |-> FALSE, ds |-> 8 * 2^size]
  ELSE IF size = 3 THEN [k |-> IF opc = 2 THEN "prfm" ELSE "undef", rs |-> 64, sg |-> FALSE, ds |-> 64]
  ELSE IF size = 2 /\ opc = 3 THEN [k |-> "undef", rs |-> 64, sg |-> FALSE, ds |-> 64]
  ELSE [k |-> "load", rs |-> IF opc = 3 THEN 32 ELSE 64, sg |-> TRUE, ds |-> 8 * 2^size]
\* SIMD&FP scalar forms: scale = opc<1>:size
LsFpr(size, opc) ==
  LET scale == (opc \div 2) * 4 + size IN
  IF scale > 4 THEN [k |-> "undef", rs |-> 128, sg |-> FALSE, ds |-> 128]
  ELSE [k |-> IF opc % 2 = 1 THEN "load" ELSE "store", rs |-> 128, sg |-> FALSE, ds |-> 8 * 2^scale]

LsName(m, V) ==
  (IF m.k = "load" THEN (IF m.sg THEN "LDRS" ELSE "LDR") ELSE IF m.k = "store" THEN "STR" ELSE m.k)
  \o (IF V = 1 THEN "-fp" ELSE "") \o Str(m.ds) \o (IF m.k = "load" /\ V = 0 THEN "-to" \o Str(m.rs) ELSE "")

\* one register, one access; offset is a 64-bit value
LsExec(s, pc, big, m, V, t, n, offset, wback, postindex, tags0) ==
  LET tags == tags0 \o <<LsName(m, V)>> \o (IF n = 31 THEN <<"n=sp">> ELSE <<>>) \o (IF t = 31 THEN <<"t=31">> ELSE <<>>)
                    \o (IF t = n THEN <<"t=n">> ELSE <<>>) \o (IF big THEN <<"be">> ELSE <<"le">>)
      base == XSP(s, n)
      wbv  == Add(64, base, offset)
      addr == IF postindex THEN base ELSE wbv
      nb   == m.ds \div 8
  IN IF m.k = "undef" THEN Unspec("undefined", tags)
     ELSE IF m.k = "prfm" THEN (IF wback THEN Unspec("undefined", tags) ELSE Ok(s, Seq4(pc), tags))
     ELSE IF V = 1 /\ s.q = <<>> THEN Unspec("no-simd-state", tags)
     ELSE IF wback /\ V = 0 /\ t = n /\ n # 31 THEN Unspec("unpredictable", tags)
     ELSE IF ~InWin(s, addr, nb) THEN Unspec("out-of-window", tags)
     ELSE LET s1 == IF m.k = "store"
                    THEN MemWrite(s, big, addr, nb, IF V = 1 THEN Trun(m.ds, s.q[t + 1]) ELSE RegZ(s, t, m.ds))
                    ELSE LET data == MemRead(s, big, addr, nb) IN
                         IF V = 1 THEN [s EXCEPT !.q[t + 1] = Zext(128, data)]
                         ELSE SetX(s, t, IF m.sg THEN Sext(m.ds, m.rs, data) ELSE Zext(m.rs, data))
              s2 == IF wback THEN SetXSP(s1, n, wbv) ELSE s1
          IN Ok(s2, Seq4(pc), tags)

\* size 111 V 01 opc imm12 Rn Rt   (unsigned scaled offset)
LsUImm(w, pc, big, s) ==
  LET size == F(w, 30, 2)  V == F(w, 26, 1)  opc == F(w, 22, 2)  n == F(w, 5, 5)  t == F(w, 0, 5)
      m == IF V = 1 THEN LsFpr(size, opc) ELSE LsGpr(size, opc)
      scale == IF V = 1 THEN (opc \div 2) * 4 + size ELSE size
      off == Shl(64, Zext(64, FB(w, 10, 12)), scale)
  IN LsExec(s, pc, big, m, V, t, n, off, FALSE, FALSE, <<"ldst_uimm">>)

\* size 111 V 00 opc 0 imm9 mode Rn Rt : mode 00 unscaled, 01 post-index, 10 unprivileged, 11 pre-index
LsImm9(w, pc, big, s) ==
  LET size == F(w, 30, 2)  V == F(w, 26, 1)  opc == F(w, 22, 2)  mode == F(w, 10, 2)
      n == F(w, 5, 5)  t == F(w, 0, 5)
      m == IF V = 1 THEN LsFpr(size, opc) ELSE LsGpr(size, opc)
      off == SImm(w, 12, 9, 0)
      tag == <<"ldst_unscaled", "ldst_post", "ldst_unpriv", "ldst_pre">>[mode + 1]
  IN IF mode = 2 THEN Unspec("unprivileged", <<tag>>)
     ELSE LsExec(s, pc, big, m, V, t, n, off, mode # 0, mode = 1, <<tag>>)

\* size 111 V 00 opc 1 Rm option S 10 Rn Rt   (register offset)
LsRegOff(w, pc, big, s) ==
  LET size == F(w, 30, 2)  V == F(w, 26, 1)  opc == F(w, 22, 2)  rm == F(w, 16, 5)
      option == F(w, 13, 3)  S == F(w, 12, 1)  n == F(w, 5, 5)  t == F(w, 0, 5)
      m == IF V = 1 THEN LsFpr(size, opc) ELSE LsGpr(size, opc)
      scale == IF V = 1 THEN (opc \div 2) * 4 + size ELSE size
      tags == <<"ldst_regoff", ExtName(option), "S" \o Str(S)>> \o (IF rm = n THEN <<"m=n">> ELSE <<>>)
                \o (IF rm = t THEN <<"m=t">> ELSE <<>>)
  IN IF (option \div 2) % 2 = 0 THEN Unspec("undefined", tags)
     ELSE IF m.k # "undef" /\ scale > 4 THEN Unspec("undefined", tags)
     ELSE LsExec(s, pc, big, m, V, t, n,
                 ExtendVal(64, XR(s, rm), option, IF S = 1 THEN Min(scale, 4) ELSE 0), FALSE, FALSE, tags)

\* opc 101 V mode L imm7 Rt2 Rn Rt : mode 000 no-allocate, 001 post-index, 010 offset, 011 pre-index
LsPair(w, pc, big, s) ==
  LET opc == F(w, 30, 2)  V == F(w, 26, 1)  mode == F(w, 23, 3)  L == F(w, 22, 1)
      t2 == F(w, 10, 5)  n == F(w, 5, 5)  t == F(w, 0, 5)
      scale == IF V = 1 THEN 2 + opc ELSE 2 + (opc \div 2)
      sg == V = 0 /\ opc = 1
      ds == 8 * 2^Min(scale, 4)
      nb == ds \div 8
      wback == mode = 1 \/ mode = 3
      off == Shl(64, SImm(w, 15, 7, 0), Min(scale, 4))
      base == XSP(s, n)
      wbv  == Add(64, base, off)
      addr == IF mode = 1 THEN base ELSE wbv
      addr2 == Add(64, addr, FromNat(64, nb))
      tags == << <<"ldst_pair_noalloc", "ldst_pair_post", "ldst_pair_off", "ldst_pair_pre">>[(mode % 4) + 1],
                 (IF L = 1 THEN (IF sg THEN "LDPSW" ELSE "LDP") ELSE "STP") \o (IF V = 1 THEN "-fp" ELSE "") \o Str(ds) >>
               \o (IF n = 31 THEN <<"n=sp">> ELSE <<>>) \o (IF t = t2 THEN <<"t=t2">> ELSE <<>>)
               \o (IF t = 31 \/ t2 = 31 THEN <<"t=31">> ELSE <<>>) \o (IF big THEN <<"be">> ELSE <<"le">>)
  IN IF mode > 3 THEN Unspec("other-class", tags)
     ELSE IF opc = 3 THEN Unspec("undefined", tags)
     ELSE IF V = 0 /\ opc = 1 /\ (L = 0 \/ mode = 0) THEN Unspec("undefined", tags)     \* STGP / unallocated
     ELSE IF V = 1 /\ s.q = <<>> THEN Unspec("no-simd-state", tags)
     ELSE IF L = 1 /\ t = t2 THEN Unspec("unpredictable", tags)
     ELSE IF wback /\ V = 0 /\ (t = n \/ t2 = n) /\ n # 31 THEN Unspec("unpredictable", tags)
     ELSE IF ~(InWin(s, addr, 2 * nb)) THEN Unspec("out-of-window", tags)
     ELSE LET s1 == IF L = 0
                    THEN LET d1 == IF V = 1 THEN Trun(ds, s.q[t + 1]) ELSE RegZ(s, t, ds)
                             d2 == IF V = 1 THEN Trun(ds, s.q[t2 + 1]) ELSE RegZ(s, t2, ds)
                         IN MemWrite(MemWrite(s, big, addr, nb, d1), big, addr2, nb, d2)
                    ELSE LET d1 == MemRead(s, big, addr, nb)
                             d2 == MemRead(s, big, addr2, nb)
                         IN IF V = 1 THEN [s EXCEPT !.q[t + 1] = Zext(128, d1), !.q[t2 + 1] = Zext(128, d2)]
                            ELSE IF sg THEN SetX(SetX(s, t, Sext(32, 64, d1)), t2, Sext(32, 64, d2))
                            ELSE SetX(SetX(s, t, d1), t2, d2)
              s2 == IF wback THEN SetXSP(s1, n, wbv) ELSE s1
          IN Ok(s2, Seq4(pc), tags)

\* size 001000 o2 L o1 Rs o0 Rt2 Rn Rt : only the ordered forms o2 = 1, o1 = 0 (LDAR/STLR o0 = 1,
\* LDLAR/STLLR o0 = 0) with Rs = Rt2 = 11111; exclusives and CAS are not specified
LsOrdered(w, pc, big, s) ==
  LET size == F(w, 30, 2)  o2 == F(w, 23, 1)  L == F(w, 22, 1)  o1 == F(w, 21, 1)  rs == F(w, 16, 5)
      o0 == F(w, 15, 1)  t2 == F(w, 10, 5)  n == F(w, 5, 5)  t == F(w, 0, 5)
      m == [k |-> IF L = 1 THEN "load" ELSE "store", rs |-> IF size = 3 THEN 64 ELSE 32, sg |-> FALSE, ds |-> 8 * 2^size]
      tags == <<"ldst_ordered", IF o0 = 1 THEN "acqrel" ELSE "lo">>
  IN IF o2 = 1 /\ o1 = 0 /\ rs = 31 /\ t2 = 31
     THEN LsExec(s, pc, big, m, 0, t, n, Zero(64), FALSE, FALSE, tags)
     ELSE IF o2 = 1 /\ o1 = 0 THEN Unspec("unpredictable", tags)          \* Rs / Rt2 should be ones
     ELSE Unspec("exclusive-or-cas", <<"ldst_exclusive">>)

\* size 011001 opc 0 imm9 00 Rn Rt : STLUR* (opc = 00), LDAPUR* (opc = 01), LDAPURS* (1x)
LsRcpcUnscaled(w, pc, big, s) ==
  LET size == F(w, 30, 2)  opc == F(w, 22, 2)  n == F(w, 5, 5)  t == F(w, 0, 5)
      m == LsGpr(size, opc)
  IN IF m.k = "prfm" THEN Unspec("undefined", <<"ldst_rcpc">>)
     ELSE LsExec(s, pc, big, m, 0, t, n, SImm(w, 12, 9, 0), FALSE, FALSE, <<"ldst_rcpc">>)

\* opc 011 V 00 imm19 Rt : LDR (literal), LDRSW (literal), PRFM (literal)
LsLiteral(w, pc, big, s) ==
  LET opc == F(w, 30, 2)  V == F(w, 26, 1)  t == F(w, 0, 5)
      addr == Add(64, pc, SImm(w, 5, 19, 2))
      m == IF V = 1 THEN (IF opc = 3 THEN [k |-> "undef", rs |-> 128, sg |-> FALSE, ds |-> 128]
                          ELSE [k |-> "load", rs |-> 128, sg |-> FALSE, ds |-> 32 * 2^opc])
           ELSE CASE opc = 0 -> [k |-> "load", rs |-> 32, sg |-> FALSE, ds |-> 32]
                  [] opc = 1 -> [k |-> "load", rs |-> 64, sg |-> FALSE, ds |-> 64]
                  [] opc = 2 -> [k |-> "load", rs |-> 64, sg |-> TRUE, ds |-> 32]
                  [] opc = 3 -> [k |-> "prfm", rs |-> 64, sg |-> FALSE, ds |-> 64]
      tags == <<"ldst_literal", LsName(m, V)>> \o (IF big THEN <<"be">> ELSE <<"le">>)
      nb == m.ds \div 8
  IN IF m.k = "undef" THEN Unspec("undefined", tags)
     ELSE IF m.k = "prfm" THEN Ok(s, Seq4(pc), tags)
     ELSE IF V = 1 /\ s.q = <<>> THEN Unspec("no-simd-state", tags)
     ELSE IF ~InWin(s, addr, nb) THEN Unspec("out-of-window", tags)
     ELSE LET data == MemRead(s, big, addr, nb) IN
          Ok(IF V = 1 THEN [s EXCEPT !.q[t + 1] = Zext(128, data)]
             ELSE SetX(s, t, IF m.sg THEN Sext(m.ds, m.rs, data) ELSE Zext(m.rs, data)), Seq4(pc), tags)

(* ------------------------------ branches ------------------------------- *)
\* op 00101 imm26
BranchImm(w, pc, s) ==
  LET op == F(w, 31, 1)
      target == Add(64, pc, SImm(w, 0, 26, 2))
  IN Ok(IF op = 1 THEN SetX(s, 30, Seq4(pc)) ELSE s, target, <<"branch_imm", IF op = 1 THEN "BL" ELSE "B">>)

CondName(c) == <<"EQ","NE","CS","CC","MI","PL","VS","VC","HI","LS","GE","LT","GT","LE","AL","NV">>[c + 1]
\* 0101010 0 imm19 0 cond
BranchCond(w, pc, s) ==
  LET cond == F(w, 0, 4)
      taken == CondHolds(cond, s.f)
      tags == <<"branch_cond", "B." \o CondName(cond), IF taken THEN "taken" ELSE "not-taken">>
  IN IF F(w, 4, 1) = 1 \/ F(w, 24, 1) = 1 THEN Unspec("undefined", <<"branch_cond">>)
     ELSE Ok(s, IF taken THEN Add(64, pc, SImm(w, 5, 19, 2)) ELSE Seq4(pc), tags)

\* sf 011010 op imm19 Rt
CompareBranch(w, pc, s) ==
  LET sf == F(w, 31, 1)  op == F(w, 24, 1)  t == F(w, 0, 5)
      ds == IF sf = 1 THEN 64 ELSE 32
      zero == IsZero(RegZ(s, t, ds))
      taken == IF op = 0 THEN zero ELSE ~zero
      tags == <<"compare_branch", IF op = 0 THEN "CBZ" ELSE "CBNZ", "sf" \o Str(sf), IF taken THEN "taken" ELSE "not-taken">>
  IN Ok(s, IF taken THEN Add(64, pc, SImm(w, 5, 19, 2)) ELSE Seq4(pc), tags)

\* b5 011011 op b40 imm14 Rt
TestBranch(w, pc, s) ==
  LET b5 == F(w, 31, 1)  op == F(w, 24, 1)  b40 == F(w, 19, 5)  t == F(w, 0, 5)
      pos == 32 * b5 + b40
      bit == Bit(XR(s, t), pos)
      taken == bit = op
      tags == <<"test_branch", IF op = 0 THEN "TBZ" ELSE "TBNZ", "bit" \o Str(pos), IF taken THEN "taken" ELSE "not-taken">>
  IN Ok(s, IF taken THEN Add(64, pc, SImm(w, 5, 14, 2)) ELSE Seq4(pc), tags)

\* 1101011 opc 11111 000000 Rn 00000 : BR (0000), BLR (0001), RET (0010)
BranchReg(w, pc, s) ==
  LET opc == F(w, 21, 4)  n == F(w, 5, 5)
      target == XR(s, n)
      name == IF opc = 0 THEN "BR" ELSE IF opc = 1 THEN "BLR" ELSE "RET"
      tags == <<"branch_reg", name, "n" \o Str(n)>>
  IN IF opc > 2 \/ F(w, 16, 5) # 31 \/ F(w, 10, 6) # 0 \/ F(w, 0, 5) # 0 THEN Unspec("other-class", <<"branch_reg">>)
     ELSE Ok(IF opc = 1 THEN SetX(s, 30, Seq4(pc)) ELSE s, target, tags)

(* ------------------------------ Advanced SIMD: integer add/sub, moves --- *)
\* Vector registers are 128-bit values = 16 byte limbs; an element of esize bits is a slice of
\* esize/8 limbs (LimbBits = 8), so the lane structure is explicit.
Limbs(v, from, n)       == [i \in 1..n |-> v[from + i]]
PutLimbs(v, from, n, x) == [i \in 1..16 |-> IF i > from /\ i <= from + n THEN x[i - from] ELSE v[i]]
LowestSet(imm5) == IF imm5 % 2 = 1 THEN 0 ELSE IF imm5 % 4 = 2 THEN 1 ELSE IF imm5 % 8 = 4 THEN 2
                   ELSE IF imm5 % 16 = 8 THEN 3 ELSE 4
ArrName(nb, total) == Str(total \div nb) \o <<"b", "h", "?", "s", "?", "?", "?", "d">>[nb]

\* Advanced SIMD three same:  0 Q U 01110 size 1 Rm opcode 1 Rn Rd
\*   opcode 10000: ADD (U = 0) / SUB (U = 1) per element;  U = 0, size = 10, opcode 00011: ORR (MOV when Rm = Rn)
SimdThreeSame(w, pc, s) ==
  LET Qb == F(w, 30, 1)  U == F(w, 29, 1)  size == F(w, 22, 2)  m == F(w, 16, 5)  opcode == F(w, 11, 5)
      n == F(w, 5, 5)  d == F(w, 0, 5)
      nb == 2^size
      total == IF Qb = 1 THEN 16 ELSE 8
      a == s.q[n + 1]  b == s.q[m + 1]
  IN IF opcode = 16 THEN
       LET tags == <<"simd_three_same", IF U = 0 THEN "ADD" ELSE "SUB", "vector", ArrName(nb, total),
                     IF nb = total THEN "one-lane" ELSE "lanes">> \o AliasTags(d, n, m)
       IN IF size = 3 /\ Qb = 0 THEN Unspec("undefined", tags)
          ELSE IF s.q = <<>> THEN Unspec("no-simd-state", tags)
          ELSE LET res == [i \in 1..16 |->
                             IF i > total THEN 0
                             ELSE LET e == (i - 1) \div nb
                                      x == Limbs(a, e * nb, nb)  y == Limbs(b, e * nb, nb)
                                  IN (IF U = 0 THEN Add(8 * nb, x, y) ELSE Sub(8 * nb, x, y))[((i - 1) % nb) + 1]]
               IN Ok([s EXCEPT !.q[d + 1] = res], Seq4(pc), tags)
     ELSE IF opcode = 3 /\ U = 0 /\ size = 2 THEN
       LET tags == <<"simd_three_same", "ORR", "vector", ArrName(1, total)>> \o AliasTags(d, n, m) IN
       IF s.q = <<>> THEN Unspec("no-simd-state", tags)
       ELSE LET o == BvOr(128, a, b)
            IN Ok([s EXCEPT !.q[d + 1] = [i \in 1..16 |-> IF i > total THEN 0 ELSE o[i]]], Seq4(pc), tags)
     ELSE Unspec("class", <<"simd_three_same_other">>)

\* Advanced SIMD scalar three same:  01 U 11110 size 1 Rm opcode 1 Rn Rd ; ADD/SUB Dd, Dn, Dm (size = 11)
SimdScalarThreeSame(w, pc, s) ==
  LET U == F(w, 29, 1)  size == F(w, 22, 2)  m == F(w, 16, 5)  opcode == F(w, 11, 5)  n == F(w, 5, 5)  d == F(w, 0, 5)
      tags == <<"simd_three_same", IF U = 0 THEN "ADD" ELSE "SUB", "scalar", "1d", "one-lane">> \o AliasTags(d, n, m)
  IN IF opcode # 16 THEN Unspec("class", <<"simd_scalar_three_same_other">>)
     ELSE IF size # 3 THEN Unspec("undefined", tags)
     ELSE IF s.q = <<>> THEN Unspec("no-simd-state", tags)
     ELSE LET x == Trun(64, s.q[n + 1])  y == Trun(64, s.q[m + 1])
          IN Ok([s EXCEPT !.q[d + 1] = Zext(128, IF U = 0 THEN Add(64, x, y) ELSE Sub(64, x, y))], Seq4(pc), tags)

\* Advanced SIMD copy:  0 Q op 01110000 imm5 0 imm4 1 Rn Rd
\*   INS (element) Q = 1, op = 1;  INS (general) Q = 1, op = 0, imm4 = 0011;  UMOV op = 0, imm4 = 0111
SimdCopy(w, pc, s) ==
  LET Qb == F(w, 30, 1)  op == F(w, 29, 1)  imm5 == F(w, 16, 5)  imm4 == F(w, 11, 4)  n == F(w, 5, 5)  d == F(w, 0, 5)
      size == LowestSet(imm5)
      nb == 2^Min(size, 3)
      idx == imm5 \div (2 * nb)                                     \* imm5<4:size+1>
  IN IF op = 1 THEN
       LET tags == <<"simd_copy", "INS-element", ArrName(nb, nb)>> \o (IF d = n THEN <<"d=n">> ELSE <<>>) IN
       IF Qb = 0 \/ size > 3 THEN Unspec("undefined", tags)
       ELSE IF s.q = <<>> THEN Unspec("no-simd-state", tags)
       ELSE LET src == imm4 \div nb                                  \* imm4<3:size>
            IN Ok([s EXCEPT !.q[d + 1] = PutLimbs(s.q[d + 1], idx * nb, nb, Limbs(s.q[n + 1], src * nb, nb))],
                  Seq4(pc), tags)
     ELSE IF imm4 = 3 THEN
       LET tags == <<"simd_copy", "INS-general", ArrName(nb, nb)>> \o (IF n = 31 THEN <<"n=zr">> ELSE <<>>) IN
       IF Qb = 0 \/ size > 3 THEN Unspec("undefined", tags)
       ELSE IF s.q = <<>> THEN Unspec("no-simd-state", tags)
       ELSE Ok([s EXCEPT !.q[d + 1] = PutLimbs(s.q[d + 1], idx * nb, nb, Trun(8 * nb, XR(s, n)))], Seq4(pc), tags)
     ELSE IF imm4 = 7 THEN
       LET tags == <<"simd_copy", "UMOV", ArrName(nb, nb)>> \o (IF d = 31 THEN <<"d=31">> ELSE <<>>) IN
       IF size > 3 \/ (Qb = 1 /\ size # 3) \/ (Qb = 0 /\ size = 3) THEN Unspec("undefined", tags)
       ELSE IF s.q = <<>> THEN Unspec("no-simd-state", tags)
       ELSE Ok(SetX(s, d, Limbs(s.q[n + 1], idx * nb, nb)), Seq4(pc), tags)
     ELSE Unspec("class", <<"simd_copy_other">>)

\* Advanced SIMD scalar copy:  01 0 11110000 imm5 0 0000 1 Rn Rd : DUP (element) = MOV <V>d, Vn.T[i]
SimdScalarCopy(w, pc, s) ==
  LET imm5 == F(w, 16, 5)  n == F(w, 5, 5)  d == F(w, 0, 5)
      size == LowestSet(imm5)
      nb == 2^Min(size, 3)
      idx == imm5 \div (2 * nb)
      tags == <<"simd_copy", "DUP-scalar", ArrName(nb, nb)>> \o (IF d = n THEN <<"d=n">> ELSE <<>>)
  IN IF F(w, 29, 1) # 0 \/ F(w, 11, 4) # 0 THEN Unspec("class", <<"simd_scalar_copy_other">>)
     ELSE IF size > 3 THEN Unspec("undefined", tags)
     ELSE IF s.q = <<>> THEN Unspec("no-simd-state", tags)
     ELSE Ok([s EXCEPT !.q[d + 1] = Zext(128, Limbs(s.q[n + 1], idx * nb, nb))], Seq4(pc), tags)

SimdGroup(w, pc, s) ==
  IF F(w, 31, 1) = 0 /\ F(w, 24, 5) = 14 /\ F(w, 21, 1) = 1 /\ F(w, 10, 1) = 1 THEN SimdThreeSame(w, pc, s)
  ELSE IF F(w, 30, 2) = 1 /\ F(w, 24, 5) = 30 /\ F(w, 21, 1) = 1 /\ F(w, 10, 1) = 1 THEN SimdScalarThreeSame(w, pc, s)
  ELSE IF F(w, 31, 1) = 0 /\ F(w, 21, 8) = 112 /\ F(w, 15, 1) = 0 /\ F(w, 10, 1) = 1 THEN SimdCopy(w, pc, s)
  ELSE IF F(w, 30, 2) = 1 /\ F(w, 21, 8) = 240 /\ F(w, 15, 1) = 0 /\ F(w, 10, 1) = 1 THEN SimdScalarCopy(w, pc, s)
  ELSE Unspec("class", <<"simd_fp_other">>)

(* ------------------------------ SVE prefetch hints ---------------------- *)
\* PRFB/PRFH/PRFW/PRFD (contiguous and gather forms) are hints: no architectural state changes
\* whatever the vector length.  (Other SVE instructions are not specified: the vector length is
\* IMPLEMENTATION DEFINED and the Z/P registers are not part of the modelled state.)
\*   1000010 1 11 imm6 0 msz Pg Rn 0 prfop     contiguous, scalar plus immediate
\*   1000010 msz 00 Rm 110 Pg Rn 0 prfop       contiguous, scalar plus scalar (Rm # 11111)
\*   1000010 00 xs 1 Zm 0 msz Pg Rn 0 prfop    32-bit gather, scalar plus 32-bit scaled offsets
\*   1000010 msz 00 imm5 111 Pg Zn 0 prfop     32-bit gather, vector plus immediate
\*   1100010 00 xs 1 Zm 0 msz Pg Rn 0 prfop    64-bit gather, scalar plus unpacked 32-bit scaled offsets
\*   1100010 00 11 Zm 1 msz Pg Rn 0 prfop      64-bit gather, scalar plus 64-bit scaled offsets
\*   1100010 msz 00 imm5 111 Pg Zn 0 prfop     64-bit gather, vector plus immediate
SvePrefetch(w, pc, s) ==
  LET top == F(w, 25, 7)  b2423 == F(w, 23, 2)  b2221 == F(w, 21, 2)  b1513 == F(w, 13, 3)
      msz == IF (b2423 = 3 /\ F(w, 22, 1) = 1) \/ (b2423 = 0 /\ F(w, 21, 1) = 1) THEN F(w, 13, 2) ELSE b2423
      tags == <<"sve_prefetch", <<"PRFB", "PRFH", "PRFW", "PRFD">>[msz + 1]>>
      contig_imm == top = 66 /\ F(w, 22, 3) = 7 /\ F(w, 15, 1) = 0
      contig_reg == top = 66 /\ b2221 = 0 /\ b1513 = 6 /\ F(w, 16, 5) # 31
      gather_off == (top = 66 \/ top = 98) /\ b2423 = 0 /\ F(w, 21, 1) = 1 /\ F(w, 15, 1) = 0
      gather_64  == top = 98 /\ b2423 = 0 /\ b2221 = 3 /\ F(w, 15, 1) = 1
      gather_imm == (top = 66 \/ top = 98) /\ b2221 = 0 /\ b1513 = 7
  IN IF F(w, 4, 1) = 0 /\ (contig_imm \/ contig_reg \/ gather_off \/ gather_64 \/ gather_imm)
     THEN Ok(s, Seq4(pc), tags)
     ELSE Unspec("class", <<"sve_other">>)

(* ------------------------------ top-level decode ----------------------- *)
IsNop(w) == w = <<31, 32, 3, 213>>                           \* 0xd503201f

Exec(w, pc, big, s) ==
  LET op0 == F(w, 25, 4) IN                                  \* bits 28:25, the main encoding groups
  IF op0 \div 2 = 4 THEN                                     \* 100x data processing - immediate
    LET g == F(w, 23, 3) IN
    IF g = 2 THEN AddSubImm(w, pc, s)
    ELSE IF g = 4 THEN LogicImm(w, pc, s)
    ELSE IF g = 5 THEN MoveWide(w, pc, s)
    ELSE Unspec("class", <<"dp_imm_other">>)
  ELSE IF op0 \div 2 = 5 THEN                                \* 101x branches, exception generating, system
    IF F(w, 26, 5) = 5 THEN BranchImm(w, pc, s)
    ELSE IF F(w, 25, 6) = 26 THEN CompareBranch(w, pc, s)
    ELSE IF F(w, 25, 6) = 27 THEN TestBranch(w, pc, s)
    ELSE IF F(w, 25, 7) = 42 THEN BranchCond(w, pc, s)
    ELSE IF F(w, 25, 7) = 107 THEN BranchReg(w, pc, s)
    ELSE IF IsNop(w) THEN Ok(s, Seq4(pc), <<"hint", "NOP">>)
    ELSE Unspec("class", <<"branch_sys_other">>)
  ELSE IF op0 % 2 = 0 /\ (op0 \div 4) % 2 = 1 THEN           \* x1x0 loads and stores
    LET a == F(w, 27, 3)  b == F(w, 24, 2) IN
    IF a = 5 THEN LsPair(w, pc, big, s)
    ELSE IF a = 7 /\ b = 1 THEN LsUImm(w, pc, big, s)
    ELSE IF a = 7 /\ b = 0 /\ F(w, 21, 1) = 0 THEN LsImm9(w, pc, big, s)
    ELSE IF a = 7 /\ b = 0 /\ F(w, 21, 1) = 1 /\ F(w, 10, 2) = 2 THEN LsRegOff(w, pc, big, s)
    ELSE IF a = 3 /\ b = 0 THEN LsLiteral(w, pc, big, s)
    ELSE IF a = 1 /\ b = 0 /\ F(w, 26, 1) = 0 THEN LsOrdered(w, pc, big, s)
    ELSE IF a = 3 /\ b = 1 /\ F(w, 26, 1) = 0 /\ F(w, 21, 1) = 0 /\ F(w, 10, 2) = 0 THEN LsRcpcUnscaled(w, pc, big, s)
    ELSE Unspec("class", <<"ldst_other">>)
  ELSE IF op0 % 8 = 5 THEN                                   \* x101 data processing - register
    IF F(w, 24, 5) = 11 THEN (IF F(w, 21, 1) = 0 THEN AddSubShift(w, pc, s) ELSE AddSubExt(w, pc, s))
    ELSE IF F(w, 24, 5) = 10 THEN LogicShift(w, pc, s)
    ELSE Unspec("class", <<"dp_reg_other">>)
  ELSE IF op0 % 8 = 7 THEN SimdGroup(w, pc, s)                \* x111 scalar floating-point and Advanced SIMD
  ELSE IF op0 = 2 THEN SvePrefetch(w, pc, s)                  \* 0010 SVE
  ELSE Unspec("class", <<"other_group">>)
=============================================================================
