CONSTANT LimbBits = 8
CONSTANT MaxSteps = 40
SPECIFICATION Spec10
INVARIANT Static
VIEW View10
CHECK_DEADLOCK FALSE
