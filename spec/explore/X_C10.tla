------------------------------- MODULE X_C10 -------------------------------
(***************************************************************************)
(* C10: SSA transformation yields valid SSA that preserves behaviour.      *)
(* Exported per program: f (input P), s (output of ssa_transformation, with *)
(* phi nodes and versioned scalars), outcome.                              *)
(* TLC explores the lock-step product: P over unversioned scalars, S over  *)
(* versioned scalars <<name, version>> (version -1 = the unversioned value *)
(* live on entry), phi nodes evaluated in parallel on the incoming edge    *)
(* (entry scalar on function entry).  At every read in S - instruction     *)
(* operands, every out-edge guard of the block being left, the phi inputs  *)
(* of the edge being taken - the version read must be defined and hold the *)
(* current value of that scalar in P ("every use names the version whose   *)
(* definition reaches it"); this implies same path, same stores, same      *)
(* branch targets and same value computed at every instruction, which is   *)
(* also checked directly.  Indirect branches and intrinsics with           *)
(* undeclared effects end the execution (after their reads are checked);   *)
(* an intrinsic that declares its outputs gives both programs the same     *)
(* havoc values for them (new versions in S) and execution goes on.        *)
(* Checks inside the action are written IF c THEN TRUE ELSE Report(..)     *)
(* because TLC explores both sides of an action-level disjunction.         *)
(***************************************************************************)
EXTENDS Explore

VARIABLE eS                   \* <<name, version>> -> value, for the versions defined so far
vars10 == <<vars, eS>>

FS(q)   == PP[q].s
HasS(q) == PP[q].outcome.k = "ok"
Key(s)  == <<s.n, s.ssa>>

\* expression with scalar nodes keyed by <<name, version>>
RECURSIVE Ver(_)
Ver(e) ==
  CASE e.k = "const"  -> e
    [] e.k = "scalar" -> [e EXCEPT !.n = <<e.n, e.ssa>>]
    [] e.k \in ArithOps \cup CmpOps -> [e EXCEPT !.a = Ver(e.a), !.b = Ver(e.b)]
    [] e.k \in ExtOps -> [e EXCEPT !.a = Ver(e.a)]
    [] e.k = "ite"    -> [e EXCEPT !.c = Ver(e.c), !.a = Ver(e.a), !.b = Ver(e.b)]

\* erase versions (for the shape comparison)
RECURSIVE Unver(_)
Unver(e) ==
  CASE e.k = "const"  -> e
    [] e.k = "scalar" -> [e EXCEPT !.ssa = -1]
    [] e.k = "none"   -> e
    [] e.k \in ArithOps \cup CmpOps -> [e EXCEPT !.a = Unver(e.a), !.b = Unver(e.b)]
    [] e.k \in ExtOps -> [e EXCEPT !.a = Unver(e.a)]
    [] e.k = "ite"    -> [e EXCEPT !.c = Unver(e.c), !.a = Unver(e.a), !.b = Unver(e.b)]
UnverL(x) == IF x.k = "none" THEN x ELSE [x EXCEPT !.l = [i \in 1..Len(x.l) |-> Unver(x.l[i])]]
UnverOp(op) ==
  CASE op.k = "assign" -> [op EXCEPT !.dst = Unver(op.dst), !.src = Unver(op.src)]
    [] op.k = "store"  -> [op EXCEPT !.idx = Unver(op.idx), !.src = Unver(op.src)]
    [] op.k = "load"   -> [op EXCEPT !.dst = Unver(op.dst), !.idx = Unver(op.idx)]
    [] op.k = "branch" -> [op EXCEPT !.target = Unver(op.target)]
    [] op.k = "intrinsic" -> [op EXCEPT !.args = [i \in 1..Len(op.args) |-> Unver(op.args[i])],
                                        !.written = UnverL(op.written), !.read = UnverL(op.read)]
    [] OTHER -> op

\* ---- reads ----
ReadOK(q, e, what) ==
  \A k \in ScalarNames(Ver(e)) :
     IF k \in DOMAIN eS /\ k[1] \in DOMAIN st.sc /\ eS[k] = st.sc[k[1]] THEN TRUE
     ELSE Report(<<q, "read", what, k>>,
                 [why |-> "stale-or-undefined-version", prog |-> q, init |-> ii, at |-> what, scalar |-> k[1],
                  version |-> k[2], defined |-> (k \in DOMAIN eS), path |-> HPath(q, path)])

OpReads(op) ==
  CASE op.k = "assign" -> <<op.src>>
    [] op.k = "store"  -> <<op.idx, op.src>>
    [] op.k = "load"   -> <<op.idx>>
    [] op.k = "branch" -> <<op.target>>
    [] op.k = "intrinsic" -> IF op.read.k = "none" THEN <<>> ELSE op.read.l
    [] OTHER -> <<>>

\* ---- leaving block b: guards of S read current values; then the edge P takes ----
GuardsOK(q, b) ==
  \A k \in OutEdges(FS(q), b) :
     IF HasCond(FS(q).edges[k]) THEN ReadOK(q, FS(q).edges[k].c, <<"guard", b, FS(q).edges[k].t>>) ELSE TRUE

\* phi nodes of block t evaluated in parallel for predecessor h (h = -1: function entry)
PhiSrc(ph, h) ==
  IF h = -1 THEN (IF ph.entry.k = "none" THEN <<"?", -2>> ELSE Key(ph.entry))
  ELSE LET S == { i \in 1..Len(ph.inc) : ph.inc[i].pred = h } IN
       IF S = {} THEN <<"?", -2>> ELSE Key(ph.inc[CHOOSE i \in S : TRUE].s)

PhiOK(q, t, h, sc) ==
  LET phis == BlockOf(FS(q), t).phi IN
  \A j \in 1..Len(phis) :
     LET src == PhiSrc(phis[j], h) IN
     IF src \in DOMAIN eS /\ eS[src] = sc[phis[j].out.n] THEN TRUE
     ELSE Report(<<q, "phi", t, h, j>>,
                 [why |-> "phi-input", prog |-> q, init |-> ii, block |-> t, pred |-> h, out |-> Key(phis[j].out),
                  src |-> src, defined |-> (src \in DOMAIN eS), path |-> HPath(q, path)])

PhiApply(q, t, h, env) ==
  LET phis == BlockOf(FS(q), t).phi
      outs == { Key(phis[j].out) : j \in 1..Len(phis) }
      val(k) == LET j == CHOOSE j \in 1..Len(phis) : Key(phis[j].out) = k
                    src == PhiSrc(phis[j], h)
                IN IF src \in DOMAIN env THEN env[src] ELSE Val(1, <<0>>)
  IN [k \in DOMAIN env \cup outs |-> IF k \in outs THEN val(k) ELSE env[k]]

Init10 ==
  /\ Init
  /\ eS = LET e0 == [k \in { <<nm, -1>> : nm \in DOMAIN st.sc } |-> st.sc[k[1]]] IN
          IF HasS(p) THEN PhiApply(p, F(p).entry, -1, e0) ELSE e0     \* entry phis take the entry scalar

Leave10(q, b, scP, memP, envS) ==
  /\ GuardsOK(q, b)
  /\ \E o \in { o \in LeaveBlock(1, F(q), b, scP, memP) : o.k = "ok" } :
        /\ st' = o.st
        /\ eS' = envS

\* guards evaluated on the post-state of the block's last instruction
GuardsOK2(q, b, scP, envS) ==
  \A k \in OutEdges(FS(q), b) :
     IF ~HasCond(FS(q).edges[k]) THEN TRUE ELSE
     \A key \in ScalarNames(Ver(FS(q).edges[k].c)) :
        IF key \in DOMAIN envS /\ key[1] \in DOMAIN scP /\ envS[key] = scP[key[1]] THEN TRUE
        ELSE Report(<<q, "read", <<"guard", b, FS(q).edges[k].t>>, key>>,
                    [why |-> "stale-or-undefined-version", prog |-> q, init |-> ii, at |-> <<"guard", b, FS(q).edges[k].t>>,
                     scalar |-> key[1], version |-> key[2], defined |-> (key \in DOMAIN envS), path |-> HPath(q, path)])

Next10 ==
  /\ HasS(p) /\ n < MaxSteps
  /\ n' = n + 1 /\ path' = Append(path, st.loc) /\ prev' = st.loc
  /\ UNCHANGED <<p, ii, asg, lw>>
  /\ LET loc == st.loc IN
     CASE loc.k = "edge" ->
            /\ PhiOK(p, loc.t, loc.h, st.sc)
            /\ st' = [st EXCEPT !.loc = BlockEntryLoc(1, F(p), loc.t)]
            /\ eS' = PhiApply(p, loc.t, loc.h, eS)
       [] loc.k = "empty" -> Leave10(p, loc.b, st.sc, st.mem, eS)
       [] loc.k = "ins" ->
            LET oP == BlockOf(F(p), loc.b).ins[loc.p].op
                oS == BlockOf(FS(p), loc.b).ins[loc.p].op
                last == loc.p = Len(BlockOf(F(p), loc.b).ins)
            IN
            /\ \A j \in 1..Len(OpReads(oS)) : ReadOK(p, OpReads(oS)[j], <<"ins", loc.b, loc.p>>)
            \* indirect branches and intrinsics with undeclared effects end the execution; an
            \* intrinsic that declares its outputs defines new versions of exactly those scalars:
            \* both programs receive the same (havoc) values for them and go on
            /\ oP.k # "branch" /\ (oP.k = "intrinsic" => oP.written.k # "none")
            /\ \E rP \in ( IF oP.k = "intrinsic"
                            THEN { [k |-> "ft", mem |-> st.mem,
                                    sc |-> Havocked(st.sc, HavocNames(oP, st.sc), ScOf(PP[p].havocs[h]))]
                                   : h \in 1..Len(PP[p].havocs) }
                            ELSE { r \in ExecOp(oP, st.sc, st.mem, PP[p].big) : r.k = "ft" } ) :
                 LET wkeys == IF oP.k = "intrinsic"
                              THEN { Key(oS.written.l[i]) : i \in { i \in 1..Len(oS.written.l) : oS.written.l[i].k = "scalar" } }
                              ELSE {}
                     envS2 == IF oP.k \in {"assign", "load"}
                              THEN [k \in DOMAIN eS \cup {Key(oS.dst)} |->
                                      IF k = Key(oS.dst) THEN rP.sc[oP.dst.n] ELSE eS[k]]
                              ELSE IF oP.k = "intrinsic"
                              THEN [k \in DOMAIN eS \cup wkeys |-> IF k \in wkeys THEN rP.sc[k[1]] ELSE eS[k]]
                              ELSE eS
                 IN IF ~last THEN /\ st' = [loc |-> [loc EXCEPT !.p = loc.p + 1], sc |-> rP.sc, mem |-> rP.mem]
                                  /\ eS' = envS2
                    ELSE /\ GuardsOK2(p, loc.b, rP.sc, envS2)
                         /\ \E o \in { o \in LeaveBlock(1, F(p), loc.b, rP.sc, rP.mem) : o.k = "ok" } :
                               st' = o.st /\ eS' = envS2

Spec10 == Init10 /\ [][Next10]_vars10

(* ------------------------------- static --------------------------------- *)
Shape(q) ==
  LET A == F(q)  Z == FS(q) IN
  /\ Len(A.blocks) = Len(Z.blocks) /\ Len(A.edges) = Len(Z.edges) /\ A.entry = Z.entry
  /\ \A k \in 1..Len(A.edges) : A.edges[k].h = Z.edges[k].h /\ A.edges[k].t = Z.edges[k].t
                                /\ A.edges[k].c = Unver(Z.edges[k].c)
  /\ \A j \in 1..Len(A.blocks) :
       /\ A.blocks[j].i = Z.blocks[j].i
       /\ Len(A.blocks[j].ins) = Len(Z.blocks[j].ins)
       /\ \A k \in 1..Len(A.blocks[j].ins) :
            /\ A.blocks[j].ins[k].i = Z.blocks[j].ins[k].i
            /\ A.blocks[j].ins[k].op = UnverOp(Z.blocks[j].ins[k].op)

\* every version >= 0 is assigned in exactly one place (instruction destination or phi output);
\* counted over the blocks reachable from the entry
ReachB(q) ==
  LET RECURSIVE R(_,_)
      R(seen, fr) == IF fr = {} THEN seen
                     ELSE LET nx == { FS(q).edges[k].t : k \in { k \in 1..Len(FS(q).edges) : FS(q).edges[k].h \in fr } } \ seen
                          IN R(seen \cup nx, nx)
  IN R({FS(q).entry}, {FS(q).entry})

DefSites(q) ==
  UNION { LET blk == FS(q).blocks[j] IN
          { <<Key(blk.phi[x].out), "phi", blk.i, x>> : x \in 1..Len(blk.phi) }
          \cup { <<Key(blk.ins[x].op.dst), "ins", blk.i, x>> : x \in { y \in 1..Len(blk.ins) : blk.ins[y].op.k \in {"assign", "load"} } }
          \cup UNION { LET op == blk.ins[x].op IN
                       IF op.k = "intrinsic" /\ op.written.k # "none"
                       THEN { <<Key(op.written.l[i]), "ins", blk.i, x>> : i \in { i \in 1..Len(op.written.l) : op.written.l[i].k = "scalar" } }
                       ELSE {}
                       : x \in 1..Len(blk.ins) }
          : j \in { j \in 1..Len(FS(q).blocks) : FS(q).blocks[j].i \in ReachB(q) } }

SingleAssignment(q) ==
  /\ \A d \in DefSites(q) : d[1][2] >= 0
  /\ \A d1 \in DefSites(q), d2 \in DefSites(q) : d1[1] = d2[1] => d1 = d2

PredsOf(q, t) == { FS(q).edges[k].h : k \in InEdges(FS(q), t) }
PhiWellFormed(q) ==
  \A j \in { j \in 1..Len(FS(q).blocks) : FS(q).blocks[j].i \in ReachB(q) } :
     LET blk == FS(q).blocks[j] IN
     \A x \in 1..Len(blk.phi) :
        LET ph == blk.phi[x] IN
        /\ { ph.inc[i].pred : i \in 1..Len(ph.inc) } = PredsOf(q, blk.i)
        /\ Len(ph.inc) = Cardinality(PredsOf(q, blk.i))
        /\ (ph.entry.k # "none") = (blk.i = FS(q).entry)
        /\ \A i \in 1..Len(ph.inc) : ph.inc[i].s.n = ph.out.n
        /\ ph.entry.k # "none" => ph.entry.n = ph.out.n

Static ==
  (n = 0 /\ ii = 1) =>
    /\ IF PP[p].outcome.k = "ok" THEN TRUE
       ELSE Report(<<p, "completion">>, [why |-> "completion", prog |-> p, outcome |-> PP[p].outcome])
    /\ HasS(p) =>
         /\ IF Shape(p) THEN TRUE ELSE Report(<<p, "shape">>, [why |-> "shape", prog |-> p])
         /\ IF SingleAssignment(p) THEN TRUE ELSE Report(<<p, "single">>, [why |-> "single-assignment", prog |-> p])
         /\ IF PhiWellFormed(p) THEN TRUE ELSE Report(<<p, "phiwf">>, [why |-> "phi-well-formed", prog |-> p])

View10 == <<p, st, eS>>
=============================================================================
