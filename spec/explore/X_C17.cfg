CONSTANT LimbBits = 8
CONSTANT MaxSteps = 40
SPECIFICATION Spec17
INVARIANT Sound
VIEW View17
CHECK_DEADLOCK FALSE
