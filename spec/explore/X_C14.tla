------------------------------- MODULE X_C14 -------------------------------
(***************************************************************************)
(* C14: dead-code elimination preserves observable behaviour.              *)
(* Exported per program: f (input function P), s (the function returned by *)
(* dead_code_elimination, or absent), outcome.                             *)
(* NOTE: inside an action TLC explores *both* sides of a disjunction, so    *)
(* "cond \/ Report(..)" would always report; checks made in Next2 are      *)
(* written IF cond THEN TRUE ELSE Report(..).                              *)
(* TLC explores the lock-step product of P and S from the same initial     *)
(* state with the same call-havoc responses.  Executions in which P faults *)
(* are cut (the property is conditional on P running without fault).       *)
(***************************************************************************)
EXTENDS Explore

VARIABLES scS, memS          \* the state of S; location, P's state and history are Explore's
vars2 == <<vars, scS, memS>>

FS(q)  == PP[q].s
HasS(q) == PP[q].outcome.k = "ok"

OpP(q, loc) == BlockOf(F(q), loc.b).ins[loc.p].op
OpS(q, loc) == BlockOf(FS(q), loc.b).ins[loc.p].op

Init2 == Init /\ scS = st.sc /\ memS = st.mem

Rej(key, rec) == Report(key, rec)

\* successor locations both programs agree on when leaving block b; reports a divergence
\* (P can go somewhere S cannot) and S faulting where P does not
Leave(q, b, scP, memP, sS, mS) ==
  LET oP == { o \in LeaveBlock(1, F(q), b, scP, memP) : o.k = "ok" }
      oS == { o \in LeaveBlock(1, FS(q), b, sS, mS) : o.k = "ok" }
  IN { o.st.loc : o \in oP }

LeaveOK(q, b, scP, memP, sS, mS) ==
  LET oP == { o.st.loc : o \in { o \in LeaveBlock(1, F(q), b, scP, memP) : o.k = "ok" } }
      oS == { o.st.loc : o \in { o \in LeaveBlock(1, FS(q), b, sS, mS) : o.k = "ok" } }
  IN IF oP \subseteq oS THEN TRUE
     ELSE Rej(<<q, "path", b>>, [why |-> "path-diverges", prog |-> q, init |-> ii, block |-> b,
                               p_goes |-> oP, s_goes |-> oS, path |-> HPath(q, path)])

Terminal(q, b) == OutEdges(F(q), b) = {}

ExitOK(q, b, scP, sS) ==
  IF ~Terminal(q, b) \/ scP = sS THEN TRUE
  ELSE Rej(<<q, "exit", b>>, [why |-> "exit-state", prog |-> q, init |-> ii, block |-> b,
                              differ |-> { nm \in DOMAIN scP : nm \notin DOMAIN sS \/ sS[nm] # scP[nm] },
                              path |-> HPath(q, path)])

\* one lock-step transition from location loc; yields the set of next <<loc, scP, memP, scS, memS>>
Next2 ==
  /\ HasS(p) /\ n < MaxSteps
  /\ n' = n + 1 /\ path' = Append(path, st.loc) /\ prev' = st.loc
  /\ UNCHANGED <<p, ii, asg, lw>>
  /\ LET loc == st.loc IN
     CASE loc.k = "edge" ->
            /\ st' = [st EXCEPT !.loc = BlockEntryLoc(1, F(p), loc.t)]
            /\ UNCHANGED <<scS, memS>>
       [] loc.k = "empty" ->
            /\ LeaveOK(p, loc.b, st.sc, st.mem, scS, memS)
            /\ ExitOK(p, loc.b, st.sc, scS)
            /\ \E l2 \in Leave(p, loc.b, st.sc, st.mem, scS, memS) : st' = [st EXCEPT !.loc = l2]
            /\ UNCHANGED <<scS, memS>>
       [] loc.k = "ins" ->
            LET oP == OpP(p, loc)  oS == OpS(p, loc)
                last == loc.p = Len(BlockOf(F(p), loc.b).ins)
                Cont(scP2, memP2, sS2, mS2) ==       \* after the instruction, in both programs
                  /\ (IF memP2 = mS2 THEN TRUE ELSE Rej(<<p, "mem", HLoc(p, loc)>>,
                                         [why |-> "stores-differ", prog |-> p, init |-> ii, loc |-> HLoc(p, loc),
                                          path |-> HPath(p, path)]))
                  /\ scS' = sS2 /\ memS' = mS2
                  /\ IF ~last THEN st' = [loc |-> [loc EXCEPT !.p = loc.p + 1], sc |-> scP2, mem |-> memP2]
                     ELSE /\ LeaveOK(p, loc.b, scP2, memP2, sS2, mS2)
                          /\ ExitOK(p, loc.b, scP2, sS2)
                          /\ \E l2 \in Leave(p, loc.b, scP2, memP2, sS2, mS2) :
                                st' = [loc |-> l2, sc |-> scP2, mem |-> memP2]
            IN
            IF oP.k \in {"branch", "intrinsic"} THEN
              /\ (IF st.sc = scS THEN TRUE ELSE Rej(<<p, "present", HLoc(p, loc)>>,
                                     [why |-> "state-at-branch-or-intrinsic", prog |-> p, init |-> ii, loc |-> HLoc(p, loc),
                                      differ |-> { nm \in DOMAIN st.sc : scS[nm] # st.sc[nm] }, path |-> HPath(p, path)]))
              /\ \E h \in 1..Len(PP[p].havocs) :
                   LET hv == ScOf(PP[p].havocs[h]) IN
                   Cont(Havocked(st.sc, HavocNames(oP, st.sc), hv), st.mem,
                        IF oS.k = oP.k THEN Havocked(scS, HavocNames(oS, scS), hv) ELSE scS, memS)
            ELSE
              \E rP \in { r \in ExecOp(oP, st.sc, st.mem, PP[p].big) : r.k = "ft" } :     \* P faults: cut
                 LET rS == { r \in ExecOp(oS, scS, memS, PP[p].big) : r.k = "ft" } IN
                 IF rS = {} THEN
                    /\ Rej(<<p, "sfault", HLoc(p, loc)>>, [why |-> "s-faults", prog |-> p, init |-> ii, loc |-> HLoc(p, loc),
                                                            path |-> HPath(p, path)])
                    /\ UNCHANGED <<st, scS, memS>>
                 ELSE \E r2 \in rS : Cont(rP.sc, rP.mem, r2.sc, r2.mem)

Spec2 == Init2 /\ [][Next2]_vars2

(* ------------------------------- static --------------------------------- *)
SameOp(a, b) == a = b
Shape(q) ==
  LET A == F(q)  Bq == FS(q) IN
  /\ Len(A.blocks) = Len(Bq.blocks) /\ A.edges = Bq.edges /\ A.entry = Bq.entry
  /\ \A j \in 1..Len(A.blocks) :
       /\ A.blocks[j].i = Bq.blocks[j].i
       /\ Len(A.blocks[j].ins) = Len(Bq.blocks[j].ins)
       /\ \A k \in 1..Len(A.blocks[j].ins) :
            /\ A.blocks[j].ins[k].i = Bq.blocks[j].ins[k].i
            /\ \/ A.blocks[j].ins[k].op = Bq.blocks[j].ins[k].op
               \/ (Bq.blocks[j].ins[k].op.k = "nop" /\ A.blocks[j].ins[k].op.k \in {"assign", "load", "nop"})

Static ==
  (n = 0 /\ ii = 1) =>
    \* "the result is observationally equivalent to its input": there has to be a result (the exported functions
    \* are well formed and have an entry; an error, a panic or a timeout is no result)
    /\ \/ PP[p].outcome.k = "ok"
       \/ Rej(<<p, "completion">>, [why |-> "completion", prog |-> p, outcome |-> PP[p].outcome])
    /\ HasS(p) => (Shape(p) \/ Rej(<<p, "shape">>, [why |-> "shape", prog |-> p]))

View2 == <<p, st, scS, memS>>
=============================================================================
