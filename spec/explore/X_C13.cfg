CONSTANT LimbBits = 8
CONSTANT MaxSteps = 40
SPECIFICATION Spec
INVARIANT Sound
VIEW View
CHECK_DEADLOCK FALSE
