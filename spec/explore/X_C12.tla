------------------------------- MODULE X_C12 -------------------------------
(***************************************************************************)
(* C12: reaching definitions, use-def and def-use chains cover every       *)
(* execution.  Exported per program: rd, ud, du as lists of                *)
(* [loc, defs: [loc...]] in harness terms (instruction indices), plus the  *)
(* outcome of each analysis.                                               *)
(***************************************************************************)
EXTENDS Explore

\* ---------- harness location <-> model position ----------
PosOf(q, b, i) == LET blk == BlockOf(F(q), b) IN CHOOSE pp \in 1..Len(blk.ins) : blk.ins[pp].i = i
HasIns(q, b, i) == b \in BlockIdx(F(q)) /\ \E pp \in 1..Len(BlockOf(F(q), b).ins) : BlockOf(F(q), b).ins[pp].i = i

\* the entry of table tab (a sequence of [loc, defs]) for model location loc, or <<>> if absent
Entry(q, tab, loc) ==
  LET S == { k \in 1..Len(tab) : AtLoc(q, tab[k].loc, loc) } IN
  IF S = {} THEN [k |-> "absent"] ELSE [k |-> "some", defs |-> tab[CHOOSE k \in S : TRUE].defs]

\* defs (harness ins locations) as model <<b, p>> pairs; locations that do not exist map to <<-2,-2>>
DefSet(q, defs) ==
  { IF defs[j].k = "ins" /\ HasIns(q, defs[j].b, defs[j].i) THEN <<defs[j].b, PosOf(q, defs[j].b, defs[j].i)>> ELSE <<-2, -2>>
    : j \in 1..Len(defs) }

Ana(q) == PP[q].ana          \* [rd, ud, du : outcome records [k |-> "ok", tab |-> ...] / err / panic]

(* ------------------------------ dynamic --------------------------------- *)
\* when control has just executed prev, the last writer of every scalar is in rd[prev]
RDSound ==
  (Ana(p).rd.k = "ok" /\ prev.k # "none") =>
    LET e == Entry(p, Ana(p).rd.tab, prev) IN
    \A s \in DOMAIN lw :
       lw[s] # NoWriter =>
         \/ (e.k = "some" /\ lw[s] \in DefSet(p, e.defs))
         \/ Report(<<p, "rd", HLoc(p, prev), s>>,
                   [why |-> "rd-sound", prog |-> p, init |-> ii, loc |-> HLoc(p, prev), scalar |-> s,
                    last_writer |-> lw[s], path |-> HPath(p, path)])

\* scalars read by the instruction / guarded edge at loc
ReadsAt(q, loc) ==
  CASE loc.k = "ins" ->
         LET op == BlockOf(F(q), loc.b).ins[loc.p].op IN
         CASE op.k = "assign" -> ScalarNames(op.src)
           [] op.k = "store"  -> ScalarNames(op.idx) \cup ScalarNames(op.src)
           [] op.k = "load"   -> ScalarNames(op.idx)
           [] op.k = "branch" -> ScalarNames(op.target)
           [] op.k = "intrinsic" -> IF op.read.k = "none" THEN {}
                                    ELSE UNION { ScalarNames(op.read.l[i]) : i \in 1..Len(op.read.l) }
           [] OTHER -> {}
    [] loc.k = "edge" ->
         LET S == { k \in 1..Len(F(q).edges) : F(q).edges[k].h = loc.h /\ F(q).edges[k].t = loc.t } IN
         IF S = {} THEN {} ELSE LET c == F(q).edges[CHOOSE k \in S : TRUE].c IN
                               IF c.k = "none" THEN {} ELSE ScalarNames(c)
    [] OTHER -> {}

\* the use-definition chain of the location about to execute contains the last writer of
\* every scalar it reads
UDSound ==
  (Ana(p).ud.k = "ok") =>
    LET e == Entry(p, Ana(p).ud.tab, st.loc) IN
    \A s \in ReadsAt(p, st.loc) :
       (s \in DOMAIN lw /\ lw[s] # NoWriter) =>
         \/ (e.k = "some" /\ lw[s] \in DefSet(p, e.defs))
         \/ Report(<<p, "ud", HLoc(p, st.loc), s>>,
                   [why |-> "ud-sound", prog |-> p, init |-> ii, loc |-> HLoc(p, st.loc), scalar |-> s,
                    nreads |-> Cardinality(ReadsAt(p, st.loc)),
                    self |-> (st.loc.k = "ins" /\ s \in WriterNames(p, st.loc)),
                    last_writer |-> lw[s], path |-> HPath(p, path)])

(* ------------------------------- static --------------------------------- *)
\* location graph of the function (model locations)
LocNodes(q) ==
  UNION { { [k |-> "ins", f |-> 1, b |-> F(q).blocks[j].i, p |-> pp] : pp \in 1..Len(F(q).blocks[j].ins) }
          \cup (IF Len(F(q).blocks[j].ins) = 0 THEN {[k |-> "empty", f |-> 1, b |-> F(q).blocks[j].i]} ELSE {})
          : j \in 1..Len(F(q).blocks) }
  \cup { EdgeLoc(1, F(q).edges[k]) : k \in 1..Len(F(q).edges) }
LocSucc(q, loc) ==
  CASE loc.k = "edge" -> {BlockEntryLoc(1, F(q), loc.t)}
    [] loc.k = "ins" /\ loc.p < Len(BlockOf(F(q), loc.b).ins) -> {[loc EXCEPT !.p = loc.p + 1]}
    [] OTHER -> { EdgeLoc(1, F(q).edges[k]) : k \in OutEdges(F(q), loc.b) }

\* nodes reachable from d by one or more steps when only nodes that are not an Assign/Load of s
\* may be passed (the statement speaks of intervening assignments and loads; an intrinsic that
\* declares s as written is a writer for RDSound but does not make an earlier definition unreachable)
RECURSIVE ReachNW(_,_,_,_)
ReachNW(q, s, seen, frontier) ==
  IF frontier = {} THEN seen
  ELSE LET nxt == UNION { LocSucc(q, x) : x \in frontier }
           new == nxt \ seen
           pass == { x \in new : WrittenAt(q, x) # s }          \* only assignments and loads intervene
       IN ReachNW(q, s, seen \cup new, pass)

IsAssignOrLoad(q, bp) == LET op == BlockOf(F(q), bp[1]).ins[bp[2]].op IN op.k \in {"assign", "load"}

\* every reported Assign/Load d in rd[l] can reach l without an intervening writer of its scalar
RDTight ==
  (Ana(p).rd.k = "ok") =>
   \A k \in 1..Len(Ana(p).rd.tab) :
     LET ent == Ana(p).rd.tab[k]
         L == { x \in LocNodes(p) : AtLoc(p, ent.loc, x) }
     IN \A d \in DefSet(p, ent.defs) :
          \/ d = <<-2, -2>> /\ Report(<<p, "rd-bogus", k>>, [why |-> "rd-bogus-def", prog |-> p, loc |-> ent.loc])
          \/ d # <<-2, -2>> /\
             (IsAssignOrLoad(p, d) =>
               LET s == BlockOf(F(p), d[1]).ins[d[2]].op.dst.n
                   dl == [k |-> "ins", f |-> 1, b |-> d[1], p |-> d[2]]
               IN \/ \E l \in L : l = dl
                  \/ \E l \in L : l \in ReachNW(p, s, {}, {dl}) /\ WrittenAt(p, l) # s
                  \/ Report(<<p, "rd-tight", k, d>>,
                            [why |-> "rd-tight", prog |-> p, loc |-> ent.loc, def |-> d, scalar |-> s]))

\* du is exactly the inverse of ud
HLocKey(c) == CASE c.k = "ins" -> <<"ins", c.b, c.i>> [] c.k = "edge" -> <<"edge", c.h, c.t>> [] OTHER -> <<"empty", c.b, 0>>
Pairs(q, tab) == UNION { { <<HLocKey(tab[k].loc), HLocKey(tab[k].defs[j])>> : j \in 1..Len(tab[k].defs) } : k \in 1..Len(tab) }
DUInverse ==
  (Ana(p).ud.k = "ok" /\ Ana(p).du.k = "ok") =>
    LET U == Pairs(p, Ana(p).ud.tab)                               \* <<use, def>>
        D == { <<x[2], x[1]>> : x \in Pairs(p, Ana(p).du.tab) }    \* du: <<def, use>> flipped
    IN \/ U = D
       \/ Report(<<p, "du-inverse">>, [why |-> "du-inverse", prog |-> p,
                                       only_ud |-> U \ D, only_du |-> D \ U])

\* the three analyses complete on functions with an entry (panic is never acceptable)
Completes ==
  \A a \in {"rd", "ud", "du"} :
     \/ Ana(p)[a].k \in {"ok", "err"}
     \/ Report(<<p, "completion", a>>, [why |-> "completion", prog |-> p, analysis |-> a, outcome |-> Ana(p)[a]])

Static == (n = 0 /\ ii = 1) => (RDTight /\ DUInverse /\ Completes)
Sound  == Static /\ RDSound /\ UDSound

View == <<p, st, prev, lw>>
=============================================================================
