------------------------------- MODULE X_C13 -------------------------------
(***************************************************************************)
(* C13: constant propagation never reports a value an execution            *)
(* contradicts.  Exported per program: mode ("init": every scalar is       *)
(* assigned before any read; "any"), outcome of constants(), the constants *)
(* reported per location (claims) and Constants::eval results (evals).     *)
(***************************************************************************)
EXTENDS Explore

Claims(q) == PP[q].claims
Evals(q)  == PP[q].evals

\* reported constants hold immediately before the location executes, for scalars the
\* function itself has assigned on this execution
ConstSound ==
  \A k \in 1..Len(Claims(p)) :
     AtLoc(p, Claims(p)[k].loc, st.loc) =>
       \A j \in 1..Len(Claims(p)[k].consts) :
          LET c == Claims(p)[k].consts[j] IN
          (c.n \in asg) =>
             \/ (c.n \in DOMAIN st.sc /\ st.sc[c.n] = Val(c.w, c.v))
             \/ Report(<<p, "const", k, j>>,
                       [why |-> "const", prog |-> p, init |-> ii, loc |-> Claims(p)[k].loc, scalar |-> c.n,
                        claimed |-> Val(c.w, c.v), actual |-> st.sc[c.n], path |-> HPath(p, path)])

\* Constants::eval either declines or returns the value the expression has
EvalSound ==
  \A k \in 1..Len(Evals(p)) :
     LET ev == Evals(p)[k] IN
     (AtLoc(p, ev.loc, st.loc) /\ ev.res.k # "none" /\ ScalarNames(ev.e) \subseteq asg) =>
        \/ (ev.res.k = "some" /\ Eval(ev.e, st.sc) = Ok(Val(ev.res.w, ev.res.v)))
        \/ Report(<<p, "eval", k>>,
                  [why |-> "eval", prog |-> p, init |-> ii, loc |-> ev.loc, e |-> ev.e, claimed |-> ev.res,
                   actual |-> Eval(ev.e, st.sc), path |-> HPath(p, path)])

\* completion clause: the analysis completes when no scalar can be read before it is assigned;
\* whenever it does not complete there is nothing else to check for that program
Completes ==
  \/ PP[p].outcome.k = "ok"
  \/ PP[p].mode # "init" /\ PP[p].outcome.k = "err"
  \/ Report(<<p, "completion">>, [why |-> "completion", prog |-> p, mode |-> PP[p].mode, outcome |-> PP[p].outcome])

Sound == Completes /\ ConstSound /\ EvalSound

View == <<p, st, asg>>
=============================================================================
