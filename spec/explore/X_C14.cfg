CONSTANT LimbBits = 8
CONSTANT MaxSteps = 40
SPECIFICATION Spec2
INVARIANT Static
VIEW View2
CHECK_DEADLOCK FALSE
