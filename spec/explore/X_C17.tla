------------------------------- MODULE X_C17 -------------------------------
(***************************************************************************)
(* C17: stack-pointer offsets hold on every execution, for every           *)
(* architecture.  Exported per program: arch, sp (name and width of        *)
(* architecture.stack_pointer()), entry_has_pred, outcome, and claims:     *)
(* [loc, off] with off the reported isize as a two's-complement 64-bit     *)
(* value (limbs); Top/Bottom are not exported.                             *)
(***************************************************************************)
EXTENDS Explore

AbiM == INSTANCE Abi     \* the platform ABIs (C20): which register is the stack pointer

VARIABLE sp0
vars17 == <<vars, sp0>>

SpN(q) == PP[q].sp.n
SpW(q) == PP[q].sp.w

Init17 == Init /\ sp0 = st.sc[SpN(p)].v
Next17 == Next /\ UNCHANGED sp0
Spec17 == Init17 /\ [][Next17]_vars17

\* the reported offset as a value of the stack pointer's width: its low w bits
OffW(q, off) == IF SpW(q) >= 64 THEN Zext(SpW(q), off.v) ELSE Trun(SpW(q), off.v)

\* immediately after the location executes: sp = sp0 + off (mod 2^w)
SPSound ==
  (PP[p].outcome.k = "ok" /\ prev.k # "none") =>
    \A k \in 1..Len(PP[p].claims) :
       LET c == PP[p].claims[k] IN
       AtLoc(p, c.loc, prev) =>
         \/ st.sc[SpN(p)] = Val(SpW(p), Add(SpW(p), sp0, OffW(p, c.off)))
         \/ Report(<<p, "sp", k>>,
                   [why |-> "sp-offset", prog |-> p, init |-> ii, arch |-> PP[p].arch, loc |-> c.loc,
                    claimed_offset |-> c.off, sp0 |-> sp0, sp |-> st.sc[SpN(p)], path |-> HPath(p, path)])

\* completion: for a function whose entry block has no incoming edge the analysis completes
Completes ==
  (n = 0 /\ ii = 1) =>
    \/ PP[p].outcome.k = "ok"
    \/ (PP[p].entry_has_pred /\ PP[p].outcome.k = "err")
    \/ Report(<<p, "completion">>, [why |-> "completion", prog |-> p, arch |-> PP[p].arch, outcome |-> PP[p].outcome])

\* "for every supported architecture": the scalar the analysis follows (architecture.stack_pointer()) is the
\* platform's stack pointer - otherwise every claim is about a scalar the code never touches
SpIsAbi ==
  (n = 0 /\ ii = 1 /\ PP[p].arch \in AbiM!Archs) =>
    \/ <<SpN(p), SpW(p)>> = AbiM!Abi(PP[p].arch).sp
    \/ Report(<<p, "spname">>, [why |-> "stack-pointer-scalar", prog |-> p, arch |-> PP[p].arch, analysed |-> PP[p].sp,
                                abi |-> AbiM!Abi(PP[p].arch).sp])

Sound == Completes /\ SPSound /\ SpIsAbi
View17 == <<p, st, prev, sp0>>
=============================================================================
