--------------------------------- MODULE Elf ---------------------------------
(***************************************************************************)
(* C19: what loading an ELF image at a base address means.                 *)
(*                                                                         *)
(* An *image description* d is a record                                    *)
(*   cls     32 | 64                 EI_CLASS                              *)
(*   data    "LE" | "BE"             EI_DATA                               *)
(*   machine e_machine (3 EM_386, 8 EM_MIPS, 20 EM_PPC, 62 EM_X86_64,      *)
(*           183 EM_AARCH64)                                               *)
(*   entry   e_entry (address)                                             *)
(*   segs    sequence of program headers, in file order:                   *)
(*             [type, off, vaddr, filesz, memsz, flags, bytes]             *)
(*           bytes = the filesz file bytes at off (only needed for PT_LOAD)*)
(*   symtab, dynsym   sequences of [name, value, type, bind, shndx]        *)
(*   pltrel  sequence of [off |-> r_offset, sym |-> 0-based .dynsym index] *)
(* Addresses (entry, vaddr, value, off of a relocation, bases) are         *)
(* bit-vectors of AddrBits bits in the limb representation of BV (64 bits  *)
(* and byte limbs in production, so that TLC never sees an integer above   *)
(* 2^31; 4 bits and 2-bit limbs in MC_Elf, where wrap-around is            *)
(* exercised).  Sizes and file offsets are small naturals.                 *)
(*                                                                         *)
(* Load(d, B) is defined component by component:                           *)
(*   Image(d, B)        the memory, as a set of cells <<address, byte,     *)
(*                      <<r,w,x>>>>: for each PT_LOAD the file bytes at    *)
(*                      vaddr+B, zero fill up to memsz, permissions from   *)
(*                      p_flags; where segments overlap the later program  *)
(*                      header wins; nothing else is mapped.               *)
(*   ArchName, Endian   from e_machine / EI_DATA                           *)
(*   EntryLower/Upper   function entries                                   *)
(*   SymLower/Upper     symbols                                            *)
(*   ProgramEntry                                                          *)
(* Where the property text leaves freedom (symbols or functions with value *)
(* 0, undefined symbols, unnamed symbols, absolute symbols, the names of   *)
(* function entries) an observation is accepted when it lies between a     *)
(* lower and an upper bound.                                               *)
(*                                                                         *)
(* Rebasing law (checked at the model level in MC_Elf, and implied for the *)
(* implementation by validating every observation against Load(d, B)):     *)
(*   Rebased(Load(d, 0), B) = Load(d, B)   for every reported address.     *)
(***************************************************************************)
EXTENDS BV, FiniteSets

CONSTANT AddrBits                       \* 64 in production

PT_LOAD   == 1
PF_X      == 1
PF_W      == 2
PF_R      == 4
STT_NOTYPE == 0
STT_OBJECT == 1
STT_FUNC   == 2
STB_GLOBAL == 1
STB_WEAK   == 2
SHN_UNDEF  == 0
SHN_LORESERVE == 65280                  \* 0xff00: ABS, COMMON, ... are not section indices

(* ------------------------------ addresses ------------------------------ *)
A(n)         == FromNat(AddrBits, n)                   \* small natural -> address
AZero        == Zero(AddrBits)
AddA(a, b)   == Add(AddrBits, a, b)
SubA(a, b)   == Sub(AddrBits, a, b)
AddOff(a, i) == AddA(a, A(i))
IsAddr(a)    == IsBV(AddrBits, a)

FlagSet(flags, bit) == (flags \div bit) % 2 = 1
Perm(flags) == <<FlagSet(flags, PF_R), FlagSet(flags, PF_W), FlagSet(flags, PF_X)>>

(* ------------------------------ well-formed ---------------------------- *)
WellFormedSeg(s) ==
  /\ s.filesz >= 0 /\ s.memsz >= 0
  /\ s.type = PT_LOAD => /\ s.filesz <= s.memsz
                         /\ Len(s.bytes) = s.filesz
                         /\ \A i \in 1..Len(s.bytes) : s.bytes[i] \in 0..255
                         /\ IsAddr(s.vaddr)
WellFormed(d) ==
  /\ d.cls \in {32, 64} /\ d.data \in {"LE", "BE"}
  /\ IsAddr(d.entry)
  /\ \A k \in 1..Len(d.segs) : WellFormedSeg(d.segs[k])
  /\ \A k \in 1..Len(d.pltrel) : d.pltrel[k].sym \in 0..(Len(d.dynsym) - 1)

(* ------------------------------ memory --------------------------------- *)
LoadIdx(d) == { k \in 1..Len(d.segs) : d.segs[k].type = PT_LOAD }

\* byte i (0-based) of the memory image of segment s: file bytes, then zero fill
SegByte(s, i) == IF i < s.filesz THEN s.bytes[i + 1] ELSE 0

SegStart(s, base) == AddA(s.vaddr, base)

\* address a lies in segment s loaded at base:  (a - start) mod 2^AddrBits < memsz
Covers(s, base, a) == Ltu(AddrBits, SubA(a, SegStart(s, base)), A(s.memsz))

SegCells(s, base) ==
  LET st == SegStart(s, base) IN
  { <<AddOff(st, i), SegByte(s, i), Perm(s.flags)>> : i \in 0..(s.memsz - 1) }

\* cells of segment k not covered by a later PT_LOAD
Surviving(d, base, k) ==
  { c \in SegCells(d.segs[k], base) :
      \A j \in LoadIdx(d) : j > k => ~Covers(d.segs[j], base, c[1]) }

Image(d, base) == UNION { Surviving(d, base, k) : k \in LoadIdx(d) }

\* second formulation: a byte map updated segment by segment (last writer wins)
RECURSIVE MapFold(_,_,_,_)
MapFold(d, base, k, m) ==
  IF k > Len(d.segs) THEN m
  ELSE IF d.segs[k].type # PT_LOAD THEN MapFold(d, base, k + 1, m)
  ELSE LET s   == d.segs[k]
           st  == SegStart(s, base)
           dom == { AddOff(st, i) : i \in 0..(s.memsz - 1) }
           at(a) == CHOOSE i \in 0..(s.memsz - 1) : AddOff(st, i) = a
           m2  == [a \in (DOMAIN m) \cup dom |->
                     IF a \in dom THEN <<SegByte(s, at(a)), Perm(s.flags)>> ELSE m[a]]
       IN MapFold(d, base, k + 1, TLCEval(m2))
ImageMap(d, base) == MapFold(d, base, 1, <<>>)
MapCells(m) == { <<a, m[a][1], m[a][2]>> : a \in DOMAIN m }

CellAddrs(cells) == { c[1] : c \in cells }
Functional(cells) == Cardinality(CellAddrs(cells)) = Cardinality(cells)

\* the cell of address a, as <<byte, perm>>, or <<-1, <<>>>> when unmapped
CellAt(cells, a) ==
  IF \E c \in cells : c[1] = a
  THEN LET c == CHOOSE c \in cells : c[1] = a IN <<c[2], c[3]>>
  ELSE <<-1, <<>>>>

(* ------------------------------ image, relative coordinates ----------- *)
(* The same image in integer coordinates relative to an origin O (an       *)
(* address): a cell <<x, byte, perm>> stands for address O + x.  This is   *)
(* what the trace specification evaluates for large images (no limb        *)
(* arithmetic per byte); it is only used when RelOK holds, i.e. every      *)
(* loadable segment lies in [O, O + RelCap), and MC_Elf checks that it     *)
(* then denotes exactly Image(d, base).                                    *)
RelCap == IF AddrBits > 22 THEN 2^22 ELSE 2^AddrBits
\* a - O when 0 <= a - O < RelCap, else RelCap
Rel(a, O) == ToNatCap(SubA(a, O), RelCap)
RelOK(d, base, O) ==
  \A k \in LoadIdx(d) : LET r == Rel(SegStart(d.segs[k], base), O)
                        IN r < RelCap /\ r + d.segs[k].memsz <= RelCap
ImageRel(d, base, O) ==
  LET r == TLCEval([k \in LoadIdx(d) |-> Rel(SegStart(d.segs[k], base), O)]) IN
  UNION { { <<r[k] + i, SegByte(d.segs[k], i), Perm(d.segs[k].flags)>> :
              i \in { i \in 0..(d.segs[k].memsz - 1) :
                        \A j \in LoadIdx(d) : j > k => ~(r[j] <= r[k] + i /\ r[k] + i < r[j] + d.segs[j].memsz) } } :
          k \in LoadIdx(d) }
LiftCells(cells, O) == { <<AddOff(O, c[1]), c[2], c[3]>> : c \in cells }
\* an origin: the start of a loadable segment no other loadable segment starts below
MinStart(d, base) ==
  IF LoadIdx(d) = {} THEN AZero
  ELSE LET k == CHOOSE k \in LoadIdx(d) :
                  \A j \in LoadIdx(d) : ~Ltu(AddrBits, SegStart(d.segs[j], base), SegStart(d.segs[k], base))
       IN SegStart(d.segs[k], base)

(* ------------------------------ header --------------------------------- *)
Machines == {3, 8, 20, 62, 183}
ArchName(d) ==
  CASE d.machine = 3   -> "x86"
    [] d.machine = 62  -> "amd64"
    [] d.machine = 8   -> IF d.data = "BE" THEN "mips" ELSE "mipsel"
    [] d.machine = 20  -> "ppc"
    [] d.machine = 183 -> IF d.data = "BE" THEN "aarch64eb" ELSE "aarch64"
    [] OTHER           -> "unsupported"
Endian(d) == IF d.data = "BE" THEN "big" ELSE "little"

\* the 32-bit word a memory of that endianness reads from four bytes b[1..4] (as 4 byte limbs,
\* least significant first)
Word32(d, b) == IF d.data = "BE" THEN <<b[4], b[3], b[2], b[1]>> ELSE <<b[1], b[2], b[3], b[4]>>

(* ------------------------------ symbols -------------------------------- *)
SeqSet(s)  == { s[i] : i \in 1..Len(s) }
AllSyms(d) == SeqSet(d.dynsym) \cup SeqSet(d.symtab)

IsSection(shndx) == shndx # SHN_UNDEF /\ shndx < SHN_LORESERVE
\* a symbol every loader has to report: defined in a section, non-zero value, named, of a
\* data / code / untyped kind
MustReport(s) == /\ IsSection(s.shndx) /\ ~IsZero(s.value) /\ s.name # ""
                 /\ s.type \in {STT_NOTYPE, STT_OBJECT, STT_FUNC}

Sym(name, addr) == <<name, addr>>
SymLower(d, base) == { Sym(s.name, AddA(s.value, base)) : s \in { t \in AllSyms(d) : MustReport(t) } }
\* anything a table entry or a PLT relocation (the slot that will hold the named function)
\* explains
PltSyms(d, base) == { Sym(d.dynsym[d.pltrel[k].sym + 1].name, AddA(d.pltrel[k].off, base)) :
                        k \in 1..Len(d.pltrel) }
SymUpper(d, base) == { Sym(s.name, AddA(s.value, base)) : s \in AllSyms(d) } \cup PltSyms(d, base)

SymbolsOK(d, base, obs) == SymLower(d, base) \subseteq obs /\ obs \subseteq SymUpper(d, base)

\* exported symbols (what other objects of a linked set may refer to): the GLOBAL / WEAK
\* definitions of .dynsym, whatever their type - untyped definitions such as _end or
\* __bss_start are exported like objects and functions
IsExportBind(s) == s.bind \in {STB_GLOBAL, STB_WEAK}
ExportLower(d, base) ==
  { Sym(s.name, AddA(s.value, base)) : s \in { t \in SeqSet(d.dynsym) : MustReport(t) /\ IsExportBind(t) } }
ExportUpper(d, base) ==
  { Sym(s.name, AddA(s.value, base)) : s \in { t \in SeqSet(d.dynsym) : t.shndx # SHN_UNDEF /\ IsExportBind(t) } }
ExportsOK(d, base, obs) == ExportLower(d, base) \subseteq obs /\ obs \subseteq ExportUpper(d, base)

(* ------------------------------ function entries ----------------------- *)
DefinedFunc(s) == s.type = STT_FUNC /\ s.shndx # SHN_UNDEF
\* certainly an entry: a function symbol defined in a section at a non-zero value
SureFunc(s)    == s.type = STT_FUNC /\ IsSection(s.shndx) /\ ~IsZero(s.value)

EntryLower(d, base, users) ==
  { AddA(s.value, base) : s \in { t \in AllSyms(d) : SureFunc(t) } }
  \cup (IF IsZero(d.entry) THEN {} ELSE {AddA(d.entry, base)})
  \cup { AddA(users[i], base) : i \in 1..Len(users) }
EntryUpper(d, base, users) ==
  { AddA(s.value, base) : s \in { t \in AllSyms(d) : DefinedFunc(t) } }
  \cup {AddA(d.entry, base)}
  \cup { AddA(users[i], base) : i \in 1..Len(users) }

\* obs: set of <<address, name>>, name "" when the entry is unnamed.  A name must be the name
\* of a symbol at that address, unless the address is only a user entry / the program entry.
EntryNameOK(d, base, users, a, n) ==
  \/ n = ""
  \/ \E s \in AllSyms(d) : s.name = n /\ AddA(s.value, base) = a
  \/ /\ ~\E s \in AllSyms(d) : DefinedFunc(s) /\ AddA(s.value, base) = a
     /\ \/ a = AddA(d.entry, base)
        \/ \E i \in 1..Len(users) : a = AddA(users[i], base)

EntriesOK(d, base, users, obs) ==
  LET addrs == { e[1] : e \in obs } IN
  /\ EntryLower(d, base, users) \subseteq addrs
  /\ addrs \subseteq EntryUpper(d, base, users)
  /\ \A e \in obs : EntryNameOK(d, base, users, e[1], e[2])

ProgramEntry(d, base) == AddA(d.entry, base)

(* ------------------------------ rebasing ------------------------------- *)
RebaseCells(cells, bb) == { <<AddA(c[1], bb), c[2], c[3]>> : c \in cells }
RebaseSyms(syms, bb)   == { Sym(s[1], AddA(s[2], bb)) : s \in syms }
RebaseAddrs(as, bb)    == { AddA(a, bb) : a \in as }

RebasingLaw(d, users, bb) ==
  /\ RebaseCells(Image(d, AZero), bb) = Image(d, bb)
  /\ RebaseSyms(SymLower(d, AZero), bb) = SymLower(d, bb)
  /\ RebaseSyms(SymUpper(d, AZero), bb) = SymUpper(d, bb)
  /\ RebaseSyms(ExportLower(d, AZero), bb) = ExportLower(d, bb)
  /\ RebaseSyms(ExportUpper(d, AZero), bb) = ExportUpper(d, bb)
  /\ RebaseAddrs(EntryLower(d, AZero, users), bb) = EntryLower(d, bb, users)
  /\ RebaseAddrs(EntryUpper(d, AZero, users), bb) = EntryUpper(d, bb, users)
  /\ AddA(ProgramEntry(d, AZero), bb) = ProgramEntry(d, bb)

\* how a rejected observation relates to the base (diagnosis only): P(b) says "the
\* observation is what loading at base b would give"
Diagnose(P(_), base) ==
  IF IsZero(base) THEN "other"
  ELSE IF P(AZero) THEN "unrebased"
  ELSE IF P(AddA(base, base)) THEN "rebased-twice"
  ELSE "other"

(* ------------------------------ linked sets ---------------------------- *)
(* objs: sequence, in load order (primary object first), of                *)
(*   [name, base, d]   base = where the linker placed the object           *)
(* A symbolic relocation [obj |-> index into objs, off |-> r_offset, sym |-> name] asks for   *)
(* the address of the named symbol: the first object in load order that    *)
(* exports it (defined, GLOBAL or WEAK in .dynsym) defines it, and the      *)
(* address is its value rebased ONCE by that object's base.                *)
Exports(d, name) ==
  { s \in SeqSet(d.dynsym) : s.name = name /\ s.shndx # SHN_UNDEF /\ ~IsZero(s.value)
                              /\ s.bind \in {STB_GLOBAL, STB_WEAK} }
Definers(objs, name) == { k \in 1..Len(objs) : Exports(objs[k].d, name) # {} }
Resolvable(objs, name) == Definers(objs, name) # {}
\* the set of acceptable addresses (one, unless an object exports the name twice)
SymAddrs(objs, name) ==
  LET k == CHOOSE k \in Definers(objs, name) : \A j \in Definers(objs, name) : k <= j
  IN { AddA(s.value, objs[k].base) : s \in Exports(objs[k].d, name) }

\* the union image: objects in load order, later objects over earlier ones
\* Image, evaluated through the integer-coordinate form when its side condition holds
\* (MC_Elf: ImageQ = Image)
ImageQ(d, base) ==
  LET O == MinStart(d, base) IN
  IF RelOK(d, base, O) THEN LiftCells(ImageRel(d, base, O), O) ELSE Image(d, base)

LinkedImage(objs) ==
  LET imgs == TLCEval([k \in 1..Len(objs) |-> ImageQ(objs[k].d, objs[k].base)])
      doms == TLCEval([k \in 1..Len(objs) |-> CellAddrs(imgs[k])])
  IN UNION { { c \in imgs[k] : \A j \in (k+1)..Len(objs) : c[1] \notin doms[j] } : k \in 1..Len(objs) }

\* the linker places every object at a base of its own choice: the images must not overlap, or the segments of
\* one object are not in memory ("for each loadable segment, the file bytes at ... plus the base")
ObjectsDisjoint(objs) ==
  LET doms == TLCEval([k \in 1..Len(objs) |-> CellAddrs(ImageQ(objs[k].d, objs[k].base))])
  IN \A j, k \in 1..Len(objs) : j < k => doms[j] \cap doms[k] = {}

\* the four addresses of the word relocated by r
RelocAddrs(objs, r) == { AddOff(AddA(r.off, objs[r.obj + 1].base), i) : i \in 0..3 }
\* the word (4 byte limbs, least significant first) found in `cells` at relocation r, or <<>>
\* if not all four bytes are mapped
RelocWord(objs, cells, r) ==
  LET a0 == AddA(r.off, objs[r.obj + 1].base)
      b  == [i \in 1..4 |-> CellAt(cells, AddOff(a0, i - 1))[1]]
  IN IF \E i \in 1..4 : b[i] = -1 THEN <<>> ELSE Word32(objs[r.obj + 1].d, b)
\* low 32 bits of an address, as 4 byte limbs (production: LimbBits = 8)
Low32(a) == <<a[1], a[2], a[3], a[4]>>
RelocOK(objs, cells, r) ==
  Resolvable(objs, r.sym) => RelocWord(objs, cells, r) \in { Low32(a) : a \in SymAddrs(objs, r.sym) }
=============================================================================
