-------------------------------- MODULE Isa --------------------------------
(***************************************************************************)
(* Helpers shared by the instruction-set modules Mips.tla and Ppc.tla      *)
(* (property C02).  An ISA module defines, for a raw 32-bit instruction    *)
(* word (decoded HERE, bit field by bit field - never by capstone) and an  *)
(* architectural state, the set of outcomes the architecture manual        *)
(* allows.  Values are BV limb vectors with LimbBits = 8, so a limb is a   *)
(* byte of memory and a 32-bit word is <<b0, b1, b2, b3>> with b0 the      *)
(* least significant byte.                                                 *)
(*                                                                         *)
(* Data memory is a window: a sequence of bytes `mem` starting at the      *)
(* 32-bit address `win`.  An access that is not completely inside the      *)
(* window is not judged ("unspec").                                        *)
(***************************************************************************)
EXTENDS BV

N32(n) == FromNat(32, n)                       \* n < 2^31

\* ---- outcomes --------------------------------------------------------------------------
\* k = "ok":     state st, next pc npc; dc = names of components the manual leaves
\*               UNPREDICTABLE / that depend on state the lifter does not model
\* k = "trap":   the instruction raises the exception `mn`; st = state at that point
\* k = "unspec": this module does not define the case (never judged); `why` says which
NoPc == <<0, 0, 0, 0>>
OkR(st)        == [k |-> "ok",     st |-> st, npc |-> NoPc, mn |-> "",  dc |-> {}, why |-> ""]
OkDc(st, dc)   == [k |-> "ok",     st |-> st, npc |-> NoPc, mn |-> "",  dc |-> dc, why |-> ""]
TrapR(mn, st)  == [k |-> "trap",   st |-> st, npc |-> NoPc, mn |-> mn,  dc |-> {}, why |-> ""]
UnspecR(why)   == [k |-> "unspec", st |-> <<>>, npc |-> NoPc, mn |-> "", dc |-> {}, why |-> why]

\* ---- data window -----------------------------------------------------------------------
WinLen(st)        == Len(st.mem)
Off(st, ea)       == ToNatCap(Sub(32, ea, st.win), 100000)
\* the window itself must not wrap around 2^32
WinSane(st)       == CarryOut(32, st.win, N32(WinLen(st)), 0) = 0
InWin(st, ea, n)  == WinSane(st) /\ Off(st, ea) + n <= WinLen(st)
LoadBytes(st, ea, n) == [i \in 1..n |-> st.mem[Off(st, ea) + i]]            \* memory order
StoreBytes(st, ea, bs) ==
  LET o == Off(st, ea) IN
  \* TLCEval: TLC builds function constructors lazily; without forcing, a value computed by a long run of
  \* instructions is a nest of closures whose evaluation cost grows exponentially (Trace_C06 runs programs)
  [st EXCEPT !.mem = TLCEval([j \in 1..Len(st.mem) |->
                        IF j > o /\ j <= o + Len(bs) THEN bs[j - o] ELSE st.mem[j]])]
\* value (little-endian limbs) <-> bytes in memory order
Rev(s)            == [i \in 1..Len(s) |-> s[Len(s) + 1 - i]]
ValOf(bs, big)    == IF big THEN Rev(bs) ELSE bs
BytesOf(v, big)   == IF big THEN Rev(v) ELSE v

\* ---- small arithmetic helpers ----------------------------------------------------------
AddOvf(a, b) == Msb(32, a) = Msb(32, b) /\ Msb(32, Add(32, a, b)) # Msb(32, a)
SubOvf(a, b) == Msb(32, a) # Msb(32, b) /\ Msb(32, Sub(32, a, b)) # Msb(32, a)
Clz32(a)     == 31 - TopBit(a, 31)                                   \* 32 for zero
Rotl32(a, k) == IF k % 32 = 0 THEN a ELSE BvOr(32, Shl(32, a, k % 32), Shr(32, a, 32 - (k % 32)))
Low(a, n)    == ToNatCap(Extract(32, a, 0, n), 100000)               \* low n bits (n <= 16) as a number
AlignDown4(a) == [a EXCEPT ![1] = a[1] - (a[1] % 4)]
BoolBit(b)   == IF b THEN 1 ELSE 0
LowMask(s)   == Sub(32, Shl(32, One(32), s), One(32))                \* 2^s - 1 (0 for s = 0, s <= 32)
HighKeep(s)  == BvNot(32, Shr(32, Ones(32), s))                      \* the top s bits
=============================================================================
