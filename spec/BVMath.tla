------------------------------- MODULE BVMath -------------------------------
(***************************************************************************)
(* The mathematical meaning of the bit-vector operators, on integers.      *)
(* A width-w value is a natural number in 0 .. 2^w - 1.  Used by MC_BV to  *)
(* check BV (limb sequences) exhaustively at small widths; usable only     *)
(* while 2^(2w) fits TLC's 32-bit integers (w <= 15).                      *)
(***************************************************************************)
EXTENDS Integers

M(w)         == 2^w
Signed(w, x) == IF x >= 2^(w - 1) THEN x - 2^w ELSE x
Wrap(w, z)   == z % 2^w                       \* TLA+ % is non-negative for positive modulus
AbsI(z)      == IF z < 0 THEN -z ELSE z
TDiv(x, y)   == LET q == AbsI(x) \div AbsI(y) IN IF (x < 0) # (y < 0) THEN -q ELSE q
TRem(x, y)   == x - y * TDiv(x, y)

AddM(w, x, y)  == Wrap(w, x + y)
SubM(w, x, y)  == Wrap(w, x - y)
MulM(w, x, y)  == Wrap(w, x * y)
DivuM(w, x, y) == x \div y
ModuM(w, x, y) == x % y
DivsM(w, x, y) == Wrap(w, TDiv(Signed(w, x), Signed(w, y)))
ModsM(w, x, y) == Wrap(w, TRem(Signed(w, x), Signed(w, y)))

RECURSIVE BitOp(_,_,_,_)
\* op \in {"and","or","xor"} applied to the low n bits
BitOp(op, x, y, n) ==
  IF n = 0 THEN 0
  ELSE LET a == x % 2  b == y % 2
           r == CASE op = "and" -> a * b
                  [] op = "or"  -> IF a + b > 0 THEN 1 ELSE 0
                  [] op = "xor" -> (a + b) % 2
       IN r + 2 * BitOp(op, x \div 2, y \div 2, n - 1)
AndM(w, x, y) == BitOp("and", x, y, w)
OrM(w, x, y)  == BitOp("or", x, y, w)
XorM(w, x, y) == BitOp("xor", x, y, w)

\* shifts by a value y; saturating once y >= w
ShlM(w, x, y)  == IF y >= w THEN 0 ELSE Wrap(w, x * 2^y)
ShrM(w, x, y)  == IF y >= w THEN 0 ELSE x \div 2^y
\* arithmetic: floor division of the signed value (floor = sign-propagating)
AShrM(w, x, y) == IF y >= w THEN (IF Signed(w, x) < 0 THEN 2^w - 1 ELSE 0)
                  ELSE Wrap(w, Signed(w, x) \div 2^y)

EqM(x, y)      == IF x = y THEN 1 ELSE 0
NeqM(x, y)     == IF x # y THEN 1 ELSE 0
LtuM(x, y)     == IF x < y THEN 1 ELSE 0
LtsM(w, x, y)  == IF Signed(w, x) < Signed(w, y) THEN 1 ELSE 0

ZextM(x)          == x
SextM(wf, wt, x)  == Wrap(wt, Signed(wf, x))
TrunM(wt, x)      == x % 2^wt
=============================================================================
