-------------------------------- MODULE Cfg --------------------------------
(***************************************************************************)
(* C15: control-flow-graph construction and editing.                       *)
(*                                                                         *)
(* A graph value G is a record                                             *)
(*   B     : function  block index -> sequence of instruction records      *)
(*           [i |-> index, p |-> payload tag, a |-> address or -1]         *)
(*   E     : set of edge records [h |-> head, t |-> tail, c |-> tag]       *)
(*           (c = "" for an unconditional edge, a condition tag otherwise) *)
(*   entry : block index or None        exit : block index or None         *)
(*                                                                         *)
(* The module defines                                                      *)
(*   - the invariant WF (what "consistent" means in the property),         *)
(*   - Lang(G, k): the payload-tag sequences of length <= k executable     *)
(*     from the entry (conditions of the edges taken are part of the       *)
(*     sequence), ExitLang(G, k): those of complete runs from the entry to *)
(*     the end of the exit block,                                          *)
(*   - the editing operations as functions on graph values                 *)
(*     (NewBlock, AddEdge, SetEntry, SetExit, AddIns, BlockAppend,         *)
(*     RemoveIns, Insert, Append, MergePair) and the *relations* that the  *)
(*     property demands of merge, append and blockify:                     *)
(*       MergeOK   : WF' and Lang' = Lang           (any such result)      *)
(*       AppendOK  : WF', Lang' = Lang(G) \cup ExitLang(G).Lang(H),        *)
(*                   ExitLang' = ExitLang(G).ExitLang(H)                   *)
(*       BlockifyLang(seq) : the language of "run the graphs one after the *)
(*                   other".                                               *)
(* spec/mc/MC_Cfg checks the operations against the relations on all small *)
(* graphs; spec/trace/Trace_C15 judges the real ControlFlowGraph.          *)
(***************************************************************************)
EXTENDS Integers, Sequences, FiniteSets, TLC

None   == -1
Uncond == ""

BlockIds(G)   == DOMAIN G.B
OutEdges(G, b) == { e \in G.E : e.h = b }
InEdges(G, b)  == { e \in G.E : e.t = b }
Succ(G, b)     == { e.t : e \in OutEdges(G, b) }
Pred(G, b)     == { e.h : e \in InEdges(G, b) }

SeqToSet(s) == { s[j] : j \in 1..Len(s) }
InsIdx(ins) == { ins[j].i : j \in 1..Len(ins) }

EmptyGraph == [B |-> <<>>, E |-> {}, entry |-> None, exit |-> None]

(***************************************************************************)
(* The invariant.                                                          *)
(***************************************************************************)
EdgesJoinBlocks(G)  == \A e \in G.E : e.h \in BlockIds(G) /\ e.t \in BlockIds(G)
EdgesKeyed(G)       == \A e \in G.E : \A f \in G.E : (e.h = f.h /\ e.t = f.t) => e = f
InsIndicesUnique(G) == \A b \in BlockIds(G) : Cardinality(InsIdx(G.B[b])) = Len(G.B[b])
EntryOK(G)          == G.entry = None \/ G.entry \in BlockIds(G)
ExitOK(G)           == G.exit = None \/ G.exit \in BlockIds(G)

WF(G) == EdgesJoinBlocks(G) /\ EdgesKeyed(G) /\ InsIndicesUnique(G) /\ EntryOK(G) /\ ExitOK(G)

(***************************************************************************)
(* The path language.  An item <<b, s>> means: about to execute block b,   *)
(* having emitted s (Len(s) <= k).  Running b emits its payload tags;      *)
(* taking a conditional edge emits the condition tag.  The exploration     *)
(* goes on as long as the emitted sequence has at most k elements, so      *)
(* Items contains *every* way of arriving at a block with <= k elements    *)
(* emitted (empty blocks and unconditional edges emit nothing).            *)
(***************************************************************************)
Tags(G, b)  == [j \in 1..Len(G.B[b]) |-> G.B[b][j].p]
EdgeTag(e)  == IF e.c = Uncond THEN <<>> ELSE <<e.c>>
Prefixes(s) == { SubSeq(s, 1, n) : n \in 0..Len(s) }
Trunc(s, k) == IF Len(s) <= k THEN s ELSE SubSeq(s, 1, k)

ItemStep(G, k, x) ==
  LET s2 == x[2] \o Tags(G, x[1]) IN
  IF Len(s2) > k THEN {}
  ELSE { y \in { <<e.t, s2 \o EdgeTag(e)>> : e \in OutEdges(G, x[1]) } : Len(y[2]) <= k }

RECURSIVE Explore(_,_,_,_)
Explore(G, k, seen, frontier) ==
  IF frontier = {} THEN seen
  ELSE LET next == TLCEval((UNION { ItemStep(G, k, x) : x \in frontier }) \ seen)
       IN  Explore(G, k, TLCEval(seen \cup next), next)

Items(G, k) ==
  IF G.entry = None \/ G.entry \notin BlockIds(G) THEN {}
  ELSE Explore(G, k, {<<G.entry, <<>>>>}, {<<G.entry, <<>>>>})

LangOfItems(G, k, items) ==
  UNION { Prefixes(Trunc(x[2] \o Tags(G, x[1]), k)) : x \in items }
ExitOfItems(G, k, items) ==
  { s \in { x[2] \o Tags(G, x[1]) : x \in { y \in items : y[1] = G.exit } } : Len(s) <= k }

Lang(G, k)     == LangOfItems(G, k, Items(G, k))
ExitLang(G, k) == ExitOfItems(G, k, Items(G, k))
\* both at once (one exploration): <<Lang, ExitLang>>
Langs(G, k) == LET it == TLCEval(Items(G, k)) IN <<LangOfItems(G, k, it), ExitOfItems(G, k, it)>>

Cat(X, L, k) == { s \in { x \o l : x \in X, l \in L } : Len(s) <= k }

(***************************************************************************)
(* Relations demanded by the property.                                     *)
(***************************************************************************)
\* merging: any result that keeps the invariant and the language
MergeOK(G, G2, k) == WF(G2) /\ Lang(G2, k) = Lang(G, k)

\* appending H to G: the first graph runs to the end of its exit block, then the second
AppendLang(LG, LH, k) ==            \* LG, LH are <<Lang, ExitLang>> pairs
  <<LG[1] \cup Cat(LG[2], LH[1], k), Cat(LG[2], LH[2], k)>>
AppendPre(G, H) ==
  /\ H.entry # None /\ H.exit # None
  /\ BlockIds(G) = {} \/ (G.entry # None /\ G.exit # None)
AppendExpected(G, H, k) ==
  IF BlockIds(G) = {} THEN Langs(H, k) ELSE AppendLang(Langs(G, k), Langs(H, k), k)
AppendOK(G, H, G2, k) == WF(G2) /\ Langs(G2, k) = AppendExpected(G, H, k)

\* blockify: an empty block (entry and exit), then the graphs one after the other
RECURSIVE SeqLangs(_,_,_,_)
SeqLangs(gs, j, k, acc) ==
  IF j > Len(gs) THEN acc
  ELSE SeqLangs(gs, j + 1, k, TLCEval(AppendLang(acc, Langs(gs[j], k), k)))
BlockifyLangs(gs, k) == SeqLangs(gs, 1, k, <<{<<>>}, {<<>>}>>)
BlockifyPre(gs) == \A j \in 1..Len(gs) : gs[j].entry # None /\ gs[j].exit # None

(***************************************************************************)
(* Editing operations (design level).  Fresh indices are parameters: the   *)
(* property only needs them to be unused.                                  *)
(***************************************************************************)
Restrict(f, S) == [x \in S |-> f[x]]

NewBlockPre(G, n) == n \notin BlockIds(G)
NewBlock(G, n)    == [G EXCEPT !.B = [b \in BlockIds(G) \cup {n} |-> IF b = n THEN <<>> ELSE G.B[b]]]

AddEdgePre(G, h, t) == h \in BlockIds(G) /\ t \in BlockIds(G) /\ ~\E e \in G.E : e.h = h /\ e.t = t
AddEdge(G, h, t, c) == [G EXCEPT !.E = G.E \cup {[h |-> h, t |-> t, c |-> c]}]

SetEntryPre(G, b) == b \in BlockIds(G)
SetEntry(G, b)    == [G EXCEPT !.entry = b]
SetExit(G, b)     == [G EXCEPT !.exit = b]

\* a new instruction at the end of block b
AddInsPre(G, b, ins) == b \in BlockIds(G) /\ ins.i \notin InsIdx(G.B[b])
AddIns(G, b, ins)    == [G EXCEPT !.B[b] = Append(G.B[b], ins)]

\* Block::append: the payloads of src (a sequence of instruction records) are added to b with
\* the fresh indices idx (a sequence of the same length)
Reindex(src, idx) == [j \in 1..Len(src) |-> [src[j] EXCEPT !.i = idx[j]]]
BlockAppendPre(G, b, src, idx) ==
  /\ b \in BlockIds(G) /\ Len(idx) = Len(src)
  /\ Cardinality(SeqToSet(idx)) = Len(idx)
  /\ SeqToSet(idx) \cap InsIdx(G.B[b]) = {}
BlockAppend(G, b, src, idx) == [G EXCEPT !.B[b] = G.B[b] \o Reindex(src, idx)]

RemoveInsPre(G, b, i) == b \in BlockIds(G) /\ i \in InsIdx(G.B[b])
RemoveIns(G, b, i)    == [G EXCEPT !.B[b] = SelectSeq(G.B[b], LAMBDA x : x.i # i)]

\* copy of H under an injective renaming m of its block indices to unused indices of G
RenamePre(G, H, m) ==
  /\ DOMAIN m = BlockIds(H)
  /\ \A x \in DOMAIN m : m[x] \notin BlockIds(G)
  /\ \A x \in DOMAIN m : \A y \in DOMAIN m : m[x] = m[y] => x = y
Image(m)       == { m[x] : x \in DOMAIN m }
RenB(G, H, m)  == [b \in BlockIds(G) \cup Image(m) |->
                     IF b \in BlockIds(G) THEN G.B[b]
                     ELSE H.B[CHOOSE x \in DOMAIN m : m[x] = b]]
RenE(H, m)     == { [h |-> m[e.h], t |-> m[e.t], c |-> e.c] : e \in H.E }

InsertPre(H)    == H.entry # None /\ H.exit # None
Insert(G, H, m) == [B |-> RenB(G, H, m), E |-> G.E \cup RenE(H, m), entry |-> None, exit |-> None]
InsertResult(H, m) == <<m[H.entry], m[H.exit]>>

Append_(G, H, m) ==
  IF BlockIds(G) = {}
  THEN [B |-> RenB(G, H, m), E |-> RenE(H, m), entry |-> m[H.entry], exit |-> m[H.exit]]
  ELSE [B |-> RenB(G, H, m),
        E |-> G.E \cup RenE(H, m) \cup {[h |-> G.exit, t |-> m[H.entry], c |-> Uncond]},
        entry |-> G.entry, exit |-> m[H.exit]]

\* merging block b into its only predecessor a
Mergeable(G, a, b) ==
  /\ a \in BlockIds(G) /\ b \in BlockIds(G) /\ a # b
  /\ OutEdges(G, a) = {[h |-> a, t |-> b, c |-> Uncond]}
  /\ InEdges(G, b)  = {[h |-> a, t |-> b, c |-> Uncond]}
  /\ G.entry # b
MaxIdx(ins) == IF Len(ins) = 0 THEN -1 ELSE CHOOSE x \in InsIdx(ins) : \A y \in InsIdx(ins) : y <= x
MergePair(G, a, b) ==
  LET base == MaxIdx(G.B[a]) + 1
      moved == [j \in 1..Len(G.B[b]) |-> [G.B[b][j] EXCEPT !.i = base + j - 1]]
  IN [B     |-> [x \in BlockIds(G) \ {b} |-> IF x = a THEN G.B[a] \o moved ELSE G.B[x]],
      E     |-> { e \in G.E : e.h # b /\ e.t # b } \cup
                { [h |-> a, t |-> e.t, c |-> e.c] : e \in OutEdges(G, b) },
      entry |-> G.entry,
      exit  |-> IF G.exit = b THEN a ELSE G.exit]
MergeablePairs(G) == { p \in BlockIds(G) \X BlockIds(G) : Mergeable(G, p[1], p[2]) }

\* merge to completion, always taking the least mergeable pair (one admissible schedule)
RECURSIVE MergeAll(_)
MergeAll(G) ==
  LET P == MergeablePairs(G) IN
  IF P = {} THEN G
  ELSE LET p == CHOOSE p \in P : \A q \in P : p[1] < q[1] \/ (p[1] = q[1] /\ p[2] <= q[2])
       IN MergeAll(TLCEval(MergePair(G, p[1], p[2])))

\* blockify at design level: block 0 (entry, exit), append every graph, merge
RECURSIVE AppendAll(_,_,_)
FreshMap(G, H) ==
  LET base == IF BlockIds(G) = {} THEN 0
              ELSE (CHOOSE x \in BlockIds(G) : \A y \in BlockIds(G) : y <= x) + 1
      ids == BlockIds(H)
      Rank(x) == Cardinality({ y \in ids : y < x })
  IN [x \in ids |-> base + Rank(x)]
AppendAll(G, gs, j) ==
  IF j > Len(gs) THEN G ELSE AppendAll(TLCEval(Append_(G, gs[j], FreshMap(G, gs[j]))), gs, j + 1)
Blockify(gs) ==
  MergeAll(AppendAll([B |-> (0 :> <<>>), E |-> {}, entry |-> 0, exit |-> 0], gs, 1))
=============================================================================
