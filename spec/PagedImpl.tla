----------------------------- MODULE PagedImpl -----------------------------
(***************************************************************************)
(* Implementation-shaped model of lib/memory/paged.rs (C08): the cells     *)
(*    Value(v)    a whole multi-byte value stored at its first address     *)
(*    Backref(a)  "this byte belongs to the value stored at a"             *)
(* the three-step `store` (re-store the tail of a value cut by the end of  *)
(* the write, re-store the head of a value cut by its start, then write),  *)
(* and `load` with its whole-value fast path and byte-wise fallback,       *)
(* transcribed branch by branch.  Pages and copy-on-write are not modelled *)
(* (a page is only a container of cells; clone independence is RC::make_mut*)
(* and is bound to the real code by the trace check).  spec/mc/MC_Paged    *)
(* checks that this refines the byte array of Mem.tla: design evidence and *)
(* regression test of the specification, never a verdict about the code.   *)
(*                                                                         *)
(* A value is its little-endian byte sequence (width = 8 * Len); the       *)
(* `memory::Value` operations the code uses are needed only at byte        *)
(* granularity (every shift is a multiple of 8; their bit-level meaning is *)
(* C04's business).                                                        *)
(*                                                                         *)
(* cells : address key -> [t |-> "v", val |-> bytes] | [t |-> "b", ref |-> key]  *)
(***************************************************************************)
EXTENDS Backing

NoCellsI == [x \in {} |-> 0]
ValueCell(v) == [t |-> "v", val |-> v]
Backref(a)   == [t |-> "b", ref |-> a]

(* --------------------- memory::Value, byte-wise ------------------------ *)
VTrun(v, n)   == SubSeq(v, 1, n)                                    \* keep the n low-order bytes
VShr(v, k)    == [i \in 1..Len(v) |-> IF i + k <= Len(v) THEN v[i + k] ELSE 0]
VZext(v, n)   == [i \in 1..n |-> IF i <= Len(v) THEN v[i] ELSE 0]
VShl(v, k)    == [i \in 1..Len(v) |-> IF i - k >= 1 THEN v[i - k] ELSE 0]
VOr(a, b)     == [i \in 1..Len(a) |-> IF a[i] = 0 THEN b[i] ELSE a[i]]   \* operands never overlap in a set byte

(* ------------------------------ store ---------------------------------- *)
\* store_no_backref: the value cell, then a back-reference for every following byte
StoreNoBackref(cells, a, v) ==
  [x \in DOMAIN cells \cup (a..(a + Len(v) - 1)) |->
     IF x = a THEN ValueCell(v)
     ELSE IF x \in (a + 1)..(a + Len(v) - 1) THEN Backref(a)
     ELSE cells[x]]

IsBackref(cells, a) == a \in DOMAIN cells /\ cells[a].t = "b"

(* ------------------------------- load ---------------------------------- *)
NoBytes == <<>>                                  \* "no value" (a load has at least one byte)
\* the first attempt of load(): a value of at most n bytes, or NoBytes
FirstLoad(cells, back, endian, a, n) ==
  IF a \in DOMAIN cells THEN
    LET c == cells[a] IN
    IF c.t = "v" THEN
      IF Len(c.val) <= n THEN c.val
      ELSE IF endian = "little" THEN VTrun(c.val, n)
      ELSE VTrun(VShr(c.val, Len(c.val) - n), n)
    ELSE
      LET v == cells[c.ref].val
          off == a - c.ref
          x == IF endian = "little"
               THEN VTrun(VShr(v, off), Len(v) - off)
               ELSE LET sh == IF n + off >= Len(v) THEN 0 ELSE Len(v) - n - off
                    IN VTrun(VShr(v, sh), Len(v) - off - sh)
      IN IF Len(x) > n THEN VTrun(x, n) ELSE x
  ELSE IF a \in DOMAIN back THEN <<back[a].b>>                       \* load_backing: one byte
  ELSE NoBytes

\* byte-wise fallback: OR of the zero-extended single-byte loads shifted to their place
RECURSIVE Fallback(_,_,_,_,_,_,_)
Fallback(cells, back, endian, a, n, off, acc) ==
  IF off = n THEN acc
  ELSE LET b == FirstLoad(cells, back, endian, a + off, 1) IN
       IF b = NoBytes THEN NoBytes
       ELSE LET sh == IF endian = "big" THEN n - off - 1 ELSE off IN
            Fallback(cells, back, endian, a, n, off + 1, TLCEval(VOr(acc, VShl(VZext(b, n), sh))))

\* load(a, 8*n): the value (little-endian bytes) or NoBytes
ImplLoad(cells, back, endian, a, n) ==
  LET first == FirstLoad(cells, back, endian, a, n) IN
  IF first = NoBytes THEN NoBytes
  ELSE IF Len(first) = n THEN first
  ELSE Fallback(cells, back, endian, a, n, 0, [i \in 1..n |-> 0])

(* ------------------------------ store ---------------------------------- *)
\* the loads inside store never reach the backing: the cells they read exist
ImplStore(cells, back, endian, a, v) ==
  LET after == a + Len(v)
      c1 == IF IsBackref(cells, after)
            THEN LET ba == cells[after].ref
                     left == (ba + Len(cells[ba].val)) - after
                 IN StoreNoBackref(cells, after, ImplLoad(cells, back, endian, after, left))
            ELSE cells
      c2 == IF IsBackref(c1, a)
            THEN LET ba == c1[a].ref
                     left == Len(c1[ba].val) - ((ba + Len(c1[ba].val)) - a)
                 IN StoreNoBackref(c1, ba, ImplLoad(c1, back, endian, ba, left))
            ELSE c1
  IN StoreNoBackref(c2, a, v)

\* every back-reference points at a value cell that reaches it
CellsWF(cells) ==
  \A x \in DOMAIN cells :
     cells[x].t = "b" => /\ cells[x].ref \in DOMAIN cells /\ cells[x].ref < x
                         /\ cells[cells[x].ref].t = "v"
                         /\ x < cells[x].ref + Len(cells[cells[x].ref].val)
=============================================================================
