-------------------------------- MODULE Mips --------------------------------
(***************************************************************************)
(* MIPS32 (release 1/2 integer subset, big and little endian) as far as    *)
(* falcon's MIPS lifter dispatches it; transcribed from "MIPS32            *)
(* Architecture for Programmers, Volume II: The MIPS32 Instruction Set".   *)
(*                                                                         *)
(*   MDecode(w)            raw word -> [mn, rs, rt, rd, sa, imm, w]        *)
(*   MExec1(d, st, big)    one non-branch instruction: sequence of allowed *)
(*                         outcomes (Isa.tla); more than one only for SC   *)
(*   MBranch(d, st, pc)    branch/jump: taken?, target, link register -    *)
(*                         all determined from the state BEFORE the delay  *)
(*                         slot                                            *)
(*   MUnit(ws, st, pc, big) the unit of validation: one instruction, or a  *)
(*                         branch together with its delay slot             *)
(*                                                                         *)
(* State: [gpr |-> 32 values (index r+1; $zero reads 0, writes to it are   *)
(* discarded), hi, lo, mem, win].  Not modelled (=> "unspec", never        *)
(* judged): address-error exceptions (unaligned lw/lh/sw/sh/ll/sc, jump to *)
(* an unaligned address), UNPREDICTABLE cases (division by zero, branch in *)
(* a delay slot, bltzal/bgezal with rs = 31, jalr with rd = rs, clz/clo    *)
(* with rt # rd, reserved fields that are not zero), exceptions raised in  *)
(* a delay slot, hardware registers (rdhwr), the LL bit.                   *)
(***************************************************************************)
EXTENDS Isa

\* ---- fields (w = <<b0,b1,b2,b3>>, b3 most significant) ---------------------------------
MWord(raw, big) == IF big THEN <<raw[4], raw[3], raw[2], raw[1]>> ELSE <<raw[1], raw[2], raw[3], raw[4]>>
FOp(w)  == w[4] \div 4
FRs(w)  == (w[4] % 4) * 8 + w[3] \div 32
FRt(w)  == w[3] % 32
FRd(w)  == w[2] \div 8
FSa(w)  == (w[2] % 8) * 4 + w[1] \div 64
FFn(w)  == w[1] % 64
FImm(w) == <<w[1], w[2]>>                                  \* 16 bits

SpecialMn(w) ==
  LET f == FFn(w)  rs == FRs(w)  rt == FRt(w)  rd == FRd(w)  sa == FSa(w) IN
  CASE f = 0  /\ rs = 0                       -> "sll"
    [] f = 2  /\ rs = 0                       -> "srl"
    [] f = 3  /\ rs = 0                       -> "sra"
    [] f = 4  /\ sa = 0                       -> "sllv"
    [] f = 6  /\ sa = 0                       -> "srlv"
    [] f = 7  /\ sa = 0                       -> "srav"
    [] f = 8  /\ rt = 0 /\ rd = 0 /\ sa = 0   -> "jr"
    [] f = 9  /\ rt = 0 /\ sa = 0             -> "jalr"
    [] f = 10 /\ sa = 0                       -> "movz"
    [] f = 11 /\ sa = 0                       -> "movn"
    [] f = 12                                 -> "syscall"
    [] f = 13                                 -> "break"
    [] f = 15 /\ rs = 0 /\ rt = 0 /\ rd = 0   -> "sync"
    [] f = 16 /\ rs = 0 /\ rt = 0 /\ sa = 0   -> "mfhi"
    [] f = 17 /\ rt = 0 /\ rd = 0 /\ sa = 0   -> "mthi"
    [] f = 18 /\ rs = 0 /\ rt = 0 /\ sa = 0   -> "mflo"
    [] f = 19 /\ rt = 0 /\ rd = 0 /\ sa = 0   -> "mtlo"
    [] f = 24 /\ rd = 0 /\ sa = 0             -> "mult"
    [] f = 25 /\ rd = 0 /\ sa = 0             -> "multu"
    [] f = 26 /\ rd = 0 /\ sa = 0             -> "div"
    [] f = 27 /\ rd = 0 /\ sa = 0             -> "divu"
    [] f = 32 /\ sa = 0                       -> "add"
    [] f = 33 /\ sa = 0                       -> "addu"
    [] f = 34 /\ sa = 0                       -> "sub"
    [] f = 35 /\ sa = 0                       -> "subu"
    [] f = 36 /\ sa = 0                       -> "and"
    [] f = 37 /\ sa = 0                       -> "or"
    [] f = 38 /\ sa = 0                       -> "xor"
    [] f = 39 /\ sa = 0                       -> "nor"
    [] f = 42 /\ sa = 0                       -> "slt"
    [] f = 43 /\ sa = 0                       -> "sltu"
    [] f = 52                                 -> "teq"
    [] OTHER                                  -> "?"

Special2Mn(w) ==
  LET f == FFn(w)  rd == FRd(w)  sa == FSa(w) IN
  CASE f = 0  /\ rd = 0 /\ sa = 0 -> "madd"
    [] f = 1  /\ rd = 0 /\ sa = 0 -> "maddu"
    [] f = 2  /\ sa = 0           -> "mul"
    [] f = 4  /\ rd = 0 /\ sa = 0 -> "msub"
    [] f = 5  /\ rd = 0 /\ sa = 0 -> "msubu"
    [] f = 32 /\ sa = 0           -> "clz"
    [] f = 33 /\ sa = 0           -> "clo"
    [] OTHER                      -> "?"

RegimmMn(w) ==
  CASE FRt(w) = 0  -> "bltz"
    [] FRt(w) = 1  -> "bgez"
    [] FRt(w) = 16 -> "bltzal"
    [] FRt(w) = 17 -> "bgezal"
    [] OTHER       -> "?"

MMn(w) ==
  LET op == FOp(w) IN
  CASE op = 0  -> SpecialMn(w)
    [] op = 1  -> RegimmMn(w)
    [] op = 2  -> "j"
    [] op = 3  -> "jal"
    [] op = 4  -> "beq"
    [] op = 5  -> "bne"
    [] op = 6  -> IF FRt(w) = 0 THEN "blez" ELSE "?"
    [] op = 7  -> IF FRt(w) = 0 THEN "bgtz" ELSE "?"
    [] op = 8  -> "addi"
    [] op = 9  -> "addiu"
    [] op = 10 -> "slti"
    [] op = 11 -> "sltiu"
    [] op = 12 -> "andi"
    [] op = 13 -> "ori"
    [] op = 14 -> "xori"
    [] op = 15 -> IF FRs(w) = 0 THEN "lui" ELSE "?"
    [] op = 28 -> Special2Mn(w)
    [] op = 31 -> IF FFn(w) = 59 /\ FRs(w) = 0 /\ FSa(w) = 0 THEN "rdhwr" ELSE "?"
    [] op = 32 -> "lb"
    [] op = 33 -> "lh"
    [] op = 34 -> "lwl"
    [] op = 35 -> "lw"
    [] op = 36 -> "lbu"
    [] op = 37 -> "lhu"
    [] op = 38 -> "lwr"
    [] op = 40 -> "sb"
    [] op = 41 -> "sh"
    [] op = 42 -> "swl"
    [] op = 43 -> "sw"
    [] op = 46 -> "swr"
    [] op = 48 -> "ll"
    [] op = 51 -> "pref"
    [] op = 56 -> "sc"
    [] OTHER   -> "?"

MDecode(w) == [mn |-> MMn(w), rs |-> FRs(w), rt |-> FRt(w), rd |-> FRd(w), sa |-> FSa(w),
               imm |-> FImm(w), w |-> w]

MBranches == {"beq", "bne", "blez", "bgtz", "bltz", "bgez", "bltzal", "bgezal", "j", "jal", "jr", "jalr"}
MIsBranch(mn) == mn \in MBranches

\* ---- registers -------------------------------------------------------------------------
MR(st, r)     == IF r = 0 THEN Zero(32) ELSE st.gpr[r + 1]
MW(st, r, v)  == IF r = 0 THEN st ELSE [st EXCEPT !.gpr[r + 1] = TLCEval(v)]   \* forced: see Isa!StoreBytes
SImm(d)       == Sext(16, 32, d.imm)
ZImm(d)       == Zext(32, d.imm)
MEA(d, st)    == Add(32, MR(st, d.rs), SImm(d))

\* ---- unaligned word accesses (k = vAddr mod 4, W = the aligned word in CPU byte order) --
\* LWL puts the bytes from vAddr to the end of the aligned word (big endian) / from the
\* start of the aligned word to vAddr (little endian) into the most significant part of rt.
LwlVal(big, k, W, rt) == LET s == IF big THEN 8 * k ELSE 8 * (3 - k) IN
                         BvOr(32, Shl(32, W, s), BvAnd(32, rt, LowMask(s)))
LwrVal(big, k, W, rt) == LET s == IF big THEN 8 * (3 - k) ELSE 8 * k IN
                         BvOr(32, Shr(32, W, s), BvAnd(32, rt, HighKeep(s)))
SwlWord(big, k, W, rt) == LET s == IF big THEN 8 * k ELSE 8 * (3 - k) IN
                          BvOr(32, Shr(32, rt, s), BvAnd(32, W, HighKeep(s)))
SwrWord(big, k, W, rt) == LET s == IF big THEN 8 * (3 - k) ELSE 8 * k IN
                          BvOr(32, Shl(32, rt, s), BvAnd(32, W, LowMask(s)))

\* ---- multiply / accumulate -------------------------------------------------------------
Prod(signed, a, b) == IF signed THEN Mul(64, Sext(32, 64, a), Sext(32, 64, b))
                      ELSE Mul(64, Zext(64, a), Zext(64, b))
Acc(st)            == Concat(32, st.hi, 32, st.lo)
SetAcc(st, v)      == [st EXCEPT !.hi = TLCEval(Extract(64, v, 32, 32)), !.lo = TLCEval(Trun(32, v))]

\* ---- one non-branch instruction --------------------------------------------------------
MLoad(d, st, big, n, signed) ==
  LET ea == MEA(d, st) IN
  IF ea[1] % n # 0 THEN <<UnspecR("address error (unaligned)")>>
  ELSE IF ~InWin(st, ea, n) THEN <<UnspecR("address outside the data window")>>
  ELSE LET v == ValOf(LoadBytes(st, ea, n), big) IN
       <<OkR(MW(st, d.rt, IF signed THEN Sext(8 * n, 32, v) ELSE Zext(32, v)))>>

MStore(d, st, big, n) ==
  LET ea == MEA(d, st) IN
  IF ea[1] % n # 0 THEN <<UnspecR("address error (unaligned)")>>
  ELSE IF ~InWin(st, ea, n) THEN <<UnspecR("address outside the data window")>>
  ELSE <<OkR(StoreBytes(st, ea, BytesOf(Trun(8 * n, MR(st, d.rt)), big)))>>

MPartial(d, st, big) ==
  LET ea == MEA(d, st)  k == ea[1] % 4  wa == AlignDown4(ea) IN
  IF ~InWin(st, wa, 4) THEN <<UnspecR("address outside the data window")>>
  ELSE LET W == ValOf(LoadBytes(st, wa, 4), big)  rt == MR(st, d.rt) IN
       CASE d.mn = "lwl" -> <<OkR(MW(st, d.rt, LwlVal(big, k, W, rt)))>>
         [] d.mn = "lwr" -> <<OkR(MW(st, d.rt, LwrVal(big, k, W, rt)))>>
         [] d.mn = "swl" -> <<OkR(StoreBytes(st, wa, BytesOf(SwlWord(big, k, W, rt), big)))>>
         [] d.mn = "swr" -> <<OkR(StoreBytes(st, wa, BytesOf(SwrWord(big, k, W, rt), big)))>>

ShAmt(st, d) == Low(MR(st, d.rs), 5)                        \* variable shifts use rs[4:0]

MExec1(d, st, big) ==
  LET rs == MR(st, d.rs)  rt == MR(st, d.rt)  mn == d.mn IN
  CASE mn = "add"   -> IF AddOvf(rs, rt) THEN <<TrapR("IntegerOverflow", st)>>
                       ELSE <<OkR(MW(st, d.rd, Add(32, rs, rt)))>>
    [] mn = "addu"  -> <<OkR(MW(st, d.rd, Add(32, rs, rt)))>>
    [] mn = "sub"   -> IF SubOvf(rs, rt) THEN <<TrapR("IntegerOverflow", st)>>
                       ELSE <<OkR(MW(st, d.rd, Sub(32, rs, rt)))>>
    [] mn = "subu"  -> <<OkR(MW(st, d.rd, Sub(32, rs, rt)))>>
    [] mn = "and"   -> <<OkR(MW(st, d.rd, BvAnd(32, rs, rt)))>>
    [] mn = "or"    -> <<OkR(MW(st, d.rd, BvOr(32, rs, rt)))>>
    [] mn = "xor"   -> <<OkR(MW(st, d.rd, BvXor(32, rs, rt)))>>
    [] mn = "nor"   -> <<OkR(MW(st, d.rd, BvNot(32, BvOr(32, rs, rt))))>>
    [] mn = "slt"   -> <<OkR(MW(st, d.rd, N32(BoolBit(Lts(32, rs, rt)))))>>
    [] mn = "sltu"  -> <<OkR(MW(st, d.rd, N32(BoolBit(Ltu(32, rs, rt)))))>>
    [] mn = "movz"  -> <<OkR(IF IsZero(rt) THEN MW(st, d.rd, rs) ELSE st)>>
    [] mn = "movn"  -> <<OkR(IF IsZero(rt) THEN st ELSE MW(st, d.rd, rs))>>
    [] mn = "sll"   -> <<OkR(MW(st, d.rd, Shl(32, rt, d.sa)))>>
    [] mn = "srl"   -> <<OkR(MW(st, d.rd, Shr(32, rt, d.sa)))>>
    [] mn = "sra"   -> <<OkR(MW(st, d.rd, AShr(32, rt, d.sa)))>>
    [] mn = "sllv"  -> <<OkR(MW(st, d.rd, Shl(32, rt, ShAmt(st, d))))>>
    [] mn = "srlv"  -> <<OkR(MW(st, d.rd, Shr(32, rt, ShAmt(st, d))))>>
    [] mn = "srav"  -> <<OkR(MW(st, d.rd, AShr(32, rt, ShAmt(st, d))))>>
    [] mn = "mult"  -> <<OkR(SetAcc(st, Prod(TRUE, rs, rt)))>>
    [] mn = "multu" -> <<OkR(SetAcc(st, Prod(FALSE, rs, rt)))>>
    [] mn = "div"   -> IF IsZero(rt) THEN <<UnspecR("division by zero (UNPREDICTABLE)")>>
                       ELSE <<OkR([st EXCEPT !.lo = TLCEval(Divs(32, rs, rt)), !.hi = TLCEval(Mods(32, rs, rt))])>>
    [] mn = "divu"  -> IF IsZero(rt) THEN <<UnspecR("division by zero (UNPREDICTABLE)")>>
                       ELSE <<OkR([st EXCEPT !.lo = TLCEval(Divu(32, rs, rt)), !.hi = TLCEval(Modu(32, rs, rt))])>>
    [] mn = "madd"  -> <<OkR(SetAcc(st, Add(64, Acc(st), Prod(TRUE, rs, rt))))>>
    [] mn = "maddu" -> <<OkR(SetAcc(st, Add(64, Acc(st), Prod(FALSE, rs, rt))))>>
    [] mn = "msub"  -> <<OkR(SetAcc(st, Sub(64, Acc(st), Prod(TRUE, rs, rt))))>>
    [] mn = "msubu" -> <<OkR(SetAcc(st, Sub(64, Acc(st), Prod(FALSE, rs, rt))))>>
    [] mn = "mul"   -> <<OkDc(MW(st, d.rd, Trun(32, Prod(TRUE, rs, rt))), {"hi", "lo"})>>  \* HI/LO UNPREDICTABLE
    [] mn = "mfhi"  -> <<OkR(MW(st, d.rd, st.hi))>>
    [] mn = "mflo"  -> <<OkR(MW(st, d.rd, st.lo))>>
    [] mn = "mthi"  -> <<OkR([st EXCEPT !.hi = rs])>>
    [] mn = "mtlo"  -> <<OkR([st EXCEPT !.lo = rs])>>
    [] mn = "clz"   -> IF d.rt # d.rd THEN <<UnspecR("clz with rt # rd (UNPREDICTABLE)")>>
                       ELSE <<OkR(MW(st, d.rd, N32(Clz32(rs))))>>
    [] mn = "clo"   -> IF d.rt # d.rd THEN <<UnspecR("clo with rt # rd (UNPREDICTABLE)")>>
                       ELSE <<OkR(MW(st, d.rd, N32(Clz32(BvNot(32, rs)))))>>
    [] mn = "addi"  -> IF AddOvf(rs, SImm(d)) THEN <<TrapR("IntegerOverflow", st)>>
                       ELSE <<OkR(MW(st, d.rt, Add(32, rs, SImm(d))))>>
    [] mn = "addiu" -> <<OkR(MW(st, d.rt, Add(32, rs, SImm(d))))>>
    [] mn = "slti"  -> <<OkR(MW(st, d.rt, N32(BoolBit(Lts(32, rs, SImm(d))))))>>
    [] mn = "sltiu" -> <<OkR(MW(st, d.rt, N32(BoolBit(Ltu(32, rs, SImm(d))))))>>
    [] mn = "andi"  -> <<OkR(MW(st, d.rt, BvAnd(32, rs, ZImm(d))))>>
    [] mn = "ori"   -> <<OkR(MW(st, d.rt, BvOr(32, rs, ZImm(d))))>>
    [] mn = "xori"  -> <<OkR(MW(st, d.rt, BvXor(32, rs, ZImm(d))))>>
    [] mn = "lui"   -> <<OkR(MW(st, d.rt, Shl(32, ZImm(d), 16)))>>
    [] mn = "lb"    -> MLoad(d, st, big, 1, TRUE)
    [] mn = "lbu"   -> MLoad(d, st, big, 1, FALSE)
    [] mn = "lh"    -> MLoad(d, st, big, 2, TRUE)
    [] mn = "lhu"   -> MLoad(d, st, big, 2, FALSE)
    [] mn = "lw"    -> MLoad(d, st, big, 4, FALSE)
    [] mn = "ll"    -> MLoad(d, st, big, 4, FALSE)
    [] mn = "sb"    -> MStore(d, st, big, 1)
    [] mn = "sh"    -> MStore(d, st, big, 2)
    [] mn = "sw"    -> MStore(d, st, big, 4)
    [] mn = "sc"    -> \* the LL bit is not part of the state: success and failure are both allowed
                       LET s == MStore(d, st, big, 4) IN
                       IF s[1].k # "ok" THEN s
                       ELSE <<OkR(MW(s[1].st, d.rt, One(32))), OkR(MW(st, d.rt, Zero(32)))>>
    [] mn \in {"lwl", "lwr", "swl", "swr"} -> MPartial(d, st, big)
    [] mn = "teq"     -> IF Eq(32, rs, rt) THEN <<TrapR("trap", st)>> ELSE <<OkR(st)>>
    [] mn = "syscall" -> <<TrapR("syscall", st)>>
    [] mn = "break"   -> <<TrapR("break", st)>>
    [] mn = "sync"    -> <<OkR(st)>>
    [] mn = "pref"    -> <<OkR(st)>>
    [] mn = "rdhwr"   -> <<UnspecR("hardware registers are not modelled")>>
    [] OTHER          -> <<UnspecR("not a non-branch instruction of this module")>>

\* ---- branches and jumps: everything is determined by the state before the delay slot ----
RelTarget(d, pc) == Add(32, Add(32, pc, N32(4)), Shl(32, SImm(d), 2))
JTarget(d, pc)   == BvOr(32, BvAnd(32, Add(32, pc, N32(4)), <<0, 0, 0, 240>>),
                         Shl(32, BvAnd(32, d.w, <<255, 255, 255, 3>>), 2))
BrR(ok, taken, target, link) == [ok |-> ok, taken |-> taken, target |-> target, link |-> link]   \* link = -1: none

MBranch(d, st, pc) ==
  LET rs == MR(st, d.rs)  rt == MR(st, d.rt)  mn == d.mn  rel == RelTarget(d, pc) IN
  CASE mn = "beq"    -> BrR(TRUE, Eq(32, rs, rt), rel, -1)
    [] mn = "bne"    -> BrR(TRUE, ~Eq(32, rs, rt), rel, -1)
    [] mn = "blez"   -> BrR(TRUE, Msb(32, rs) = 1 \/ IsZero(rs), rel, -1)
    [] mn = "bgtz"   -> BrR(TRUE, Msb(32, rs) = 0 /\ ~IsZero(rs), rel, -1)
    [] mn = "bltz"   -> BrR(TRUE, Msb(32, rs) = 1, rel, -1)
    [] mn = "bgez"   -> BrR(TRUE, Msb(32, rs) = 0, rel, -1)
    [] mn = "bltzal" -> BrR(d.rs # 31, Msb(32, rs) = 1, rel, 31)          \* rs = 31: UNPREDICTABLE
    [] mn = "bgezal" -> BrR(d.rs # 31, Msb(32, rs) = 0, rel, 31)
    [] mn = "j"      -> BrR(TRUE, TRUE, JTarget(d, pc), -1)
    [] mn = "jal"    -> BrR(TRUE, TRUE, JTarget(d, pc), 31)
    [] mn = "jr"     -> BrR(rs[1] % 4 = 0, TRUE, rs, -1)                  \* unaligned target: address error
    [] mn = "jalr"   -> BrR(rs[1] % 4 = 0 /\ d.rd # d.rs, TRUE, rs, d.rd) \* rd = rs: UNPREDICTABLE
    [] OTHER         -> BrR(FALSE, FALSE, NoPc, -1)

\* ---- the unit of validation ------------------------------------------------------------
WithNpc(rs, npc) == [i \in 1..Len(rs) |-> IF rs[i].k = "unspec" THEN rs[i] ELSE [rs[i] EXCEPT !.npc = npc]]

MUnitD(ds, st, pc, big) ==                  \* ds: sequence of decoded words
  LET d1 == ds[1] IN
  IF d1.mn = "?" THEN <<UnspecR("reserved or unknown encoding")>>
  ELSE IF ~MIsBranch(d1.mn) THEN
       IF Len(ds) # 1 THEN <<UnspecR("a unit of two words must start with a branch")>>
       ELSE WithNpc(MExec1(d1, st, big), Add(32, pc, N32(4)))
  ELSE IF Len(ds) # 2 THEN <<UnspecR("branch without its delay slot")>>
  ELSE LET d2 == ds[2]  b == MBranch(d1, st, pc) IN
       IF ~b.ok THEN <<UnspecR("UNPREDICTABLE branch form or address error at the target")>>
       ELSE IF d2.mn = "?" THEN <<UnspecR("reserved or unknown encoding in the delay slot")>>
       ELSE IF MIsBranch(d2.mn) THEN <<UnspecR("branch in a delay slot (UNPREDICTABLE)")>>
       ELSE LET st1 == IF b.link >= 0 THEN MW(st, b.link, Add(32, pc, N32(8))) ELSE st
                r   == MExec1(d2, st1, big)
                npc == IF b.taken THEN b.target ELSE Add(32, pc, N32(8))
            IN [i \in 1..Len(r) |-> IF r[i].k = "trap" THEN UnspecR("exception in a delay slot")
                                    ELSE IF r[i].k = "unspec" THEN r[i]
                                    ELSE [r[i] EXCEPT !.npc = npc]]

MUnit(ws, st, pc, big) == MUnitD([i \in 1..Len(ws) |-> MDecode(ws[i])], st, pc, big)

\* ---- operand roles (used for the state-class tags of a rejection; not for the verdict) --
MDst(d) ==        \* register written by a non-branch instruction, -1 if none
  CASE d.mn \in {"add", "addu", "sub", "subu", "and", "or", "xor", "nor", "slt", "sltu", "movz", "movn",
                 "sll", "srl", "sra", "sllv", "srlv", "srav", "mul", "mfhi", "mflo", "clz", "clo"} -> d.rd
    [] d.mn \in {"addi", "addiu", "slti", "sltiu", "andi", "ori", "xori", "lui", "lb", "lbu", "lh", "lhu",
                 "lw", "ll", "lwl", "lwr", "sc"} -> d.rt
    [] OTHER -> -1
MSrcs(d) ==       \* registers read by a non-branch instruction
  CASE d.mn \in {"add", "addu", "sub", "subu", "and", "or", "xor", "nor", "slt", "sltu", "movz", "movn",
                 "sllv", "srlv", "srav", "mul", "mult", "multu", "div", "divu", "madd", "maddu", "msub",
                 "msubu", "teq", "sb", "sh", "sw", "sc", "swl", "swr", "lwl", "lwr"} -> {d.rs, d.rt}
    [] d.mn \in {"sll", "srl", "sra"} -> {d.rt}
    [] d.mn \in {"lui", "mfhi", "mflo", "syscall", "break", "sync"} -> {}
    [] OTHER -> {d.rs}
=============================================================================
