-------------------------------- MODULE ILSem --------------------------------
(***************************************************************************)
(* Small-step operational semantics of falcon IL programs.                 *)
(*                                                                         *)
(* This module is a library of operators (no VARIABLES): trace             *)
(* specifications (C07) and program explorations (C10, C12-C14, C17)       *)
(* embed it in their own state machines, adding history variables or a     *)
(* second program in lock-step.                                            *)
(*                                                                         *)
(* Program   P   : sequence of functions (position f = 1..Len(P))          *)
(* Function  F   : [blocks |-> seq of [i |-> index, ins |-> seq of         *)
(*                   [i |-> index, addr |-> [k|->"none"] or value, op],    *)
(*                   phi |-> ...], edges |-> seq of [h, t, c], entry]      *)
(*                 (exactly the JSON written by the harness, proj::function)*)
(* Location      : [k |-> "ins", f, b, p]   p = POSITION (1-based) in the  *)
(*                 block's instruction sequence                            *)
(*                 [k |-> "edge", f, h, t]   [k |-> "empty", f, b]         *)
(* State     st  : [loc, sc, mem]                                          *)
(*     sc  : function  scalar name -> value [w, v]  (undefined = absent)   *)
(*     mem : function  64-bit address (limb sequence) -> byte 0..255       *)
(*                                                                         *)
(* A step yields a *set of allowed outcomes*, because the semantics is     *)
(* deterministic only on programs whose guards are exclusive and           *)
(* exhaustive, and because the property fixes the kind of error per cause  *)
(* but not which of several simultaneous causes is reported.               *)
(*   Outcome:  [k |-> "ok",  st |-> state]                                 *)
(*             [k |-> "err", err |-> token]                                *)
(*             [k |-> "out", addr |-> a, sc, mem]  indirect branch to an   *)
(*                          address that is not an instruction of P        *)
(***************************************************************************)
EXTENDS IL

AW == 64                                        \* width of a memory address

(* ----------------------------- structure -------------------------------- *)
BlockIdx(F)     == { F.blocks[k].i : k \in 1..Len(F.blocks) }
BlockOf(F, b)   == F.blocks[CHOOSE k \in 1..Len(F.blocks) : F.blocks[k].i = b]
OutEdges(F, b)  == { k \in 1..Len(F.edges) : F.edges[k].h = b }      \* positions in F.edges
InEdges(F, b)   == { k \in 1..Len(F.edges) : F.edges[k].t = b }
HasCond(e)      == e.c.k # "none"

BlockEntryLoc(f, F, b) ==
  IF Len(BlockOf(F, b).ins) = 0 THEN [k |-> "empty", f |-> f, b |-> b]
  ELSE [k |-> "ins", f |-> f, b |-> b, p |-> 1]
EdgeLoc(f, e)   == [k |-> "edge", f |-> f, h |-> e.h, t |-> e.t]

InsAt(P, loc)   == BlockOf(P[loc.f], loc.b).ins[loc.p]

\* all instruction locations of P whose address equals a (a : 64-bit limb sequence)
LocsAtAddress(P, a) ==
  UNION { UNION { { [k |-> "ins", f |-> f, b |-> P[f].blocks[j].i, p |-> p] :
                      p \in { q \in 1..Len(P[f].blocks[j].ins) :
                                LET ad == P[f].blocks[j].ins[q].addr IN ad.k # "none" /\ ad.v = a } }
                  : j \in 1..Len(P[f].blocks) }
          : f \in 1..Len(P) }

(* ------------------------------- memory --------------------------------- *)
AddrPlus(a, i) == Add(AW, a, FromNat(AW, i))

\* address value of an evaluated index/target: widths above 64 must fit 64 bits
AddrOf(x) ==
  IF x.w <= AW THEN Ok(Zext(AW, x.v))
  ELSE IF \A i \in (NL(AW) + 1)..NL(x.w) : x.v[i] = 0 THEN Ok(Trun(AW, x.v))
  ELSE Err("TooManyAddressBits")

\* byte i (0-based, in address order) of value x of n bytes
ByteAt(x, n, i, bigEndian) == IF bigEndian THEN x.v[n - i] ELSE x.v[i + 1]

StoreBytes(mem, a, x, bigEndian) ==
  LET n == x.w \div 8
      tgt == [i \in 0..(n - 1) |-> AddrPlus(a, i)]
      T == { tgt[i] : i \in 0..(n - 1) }
  IN [ad \in DOMAIN mem \cup T |->
        IF ad \in T THEN ByteAt(x, n, CHOOSE i \in 0..(n - 1) : tgt[i] = ad, bigEndian)
        ELSE mem[ad]]

Mapped(mem, a, n) == \A i \in 0..(n - 1) : AddrPlus(a, i) \in DOMAIN mem

LoadBytes(mem, a, w, bigEndian) ==
  LET n == w \div 8 IN
  Val(w, [j \in 1..n |-> IF bigEndian THEN mem[AddrPlus(a, n - j)] ELSE mem[AddrPlus(a, j - 1)]])

(* ------------------------- executing one operation ---------------------- *)
Upd(sc, n, x) == [m \in DOMAIN sc \cup {n} |-> IF m = n THEN x ELSE sc[m]]

ErrOut(t)  == [k |-> "err", err |-> t]
ErrOuts(S) == { ErrOut(t) : t \in S }

\* Outcomes of executing op: "ft" (fall through with new sc, mem), "br" (branch), or errors
ExecOp(op, sc, mem, bigEndian) ==
  CASE op.k = "assign" ->
         LET r == Eval(op.src, sc) IN
         IF IsErr(r) THEN ErrOuts(ErrSet(op.src, sc))
         ELSE {[k |-> "ft", sc |-> Upd(sc, op.dst.n, r.ok), mem |-> mem]}
    [] op.k = "store" ->
         LET rs == Eval(op.src, sc)  ri == Eval(op.idx, sc) IN
         IF IsErr(rs) \/ IsErr(ri) THEN ErrOuts(ErrSet(op.src, sc) \cup ErrSet(op.idx, sc))
         ELSE LET a == AddrOf(ri.ok) IN
              IF IsErr(a) THEN {ErrOut(a.err)}
              ELSE {[k |-> "ft", sc |-> sc, mem |-> StoreBytes(mem, a.ok, rs.ok, bigEndian)]}
    [] op.k = "load" ->
         LET ri == Eval(op.idx, sc) IN
         IF IsErr(ri) THEN ErrOuts(ErrSet(op.idx, sc))
         ELSE LET a == AddrOf(ri.ok) IN
              IF IsErr(a) THEN {ErrOut(a.err)}
              ELSE IF ~Mapped(mem, a.ok, op.dst.w \div 8) THEN {ErrOut("ExecutorInvalidAddress")}
              ELSE {[k |-> "ft", sc |-> Upd(sc, op.dst.n, LoadBytes(mem, a.ok, op.dst.w, bigEndian)),
                     mem |-> mem]}
    [] op.k = "branch" ->
         LET rt == Eval(op.target, sc) IN
         IF IsErr(rt) THEN ErrOuts(ErrSet(op.target, sc))
         ELSE LET a == AddrOf(rt.ok) IN
              IF IsErr(a) THEN {ErrOut(a.err)}
              ELSE {[k |-> "br", addr |-> a.ok, sc |-> sc, mem |-> mem]}
    [] op.k = "intrinsic" -> {ErrOut("UnhandledIntrinsic")}
    [] op.k = "nop" -> {[k |-> "ft", sc |-> sc, mem |-> mem]}

(* ------------------------- choosing the successor ----------------------- *)
\* Leaving block b of function f in scalar state sc: the edge whose guard is 1.
\* A single out-edge is followed as such (nothing to choose); with several, each
\* enabled one is allowed (exactly one on well-formed programs); a guard that cannot
\* be evaluated allows that error; no out-edge / no enabled edge is an error.
LeaveBlock(f, F, b, sc, mem) ==
  LET out == OutEdges(F, b) IN
  IF out = {} THEN {ErrOut("ExecutorNoValidLocation")}
  ELSE IF Cardinality(out) = 1 /\ \A k \in out : ~HasCond(F.edges[k])
       THEN { [k |-> "ok", st |-> [loc |-> EdgeLoc(f, F.edges[k]), sc |-> sc, mem |-> mem]] : k \in out }
  ELSE LET g(k)    == Eval(F.edges[k].c, sc)
           enabled == { k \in out : ~HasCond(F.edges[k]) \/ (IsOk(g(k)) /\ g(k).ok.v = <<1>>) }
           gerrs   == UNION { IF HasCond(F.edges[k]) /\ IsErr(g(k)) THEN ErrSet(F.edges[k].c, sc) ELSE {}
                              : k \in out }
       IN { [k |-> "ok", st |-> [loc |-> EdgeLoc(f, F.edges[k]), sc |-> sc, mem |-> mem]] : k \in enabled }
          \cup ErrOuts(gerrs)
          \cup (IF enabled = {} /\ gerrs = {} THEN {ErrOut("ExecutorNoValidLocation")} ELSE {})

\* exclusive and exhaustive guards in this state (the precondition of determinism)
GuardsDeterministicAt(F, b, sc) ==
  LET out == OutEdges(F, b) IN
  \/ out = {}
  \/ (Cardinality(out) = 1 /\ \A k \in out : ~HasCond(F.edges[k]))
  \/ /\ \A k \in out : HasCond(F.edges[k]) /\ IsOk(Eval(F.edges[k].c, sc))
     /\ Cardinality({ k \in out : Eval(F.edges[k].c, sc).ok.v = <<1>> }) = 1

(* --------------------------------- step --------------------------------- *)
Step(P, st, bigEndian) ==
  LET loc == st.loc  F == P[loc.f] IN
  CASE loc.k = "edge"  ->
         {[k |-> "ok", st |-> [loc |-> BlockEntryLoc(loc.f, F, loc.t), sc |-> st.sc, mem |-> st.mem]]}
    [] loc.k = "empty" -> LeaveBlock(loc.f, F, loc.b, st.sc, st.mem)
    [] loc.k = "ins"   ->
         LET blk == BlockOf(F, loc.b)
             rs  == ExecOp(blk.ins[loc.p].op, st.sc, st.mem, bigEndian)
             after(r) ==
               CASE r.k = "err" -> {r}
                 [] r.k = "ft"  ->
                      IF loc.p < Len(blk.ins)
                      THEN {[k |-> "ok", st |-> [loc |-> [loc EXCEPT !.p = loc.p + 1], sc |-> r.sc, mem |-> r.mem]]}
                      ELSE LeaveBlock(loc.f, F, loc.b, r.sc, r.mem)
                 [] r.k = "br"  ->
                      LET tl == LocsAtAddress(P, r.addr) IN
                      IF tl = {} THEN {[k |-> "out", addr |-> r.addr, sc |-> r.sc, mem |-> r.mem]}
                      ELSE { [k |-> "ok", st |-> [loc |-> l, sc |-> r.sc, mem |-> r.mem]] : l \in tl }
         IN UNION { after(r) : r \in rs }

\* frame property of one step, as a predicate on (st, outcome): everything not written is unchanged
FrameOK(P, st, o) ==
  o.k = "ok" =>
    LET loc == st.loc IN
    IF loc.k # "ins" THEN o.st.sc = st.sc /\ o.st.mem = st.mem
    ELSE LET op == InsAt(P, loc).op IN
         /\ \A n \in DOMAIN st.sc : (op.k \in {"assign", "load"} /\ op.dst.n = n) \/ (n \in DOMAIN o.st.sc /\ o.st.sc[n] = st.sc[n])
         /\ op.k # "store" => o.st.mem = st.mem
=============================================================================
