------------------------------ MODULE TraceLib ------------------------------
(***************************************************************************)
(* Shared plumbing of the trace specifications (DESIGN.md section 3 and    *)
(* appendix A).  The trace is the ndjson file named by the environment     *)
(* variable TRACE: one JSON object per line, no nulls.  A trace spec has a *)
(* line counter l, consumes exactly one line per step, and never blocks:   *)
(* an event the specification does not allow is reported with Reject and   *)
(* the run goes on (the rest of that session is skipped by the spec that   *)
(* uses sessions).  Acceptance of the run is the POSTCONDITION Consumed:   *)
(* every line was consumed; anything else is a tool error, not a pass.     *)
(***************************************************************************)
EXTENDS Integers, Sequences, TLC, Json, IOUtils

Rec  == ndJsonDeserialize(IOEnv.TRACE)
NRec == Len(Rec)

\* one line of TLC output per rejected event; the orchestrator parses it
Reject(line, why, expected) ==
  PrintT(<<"REJECT", ToJson([line |-> line, why |-> why, expected |-> expected])>>)

Consumed ==
  IF TLCGet("stats").diameter - 1 = NRec THEN TRUE
  ELSE Print(<<"TRACE-NOT-CONSUMED", TLCGet("stats").diameter - 1, NRec>>, FALSE)

Has(r, f) == f \in DOMAIN r
=============================================================================
