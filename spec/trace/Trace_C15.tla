----------------------------- MODULE Trace_C15 -----------------------------
(***************************************************************************)
(* C15: every recorded operation on the real il::ControlFlowGraph /        *)
(* il::Block / BlockTranslationResult::blockify is judged against Cfg.tla. *)
(*                                                                         *)
(* The model state G is the last accepted observed graph.  One line = one  *)
(* operation with its descriptor d, its result res and the full projected  *)
(* graph after it (post).  For every line                                  *)
(*   - the observed graph must satisfy the invariant WF, including the     *)
(*     agreement of the four neighbourhood queries of every block with the *)
(*     edge set;                                                           *)
(*   - deterministic operations (new block, instruction, edges, entry/exit,*)
(*     Block::append, remove_instruction, insert) must be exactly the      *)
(*     model operation on G (fresh indices are free, they only have to be  *)
(*     unused), and must fail exactly when the model precondition fails,   *)
(*     leaving the graph unchanged;                                        *)
(*   - merge may produce *any* graph with WF and Lang' = Lang (whether it  *)
(*     reports Ok or Err);                                                 *)
(*   - append must give Lang' = Lang(G) \cup ExitLang(G).Lang(H) and       *)
(*     ExitLang' = ExitLang(G).ExitLang(H)  ("runs the first graph and     *)
(*     then the second");                                                  *)
(*   - blockify must give WF and the language of the graphs run one after  *)
(*     the other.                                                          *)
(* `why` lists *all* failing components, so that a known-finding predicate *)
(* can name one component and nothing else.                                *)
(***************************************************************************)
EXTENDS Cfg, TraceLib

CONSTANT K
\* The languages are compared up to length K; the number of sequences grows with the number of conditional
\* edges, so for densely branching graphs (random histories, a graph appended to itself) the bound is lowered:
\* the comparison stays exact up to the bound used, and every session stays checkable in seconds.
CondEdges(G) == Cardinality({ e \in G.E : e.c # Uncond })
KOf(G1, G2) == LET n == IF CondEdges(G1) > CondEdges(G2) THEN CondEdges(G1) ELSE CondEdges(G2) IN
               IF n <= 6 THEN K ELSE IF n <= 9 THEN (IF K < 6 THEN K ELSE 6) ELSE IF n <= 12 THEN (IF K < 5 THEN K ELSE 5) ELSE (IF K < 4 THEN K ELSE 4)

VARIABLES l, skip, G
vars == <<l, skip, G>>

(***************************************************************************)
(* observed state -> graph value                                           *)
(***************************************************************************)
BlockIdxSeq(st) == [j \in 1..Len(st.blocks) |-> st.blocks[j].i]
BlockOf(st, b)  == st.blocks[CHOOSE j \in 1..Len(st.blocks) : st.blocks[j].i = b]
ToG(st) == [B |-> [b \in SeqToSet(BlockIdxSeq(st)) |-> BlockOf(st, b).ins],
            E |-> SeqToSet(st.edges), entry |-> st.entry, exit |-> st.exit]

RECURSIVE Join(_)
Join(s) == IF Len(s) = 0 THEN "" ELSE IF Len(s) = 1 THEN s[1] ELSE s[1] \o "," \o Join(Tail(s))
P(ok, name) == IF ok THEN <<>> ELSE <<name>>

QueryOK(q, S) == Has(q, "ok") /\ SeqToSet(q.ok) = S
QueriesOK(st, g) ==
  \A j \in 1..Len(st.blocks) :
    LET b == st.blocks[j] IN
    /\ QueryOK(b.succ, Succ(g, b.i))
    /\ QueryOK(b.pred, Pred(g, b.i))
    /\ QueryOK(b.eo, { <<e.h, e.t>> : e \in OutEdges(g, b.i) })
    /\ QueryOK(b.ei, { <<e.h, e.t>> : e \in InEdges(g, b.i) })

\* the invariant of the property on an observed state; g = ToG(st)
ObsProblems(st, g) ==
     P(Cardinality(SeqToSet(BlockIdxSeq(st))) = Len(st.blocks), "block-index-duplicate")
  \o P(EdgesJoinBlocks(g), "edge-dangling")
  \o P(EdgesKeyed(g) /\ Cardinality(g.E) = Len(st.edges), "edge-duplicate")
  \o P(QueriesOK(st, g), "query-mismatch")
  \o P(InsIndicesUnique(g), "instruction-index-duplicate")
  \o P(EntryOK(g), "entry-stale")
  \o P(ExitOK(g), "exit-stale")

\* the language can be computed as long as only the exit is wrong
Evaluable(probs) == \A j \in 1..Len(probs) : probs[j] = "exit-stale"

Clean(res) == Has(res, "ok") \/ Has(res, "err")

(***************************************************************************)
(* deterministic operations: pre = model precondition, exp = model result  *)
(***************************************************************************)
Det(e, g, g2, pre, exp) ==
  IF Has(e.res, "ok")
  THEN P(pre, "ok-but-precondition-false") \o (IF pre THEN P(g2 = exp, "effect") ELSE <<>>)
  ELSE P(~pre, "err-but-precondition-true") \o P(g2 = g, "changed-behind-err")

LastOf(s) == s[Len(s)]

AddInsProblems(e, g, g2) ==
  LET b == e.d.b IN
  IF Has(e.res, "ok")
  THEN IF b \in BlockIds(g) /\ b \in BlockIds(g2) /\ Len(g2.B[b]) >= 1
       THEN LET ins == LastOf(g2.B[b]) IN
            P(AddInsPre(g, b, ins) /\ g2 = AddIns(g, b, ins) /\ ins.i = e.res.ok /\ ins.a = e.d.addr, "effect")
       ELSE <<"effect">>
  ELSE P(b \notin BlockIds(g), "err-but-precondition-true") \o P(g2 = g, "changed-behind-err")

BlockAppendProblems(e, g, g2) ==
  LET b == e.d.b
      s == e.d.src
      pre == b \in BlockIds(g) /\ s \in BlockIds(g) IN
  IF Has(e.res, "ok")
  THEN IF ~pre THEN <<"ok-but-precondition-false">>
       ELSE IF e.src # g.B[s] THEN <<"source-block-differs-from-model">>
       ELSE IF b \in BlockIds(g2) /\ Len(g2.B[b]) = Len(g.B[b]) + Len(e.src)
            THEN LET n0 == Len(g.B[b])
                     idx == [j \in 1..Len(e.src) |-> g2.B[b][n0 + j].i] IN
                 P(BlockAppendPre(g, b, e.src, idx) /\ g2 = BlockAppend(g, b, e.src, idx), "effect")
            ELSE <<"effect">>
  ELSE P(~pre, "err-but-precondition-true") \o P(g2 = g, "changed-behind-err")

\* insert: find the renaming; the order-preserving one first, any other bijection otherwise
\* (exhaustive search only for <= 6 inserted blocks: 6^6 candidates)
RECURSIVE SortedSeq(_)
SortedSeq(S) == IF S = {} THEN <<>>
                ELSE LET m == CHOOSE x \in S : \A y \in S : x <= y IN <<m>> \o SortedSeq(S \ {m})
InsertMatches(g, h, g2, m, res) ==
  RenamePre(g, h, m) /\ g2 = Insert(g, h, m) /\ res = InsertResult(h, m)
InsertProblems(e, g, g2) ==
  LET h == ToG(e.other)
      pre == InsertPre(h) IN
  IF Has(e.res, "ok")
  THEN IF ~pre THEN <<"ok-but-precondition-false">>
       ELSE LET new == BlockIds(g2) \ BlockIds(g)
                old == BlockIds(h) IN
            IF Cardinality(new) # Cardinality(old) THEN <<"effect">>
            ELSE LET so == SortedSeq(old)
                     sn == SortedSeq(new)
                     m0 == [x \in old |-> sn[CHOOSE j \in 1..Len(so) : so[j] = x]] IN
                 P(\/ InsertMatches(g, h, g2, m0, e.res.ok)
                   \/ (Cardinality(old) <= 6 /\ \E m \in [old -> new] : InsertMatches(g, h, g2, m, e.res.ok)),
                   "effect")
  ELSE P(~pre, "err-but-precondition-true") \o P(g2 = g, "changed-behind-err")

AppendProblems(e, g, g2, evaluable) ==
  LET h == ToG(e.other)
      pre == AppendPre(g, h) IN
     P(~Has(e.d.other, "self") \/ h = g, "other-differs-from-model")
  \o (IF Has(e.res, "ok")
      THEN IF ~pre THEN <<"ok-but-precondition-false">>
           ELSE IF ~evaluable THEN <<>>
           ELSE LET got == Langs(g2, KOf(g, g2))
                    exp == AppendExpected(g, h, KOf(g, g2)) IN
                P(got[1] = exp[1], "language-not-first-then-second") \o
                P(got[2] = exp[2], "exit-language-not-first-then-second")
      ELSE P(~pre, "err-but-precondition-true") \o P(g2 = g, "changed-behind-err"))

MergeProblems(e, g, g2, evaluable) ==
  IF evaluable THEN P(Lang(g2, KOf(g, g2)) = Lang(g, KOf(g, g2)), "language-changed") ELSE <<>>

\* blockify does not touch the session graph; the result graph is e.result
BlockifyProblems(e, g, g2) ==
  LET gs == [j \in 1..Len(e.graphs) |-> ToG(e.graphs[j])]
      pre == BlockifyPre(gs) IN
     P(g2 = g, "session-graph-changed")
  \o (IF Has(e.res, "ok")
      THEN IF ~pre THEN <<"ok-but-precondition-false">>
           ELSE LET r == ToG(e.result)
                    probs == ObsProblems(e.result, r) IN
                probs \o (IF Evaluable(probs)
                          THEN P(Lang(r, K) = BlockifyLangs(gs, K)[1], "language-changed")
                          ELSE <<>>)
      ELSE <<>>)          \* an Err leaves nothing to judge (the property does not say blockify succeeds)

OpProblems(e, g, g2, evaluable) ==
  CASE e.op = "new_block"   -> IF Has(e.res, "ok")
                               THEN P(NewBlockPre(g, e.res.ok) /\ g2 = NewBlock(g, e.res.ok), "effect")
                               ELSE <<"err-but-precondition-true">>
    [] e.op = "add_ins"     -> AddInsProblems(e, g, g2)
    [] e.op = "uncond_edge" -> Det(e, g, g2, AddEdgePre(g, e.d.h, e.d.t), AddEdge(g, e.d.h, e.d.t, Uncond))
    [] e.op = "cond_edge"   -> Det(e, g, g2, AddEdgePre(g, e.d.h, e.d.t), AddEdge(g, e.d.h, e.d.t, e.ctag))
    [] e.op = "set_entry"   -> Det(e, g, g2, SetEntryPre(g, e.d.b), SetEntry(g, e.d.b))
    [] e.op = "set_exit"    -> Det(e, g, g2, SetEntryPre(g, e.d.b), SetExit(g, e.d.b))
    [] e.op = "block_append" -> BlockAppendProblems(e, g, g2)
    [] e.op = "remove_ins"  -> Det(e, g, g2, RemoveInsPre(g, e.d.b, e.d.i),
                                   IF RemoveInsPre(g, e.d.b, e.d.i) THEN RemoveIns(g, e.d.b, e.d.i) ELSE g)
    [] e.op = "merge"       -> MergeProblems(e, g, g2, evaluable)
    [] e.op = "append"      -> AppendProblems(e, g, g2, evaluable)
    [] e.op = "insert"      -> InsertProblems(e, g, g2)
    [] e.op = "blockify"    -> BlockifyProblems(e, g, g2)
    [] OTHER                -> <<"unknown-operation">>

\* Graphs handed to append / insert / blockify are themselves results of (unlogged) edit histories.
\* If such an input already violates the invariant, the line is attributed to that ("input-..."),
\* and the operation is not judged on it.
InputProblems(st) == LET p == ObsProblems(st, ToG(st)) IN [j \in 1..Len(p) |-> "input-" \o p[j]]
RECURSIVE InputsOf(_,_)
InputsOf(gs, j) == IF j > Len(gs) THEN <<>> ELSE InputProblems(gs[j]) \o InputsOf(gs, j + 1)
InputProblemsOf(e) ==
  CASE e.op \in {"append", "insert"} -> InputProblems(e.other)
    [] e.op = "blockify"             -> InputsOf(e.graphs, 1)
    [] OTHER                         -> <<>>

\* all problems of one op line ("" = accepted)
Judge(e, g) ==
  IF ~Has(e.post, "ok") THEN "state-projection-failed"
  ELSE IF Len(InputProblemsOf(e)) > 0 THEN Join(InputProblemsOf(e))
  ELSE IF ~Clean(e.res) THEN "panic-or-timeout"
  ELSE LET g2 == TLCEval(ToG(e.post.ok))
           obs == TLCEval(ObsProblems(e.post.ok, g2))
       IN Join(obs \o OpProblems(e, g, g2, Evaluable(obs)))

\* diagnosis, evaluated for rejected lines only
Witness(A, B2) == IF A \ B2 = {} THEN <<"-">> ELSE CHOOSE s \in A \ B2 : \A u \in A \ B2 : Len(s) <= Len(u)
Diag(e, g) ==
  IF ~Has(e.post, "ok") \/ ~Clean(e.res) THEN [note |-> "no clean observation"]
  ELSE LET g2 == ToG(e.post.ok) IN
       IF e.op = "merge" /\ Evaluable(ObsProblems(e.post.ok, g2)) /\ Lang(g2, KOf(g, g2)) # Lang(g, KOf(g, g2))
       THEN [only_before |-> Witness(Lang(g, KOf(g, g2)), Lang(g2, KOf(g, g2))), only_after |-> Witness(Lang(g2, KOf(g, g2)), Lang(g, KOf(g, g2)))]
       ELSE IF e.op = "append" /\ Has(e.res, "ok") /\ Evaluable(ObsProblems(e.post.ok, g2)) /\ AppendPre(g, ToG(e.other))
       THEN [only_expected |-> Witness(AppendExpected(g, ToG(e.other), KOf(g, g2))[1], Lang(g2, KOf(g, g2))),
             only_observed |-> Witness(Lang(g2, KOf(g, g2)), AppendExpected(g, ToG(e.other), KOf(g, g2))[1])]
       ELSE [blocks_before |-> BlockIds(g), entry_before |-> g.entry, exit_before |-> g.exit]

BeginOK(e) == Has(e.post, "ok") /\ ToG(e.post.ok) = EmptyGraph /\ Len(e.post.ok.blocks) = 0 /\ Len(e.post.ok.edges) = 0

Init == l = 1 /\ skip = FALSE /\ G = EmptyGraph
Next ==
  /\ l <= NRec
  /\ l' = l + 1
  /\ LET e == Rec[l] IN
     IF e.ev = "begin"
     THEN IF BeginOK(e) THEN G' = EmptyGraph /\ skip' = FALSE
          ELSE Reject(l, "begin: not an empty graph", EmptyGraph) /\ skip' = TRUE /\ G' = EmptyGraph
     ELSE IF skip THEN UNCHANGED <<G, skip>>
     ELSE LET why == TLCEval(Judge(e, G)) IN
          IF why = ""
          THEN G' = (IF e.op = "blockify" THEN G ELSE ToG(e.post.ok)) /\ UNCHANGED skip
          ELSE Reject(l, e.op \o ": " \o why, Diag(e, G)) /\ skip' = TRUE /\ UNCHANGED G
Spec == Init /\ [][Next]_vars
=============================================================================
