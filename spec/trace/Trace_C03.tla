----------------------------- MODULE Trace_C03 -----------------------------
(***************************************************************************)
(* C03: every recorded AArch64 instruction instance - raw word, address,   *)
(* initial X0..X30/SP/NZCV (+ V0..V31 for SIMD&FP transfers), a data       *)
(* window - that the real lifter accepted and the real executor ran is     *)
(* re-executed by A64!Exec (decode of the word by bit fields + Arm ARM      *)
(* pseudocode) and compared on every architecturally defined component:    *)
(* X0..X30, SP, N Z C V, every byte of the window, V0..V31, next pc; and   *)
(* no page of the executor's memory may have been written elsewhere.       *)
(* Events are independent (one line per instance).                         *)
(*                                                                         *)
(*  - lift not ok  : Err = not accepted (outside "every instruction the    *)
(*                   lifter accepts"), panic = C05's business: not judged  *)
(*  - A64 says "unspec": counted (UNSPEC line), never judged               *)
(*  - otherwise    : the run must have ended at an instruction boundary    *)
(*                   with exactly the state and pc of the specification.   *)
(*                   An executor error is accepted only when it is the     *)
(*                   failed re-lift at the branch target the specification *)
(*                   expects (the post-state is lost there: pc only).      *)
(* Lines carrying a `claim` (expectations hard-coded by the repository's   *)
(* own tests, corpus/c03) additionally compare the SPECIFICATION with the  *)
(* claim (CLAIM-OK / CLAIM-MISMATCH lines): a sanity check of the          *)
(* transcription, never a verdict about the code.                          *)
(***************************************************************************)
EXTENDS A64, TraceLib

VARIABLE l
vars == <<l>>

Pre(e) == [x |-> e.pre.x, sp |-> e.pre.sp, f |-> e.pre.f, mem |-> e.pre.mem, mbase |-> e.pre.mbase,
           q |-> IF Has(e.pre, "q") THEN e.pre.q ELSE <<>>]

Names31 == [i \in 1..31 |-> "x" \o ToString(i - 1)]
Names32 == [i \in 1..32 |-> "v" \o ToString(i - 1)]
FlagNames == <<"n", "z", "c", "v">>
Idx(n) == [i \in 1..n |-> i]

\* the shape the recorder always produces (a corrupted trace must be rejected, not crash TLC)
ShapeOK(e, want) ==
  /\ Has(e, "post") /\ Has(e.run.ok, "pc")
  /\ DOMAIN e.post.x = 1..31 /\ DOMAIN e.post.f = 1..4 /\ DOMAIN e.post.mem = DOMAIN want.s.mem
  /\ (want.s.q # <<>>) => (Has(e.post, "q") /\ DOMAIN e.post.q = 1..32)

\* The executor's memory is copy-on-write over the backing: every page it created must overlap the
\* data window (the specification never stores anywhere else when it judges an instance).
PageAtWindow(p, psize, mbase, len) ==
  ToNatCap(Sub(64, p, mbase), 100000) < len \/ ToNatCap(Sub(64, mbase, p), 100000) < psize
Stray(e) ==
  /\ Has(e.post, "pages")
  /\ \E i \in 1..Len(e.post.pages) :
        \/ DOMAIN e.post.pages[i] # 1..8
        \/ ~PageAtWindow(e.post.pages[i], e.post.psize, e.pre.mbase, Len(e.pre.mem))

\* names[k] for the positions k at which the sequences a and b differ
DiffNames(a, b, names) ==
  LET sel == SelectSeq(Idx(Len(names)), LAMBDA k : a[k] # b[k])
  IN [j \in 1..Len(sel) |-> names[sel[j]]]

\* names of the components on which the observed final state differs from the specification
Diff(e, want) ==
  LET p == e.post  ws == want.s IN
  DiffNames(p.x, ws.x, Names31)
  \o (IF p.sp # ws.sp THEN <<"sp">> ELSE <<>>)
  \o DiffNames(p.f, ws.f, FlagNames)
  \o (IF p.mem # ws.mem THEN <<"mem">> ELSE <<>>)
  \o (IF ws.q = <<>> THEN <<>> ELSE DiffNames(p.q, ws.q, Names32))
  \o (IF e.run.ok.pc # want.pc THEN <<"pc">> ELSE <<>>)
  \o (IF Stray(e) THEN <<"stray-store">> ELSE <<>>)

\* expected values of the differing components (diagnosis only)
ExpOf(want, c) ==
  IF c = "stray-store" THEN <<>> ELSE
  IF c = "sp" THEN want.s.sp ELSE IF c = "pc" THEN want.pc ELSE IF c = "mem" THEN want.s.mem
  ELSE IF \E i \in 1..4 : FlagNames[i] = c THEN <<want.s.f[CHOOSE i \in 1..4 : FlagNames[i] = c]>>
  ELSE IF \E i \in 1..31 : Names31[i] = c THEN want.s.x[CHOOSE i \in 1..31 : Names31[i] = c]
  ELSE want.s.q[CHOOSE i \in 1..32 : Names32[i] = c]
Expected(want, d) == [tags |-> want.tags, diff |-> d, exp |-> [i \in 1..Len(d) |-> ExpOf(want, d[i])]]

\* a claim is a sequence of [c |-> component name, v |-> value]: does the SPECIFICATION agree?
ClaimOK(want, claim) ==
  \A i \in 1..Len(claim) : ExpOf(want, claim[i].c) = claim[i].v

Judge(e) ==
  IF ~Has(e.lift, "ok") THEN TRUE
  ELSE
    LET want == Exec(e.word, e.addr, e.big, Pre(e)) IN
    IF want.k # "ok" THEN PrintT(<<"UNSPEC", l, want.why, want.tags[1]>>)
    ELSE
      /\ PrintT(<<"JUDGED", l, want.tags>>)
      /\ Has(e, "claim") => PrintT(<<IF ClaimOK(want, e.claim) THEN "CLAIM-OK" ELSE "CLAIM-MISMATCH", l>>)
      /\ IF Has(e.run, "ok") THEN
           IF ~ShapeOK(e, want) THEN Reject(l, "shape", [tags |-> want.tags])
           ELSE LET d == Diff(e, want) IN IF d = <<>> THEN TRUE ELSE Reject(l, "state", Expected(want, d))
         ELSE IF Has(e.run, "err") /\ e.run.err = "ExecutorLiftFail" /\ Has(e.run, "at") THEN
           IF e.run.at = want.pc THEN TRUE ELSE Reject(l, "state", Expected(want, <<"pc">>))
         ELSE IF Has(e.run, "err") THEN Reject(l, "run-error", [tags |-> want.tags, err |-> e.run.err])
         ELSE Reject(l, "run-panic", [tags |-> want.tags])

Init == l = 1
Next == /\ l <= NRec
        /\ l' = l + 1
        /\ Judge(Rec[l])
Spec == Init /\ [][Next]_vars
=============================================================================
