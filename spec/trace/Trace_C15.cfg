CONSTANT K = 8
SPECIFICATION Spec
POSTCONDITION Consumed
CHECK_DEADLOCK FALSE
