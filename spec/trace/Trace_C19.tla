----------------------------- MODULE Trace_C19 -----------------------------
(***************************************************************************)
(* C19: every observation of falcon's ELF loader is compared with          *)
(* Load(desc, base) of module Elf.                                         *)
(*                                                                         *)
(* A session is one image (event "begin": the description) loaded at       *)
(* several bases (event "load": base and user entries), each followed by   *)
(* the loader's answers: new, arch, memory, entries, symbols, pentry.      *)
(* A session with src = "link" is a set of objects handed to ElfLinker:    *)
(* link (the bases the linker chose are an observation), lmemory,          *)
(* lentries, lsymbols, lpentry.                                            *)
(*                                                                         *)
(* Sessions with src = "code" (generated text of hand-picked instruction     *)
(* words with a known call graph) and src = "file" (corpus/c19) also carry *)
(* program / rprogram: the results of Loader::program_verbose and          *)
(* Loader::program_recursive_verbose, judged by Loader!ProgramOK /         *)
(* ClosureOK.  Sessions with src = "json" feed the JSON loader from a      *)
(* program specification; it is judged by the same predicates on the       *)
(* description JDesc the specification denotes.                            *)
(*                                                                         *)
(* The answers are independent queries on the same loaded image, so a      *)
(* rejected answer does not skip the rest of the session: every component  *)
(* is judged on its own (a defect in program_entry() must not hide the     *)
(* memory map of the same load).                                           *)
(***************************************************************************)
EXTENDS Loader, TraceLib

VARIABLES l, S, base, users, bases
vars == <<l, S, base, users, bases>>

Clean(res) == Has(res, "ok")

Some(s) == IF s = {} THEN <<>> ELSE <<CHOOSE x \in s : TRUE>>
Card(s) == Cardinality(s)

(* ------------------------------ memory --------------------------------- *)
ObsCells(secs) ==
  UNION { { <<AddOff(secs[k].addr, i - 1), secs[k].data[i], secs[k].perm>> : i \in 1..Len(secs[k].data) } :
          k \in 1..Len(secs) }
RECURSIVE TotalLen(_,_)
TotalLen(secs, k) == IF k > Len(secs) THEN 0 ELSE Len(secs[k].data) + TotalLen(secs, k + 1)

\* the observed sections in coordinates relative to the origin O (see Elf!ImageRel)
ObsRelOK(secs, O) ==
  \A k \in 1..Len(secs) : LET r == Rel(secs[k].addr, O) IN r < RelCap /\ r + Len(secs[k].data) <= RelCap
ObsRel(secs, O) ==
  UNION { LET r == Rel(secs[k].addr, O) IN
          { <<r + i - 1, secs[k].data[i], secs[k].perm>> : i \in 1..Len(secs[k].data) } : k \in 1..Len(secs) }

\* The comparison is made in relative integer coordinates whenever the whole image and every
\* observed section lie within RelCap of the origin (MC_Elf: ImageRel denotes Image), and on
\* the limb representation otherwise.
MemParts(d, b, e) ==
  LET secs  == e.res.ok.sections
      O     == TLCEval(MinStart(d, b))
      fast  == TLCEval(RelOK(d, b, O) /\ ObsRelOK(secs, O))
      cells == TLCEval(IF fast THEN ObsRel(secs, O) ELSE ObsCells(secs))
      img   == TLCEval(IF fast THEN ImageRel(d, b, O) ELSE Image(d, b))
      \* <<byte, perm>> at address a + i, or <<-1, <<>>>>
      at(a, i) == IF fast THEN (IF Rel(a, O) = RelCap THEN <<-1, <<>>>> ELSE CellAt(img, Rel(a, O) + i))
                  ELSE CellAt(img, AddOff(a, i))
      probeOK(p) == Has(p, "byte") /\ at(p.addr, 0) = <<p.byte, p.perm>>
      w32OK(w) == /\ Has(w, "val")
                  /\ w.val # <<>> => LET bb == [i \in 1..4 |-> at(w.addr, i - 1)[1]] IN
                                      (\A i \in 1..4 : bb[i] # -1) /\ w.val = Word32(d, bb)
  IN [cells   |-> cells = img,
      overlap |-> Card(cells) = TotalLen(secs, 1),
      probes  |-> \A i \in 1..Len(e.probes) : probeOK(e.probes[i]),
      w32     |-> \A i \in 1..Len(e.w32) : w32OK(e.w32[i])]

ProbeOK(img, p) == Has(p, "byte") /\ CellAt(img, p.addr) = <<p.byte, p.perm>>

\* diagnosis: the cells of a segment from the address of a LATER zero-size PT_LOAD that lies
\* inside that segment onwards (a zero-size segment must not change the image at all)
ErasedByEmpty(d, b) ==
  UNION { { c \in Surviving(d, b, k) :
              \E j \in LoadIdx(d) : /\ j > k /\ d.segs[j].memsz = 0
                                     /\ Covers(d.segs[k], b, SegStart(d.segs[j], b))
                                     /\ Ltu(AddrBits, SubA(c[1], SegStart(d.segs[j], b)), A(d.segs[k].memsz)) } :
          k \in LoadIdx(d) }

MemoryOK(d, b, e) ==
  /\ Clean(e.res)
  /\ LET p == MemParts(d, b, e) IN p.cells /\ p.overlap /\ p.probes /\ p.w32

MemoryExp(d, b, e) ==
  IF ~Clean(e.res) THEN [part |-> "outcome"]
  ELSE LET cells == TLCEval(ObsCells(e.res.ok.sections))
           img   == TLCEval(Image(d, b))
           p     == MemParts(d, b, e)
       IN [part |-> IF ~p.cells THEN "cells" ELSE IF ~p.overlap THEN "overlap"
                    ELSE IF ~p.probes THEN "probes" ELSE "w32",
           missing |-> Card(img \ cells), extra |-> Card(cells \ img),
           missing1 |-> Some(img \ cells), extra1 |-> Some(cells \ img),
           badprobes |-> [i \in { j \in 1..Len(e.probes) : ~ProbeOK(img, e.probes[j]) } |-> CellAt(img, e.probes[i].addr)],
           diag |-> IF cells \subseteq img /\ cells # img /\ (img \ cells) \subseteq ErasedByEmpty(d, b)
                    THEN "erased-by-empty-segment"
                    ELSE Diagnose(LAMBDA x : cells = Image(d, x), b)]

(* ------------------------------ entries, symbols ----------------------- *)
ObsEntries(e) == { <<e.res.ok[i].addr, e.res.ok[i].name>> : i \in 1..Len(e.res.ok) }
ObsSyms(e)    == { Sym(e.res.ok[i].n, e.res.ok[i].a) : i \in 1..Len(e.res.ok) }

EntriesCheck(d, b, us, e) == Clean(e.res) /\ EntriesOK(d, b, us, ObsEntries(e))
EntriesExp(d, b, us, e) ==
  IF ~Clean(e.res) THEN [part |-> "outcome"]
  ELSE LET obs == ObsEntries(e)  addrs == { x[1] : x \in obs } IN
       [missing |-> EntryLower(d, b, us) \ addrs,
        extra   |-> addrs \ EntryUpper(d, b, us),
        badnames |-> { x \in obs : ~EntryNameOK(d, b, us, x[1], x[2]) },
        diag |-> Diagnose(LAMBDA x : EntriesOK(d, x, us, obs), b)]

SymbolsCheck(d, b, e) == Clean(e.res) /\ SymbolsOK(d, b, ObsSyms(e))
SymbolsExp(d, b, e) ==
  IF ~Clean(e.res) THEN [part |-> "outcome"]
  ELSE LET obs == ObsSyms(e)
           missing == SymLower(d, b) \ obs
           extra   == obs \ SymUpper(d, b)
       IN [missing |-> missing, extra |-> extra,
           extra_kind |-> IF extra = {} THEN "none"
                          ELSE IF IsZero(b) THEN "other"
                          ELSE IF extra \subseteq PltSyms(d, AZero) THEN "plt-unrebased"
                          ELSE IF extra \subseteq SymUpper(d, AZero) THEN "unrebased"
                          ELSE IF extra \subseteq SymUpper(d, AddA(b, b)) THEN "rebased-twice"
                          ELSE "other"]

ExportedCheck(d, b, e) == Clean(e.res) /\ ExportsOK(d, b, ObsSyms(e))
ExportedExp(d, b, e) ==
  IF ~Clean(e.res) THEN [part |-> "outcome"]
  ELSE [missing |-> ExportLower(d, b) \ ObsSyms(e), extra |-> ObsSyms(e) \ ExportUpper(d, b)]

PentryCheck(d, b, e) == Clean(e.res) /\ e.res.ok = ProgramEntry(d, b)
PentryExp(d, b, e) ==
  IF ~Clean(e.res) THEN [part |-> "outcome"]
  ELSE [want |-> ProgramEntry(d, b), diag |-> Diagnose(LAMBDA x : e.res.ok = ProgramEntry(d, x), b)]

ArchCheck(d, e) == Has(e, "name") /\ e.name = ArchName(d) /\ e.endian = Endian(d)

(* ------------------------------ lifted programs ------------------------ *)
RangeOf(q) == { q[i] : i \in 1..Len(q) }
ObsF(e) == { e.res.ok.funcs[i].addr : i \in 1..Len(e.res.ok.funcs) }
ObsE(e) == { e.res.ok.errors[i].addr : i \in 1..Len(e.res.ok.errors) }
ObsCalls(e) == [a \in ObsF(e) |->
                  UNION { RangeOf(e.res.ok.funcs[i].calls) : i \in { j \in 1..Len(e.res.ok.funcs) : e.res.ok.funcs[j].addr = a } }]
ExecOf(d, b, as) == { a \in as : ExecAt(d, b, a) }

\* generated code: the call graph the text was assembled from.  Position-independent calls move
\* with the base; the region-absolute MIPS jal only denotes the intended target at base 0.
Anchors(d) == IF Has(d, "code") THEN RangeOf(d.code) ELSE {}
AnchorWant(c, b) == { AddA(t, b) : t \in RangeOf(c.calls) }
AnchorApplies(c, b) == c.kind = "rel" \/ IsZero(b)
BadCalls(d, b, e) ==
  { c \in Anchors(d) : /\ AnchorApplies(c, b) /\ AddA(c.addr, b) \in ObsF(e)
                        /\ ObsCalls(e)[AddA(c.addr, b)] # AnchorWant(c, b) }

ProgParts(d, b, lower, upper, e, rec) ==
  LET F == ObsF(e)  E == ObsE(e)
      exec == ExecOf(d, b, lower)
  IN [dup     |-> Card(F) = Len(e.res.ok.funcs),
      entries |-> IF rec THEN F \cap E = {} /\ exec \subseteq (F \cup E)
                  ELSE ProgramOK(lower, upper, exec, F, E),
      closure |-> rec => ClosureOK(lower, upper, exec, F, E, ObsCalls(e)),
      \* (a function symbol in memory that is not executable is not lifted as an entry; if a call
      \* leads there the function found has no name to inherit)
      names   |-> \A i \in 1..Len(e.res.ok.funcs) :
                    ExecAt(d, b, e.res.ok.funcs[i].addr) =>
                      FuncNameOK(d, b, e.res.ok.funcs[i].addr, e.res.ok.funcs[i].name),
      calls   |-> BadCalls(d, b, e) = {}]
ProgramEvOK(d, b, lower, upper, e, rec) ==
  /\ Clean(e.res)
  /\ LET p == ProgParts(d, b, lower, upper, e, rec) IN p.dup /\ p.entries /\ p.closure /\ p.names /\ p.calls
ProgramExp(d, b, lower, upper, e, rec) ==
  IF ~Clean(e.res) THEN [part |-> "outcome"]
  ELSE LET p == ProgParts(d, b, lower, upper, e, rec)
           F == ObsF(e)  E == ObsE(e) IN
       [part |-> IF ~p.dup THEN "dup" ELSE IF ~p.entries THEN "entries" ELSE IF ~p.closure THEN "closure"
                 ELSE IF ~p.names THEN "names" ELSE "calls",
        missing_entries |-> ExecOf(d, b, lower) \ (F \cup E),
        not_entries |-> IF rec THEN {} ELSE (F \cup E) \ upper,
        unclosed |-> IF rec THEN UNION { ObsCalls(e)[f] \ (F \cup E) : f \in F } ELSE {},
        unjustified |-> IF rec THEN (F \cup E) \ ReachFrom(upper, F, ObsCalls(e)) ELSE {},
        badcalls |-> { [fn |-> AddA(c.addr, b), want |-> AnchorWant(c, b), got |-> ObsCalls(e)[AddA(c.addr, b)]] :
                       c \in BadCalls(d, b, e) },
        all_got_empty |-> \A c \in BadCalls(d, b, e) : ObsCalls(e)[AddA(c.addr, b)] = {},
        all_got_superset |-> \A c \in BadCalls(d, b, e) : AnchorWant(c, b) \subseteq ObsCalls(e)[AddA(c.addr, b)]]

(* ------------------------------ the JSON loader ------------------------ *)
\* the image description a JSON program specification denotes: every segment is a fully
\* backed rwx PT_LOAD, every listed function a defined function symbol
JDesc(j) ==
  [cls |-> 32, data |-> "LE", machine |-> IF j.arch = "x86" THEN 3 ELSE 0, etype |-> 2, entry |-> j.entry,
   segs |-> [k \in 1..Len(j.segments) |->
               [type |-> PT_LOAD, off |-> 0, vaddr |-> j.segments[k].address, filesz |-> Len(j.segments[k].bytes),
                memsz |-> Len(j.segments[k].bytes), flags |-> 7, bytes |-> j.segments[k].bytes]],
   symtab |-> [k \in 1..Len(j.functions) |->
                 [name |-> j.functions[k].name, value |-> j.functions[k].address, type |-> STT_FUNC,
                  bind |-> STB_GLOBAL, shndx |-> 1]],
   dynsym |-> <<>>, pltrel |-> <<>>]
\* function entries of a specification: exactly the listed functions (with their names); the
\* program entry may be reported in addition
JListed(j) == { <<j.functions[k].address, j.functions[k].name>> : k \in 1..Len(j.functions) }
JEntriesOK(j, obs) ==
  /\ JListed(j) \subseteq obs
  /\ \A x \in obs \ JListed(j) : x[1] = j.entry
IsJson == S.src = "json"

(* ------------------------------ the PE loader -------------------------- *)
(* pdesc (from llvm-readobj): machine, image_base, entry (RVA), hdr (the    *)
(* SizeOfHeaders file bytes), sections [rva, vsize, rawsize, perm <<r,w,x>>,*)
(* bytes = the raw data], exports [name, rva].  A section occupies          *)
(* VirtualSize bytes at image_base + rva: the raw data (as far as it        *)
(* reaches), then zero fill.  A loader may in addition map what the file    *)
(* holds beyond VirtualSize up to the raw size (alignment padding) and the  *)
(* headers at image_base - hence a lower and an upper image.                *)
IsPe == S.src = "pe"
PVs(x) == IF x.vsize = 0 THEN x.rawsize ELSE x.vsize
PMin(a, bb) == IF a < bb THEN a ELSE bb
PMax(a, bb) == IF a > bb THEN a ELSE bb
PFlags(perm) == (IF perm[1] THEN PF_R ELSE 0) + (IF perm[2] THEN PF_W ELSE 0) + (IF perm[3] THEN PF_X ELSE 0)
PSeg(p, x, fs, ms) ==
  [type |-> PT_LOAD, off |-> 0, vaddr |-> AddA(p.image_base, x.rva), filesz |-> fs, memsz |-> ms,
   flags |-> PFlags(x.perm), bytes |-> SubSeq(x.bytes, 1, fs)]
PExecRva(p, rva) == \E k \in 1..Len(p.sections) :
                      /\ p.sections[k].perm[3]
                      /\ Ltu(AddrBits, SubA(rva, p.sections[k].rva), A(PVs(p.sections[k])))
PSymtab(p) == [k \in 1..Len(p.exports) |->
                 [name |-> p.exports[k].name, value |-> AddA(p.image_base, p.exports[k].rva),
                  type |-> IF PExecRva(p, p.exports[k].rva) THEN STT_FUNC ELSE STT_OBJECT,
                  bind |-> STB_GLOBAL, shndx |-> 1]]
PBase(p, segs) ==
  [cls |-> 32, data |-> "LE", machine |-> p.machine, etype |-> 2, entry |-> AddA(p.image_base, p.entry),
   segs |-> segs, symtab |-> PSymtab(p), dynsym |-> <<>>, pltrel |-> <<>>]
PLower(p) == PBase(p, [k \in 1..Len(p.sections) |->
                         PSeg(p, p.sections[k], PMin(p.sections[k].rawsize, PVs(p.sections[k])), PVs(p.sections[k]))])
PUpper(p) == PBase(p, <<[type |-> PT_LOAD, off |-> 0, vaddr |-> p.image_base, filesz |-> Len(p.hdr), memsz |-> Len(p.hdr),
                         flags |-> PF_R, bytes |-> p.hdr]>> \o
                      [k \in 1..Len(p.sections) |->
                         PSeg(p, p.sections[k], p.sections[k].rawsize, PMax(p.sections[k].rawsize, PVs(p.sections[k])))])
PArchName(p) == CASE p.machine = 332 -> "x86" [] p.machine = 34404 -> "amd64" [] p.machine = 358 -> "mipsel"
                  [] OTHER -> "unsupported"

PExportAddrs(p, pred(_)) == { AddA(p.image_base, p.exports[k].rva) : k \in { j \in 1..Len(p.exports) : pred(p.exports[j]) } }
PEntryLower(p) == PExportAddrs(p, LAMBDA x : PExecRva(p, x.rva))
                  \cup (IF IsZero(p.entry) THEN {} ELSE {AddA(p.image_base, p.entry)})
PEntryUpper(p) == PExportAddrs(p, LAMBDA x : TRUE) \cup {AddA(p.image_base, p.entry)}
PEntriesOK(p, obs) ==
  LET addrs == { x[1] : x \in obs } IN
  /\ PEntryLower(p) \subseteq addrs /\ addrs \subseteq PEntryUpper(p)
  /\ \A x \in obs : x[2] # "" =>
        \/ \E k \in 1..Len(p.exports) : p.exports[k].name = x[2] /\ AddA(p.image_base, p.exports[k].rva) = x[1]
        \/ x[1] = AddA(p.image_base, p.entry)
PSyms(p) == { Sym(p.exports[k].name, AddA(p.image_base, p.exports[k].rva)) : k \in { j \in 1..Len(p.exports) : p.exports[j].name # "" } }

\* memory between the lower and the upper image (relative coordinates from image_base)
PMemParts(p, e) ==
  LET secs  == e.res.ok.sections
      O     == p.image_base
      fast  == TLCEval(RelOK(S.udesc, AZero, O) /\ ObsRelOK(secs, O))
      cells == TLCEval(IF fast THEN ObsRel(secs, O) ELSE ObsCells(secs))
      lo    == TLCEval(IF fast THEN ImageRel(S.desc, AZero, O) ELSE Image(S.desc, AZero))
      up    == TLCEval(IF fast THEN ImageRel(S.udesc, AZero, O) ELSE Image(S.udesc, AZero))
      at(a, i) == IF fast THEN (IF Rel(a, O) = RelCap THEN <<-1, <<>>>> ELSE CellAt(cells, Rel(a, O) + i))
                  ELSE CellAt(cells, AddOff(a, i))
  IN [lower   |-> lo \subseteq cells,
      upper   |-> cells \subseteq up,
      overlap |-> Card(cells) = TotalLen(secs, 1),
      \* the point queries agree with the reported sections
      probes  |-> \A i \in 1..Len(e.probes) : Has(e.probes[i], "byte") /\ at(e.probes[i].addr, 0) = <<e.probes[i].byte, e.probes[i].perm>>,
      w32     |-> \A i \in 1..Len(e.w32) :
                    /\ Has(e.w32[i], "val")
                    /\ e.w32[i].val # <<>> => LET bb == [j \in 1..4 |-> at(e.w32[i].addr, j - 1)[1]] IN
                                               (\A j \in 1..4 : bb[j] # -1) /\ e.w32[i].val = Word32(S.desc, bb),
      missing |-> Card(lo \ cells), extra |-> Card(cells \ up),
      missing_is_zero_fill |-> \A c \in lo \ cells : c[2] = 0]
PMemoryOK(p, e) ==
  /\ Clean(e.res)
  /\ LET q == PMemParts(p, e) IN q.lower /\ q.upper /\ q.overlap /\ q.probes /\ q.w32
PMemoryExp(p, e) ==
  IF ~Clean(e.res) THEN [part |-> "outcome"]
  ELSE LET q == PMemParts(p, e) IN
       [part |-> IF ~q.lower THEN "lower" ELSE IF ~q.upper THEN "upper" ELSE IF ~q.overlap THEN "overlap"
                 ELSE IF ~q.probes THEN "probes" ELSE "w32",
        missing |-> q.missing, extra |-> q.extra, missing_is_zero_fill |-> q.missing_is_zero_fill]

(* ------------------------------ linked sets ---------------------------- *)
Objs == [k \in 1..Len(S.objs) |-> [name |-> S.objs[k].name, base |-> bases[k], d |-> S.objs[k].desc]]
Relocs == S.relocs
Linked == bases # <<>>

LinkCheck(e) ==
  /\ Clean(e.res)
  /\ { e.res.ok.loaded[i] : i \in 1..Len(e.res.ok.loaded) } = { S.objs[k].name : k \in 1..Len(S.objs) }
  /\ \A k \in 1..Len(S.objs) : IsAddr(e.res.ok.bases[k])

FreeAddrs(objs) ==
  UNION { { AddOff(AddA(S.free[f].off, objs[S.free[f].obj + 1].base), i) : i \in 0..(S.free[f].len - 1) } :
          f \in 1..Len(S.free) }
OwnedAddrs(objs) == FreeAddrs(objs) \cup UNION { RelocAddrs(objs, Relocs[r]) : r \in 1..Len(Relocs) }

\* definitions <<value, base of the defining object>> of a symbol (diagnosis)
SymDefs(objs, name) ==
  LET k == CHOOSE k \in Definers(objs, name) : \A j \in Definers(objs, name) : k <= j
  IN { <<s.value, objs[k].base>> : s \in Exports(objs[k].d, name) }
RelocDiag(objs, cells, r) ==
  LET w == RelocWord(objs, cells, r) IN
  IF ~Resolvable(objs, r.sym) THEN "unresolvable"
  ELSE IF w = <<>> THEN "unmapped"
  ELSE IF \E x \in SymDefs(objs, r.sym) : ~IsZero(x[2]) /\ w = Low32(AddA(AddA(x[1], x[2]), x[2])) THEN "rebased-twice"
  ELSE IF \E x \in SymDefs(objs, r.sym) : ~IsZero(x[2]) /\ w = Low32(x[1]) THEN "unrebased"
  ELSE "other"

LMemParts(e) ==
  LET objs  == Objs
      secs  == e.res.ok.sections
      cells == TLCEval(ObsCells(secs))
      limg  == TLCEval(LinkedImage(objs))
      owned == TLCEval(OwnedAddrs(objs))
      \* the observed cells at relocated words / linker-owned ranges (all RelocOK looks at)
      ocells == TLCEval({ c \in cells : c[1] \in owned })
  IN [overlap |-> Card(cells) = TotalLen(secs, 1),
      domain  |-> CellAddrs(cells) = CellAddrs(limg),
      perms   |-> { <<c[1], c[3]>> : c \in cells } = { <<c[1], c[3]>> : c \in limg },
      data    |-> { c \in cells : c[1] \notin owned } = { c \in limg : c[1] \notin owned },
      relocs  |-> \A r \in 1..Len(Relocs) : RelocOK(objs, ocells, Relocs[r]),
      disjoint |-> ObjectsDisjoint(objs)]
LMemoryOK(e) ==
  /\ Clean(e.res) /\ Linked
  /\ LET p == LMemParts(e) IN p.disjoint /\ p.overlap /\ p.domain /\ p.perms /\ p.data /\ p.relocs
LMemoryExp(e) ==
  IF ~Clean(e.res) \/ ~Linked THEN [part |-> "outcome"]
  ELSE LET p == LMemParts(e)
           objs == Objs
           cells == TLCEval(ObsCells(e.res.ok.sections))
           bad == { r \in 1..Len(Relocs) : ~RelocOK(objs, cells, Relocs[r]) }
       IN [part |-> IF ~p.disjoint THEN "objects-overlap" ELSE IF ~p.overlap THEN "overlap" ELSE IF ~p.domain THEN "domain" ELSE IF ~p.perms THEN "perms"
                    ELSE IF ~p.data THEN "data" ELSE "relocs",
           badrelocs |-> [r \in bad |-> [sym |-> Relocs[r].sym, obj |-> Relocs[r].obj,
                                         got |-> RelocWord(objs, cells, Relocs[r]),
                                         want |-> { Low32(a) : a \in SymAddrs(objs, Relocs[r].sym) },
                                         diag |-> RelocDiag(objs, cells, Relocs[r])]],
           diags |-> { RelocDiag(objs, cells, Relocs[r]) : r \in bad }]

LLower(F(_,_)) == UNION { F(Objs[k].d, Objs[k].base) : k \in 1..Len(Objs) }
LEntriesOK(e) ==
  /\ Clean(e.res) /\ Linked
  /\ LET addrs == { x[1] : x \in ObsEntries(e) } IN
     /\ LLower(LAMBDA d, b : EntryLower(d, b, <<>>)) \subseteq addrs
     /\ addrs \subseteq LLower(LAMBDA d, b : EntryUpper(d, b, <<>>))
LEntriesExp(e) ==
  IF ~Clean(e.res) \/ ~Linked THEN [part |-> "outcome"]
  ELSE LET addrs == { x[1] : x \in ObsEntries(e) } IN
       [missing |-> LLower(LAMBDA d, b : EntryLower(d, b, <<>>)) \ addrs,
        extra |-> addrs \ LLower(LAMBDA d, b : EntryUpper(d, b, <<>>))]
LSymbolsOK(e) ==
  /\ Clean(e.res) /\ Linked
  /\ LLower(SymLower) \subseteq ObsSyms(e)
  /\ ObsSyms(e) \subseteq LLower(SymUpper)
LSymbolsExp(e) ==
  IF ~Clean(e.res) \/ ~Linked THEN [part |-> "outcome"]
  ELSE LET extra == ObsSyms(e) \ LLower(SymUpper) IN
       [missing |-> LLower(SymLower) \ ObsSyms(e), extra |-> extra,
        extra_kind |-> IF extra = {} THEN "none"
                       ELSE IF extra \subseteq LLower(LAMBDA d, b : PltSyms(d, AZero)) THEN "plt-unrebased"
                       ELSE "other"]
LPentryOK(e) == Clean(e.res) /\ Linked /\ e.res.ok = ProgramEntry(Objs[1].d, Objs[1].base)
LPentryExp(e) == IF ~Clean(e.res) \/ ~Linked THEN [part |-> "outcome"]
                 ELSE [want |-> ProgramEntry(Objs[1].d, Objs[1].base)]

(* ------------------------------ dispatch ------------------------------- *)
\* function-entry bounds of the current session
LowerE == IF IsPe THEN PEntryLower(S.pdesc) ELSE EntryLower(S.desc, base, users)
UpperE == IF IsPe THEN PEntryUpper(S.pdesc) ELSE EntryUpper(S.desc, base, users)

EventOK(e) ==
  CASE e.ev = "new"      -> Clean(e.res)
    [] e.ev = "arch"     -> IF IsPe THEN Has(e, "name") /\ e.name = PArchName(S.pdesc) /\ e.endian = "little"
                            ELSE ArchCheck(S.desc, e)
    [] e.ev = "memory"   -> IF IsPe THEN PMemoryOK(S.pdesc, e) ELSE MemoryOK(S.desc, base, e)
    [] e.ev = "entries"  -> IF IsJson THEN Clean(e.res) /\ JEntriesOK(S.jdesc, ObsEntries(e))
                            ELSE IF IsPe THEN Clean(e.res) /\ PEntriesOK(S.pdesc, ObsEntries(e))
                            ELSE EntriesCheck(S.desc, base, users, e)
    [] e.ev = "symbols"  -> IF IsJson THEN Clean(e.res) /\ ObsSyms(e) \subseteq SymUpper(S.desc, base)
                            ELSE IF IsPe THEN Clean(e.res) /\ ObsSyms(e) = PSyms(S.pdesc)
                            ELSE SymbolsCheck(S.desc, base, e)
    [] e.ev = "program"  -> ProgramEvOK(S.desc, base, LowerE, UpperE, e, FALSE)
    [] e.ev = "rprogram" -> ProgramEvOK(S.desc, base, LowerE, UpperE, e, TRUE)
    [] e.ev = "exported" -> ExportedCheck(S.desc, base, e)
    [] e.ev = "pentry"   -> PentryCheck(S.desc, base, e)
    [] e.ev = "link"     -> LinkCheck(e)
    [] e.ev = "lmemory"  -> LMemoryOK(e)
    [] e.ev = "lentries" -> LEntriesOK(e)
    [] e.ev = "lsymbols" -> LSymbolsOK(e)
    [] e.ev = "lpentry"  -> LPentryOK(e)
    [] OTHER             -> FALSE

Expected(e) ==
  CASE e.ev = "new"      -> [ok |-> 1]
    [] e.ev = "arch"     -> IF IsPe THEN [name |-> PArchName(S.pdesc), endian |-> "little"]
                            ELSE [name |-> ArchName(S.desc), endian |-> Endian(S.desc)]
    [] e.ev = "memory"   -> IF IsPe THEN PMemoryExp(S.pdesc, e) ELSE MemoryExp(S.desc, base, e)
    [] e.ev = "entries"  -> IF IsJson THEN [listed |-> JListed(S.jdesc)]
                            ELSE IF IsPe THEN [lower |-> PEntryLower(S.pdesc), upper |-> PEntryUpper(S.pdesc)]
                            ELSE EntriesExp(S.desc, base, users, e)
    [] e.ev = "symbols"  -> IF IsPe THEN [want |-> PSyms(S.pdesc),
                                          file_offsets |-> Clean(e.res) /\ ObsSyms(e) # PSyms(S.pdesc)
                                                           /\ { x[1] : x \in ObsSyms(e) } = { x[1] : x \in PSyms(S.pdesc) }]
                            ELSE SymbolsExp(S.desc, base, e)
    [] e.ev = "program"  -> ProgramExp(S.desc, base, LowerE, UpperE, e, FALSE)
    [] e.ev = "rprogram" -> ProgramExp(S.desc, base, LowerE, UpperE, e, TRUE)
    [] e.ev = "exported" -> ExportedExp(S.desc, base, e)
    [] e.ev = "pentry"   -> PentryExp(S.desc, base, e)
    [] e.ev = "link"     -> [ok |-> "every object loaded"]
    [] e.ev = "lmemory"  -> LMemoryExp(e)
    [] e.ev = "lentries" -> LEntriesExp(e)
    [] e.ev = "lsymbols" -> LSymbolsExp(e)
    [] e.ev = "lpentry"  -> LPentryExp(e)
    [] OTHER             -> [unknown |-> e.ev]

\* the generator only produces well-formed descriptions; anything else is a harness error and
\* is reported as such (why = "ill-formed"), never judged
BeginOK(e) == IF e.src = "link" THEN \A k \in 1..Len(e.objs) : WellFormed(e.objs[k].desc)
              ELSE IF e.src = "json" THEN WellFormed(JDesc(e.jdesc))
              ELSE IF e.src = "pe" THEN WellFormed(PLower(e.pdesc)) /\ WellFormed(PUpper(e.pdesc))
              ELSE WellFormed(e.desc)

Init == l = 1 /\ S = <<>> /\ base = AZero /\ users = <<>> /\ bases = <<>>
Next ==
  /\ l <= NRec
  /\ l' = l + 1
  /\ LET e == Rec[l] IN
     IF e.ev = "begin" THEN
       /\ S' = IF e.src = "json" THEN [src |-> "json", jdesc |-> e.jdesc, desc |-> JDesc(e.jdesc)]
               ELSE IF e.src = "pe" THEN [src |-> "pe", pdesc |-> e.pdesc, desc |-> PLower(e.pdesc), udesc |-> PUpper(e.pdesc)]
               ELSE e
       /\ base' = AZero /\ users' = <<>> /\ bases' = <<>>
       /\ BeginOK(e) \/ Reject(l, "ill-formed", [harness |-> "description is not well-formed"])
     ELSE IF e.ev = "load" THEN
       /\ base' = e.base /\ users' = e.users /\ UNCHANGED <<S, bases>>
     ELSE
       /\ bases' = IF e.ev = "link" /\ Clean(e.res) THEN e.res.ok.bases ELSE bases
       /\ UNCHANGED <<S, base, users>>
       /\ EventOK(e) \/ Reject(l, e.ev, Expected(e))
Spec == Init /\ [][Next]_vars
=============================================================================
