----------------------------- MODULE Trace_C01 -----------------------------
(***************************************************************************)
(* C01: one session per instruction instance.                              *)
(*   begin   instruction (abstract, from the assembled template), address, *)
(*           initial machine state  ->  exp' = X86!Exec(...)               *)
(*   cpu     what the host processor did with the same bytes and state     *)
(*   lifted  what falcon's lifted IL did under the real executor           *)
(* Both observations are compared with exp on the architecturally defined  *)
(* part.  The processor grounds the specification: when it disagrees the   *)
(* instance is SPEC-UNSURE (reported, never a verdict) and the lifted      *)
(* event is not judged.  An amd64 instance is judged only when the         *)
(* processor agreed; 32-bit instances are judged here and filtered by the  *)
(* orchestrator to the forms whose amd64 twin was grounded.  A lift that   *)
(* fails with Sort is rejected whatever the module says about the          *)
(* instruction.  One tagged PrintT line per instance lets the orchestrator *)
(* count: GROUNDED (cpu agreed) / UNSPEC / UNSURE / UNGROUNDED /            *)
(* NOTACCEPTED / FAULT / JUDGED.                                           *)
(***************************************************************************)
EXTENDS X86, TraceLib

VARIABLES l, b, s0, exp, g, ph
\* b: line of the session's begin event; s0: its initial state; exp: X86!Exec result;
\* g: grounding of the session: "none" | "agree" | "fault" (agreed fault) | "unsure" | "skip";
\* ph: 0 between sessions, 1 after begin, 2 after cpu (a session is begin, cpu, lifted - in this order)
vars == <<l, b, s0, exp, g, ph>>

RegSeq(W) == IF W = 64 THEN <<"rax", "rcx", "rdx", "rbx", "rsp", "rbp", "rsi", "rdi",
                               "r8", "r9", "r10", "r11", "r12", "r13", "r14", "r15">>
             ELSE <<"eax", "ecx", "edx", "ebx", "esp", "ebp", "esi", "edi">>
XmmSeq == <<"xmm0", "xmm1", "xmm2", "xmm3", "xmm4", "xmm5", "xmm6", "xmm7",
            "xmm8", "xmm9", "xmm10", "xmm11", "xmm12", "xmm13", "xmm14", "xmm15">>
FlagSeq == <<"CF", "ZF", "SF", "OF", "DF">>
Range(s) == { s[i] : i \in 1..Len(s) }

\* list of records with a name field n -> function name |-> record
ByName(lst) == [n \in { lst[i].n : i \in 1..Len(lst) } |-> lst[CHOOSE i \in 1..Len(lst) : lst[i].n = n]]

St0(e) ==
  LET r == V(ByName(e.st.regs))  x == V(ByName(e.st.xmm)) IN
  [W |-> e.mode,
   regs |-> V([n \in Range(RegSeq(e.mode)) |-> r[n].v]),
   fl |-> e.st.fl,
   x |-> V([n \in Range(XmmSeq) |-> IF n \in DOMAIN x THEN x[n].v ELSE Zero(128)]),
   mem |-> e.st.mem, base |-> e.st.membase]

\* components on which the observed final state f (differences from s0) departs from ex
Mismatch(ex, f) ==
  LET W  == s0.W
      rd == V(ByName(f.regs))  xd == V(ByName(f.xmm))
      md == V([o \in { f.mem[j][1] : j \in 1..Len(f.mem) } |-> (CHOOSE j \in 1..Len(f.mem) : f.mem[j][1] = o)])
      gotR(n) == IF n \in DOMAIN rd THEN [w |-> rd[n].w, v |-> rd[n].v] ELSE [w |-> W, v |-> s0.regs[n]]
      gotX(n) == IF n \in DOMAIN xd THEN [w |-> xd[n].w, v |-> xd[n].v] ELSE [w |-> 128, v |-> s0.x[n]]
      gotM(i) == IF (i - 1) \in DOMAIN md THEN f.mem[md[i - 1]][2] ELSE s0.mem[i]
      badR == V(SelectSeq(RegSeq(W), LAMBDA n : n \notin ex.ureg /\ gotR(n) # [w |-> W, v |-> ex.st.regs[n]]))
      badX == V(SelectSeq(XmmSeq, LAMBDA n : gotX(n) # [w |-> 128, v |-> ex.st.x[n]]))
      badF == V(SelectSeq(FlagSeq, LAMBDA n : n \notin ex.ufl /\ f.fl[n] # ex.st.fl[n]))
      badM == V({ i \in 1..Len(s0.mem) : gotM(i) # ex.st.mem[i] })
      unknown == { n \in DOMAIN rd : n \notin Range(RegSeq(W)) } \cup { n \in DOMAIN xd : n \notin Range(XmmSeq) }
  IN [regs |-> [i \in 1..Len(badR) |-> [c |-> badR[i], want |-> ex.st.regs[badR[i]], got |-> gotR(badR[i])]],
      xmm  |-> [i \in 1..Len(badX) |-> [c |-> badX[i], want |-> ex.st.x[badX[i]], got |-> gotX(badX[i])]],
      fl   |-> [i \in 1..Len(badF) |-> [c |-> badF[i], want |-> ex.st.fl[badF[i]], got |-> f.fl[badF[i]]]],
      mem  |-> IF badM = {} THEN <<>> ELSE
               LET i == CHOOSE i \in badM : \A j \in badM : i <= j IN
               <<[n |-> Cardinality(badM), first |-> i - 1, want |-> ex.st.mem[i], got |-> gotM(i)]>>,
      pc   |-> IF f.pc = ex.pc THEN <<>> ELSE <<[want |-> ex.pc, got |-> f.pc]>>,
      other |-> Cardinality(unknown)]
Clean(m) == Len(m.regs) = 0 /\ Len(m.xmm) = 0 /\ Len(m.fl) = 0 /\ Len(m.mem) = 0 /\ Len(m.pc) = 0 /\ m.other = 0

\* shape of FINAL as logged (total on garbage: anything else is a mismatch, never a TLC error)
WellShaped(f) ==
  /\ DOMAIN f = {"regs", "fl", "xmm", "mem", "pc"}
  /\ \A i \in 1..Len(f.regs) : DOMAIN f.regs[i] = {"n", "w", "v"}
  /\ \A i \in 1..Len(f.xmm) : DOMAIN f.xmm[i] = {"n", "w", "v"}
  /\ DOMAIN f.fl = Range(FlagSeq)
  /\ \A i \in 1..Len(f.mem) : Len(f.mem[i]) = 2

Tag(t, info) == PrintT(<<"C01", t, l, info>>)

Init == l = 1 /\ b = 0 /\ s0 = <<>> /\ exp = [k |-> "none"] /\ g = "none" /\ ph = 0

Protocol == Reject(l, "protocol", [allowed |-> "begin, cpu, lifted"])

Begin(e) ==
  LET st == St0(e) IN
  /\ b' = l /\ g' = "none" /\ ph' = 1
  /\ s0' = st
  /\ exp' = Exec(e.ins, st, e.addr)
  /\ IF ph = 0 THEN TRUE ELSE Protocol

Cpu(e) ==
  LET e0 == Rec[b]  r == e.res IN
  /\ UNCHANGED <<b, s0, exp>> /\ ph' = 2
  /\ IF exp.k = "unspec" \/ Has(r, "skip") THEN g' = "skip"
     ELSE IF Has(r, "fault") THEN
          IF exp.k = "fault" THEN g' = "fault"
          ELSE g' = "unsure" /\ Tag("UNSURE", ToJson([mn |-> e0.ins.mn, asm |-> e0.asm, cpu |-> r.fault, spec |-> "ok"]))
     ELSE IF exp.k = "fault" THEN
          g' = "unsure" /\ Tag("UNSURE", ToJson([mn |-> e0.ins.mn, asm |-> e0.asm, cpu |-> "ok", spec |-> "fault"]))
     ELSE LET m == Mismatch(exp, r.ok) IN
          IF Clean(m) THEN g' = "agree" /\ Tag("GROUNDED", e0.ins.mn)
          ELSE g' = "unsure" /\ Tag("UNSURE", ToJson([mn |-> e0.ins.mn, asm |-> e0.asm, diff |-> m]))

Lifted(e) ==
  LET e0 == Rec[b]  r == e.res  mn == e0.ins.mn IN
  /\ UNCHANGED <<b, s0, exp, g>> /\ ph' = 0
  /\ IF Has(r, "lifterr") THEN
        IF r.lifterr = "Sort" THEN Reject(l, "sort", [allowed |-> "any lift result but a Sort error"])
        ELSE Tag("NOTACCEPTED", mn)
     ELSE IF exp.k = "unspec" THEN Tag("UNSPEC", <<mn, exp.why>>)
     ELSE IF g = "unsure" THEN Tag("UNSURE-SKIP", mn)
     ELSE IF g = "fault" \/ exp.k = "fault" THEN Tag("FAULT", mn)
     ELSE IF e0.mode = 64 /\ g # "agree" THEN Tag("UNGROUNDED", mn)
     ELSE IF ~Has(r, "ok") THEN
        Tag("JUDGED", mn) /\ Reject(l, "outcome", [allowed |-> "ok"])
     ELSE IF ~WellShaped(r.ok) THEN
        Tag("JUDGED", mn) /\ Reject(l, "shape", [allowed |-> "a final state"])
     ELSE LET m == Mismatch(exp, r.ok) IN
          Tag("JUDGED", mn) /\ (IF Clean(m) THEN TRUE ELSE Reject(l, "state", [diff |-> m]))

Next ==
  /\ l <= NRec /\ l' = l + 1
  /\ LET e == Rec[l] IN
     IF e.ev = "begin" THEN Begin(e)
     ELSE IF e.ev = "cpu" /\ ph = 1 THEN Cpu(e)
     ELSE IF e.ev = "lifted" /\ ph = 2 THEN Lifted(e)
     ELSE Protocol /\ ph' = 0 /\ UNCHANGED <<b, s0, exp, g>>
Spec == Init /\ [][Next]_vars
=============================================================================
