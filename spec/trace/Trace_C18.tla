----------------------------- MODULE Trace_C18 -----------------------------
(***************************************************************************)
(* C18: every recorded observation of il::RefProgramLocation,              *)
(* il::ProgramLocation and il::Function::locations is judged against       *)
(* Loc.tla.  One session = one program (begin line: the projected          *)
(* structures of the program, of its Program::clone and of a deep copy).   *)
(* Program locations are 4-tuples <<function index, kind, x, y>>.          *)
(*                                                                         *)
(*  locations    Function::locations(): no duplicates, exactly Locations   *)
(*  nav          forward()/backward() of one location: exactly Forward /   *)
(*               Backward (as sets), results in the same function          *)
(*  converse     over the recorded tables of the whole program:            *)
(*               B in forward(A) <=> A in backward(B); every location of   *)
(*               every function was navigated                              *)
(*  closure      from_function() is the entry location; the closure of     *)
(*               forward() from it is exactly ReachableFromEntry           *)
(*  roundtrip    into() is the owned form; apply() on the same, the cloned *)
(*               and the deep-copied program, and migrate(), give the same *)
(*               location again                                            *)
(*  from_address some instruction with that address iff one exists         *)
(***************************************************************************)
EXTENDS Loc, TraceLib

VARIABLES l, skip, P, navF, navB, navd
vars == <<l, skip, P, navF, navB, navd>>

SeqToSet(s) == { s[j] : j \in 1..Len(s) }

ToF(fn) ==
  [B |-> [b \in { fn.blocks[j].i : j \in 1..Len(fn.blocks) } |->
            fn.blocks[CHOOSE j \in 1..Len(fn.blocks) : fn.blocks[j].i = b].ins],
   E |-> { <<fn.edges[j][1], fn.edges[j][2]>> : j \in 1..Len(fn.edges) },
   entry |-> fn.entry]
ToP(prog) ==
  [fi \in { prog[j].fi : j \in 1..Len(prog) } |-> ToF(prog[CHOOSE j \in 1..Len(prog) : prog[j].fi = fi])]

\* the projected program is usable: function indices assigned and distinct, block indices distinct,
\* instruction indices distinct within a block (the quantifier of the property)
ProgOK(prog) ==
  /\ \A j \in 1..Len(prog) : prog[j].fi >= 0
  /\ Cardinality({ prog[j].fi : j \in 1..Len(prog) }) = Len(prog)
  /\ \A j \in 1..Len(prog) :
       LET fn == prog[j] IN
       /\ Cardinality({ fn.blocks[k].i : k \in 1..Len(fn.blocks) }) = Len(fn.blocks)
       /\ \A k \in 1..Len(fn.blocks) :
            Cardinality({ fn.blocks[k].ins[m].i : m \in 1..Len(fn.blocks[k].ins) }) = Len(fn.blocks[k].ins)
       /\ \A k \in 1..Len(fn.edges) :
            \E a \in 1..Len(fn.blocks) : \E b \in 1..Len(fn.blocks) :
               fn.blocks[a].i = fn.edges[k][1] /\ fn.blocks[b].i = fn.edges[k][2]

PL(fi, loc) == <<fi>> \o loc
Lift(fi, S) == { PL(fi, x) : x \in S }
Known(pl)   == Len(pl) = 4 /\ pl[1] \in DOMAIN P /\ Tail(pl) \in Locations(P[pl[1]])
AllLocs     == UNION { Lift(fi, Locations(P[fi])) : fi \in DOMAIN P }

RECURSIVE Join(_)
Join(s) == IF Len(s) = 0 THEN "" ELSE IF Len(s) = 1 THEN s[1] ELSE s[1] \o "," \o Join(Tail(s))
Pr(ok, name) == IF ok THEN <<>> ELSE <<name>>

OkSet(r, S) == Has(r, "ok") /\ SeqToSet(r.ok) = S
OkIs(r, v)  == Has(r, "ok") /\ r.ok = v

LocationsProblems(e) ==
  IF ~(e.fi \in DOMAIN P) THEN <<"unknown-function">>
  ELSE IF ~Has(e.res, "ok") THEN <<"panic">>
  ELSE Pr(Cardinality(SeqToSet(e.res.ok)) = Len(e.res.ok), "duplicate")
    \o Pr(SeqToSet(e.res.ok) = Lift(e.fi, Locations(P[e.fi])), "not-exactly-the-locations")

NavProblems(e) ==
  IF ~Known(e.loc) THEN <<"unknown-location">>
  ELSE LET fi == e.loc[1] loc == Tail(e.loc) IN
       Pr(OkSet(e.fwd, Lift(fi, Forward(P[fi], loc))), "forward")
    \o Pr(OkSet(e.bwd, Lift(fi, Backward(P[fi], loc))), "backward")

ConverseProblems ==
     Pr(\A p \in navF : <<p[2], p[1]>> \in navB, "forward-step-without-backward-step")
  \o Pr(\A p \in navB : <<p[2], p[1]>> \in navF, "backward-step-without-forward-step")
  \o Pr(navd = AllLocs, "not-every-location-navigated")

ClosureProblems(e) ==
  IF ~(e.fi \in DOMAIN P) THEN <<"unknown-function">>
  ELSE LET F == P[e.fi] IN
       IF ~HasEntry(F)
       THEN Pr(OkIs(e.start, <<>>) /\ OkIs(e.locs, <<>>), "entry-location-without-entry")
       ELSE Pr(OkIs(e.start, <<PL(e.fi, EntryLoc(F))>>), "entry-location")
         \o Pr(OkSet(e.locs, Lift(e.fi, ReachableFromEntry(F))), "closure-not-the-reachable-locations")

RoundTripProblems(e) ==
  IF ~Known(e.loc) THEN <<"unknown-location">>
  ELSE LET loc == Tail(e.loc)
           F == P[e.loc[1]]
           want == PL(e.loc[1], Apply(Owned(loc), F)) IN
       Pr(e.owned = Owned(loc), "owned-form")
    \o Pr(e.bi = (IF loc[1] = "edge" THEN -1 ELSE loc[2]) /\ e.ii = (IF loc[1] = "ins" THEN loc[3] ELSE -1), "owned-accessors")
    \o Pr(CanApply(Owned(loc), F), "model")
    \o Pr(OkIs(e.same, want), "apply-same-program")
    \o Pr(OkIs(e.clone, want), "apply-cloned-program")
    \o Pr(OkIs(e.deep, want), "apply-copied-program")
    \o Pr(OkIs(e.migrate, want), "migrate")
    \o Pr(OkIs(e.migrate_clone, want), "migrate-clone")
    \o Pr(OkIs(e.again, Owned(loc)), "owned-form-of-applied")

AddrRes(r) == { <<r.loc[j][1], Tail(r.loc[j])>> : j \in 1..Len(r.loc) }
FromAddressOne(r, a) ==
  /\ Has(r, "ok") /\ Len(r.ok.loc) <= 1
  /\ FromAddressOK(P, a, AddrRes(r.ok))
  /\ Len(r.ok.loc) = 1 => r.ok.raddr = a
FromAddressProblems(e) ==
     Pr(FromAddressOne(e.res, e.addr), "lookup")
  \o Pr(FromAddressOne(e.res_clone, e.addr), "lookup-in-clone")

Problems(e) ==
  CASE e.ev = "locations"    -> LocationsProblems(e)
    [] e.ev = "nav"          -> NavProblems(e)
    [] e.ev = "converse"     -> ConverseProblems
    [] e.ev = "closure"      -> ClosureProblems(e)
    [] e.ev = "roundtrip"    -> RoundTripProblems(e)
    [] e.ev = "from_address" -> FromAddressProblems(e)
    [] OTHER                 -> <<"unknown-event">>

Diag(e) ==
  CASE e.ev = "nav" /\ Known(e.loc) ->
         [forward |-> Lift(e.loc[1], Forward(P[e.loc[1]], Tail(e.loc))),
          backward |-> Lift(e.loc[1], Backward(P[e.loc[1]], Tail(e.loc)))]
    [] e.ev = "locations" /\ e.fi \in DOMAIN P -> [locations |-> Lift(e.fi, Locations(P[e.fi]))]
    [] e.ev = "closure" /\ e.fi \in DOMAIN P /\ HasEntry(P[e.fi]) ->
         [start |-> PL(e.fi, EntryLoc(P[e.fi])), reachable |-> Lift(e.fi, ReachableFromEntry(P[e.fi]))]
    [] e.ev = "from_address" -> [instructions_with_address |-> InsAt(P, e.addr)]
    [] e.ev = "roundtrip" /\ Known(e.loc) -> [location |-> e.loc]
    [] OTHER -> [note |-> "see why"]

BeginProblems(e) ==
  IF ~ProgOK(e.prog) THEN <<"program-projection-unusable">>
  ELSE Pr(e.clone = e.prog, "clone-differs") \o Pr(e.deep = e.prog, "copy-differs")

NavPairs(pl, r) == IF Has(r, "ok") THEN { <<pl, r.ok[j]>> : j \in 1..Len(r.ok) } ELSE {}

Init == l = 1 /\ skip = FALSE /\ P = <<>> /\ navF = {} /\ navB = {} /\ navd = {}
Next ==
  /\ l <= NRec
  /\ l' = l + 1
  /\ LET e == Rec[l] IN
     IF e.ev = "begin"
     THEN /\ navF' = {} /\ navB' = {} /\ navd' = {}
          /\ LET why == Join(BeginProblems(e)) IN
             IF why = "" THEN P' = ToP(e.prog) /\ skip' = FALSE
             ELSE Reject(l, "begin: " \o why, [note |-> "see why"]) /\ skip' = TRUE /\ P' = <<>>
     ELSE IF skip THEN UNCHANGED <<P, skip, navF, navB, navd>>
     ELSE LET why == TLCEval(Join(Problems(e))) IN
          IF why = ""
          THEN /\ UNCHANGED <<P, skip>>
               /\ IF e.ev = "nav"
                  THEN /\ navF' = navF \cup NavPairs(e.loc, e.fwd)
                       /\ navB' = navB \cup NavPairs(e.loc, e.bwd)
                       /\ navd' = navd \cup {e.loc}
                  ELSE UNCHANGED <<navF, navB, navd>>
          ELSE Reject(l, e.ev \o ": " \o why, Diag(e)) /\ skip' = TRUE /\ UNCHANGED <<P, navF, navB, navd>>
Spec == Init /\ [][Next]_vars
=============================================================================
