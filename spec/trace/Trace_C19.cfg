CONSTANTS LimbBits = 8  AddrBits = 64
SPECIFICATION Spec
POSTCONDITION Consumed
CHECK_DEADLOCK FALSE
