----------------------------- MODULE Trace_C06X -----------------------------
(***************************************************************************)
(* C06, x86-64 / x86 / AArch64 images (variable-length instructions; fixed  *)
(* width without delay slots): the structure clause of function recovery.  *)
(*  The generator describes the program it laid out  *)
(* (start offset, length, kind, direct target of every instruction - from  *)
(* its own encoding table, not from capstone); Recover!ReachInstr / Succs  *)
(* give the architecture's side.  The recovered function (projected to     *)
(* native instruction offsets per block, edges, entry) must               *)
(*   - exist (lifting a closed program of supported instructions fails     *)
(*     neither with an error nor with a panic),                            *)
(*   - have no dangling edge or entry, and an entry block that starts at   *)
(*     the function address,                                               *)
(*   - contain exactly the instructions reachable through direct branches  *)
(*     and manual edges, each as often as lifting it alone yields          *)
(*     (an x86 jcc is several IL blocks),                                  *)
(*   - have the architecture's successor relation between native           *)
(*     instructions, wherever 64-byte translation windows end.             *)
(* Events are independent (one per program).                               *)
(***************************************************************************)
EXTENDS Recover, TraceLib

VARIABLE l
vars == <<l>>

ProgOf(e) == [a \in { e.prog[i].a : i \in 1..Len(e.prog) } |->
                LET i == CHOOSE i \in 1..Len(e.prog) : e.prog[i].a = a
                IN [len |-> e.prog[i].len, kind |-> e.prog[i].kind, t |-> e.prog[i].t]]
ManOf(e)  == { <<e.manual[i][1], e.manual[i][2]>> : i \in 1..Len(e.manual) }
RootsOf(e) == {e.entry} \cup { m[1] : m \in ManOf(e) } \cup { m[2] : m \in ManOf(e) }
AloneOf(e, a) == e.alone[CHOOSE i \in 1..Len(e.prog) : e.prog[i].a = a]

\* the projected function; instructions without an address (-1) are dropped
FunOf(r) ==
  [blocks |-> [b \in { r.blocks[i].id : i \in 1..Len(r.blocks) } |->
                 LET i == CHOOSE i \in 1..Len(r.blocks) : r.blocks[i].id = b
                 IN SelectSeq(r.blocks[i].ins, LAMBDA x : x >= 0)],
   edges  |-> { <<r.edges[i][1], r.edges[i][2], r.edges[i][3]>> : i \in 1..Len(r.edges) },
   entry  |-> r.entry]

Diff(e) ==
  LET prog == ProgOf(e)  man == ManOf(e)
      reach == ReachInstr(prog, man, RootsOf(e))
  IN
  IF ~(reach \subseteq Starts(prog)) THEN <<"unspecified: control leaves the code">>
  \* a manual edge whose indirect jump the entry cannot reach: falcon lifts the island and may fail
  \* to merge an unguarded cycle inside it; the statement is about executions from the entry
  ELSE IF \E m \in man : m[1] \notin ReachInstr(prog, man, {e.entry}) THEN <<"unspecified: control leaves the code">>
  ELSE IF ~Has(e.res, "ok") THEN <<"lift-error">>
  ELSE
    LET f == FunOf(e.res.ok)
        pairs == NativePairs(f)
        \* an instruction whose lifting yields no IL instruction (the A64 `b`: an empty block) leaves no
        \* address in the projection; the successor relation is taken through such instructions
        Vis(a) == AloneOf(e, a) > 0
        VSuccs(a) == LET step(x) == IF x \in Starts(prog) /\ ~Vis(x) THEN Succs(prog, man, x) ELSE {}
                         first == Succs(prog, man, a)
                     IN { x \in Closure(step, first, first) : Vis(x) }
        head == IF Vis(e.entry) THEN {e.entry} ELSE VSuccs(e.entry)
        d1 == IF NoDangling(f) THEN <<>> ELSE <<"dangling">>
        d2 == IF ~NoDangling(f) \/ HeadOf(f, f.entry, Fuel(f)) = head THEN <<>> ELSE <<"entry">>
        d3 == IF AddrsOf(f) \ reach = {} THEN <<>> ELSE <<"unreachable-present">>
        d4 == IF { a \in reach : Vis(a) } \ AddrsOf(f) = {} THEN <<>> ELSE <<"reachable-missing">>
        d5 == IF \A a \in reach \cap AddrsOf(f) : Cardinality(Occurrences(f, a)) = AloneOf(e, a)
              THEN <<>> ELSE <<"not-exactly-once">>
        d6 == IF ~NoDangling(f) \/ \A a \in reach \cap AddrsOf(f) : NativeSuccs(pairs, a) = VSuccs(a) \ {a}
              THEN <<>> ELSE <<"successors">>
    IN d1 \o d2 \o d3 \o d4 \o d5 \o d6

Init == l = 1
Next == /\ l <= NRec /\ l' = l + 1
        /\ LET e == Rec[l]  d == Diff(e) IN
           IF d = <<>> THEN TRUE
           ELSE IF Len(d) = 1 /\ d[1] = "unspecified: control leaves the code" THEN PrintT(<<"UNSPEC", l>>)
           ELSE Reject(l, "xstruct", [diff |-> d])
Spec == Init /\ [][Next]_vars
=============================================================================
