----------------------------- MODULE Trace_C16 -----------------------------
(***************************************************************************)
(* C16: a recorded history of memory::backing::Memory is a behaviour of    *)
(* Backing.tla.  A session starts with `begin` (endianness) and continues  *)
(* with                                                                    *)
(*   set_memory / set32                      (mutating: model steps)       *)
(*   get8 / perm / get / get32 / scan / sections   (queries: judged)       *)
(* A `scan` is n queries of one kind at consecutive addresses.  Addresses  *)
(* are [base index, offset] pairs (Backing!Key), values little-endian byte *)
(* limbs, absent bytes / permissions -1, absent values {"k":"none"}.       *)
(*                                                                         *)
(* A rejected query is reported (with, per address, the expected answer    *)
(* and the state class `cls`) and the session goes on; a rejected mutating *)
(* event is reported and the rest of its session is skipped.               *)
(*                                                                         *)
(* `lost` (BackingImpl!LostAfterWrite) follows which bytes the known       *)
(* empty-write defect drops.  It never makes an answer acceptable: it only *)
(* labels rejections ("lost"), so that the known-finding predicate is      *)
(* narrow and any other disagreement is still reported as new.             *)
(***************************************************************************)
EXTENDS BackingImpl, TraceLib

VARIABLES l, skip, endian, cells, nreg, lost
mvars == <<endian, cells, nreg, lost>>
vars == <<l, skip, mvars>>

Ok(x) == [ok |-> x]
Unit  == Ok("unit")

(* ------------------------- expected answers ---------------------------- *)
RunsOff(k, n) == k \in DOMAIN cells /\ ~AllMapped(cells, k, n)
AnyLost(k, n) == \E i \in 0..(n - 1) : (k + i) \in lost

\* allowed answers of one query of kind `what` at key k (a sequence: answers have different shapes)
Allowed(what, k, bits) ==
  CASE what = "get8"  -> <<Ok(Get8(cells, k))>>
    [] what = "perm"  -> <<Ok(Perm(cells, k))>>
    [] what = "get"   -> <<Ok(Get(cells, endian, k, bits))>>         \* never a panic
    [] what = "get32" ->
         IF InOneRegion(cells, k) THEN <<Ok(Get32(cells, endian, k))>>
         ELSE IF AllMapped(cells, k, 4) THEN <<Ok(NoVal), Ok(Get32(cells, endian, k))>>   \* not within one region:
         ELSE <<Ok(NoVal)>>                                                                 \* the statement is silent
IsIn(x, S) == \E i \in 1..Len(S) : x = S[i]

Cls(what, k, bits) ==
  LET n == CASE what \in {"get8", "perm"} -> 1 [] what = "get" -> bits \div 8 [] what = "get32" -> 4 IN
  IF AnyLost(k, n) THEN "lost"
  ELSE IF what = "get" /\ RunsOff(k, n) THEN "runs-off"
  ELSE "plain"

Diag(what, k, bits) == [allowed |-> Allowed(what, k, bits), cls |-> Cls(what, k, bits)]

Bits(e) == IF Has(e, "bits") THEN e.bits ELSE 0
QueryOK(e)  == IsIn(e.res, Allowed(e.ev, Key(e.a), Bits(e)))
ScanOK(e)   == \A i \in 1..e.n : IsIn(e.res[i], Allowed(e.what, Key(e.a) + i - 1, Bits(e)))
\* diagnosis of a rejected scan: one record per disagreeing address (i = 0-based index)
ScanDiag(e) ==
  LET badIdx == SelectSeq([i \in 1..e.n |-> i],
                          LAMBDA i : ~IsIn(e.res[i], Allowed(e.what, Key(e.a) + i - 1, Bits(e))))
  IN [j \in 1..Len(badIdx) |->
        [i |-> badIdx[j] - 1,
         allowed |-> Allowed(e.what, Key(e.a) + badIdx[j] - 1, Bits(e)),
         cls |-> Cls(e.what, Key(e.a) + badIdx[j] - 1, Bits(e))]]

SecsOf(e) == [i \in 1..Len(e.res.ok) |-> [a |-> Key(e.res.ok[i].a), d |-> e.res.ok[i].d, p |-> e.res.ok[i].p]]
SectionsOK(e) ==
  /\ Has(e.res, "ok")
  /\ SectionsDisjoint(SecsOf(e))                           \* the stored sections never overlap
  /\ SectionsRepresent(cells, SecsOf(e))                   \* and hold exactly the mapped bytes and permissions
SectionsDiag(e) ==
  [cls |-> IF ~Has(e.res, "ok") THEN "plain"
           ELSE IF ~SectionsDisjoint(SecsOf(e)) THEN "overlap"
           ELSE IF lost # {} /\ SectionsRepresent(Surviving(cells, lost), SecsOf(e)) THEN "lost"
           ELSE "plain",
   mapped |-> DOMAIN cells]

\* set32: within one region it succeeds and writes four bytes; otherwise the statement is silent:
\* either nothing changes (any outcome but ok), or - all four bytes mapped - they are written
Set32Cells(e) == Set32(cells, endian, Key(e.a), e.v.v)
Set32OK(e) ==
  IF InOneRegion(cells, Key(e.a)) THEN e.res = Unit
  ELSE e.res # Unit \/ AllMapped(cells, Key(e.a), 4)

(* ------------------------------ stepping ------------------------------- *)
Mut(ok, step, why, exp) ==
  IF ok THEN step /\ UNCHANGED skip
  ELSE Reject(l, why, exp) /\ skip' = TRUE /\ UNCHANGED mvars
Obs(ok, why, exp) == (IF ok THEN TRUE ELSE Reject(l, why, exp)) /\ UNCHANGED <<mvars, skip>>

Step(e) ==
  CASE e.ev = "set_memory" ->
         Mut(e.res = Unit,
             /\ cells' = SetMemory(cells, Key(e.a), e.d, e.p, nreg + 1)
             /\ nreg' = nreg + 1
             /\ lost' = LostAfterWrite(cells, lost, Key(e.a), e.d)
             /\ UNCHANGED endian,
             "set_memory", [allowed |-> <<Unit>>, cls |-> "plain"])
    [] e.ev = "set32" ->
         Mut(Len(e.v.v) = 4 /\ Set32OK(e),
             /\ cells' = IF e.res = Unit THEN Set32Cells(e) ELSE cells
             /\ UNCHANGED <<endian, nreg, lost>>,
             "set32", [allowed |-> IF InOneRegion(cells, Key(e.a)) THEN <<Unit>> ELSE <<"unconstrained">>,
                       cls |-> IF AnyLost(Key(e.a), 4) THEN "lost" ELSE "plain"])
    [] e.ev \in {"get8", "perm", "get", "get32"} ->
         Obs(QueryOK(e), e.ev, Diag(e.ev, Key(e.a), Bits(e)))
    [] e.ev = "scan"     -> Obs(ScanOK(e), "scan", ScanDiag(e))
    [] e.ev = "sections" -> Obs(SectionsOK(e), "sections", SectionsDiag(e))

Init == l = 1 /\ skip = FALSE /\ endian = "little" /\ cells = EmptyCells /\ nreg = 0 /\ lost = {}
Next ==
  /\ l <= NRec /\ l' = l + 1
  /\ LET e == Rec[l] IN
     IF e.ev = "begin"
     THEN /\ e.endian \in {"little", "big"} /\ \A i \in 1..Len(e.bases) : Len(e.bases[i]) = 8
          /\ endian' = e.endian /\ cells' = EmptyCells /\ nreg' = 0 /\ lost' = {} /\ skip' = FALSE
     ELSE IF skip THEN UNCHANGED <<mvars, skip>>
     ELSE Step(e)
Spec == Init /\ [][Next]_vars
=============================================================================
