----------------------------- MODULE Trace_C05 -----------------------------
(***************************************************************************)
(* C05: one event per call of Translator::translate_block (seven           *)
(* translators x two unsupported-instruction policies x any bytes x any    *)
(* address).  The outcome must be an error, or IL that satisfies           *)
(* ILWF!WellFormedLift; a panic or a watchdog timeout is rejected.         *)
(* Events are independent (no sessions).                                   *)
(*                                                                         *)
(* Inputs (arch, intr, addr, bytes, kind) and the labelling disassembly    *)
(* (lab, loc, culprit) identify the case for replay and classification;    *)
(* they carry no expected value.  Every field of res is constrained.       *)
(***************************************************************************)
EXTENDS ILWF, TraceLib

VARIABLE l
vars == <<l>>

Archs == {"x86", "amd64", "mips", "mipsel", "ppc", "aarch64", "aarch64eb"}

Rv(e) == IF Has(e, "rv") THEN e.rv ELSE <<>>

InputsOK(e) == e.ev = "lift" /\ e.arch \in Archs /\ e.intr \in {0, 1}

EventOK(e) ==
  /\ InputsOK(e)
  /\ \/ Has(e.res, "err")                         \* any error is an allowed outcome
     \/ /\ Has(e.res, "ok")
        /\ WellFormedLift(e.res.ok, Rv(e))

(* ------------------------- diagnosis (rejections only) ------------------ *)
FirstBad(n, P(_)) == CHOOSE i \in 1..n : ~P(i) /\ \A j \in 1..(i - 1) : P(j)

CfgWhy(g, rv) ==
  IF ~BlocksDistinct(g) THEN [clause |-> "block-ids"]
  ELSE IF ~OpsWF(g) THEN
    LET bi == FirstBad(Len(g.blocks), LAMBDA i : \A j \in 1..Len(g.blocks[i].ops) : WellFormedOp(g.blocks[i].ops[j]))
        oj == FirstBad(Len(g.blocks[bi].ops), LAMBDA j : WellFormedOp(g.blocks[bi].ops[j]))
    IN [block |-> g.blocks[bi].i, op |-> oj, opk |-> g.blocks[bi].ops[oj].k] @@ OpWhy(g.blocks[bi].ops[oj])
  ELSE IF ~EdgeEndsExist(g) THEN [clause |-> "edge-ends"]
  ELSE IF ~GuardsWF(g) THEN
    LET ei == FirstBad(Len(g.edges), LAMBDA i : WellFormedGuard(g.edges[i].c))
    IN [clause |-> IF WellSorted(g.edges[ei].c) THEN "guard-width" ELSE "expr-sort",
        block |-> g.edges[ei].h, tail |-> g.edges[ei].t]
  ELSE IF ~EntryExit(g) THEN [clause |-> "entry-exit", entry |-> g.entry, exit |-> g.exit]
  ELSE IF ~ExitReachable(g) THEN [clause |-> "exit-unreachable", entry |-> g.entry, exit |-> g.exit]
  ELSE LET b == CHOOSE b \in Reach(g) : ~BlockDeterministic(g, b, rv)
           gs == OutGuards(g, b)
       IN IF Len(gs) = 0 THEN [clause |-> "dead-end", block |-> b]
          ELSE [clause |-> "guards", block |-> b, nguards |-> Len(gs),
                witness |-> GuardsWitness(gs, rv, BlockLo(g, b))]

LiftWhy(res, rv) ==
  IF \E i \in 1..Len(res.ins) : ~WellFormedCfg(res.ins[i], rv)
  THEN LET i == FirstBad(Len(res.ins), LAMBDA i : WellFormedCfg(res.ins[i], rv))
       IN [ins |-> i] @@ CfgWhy(res.ins[i], rv)
  ELSE IF \E i \in 1..Len(res.succ) : ~WellFormedGuard(res.succ[i].c)
  THEN [clause |-> "succ-guard-width"]
  ELSE [clause |-> "succ-guards", nguards |-> Len(res.succ),
        witness |-> GuardsWitness(SuccGuards(res), rv, 1)]

Why(e) ==
  IF ~InputsOK(e) THEN "inputs"
  ELSE IF Has(e.res, "panic") THEN "panic"
  ELSE IF Has(e.res, "timeout") THEN "timeout"
  ELSE IF Has(e.res, "ok") THEN LiftWhy(e.res.ok, Rv(e)).clause
  ELSE "outcome"
Expected(e) ==
  IF InputsOK(e) /\ Has(e.res, "ok") THEN LiftWhy(e.res.ok, Rv(e))
  ELSE [allowed |-> "err, or ok with WellFormedLift"]

Init == l = 1
Next == /\ l <= NRec
        /\ l' = l + 1
        /\ EventOK(Rec[l]) \/ Reject(l, Why(Rec[l]), Expected(Rec[l]))
Spec == Init /\ [][Next]_vars
=============================================================================
