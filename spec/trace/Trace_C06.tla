----------------------------- MODULE Trace_C06 -----------------------------
(***************************************************************************)
(* C06: function recovery reproduces sequential machine-code execution     *)
(* (MIPS32, both byte orders).  A session is one program:                  *)
(*                                                                         *)
(* begin  the raw words, base, entry, manual edges, and the function that  *)
(*        translate_function_extended returned, projected to               *)
(*        block -> native addresses of its IL instructions, edges, entry.  *)
(*        STRUCTURE: the words are decoded HERE (Mips.tla) into the        *)
(*        abstract program of Recover.tla (kind fall / jump / cond / call  *)
(*        / ind per word, one delay slot); then                            *)
(*          - no edge or entry refers to a missing block,                  *)
(*          - the entry block starts at the function address,              *)
(*          - the addresses in the function are exactly the instructions   *)
(*            reachable through direct branches (and manual edges),        *)
(*          - every one exactly once: as many IL instructions carry its    *)
(*            address (and its pseudo-address) as lifting that instruction *)
(*            alone yields, in one block when the instruction is one block,*)
(*          - the native successor relation of the function equals the     *)
(*            architecture's (delay slots included).                       *)
(* run    an initial state, the addresses the real Driver visited and the  *)
(*        final state.  RUN: the nPC machine over Mips.tla is stepped one  *)
(*        instruction at a time over the same words: same address          *)
(*        sequence, same next address, same registers / HI / LO / memory.  *)
(* A rejected session is skipped up to the next begin.                     *)
(***************************************************************************)
EXTENDS Mips, Ppc, Recover, TraceLib

VARIABLES l, skip, P, stats
vars == <<l, skip, P, stats>>

Big(e) == e.arch # "mipsel"
IsMips(e) == e.arch # "ppc"
NW(p)  == Len(p.words)

\* ---- shapes (a mutated trace must be rejected, not crash the evaluation) -------------------
IsBytes(s, n) == DOMAIN s = 1..n /\ \A i \in 1..n : s[i] \in 0..255
IsVal(x)      == DOMAIN x = {"w", "v"} /\ x.w \in 0..4096 /\ DOMAIN x.v = 1..Len(x.v)
                 /\ \A i \in 1..Len(x.v) : x.v[i] \in 0..255
BeginShape(e) ==
  /\ {"arch", "base", "entry", "words", "manual", "alone", "lift"} \subseteq DOMAIN e
  /\ e.arch \in {"mips", "mipsel", "ppc"} /\ IsBytes(e.base, 4)
  /\ Len(e.words) \in 1..400 /\ \A i \in 1..Len(e.words) : IsBytes(e.words[i], 4)
  /\ e.entry \in 0..(Len(e.words) - 1)
  /\ DOMAIN e.manual = 1..Len(e.manual)
  /\ \A i \in 1..Len(e.manual) : DOMAIN e.manual[i] = 1..2 /\ \A j \in 1..2 : e.manual[i][j] \in 0..(Len(e.words) - 1)
  /\ DOMAIN e.alone = 1..Len(e.words) /\ \A i \in 1..Len(e.words) : DOMAIN e.alone[i] = 1..3
  /\ e.base[1] % 4 = 0
  /\ CarryOut(32, e.base, N32(4 * Len(e.words) + 64), 0) = 0            \* the code does not wrap around 2^32
FunShape(e) ==
  /\ {"blocks", "edges", "fentry", "faddr"} \subseteq DOMAIN e
  /\ IsBytes(e.faddr, 8)
  /\ DOMAIN e.blocks = 1..Len(e.blocks)
  /\ \A i \in 1..Len(e.blocks) : /\ DOMAIN e.blocks[i] = {"i", "ins"} /\ e.blocks[i].i \in 0..100000
                                 /\ DOMAIN e.blocks[i].ins = 1..Len(e.blocks[i].ins)
                                 /\ \A k \in 1..Len(e.blocks[i].ins) : IsBytes(e.blocks[i].ins[k], 8)
  /\ \A i, j \in 1..Len(e.blocks) : i # j => e.blocks[i].i # e.blocks[j].i
  /\ DOMAIN e.edges = 1..Len(e.edges)
  /\ \A i \in 1..Len(e.edges) : DOMAIN e.edges[i] = {"h", "t", "c"}
RunShape(p, e) ==
  /\ {"n", "gpr", "win", "mem0", "out", "pcs", "post"} \subseteq DOMAIN e
  /\ DOMAIN e.gpr = 1..32 /\ \A i \in 1..32 : IsBytes(e.gpr[i], 4)
  /\ IsBytes(e.win, 4)
  /\ IF IsMips(p) THEN /\ {"hi", "lo"} \subseteq DOMAIN e /\ IsBytes(e.hi, 4) /\ IsBytes(e.lo, 4)
                        /\ {"hi", "lo"} \subseteq DOMAIN e.post /\ IsVal(e.post.hi) /\ IsVal(e.post.lo)
     ELSE /\ {"lr", "ctr", "ca", "cr"} \subseteq DOMAIN e /\ IsBytes(e.lr, 4) /\ IsBytes(e.ctr, 4) /\ e.ca \in 0..1
          /\ DOMAIN e.cr = 1..32 /\ \A i \in 1..32 : e.cr[i] \in 0..1
          /\ {"lr", "ctr", "ca", "cr"} \subseteq DOMAIN e.post /\ IsVal(e.post.lr) /\ IsVal(e.post.ctr) /\ IsVal(e.post.ca)
          /\ DOMAIN e.post.cr = 1..32 /\ \A i \in 1..32 : IsVal(e.post.cr[i])
  /\ Len(e.mem0) \in 8..4096 /\ IsBytes(e.mem0, Len(e.mem0))
  /\ DOMAIN e.pcs = 1..Len(e.pcs) /\ \A i \in 1..Len(e.pcs) : IsBytes(e.pcs[i], 8)
  /\ "k" \in DOMAIN e.out
  /\ (e.out.k \in {"limit", "exit"} => "npc" \in DOMAIN e.out /\ IsBytes(e.out.npc, 8))
  /\ (e.out.k = "exit" => "npcw" \in DOMAIN e.out)
  /\ {"gpr", "mem1", "pages"} \subseteq DOMAIN e.post
  /\ DOMAIN e.post.gpr = 1..32 /\ \A i \in 1..32 : IsVal(e.post.gpr[i])
  /\ DOMAIN e.post.mem1 = 1..Len(e.mem0)
  /\ DOMAIN e.post.pages = 1..Len(e.post.pages) /\ \A i \in 1..Len(e.post.pages) : IsBytes(e.post.pages[i], 8)

\* ---- the program as the architecture sees it ------------------------------------------------
WordAt(p, i)  == IF IsMips(p) THEN MWord(p.words[i + 1], Big(p)) ELSE PWord(p.words[i + 1])   \* i = 0 .. NW - 1
DecAt(p, i)   == MDecode(WordAt(p, i))
AddrAt(p, i)  == Add(32, p.base, N32(4 * i))
\* byte offset of a 32-bit address relative to the base; anything outside the code maps to a value >= 4 * NW
OffOf(p, a)   == ToNatCap(Sub(32, a, p.base), 1000000)
\* PPC: the lifter refuses conditional branches; b (jump), bl (call), bctr (indirect, manual edges); blr is
\* left out while it is lifted as a nop (C02 finding, parts/C02.fix-10.patch)
PSupportedMn == {"addi", "addis", "add", "subf", "addze", "srawi", "rlwinm", "lwz", "stw", "lbz", "cmpwi", "cmplwi",
                 "or", "ori", "mfspr", "mtspr", "b", "bcctr"}
PKindOf(p, i) ==
  LET d == PDecode(WordAt(p, i))  pc == AddrAt(p, i) IN
  CASE d.mn = "b" /\ d.aa = 0 ->
         [kind |-> IF d.rc = 1 THEN "call" ELSE "jump",
          t |-> OffOf(p, Add(32, pc, Sext(26, 32, BvAnd(32, d.w, <<252, 255, 255, 3>>))))]
    [] d.mn = "bcctr" /\ d.rt = 20 /\ d.rc = 0 -> [kind |-> "ind", t |-> 0]
    [] d.mn \in PSupportedMn \ {"b", "bcctr"}
       /\ (d.mn \in {"add", "subf", "addze", "srawi", "rlwinm", "or"} => d.rc = 0 /\ (d.mn \in {"add", "subf", "addze"} => d.oe = 0))
       /\ (d.mn \in {"mfspr", "mtspr"} => d.rb * 32 + d.ra \in {8, 9}) -> [kind |-> "fall", t |-> 0]
    [] OTHER -> [kind |-> "other", t |-> 0]
KindOf(p, i) ==
  IF ~IsMips(p) THEN PKindOf(p, i) ELSE
  LET d == DecAt(p, i)  pc == AddrAt(p, i) IN
  CASE d.mn \in {"bne", "blez", "bgtz", "bltz", "bgez"} -> [kind |-> "cond", t |-> OffOf(p, RelTarget(d, pc))]
    [] d.mn = "beq" -> [kind |-> IF d.rs = 0 /\ d.rt = 0 THEN "jump" ELSE "cond", t |-> OffOf(p, RelTarget(d, pc))]
    [] d.mn = "j"   -> [kind |-> "jump", t |-> OffOf(p, JTarget(d, pc))]
    [] d.mn = "jal" -> [kind |-> "call", t |-> OffOf(p, JTarget(d, pc))]
    [] d.mn = "jr"  -> [kind |-> "ind", t |-> 0]
    [] d.mn \in {"?", "jalr", "bltzal", "bgezal", "syscall", "break", "teq", "rdhwr"} -> [kind |-> "other", t |-> 0]
    [] OTHER        -> [kind |-> "fall", t |-> 0]
AProg(p)  == TLCEval([a \in { 4 * i : i \in 0..(NW(p) - 1) } |-> LET k == KindOf(p, a \div 4) IN [len |-> 4, kind |-> k.kind, t |-> k.t]])
AMan(p)   == { <<4 * p.manual[i][1], 4 * p.manual[i][2]>> : i \in 1..Len(p.manual) }
ARoots(p) == {4 * p.entry} \cup { m[1] : m \in AMan(p) } \cup { m[2] : m \in AMan(p) }
\* PPC has no delay slot: the same <<instruction, next instruction>> pairs are built from Succs / ReachInstr
PlainReach(prog, man, roots) ==
  LET R == ReachInstr(prog, man, roots) \cap DOMAIN prog IN
  UNION { IF Succs(prog, man, a) = {} THEN {<<a, Exit>>} ELSE { <<a, s>> : s \in Succs(prog, man, a) } : a \in R }
ReachFrom(p, prog, roots) == IF IsMips(p) THEN DReach(prog, AMan(p), 4, roots) ELSE PlainReach(prog, AMan(p), roots)
AReachOf(p, prog) == TLCEval(ReachFrom(p, prog, ARoots(p)))

\* the specification only speaks about closed programs of the instruction kinds above
Closed(p, prog, reach) ==
  /\ \A s \in reach : s[1] \in DOMAIN prog /\ s[2] \in DOMAIN prog \cup {Exit}
  /\ \A a \in DInstr(reach) : prog[a].kind # "other"
  /\ IsMips(p) => \A s \in reach : prog[s[1]].kind \in {"jump", "cond", "call", "ind"} /\ s[2] # Exit => prog[s[2]].kind = "fall"   \* no branch in a delay slot
  /\ \A m \in AMan(p) : prog[m[1]].kind = "ind"
  \* manual edges are declared for indirect jumps of the function: a head the entry cannot reach is outside the
  \* intended use (and an unreachable cycle of unguarded edges makes ControlFlowGraph::merge fail - see design notes)
  /\ (AMan(p) # {} => { m[1] : m \in AMan(p) } \subseteq DInstr(ReachFrom(p, prog, {4 * p.entry})))

\* instruction classes falcon's MIPS lifter is known to support (the classes C02 judges; `not` / `neg` aliases -
\* nor / sub with $zero - are refused by the lifter and excluded)
SupportedMn == {"addu", "subu", "and", "or", "xor", "nor", "slt", "sltu", "movz", "movn", "sll", "srl", "sra", "sllv", "srlv",
                "srav", "addiu", "andi", "ori", "xori", "lui", "slti", "sltiu", "lw", "sw", "lb", "lbu", "sb", "lh", "lhu", "sh",
                "mult", "multu", "mfhi", "mflo", "mthi", "mtlo", "mul", "beq", "bne", "blez", "bgtz", "bltz", "bgez", "j", "jal", "jr"}
Supported(p, reach) ==
  IF ~IsMips(p)                \* Closed already restricts PPC programs to PSupportedMn; capstone prints rlwinm with
                               \* mb = 0 or me = 31 under alias names (rotlwi, clrlwi, srwi, ...) that the lifter refuses
  THEN \A a \in DInstr(reach) : LET d == PDecode(WordAt(p, a \div 4)) IN d.mn = "rlwinm" => d.mb # 0 /\ d.me # 31
  ELSE \A a \in DInstr(reach) : LET d == DecAt(p, a \div 4) IN d.mn \in SupportedMn /\ (d.mn = "nor" => d.rt # 0)

\* ---- the recovered function as Recover.tla sees it -------------------------------------------
IsPseudo(a8) == a8[1] % 4 # 0
AOff(p, a8)  == IF a8[5] = 0 /\ a8[6] = 0 /\ a8[7] = 0 /\ a8[8] = 0 THEN OffOf(p, <<a8[1], a8[2], a8[3], a8[4]>>) ELSE 2000000
Natives(p, ins) == LET s == SelectSeq(ins, LAMBDA a : ~IsPseudo(a)) IN [k \in 1..Len(s) |-> AOff(p, s[k])]
FunOf(p) ==
  [blocks |-> [b \in { p.blocks[i].i : i \in 1..Len(p.blocks) } |->
                 Natives(p, p.blocks[CHOOSE i \in 1..Len(p.blocks) : p.blocks[i].i = b].ins)],
   edges  |-> { <<p.edges[i].h, p.edges[i].t, p.edges[i].c = 1>> : i \in 1..Len(p.edges) },
   entry  |-> p.fentry]
\* number of IL instructions carrying exactly this 64-bit address
CountAddr(p, a8) == LET RECURSIVE Cnt(_) Cnt(i) == IF i > Len(p.blocks) THEN 0 ELSE
                          Len(SelectSeq(p.blocks[i].ins, LAMBDA x : x = a8)) + Cnt(i + 1)
                    IN Cnt(1)
Contiguous(f, a) ==
  LET occ == Occurrences(f, a) IN
  /\ Cardinality({ o[1] : o \in occ }) <= 1
  /\ \A o1, o2 \in occ : \A k \in o1[2]..o2[2] : <<o1[1], k>> \in occ

\* Words that are the delay slot of a reachable branch AND entered by a jump (direct target, manual tail, root).
\* The two roles have different successors, which one IL instance cannot express: "exactly one block" and "the
\* executions coincide" contradict each other for such a word, and the specification accepts one instance per role.
DualRole(p, prog, reach) ==
  IF ~IsMips(p) THEN {} ELSE
  LET instr == DInstr(reach)
      slots == { a + 4 : a \in { x \in instr : prog[x].kind \in {"jump", "cond", "call", "ind"} } }
      entered == { prog[a].t : a \in { x \in instr : prog[x].kind \in {"jump", "cond"} } } \cup ARoots(p)
  IN slots \cap entered

\* the clauses; each returns a sequence of strings (empty = holds)
StructureDiff(p, prog, reach) ==
  LET f == TLCEval(FunOf(p))
      instr == TLCEval(DInstr(reach))  pairs == TLCEval(NativePairs(f)) IN
  (IF NoDangling(f) THEN <<>> ELSE <<"dangling">>)
  \o (IF NoDangling(f) /\ HeadOf(f, f.entry, Fuel(f)) = {4 * p.entry}
        /\ p.faddr = Zext(64, AddrAt(p, p.entry)) THEN <<>> ELSE <<"entry">>)
  \o (IF AddrsOf(f) \subseteq instr THEN <<>> ELSE <<"unreachable-lifted">>)
  \o (IF instr \subseteq AddrsOf(f) THEN <<>> ELSE <<"reachable-missing">>)
  \o (IF \A a \in instr :
          LET al == p.alone[(a \div 4) + 1]  a8 == Zext(64, AddrAt(p, a \div 4))  n == CountAddr(p, a8) IN
          al[1] < 0 \/ ( /\ (n = al[1] \/ (a \in DualRole(p, prog, reach) /\ n = 2 * al[1]))
                         /\ CountAddr(p, [a8 EXCEPT ![1] = @ + 1]) = al[2]
                         /\ (al[3] <= 1 /\ n = al[1] => Contiguous(f, a)) )
      THEN <<>> ELSE <<"not-exactly-once">>)
  \o (IF \A a \in instr : NativeSuccs(pairs, a) = DSuccs(reach, a) \ {a} THEN <<>> ELSE <<"successors">>)

StructureDetail(p, prog, reach) ==
  LET f == TLCEval(FunOf(p))  instr == TLCEval(DInstr(reach))  pairs == TLCEval(NativePairs(f)) IN
  [extra   |-> AddrsOf(f) \ instr, missing |-> instr \ AddrsOf(f),
   succs   |-> { <<a, NativeSuccs(pairs, a), DSuccs(reach, a) \ {a}>> : a \in { x \in instr : NativeSuccs(pairs, x) # DSuccs(reach, x) \ {x} } },
   counts  |-> { <<a, CountAddr(p, Zext(64, AddrAt(p, a \div 4))), p.alone[(a \div 4) + 1]>> :
                 a \in { x \in instr \cap AddrsOf(f) : p.alone[(x \div 4) + 1][1] >= 0
                                                     /\ CountAddr(p, Zext(64, AddrAt(p, x \div 4))) # p.alone[(x \div 4) + 1][1] } }]

\* program features (for narrow known-finding signatures; not for the verdict)
ProgTags(p) ==
  LET prog == AProg(p)  reach == AReachOf(p, prog)  instr == TLCEval(DInstr(reach))
      branches == { a \in instr : prog[a].kind \in {"jump", "cond", "call", "ind"} }
      slots    == IF IsMips(p) THEN { a + 4 : a \in branches } ELSE {}
      targets  == { prog[a].t : a \in { x \in instr : prog[x].kind \in {"jump", "cond"} } } \cup { m[2] : m \in AMan(p) }
  IN (IF targets \cap slots # {} THEN <<"target-is-delay-slot">> ELSE <<>>)
     \o (IF 4 * p.entry \in slots THEN <<"entry-is-delay-slot">> ELSE <<>>)
     \o (IF AMan(p) # {} THEN <<"manual">> ELSE <<>>)
     \o (IF \E a \in instr : prog[a].kind = "call" THEN <<"jal">> ELSE <<>>)
     \o (IF \E a \in instr : prog[a].kind \in {"jump", "cond"} /\ prog[a].t = a THEN <<"self-loop">> ELSE <<>>)
     \o (IF \E a \in instr : prog[a].kind = "cond" /\ prog[a].t = a + 8 THEN <<"target=fallthrough">> ELSE <<>>)

\* ---- run: the nPC machine over Mips.tla -------------------------------------------------------
InitState(e) == [gpr |-> e.gpr, hi |-> e.hi, lo |-> e.lo, mem |-> e.mem0, win |-> e.win]
InCode(p, a) == a[1] % 4 = 0 /\ OffOf(p, a) < 4 * NW(p)
\* m = [k ("run" | "diverge" | "unspec"), st, prev, lastbr, pc, npc, at, why]
\* The recorder logs an address when it CHANGES (or right after an executed IL Branch).  A word that is executed twice
\* in a row - only possible for a branch to its own delay slot: once as the delay slot, once as the target - therefore
\* shows once in the log.  When the machine is about to repeat the word it executed last and the log does not show the
\* repetition, the machine steps without consuming a logged address (the final state still shows whether the lifter
\* executed the word twice).  fin = the logged address of the instruction the run stopped in front of (<<>> if none).
RECURSIVE Walk(_, _, _, _, _)
Walk(p, m, pcs, k, fin) ==
  IF m.k # "run" THEN m ELSE
  LET repeat == m.pc = m.last
      logged == k <= Len(pcs) /\ pcs[k] = Zext(64, m.pc)
      k1     == IF logged THEN k + 1 ELSE k
      at1    == IF logged THEN k ELSE m.at
  IN
  IF k > Len(pcs) /\ ~(repeat /\ fin # <<>> /\ fin # Zext(64, m.pc)) THEN m
  ELSE IF ~logged /\ ~repeat THEN [m EXCEPT !.k = "diverge", !.at = k]
  ELSE IF ~InCode(p, m.pc) THEN [m EXCEPT !.k = "unspec", !.why = "control leaves the code"]
  ELSE
  LET d == DecAt(p, OffOf(p, m.pc) \div 4)  seq4 == Add(32, m.npc, N32(4)) IN
  IF d.mn = "?" THEN [m EXCEPT !.k = "unspec", !.why = "reserved encoding"]
  ELSE IF MIsBranch(d.mn) THEN
       LET b == MBranch(d, m.st, m.pc) IN
       IF ~b.ok \/ m.lastbr THEN [m EXCEPT !.k = "unspec", !.why = "UNPREDICTABLE branch / unaligned target / branch in a delay slot"]
       ELSE Walk(p, TLCEval([m EXCEPT !.prev = m.st,
                                      !.st = IF b.link >= 0 THEN MW(m.st, b.link, Add(32, m.pc, N32(8))) ELSE m.st,
                                      !.lastbr = TRUE, !.pc = m.npc, !.npc = IF b.taken THEN b.target ELSE seq4,
                                      !.at = at1, !.last = m.pc]),
                 pcs, k1, fin)
  ELSE LET r == MExec1(d, m.st, Big(p))[1] IN
       IF r.k # "ok" THEN [m EXCEPT !.k = "unspec", !.why = IF r.k = "trap" THEN "exception" ELSE r.why]
       ELSE Walk(p, TLCEval([m EXCEPT !.prev = m.st, !.st = r.st, !.lastbr = FALSE, !.pc = m.npc, !.npc = seq4,
                                      !.at = at1, !.last = m.pc]),
                 pcs, k1, fin)

\* PPC: no delay slot, PExec gives the next pc; don't-care components (the SO bit a compare copies) accumulate
PInitState(e) == [gpr |-> e.gpr, lr |-> e.lr, ctr |-> e.ctr, ca |-> e.ca, cr |-> e.cr, mem |-> e.mem0, win |-> e.win]
RECURSIVE PWalk(_, _, _, _)
PWalk(p, m, pcs, k) ==
  IF m.k # "run" \/ k > Len(pcs) THEN m
  ELSE IF pcs[k] # Zext(64, m.pc) THEN [m EXCEPT !.k = "diverge", !.at = k]
  ELSE IF ~InCode(p, m.pc) THEN [m EXCEPT !.k = "unspec", !.why = "control leaves the code"]
  ELSE LET r == PExec(PDecode(WordAt(p, OffOf(p, m.pc) \div 4)), m.st, m.pc)[1] IN
       IF r.k # "ok" THEN [m EXCEPT !.k = "unspec", !.why = r.why]
       ELSE PWalk(p, TLCEval([m EXCEPT !.prev = m.st, !.st = r.st, !.pc = r.npc, !.at = k, !.dc = m.dc \cup r.dc]), pcs, k + 1)
PMachine0(p, e) == [k |-> "run", st |-> PInitState(e), prev |-> PInitState(e), lastbr |-> FALSE,
                    pc |-> AddrAt(p, p.entry), npc |-> AddrAt(p, p.entry + 1), at |-> 0, why |-> "", dc |-> {}]

Machine0(p, e) == [k |-> "run", st |-> InitState(e), prev |-> InitState(e), lastbr |-> FALSE,
                   pc |-> AddrAt(p, p.entry), npc |-> AddrAt(p, p.entry + 1), at |-> 0, why |-> "", dc |-> {}, last |-> <<>>]
NativePcs(e) == SelectSeq(e.pcs, LAMBDA a : ~IsPseudo(a))

\* components of the final state (as in Trace_C02)
RegNames == [i \in 0..31 |-> "r" \o ToString(i)]
C(n, ev, o) == [n |-> n, ew |-> 32, ev |-> ev, ow |-> o.w, ov |-> o.v]
CrNames == [i \in 1..32 |-> "cr" \o ToString((i - 1) \div 4) \o (CASE (i - 1) % 4 = 0 -> "lt" [] (i - 1) % 4 = 1 -> "gt"
                                                                          [] (i - 1) % 4 = 2 -> "eq" [] OTHER -> "so")]
C1(n, ev, o) == [n |-> n, ew |-> 1, ev |-> ev, ow |-> o.w, ov |-> o.v]
Comps(e, st) ==
  IF "hi" \in DOMAIN st
  THEN [i \in 1..31 |-> C(RegNames[i], st.gpr[i + 1], e.post.gpr[i + 1])]
       \o <<C("hi", st.hi, e.post.hi), C("lo", st.lo, e.post.lo)>>
  ELSE [i \in 1..32 |-> C(RegNames[i - 1], st.gpr[i], e.post.gpr[i])]
       \o <<C("lr", st.lr, e.post.lr), C("ctr", st.ctr, e.post.ctr), C1("ca", <<st.ca>>, e.post.ca)>>
       \o [i \in 1..32 |-> C1(CrNames[i], <<st.cr[i]>>, e.post.cr[i])]
PageBase(a)  == <<0, a[2] - (a[2] % 4), a[3], a[4]>>
PagesOk(e)   == \A i \in 1..Len(e.post.pages) :
                   e.post.pages[i] \in { Zext(64, PageBase(e.win)), Zext(64, PageBase(Add(32, e.win, N32(Len(e.mem0) - 1)))) }

RunDiffAt(p, e, m, st) ==
  LET bad == SelectSeq(Comps(e, st), LAMBDA c : c.n \notin m.dc /\ (c.ew # c.ow \/ c.ev # c.ov)) IN
  (IF m.k = "diverge" THEN <<"pcs">> ELSE <<>>)
  \o (IF e.out.k \in {"limit", "exit"} THEN
         (IF m.k = "run" /\ e.out.npc # Zext(64, m.pc) THEN <<"npc">> ELSE <<>>)
         \o (IF e.out.k = "exit" /\ e.out.npcw # 32 THEN <<"npcw">> ELSE <<>>)
         \o (IF e.out.k = "limit" /\ Len(NativePcs(e)) # e.n THEN <<"count">> ELSE <<>>)
      ELSE <<"outcome">>)
  \o (IF m.k = "run" THEN [i \in 1..Len(bad) |-> bad[i].n]
                          \o (IF e.post.mem1 # st.mem THEN <<"mem">> ELSE <<>>)
                          \o (IF PagesOk(e) THEN <<>> ELSE <<"pages">>)
      ELSE <<>>)
\* A run that stops between a branch and its delay slot: the architecture has written the link register (m.st).
\* A lifter that emits the link write behind the delay slot (C02 finding, parts/C02.fix-13.patch) shows the state
\* before the branch (m.prev); nothing else of the unit is visible yet, so both are accepted here - the ordering
\* itself is C02's subject.
RunDiff(p, e, m) ==
  IF m.lastbr /\ RunDiffAt(p, e, m, m.st) # <<>> THEN RunDiffAt(p, e, m, m.prev) ELSE RunDiffAt(p, e, m, m.st)

RunDetail(p, e, m) ==
  LET st  == IF m.lastbr THEN m.prev ELSE m.st
      bad == SelectSeq(Comps(e, st), LAMBDA c : c.n \notin m.dc /\ (c.ew # c.ow \/ c.ev # c.ov))
      pw(k) == IF k >= 1 /\ k <= Len(NativePcs(e)) THEN AOff(p, NativePcs(e)[k]) ELSE 2000000
      la  == IF m.k = "diverge" THEN m.at - 1 ELSE m.at            \* index of the last address both sides agree on
      i   == IF pw(la) % 4 = 0 /\ pw(la) < 4 * NW(p) THEN pw(la) \div 4 ELSE -1
      \* that instruction is a delay-slot word that was entered by a jump (not behind its branch): the state
      \* class of the shared delay-slot instance
      slotjump == /\ i >= 1 /\ MIsBranch(DecAt(p, i - 1).mn) /\ pw(la - 1) # 4 * (i - 1)
      \* ... and the jump was an IL Branch that the Driver resolves by address: the instruction executed before it is
      \* the delay slot of a jr or of a jal (calls are lifted as IL Branch operations)
      jb  == IF pw(la - 2) % 4 = 0 /\ pw(la - 2) < 4 * NW(p) THEN pw(la - 2) \div 4 ELSE -1
      indirect == slotjump /\ jb >= 0 /\ pw(la - 1) = 4 * (jb + 1) /\ DecAt(p, jb).mn \in {"jr", "jal"}
      \* some IL Branch of this run (jr / jal, resolved by the Driver by address) landed on a word that is lifted to
      \* several IL blocks (slt, slti, movz, ...): the lookup may return an instruction of an inner block
      n   == Len(NativePcs(e))
      wd(k) == IF pw(k) % 4 = 0 /\ pw(k) < 4 * NW(p) THEN pw(k) \div 4 ELSE -1
      intomb == IsMips(p) /\ \E k \in 3..n :
                   /\ wd(k) >= 0 /\ wd(k - 2) >= 0 /\ wd(k - 1) = wd(k - 2) + 1
                   /\ DecAt(p, wd(k - 2)).mn \in {"jr", "jal"}
                   /\ p.alone[wd(k) + 1][3] > 1
  IN [at |-> m.at, expected_pc |-> m.pc, last_word |-> i, il_branch_into_multiblock |-> intomb,
      last_mn |-> IF i < 0 THEN "" ELSE IF IsMips(p) THEN DecAt(p, i).mn ELSE PDecode(WordAt(p, i)).mn,
      last_is_slot |-> (IsMips(p) /\ i >= 1 /\ MIsBranch(DecAt(p, i - 1).mn)),
      entered_slot_by_jump |-> (IsMips(p) /\ slotjump),
      entered_slot_by_il_branch |-> (IsMips(p) /\ indirect),
      regs |-> [k \in 1..Len(bad) |-> [n |-> bad[k].n, v |-> bad[k].ev]]]

\* ---- verdicts ------------------------------------------------------------------------------
V(k, key, why, expected) == [k |-> k, key |-> key, why |-> why, expected |-> expected]

BeginVerdict(e) ==
  IF ~BeginShape(e) THEN V("reject", "structure:malformed", "malformed event", <<>>)
  ELSE IF "ok" \notin DOMAIN e.lift THEN
       \* a closed program made of instructions the lifter supports must be recovered: Err / panic is a rejection
       LET prog == AProg(e)  reach == AReachOf(e, prog) IN
       IF Closed(e, prog, reach) /\ Supported(e, reach)
       THEN V("reject", "structure:reject", "structure",
              [kind |-> "structure", arch |-> e.arch, diff |-> <<"lift-error">>, tags |-> ProgTags(e),
               detail |-> [lift |-> e.lift]])
       ELSE V("lifterr", IF "panic" \in DOMAIN e.lift THEN "structure:liftpanic" ELSE "structure:lifterr", "", <<>>)
  ELSE IF ~FunShape(e) THEN V("reject", "structure:malformed", "malformed event", <<>>)
  ELSE LET prog == AProg(e)  reach == AReachOf(e, prog) IN
       IF ~Closed(e, prog, reach) THEN V("unspec", "structure:unspec", "program is not closed / uses instructions outside the module", <<>>)
       ELSE LET d == TLCEval(StructureDiff(e, prog, reach)) IN
            IF d = <<>> THEN V("ok", "structure:ok", "", <<>>)
            ELSE V("reject", "structure:reject", "structure",
                   [kind |-> "structure", arch |-> e.arch, diff |-> d, tags |-> ProgTags(e), detail |-> StructureDetail(e, prog, reach)])

RunVerdict(p, e) ==
  IF ~RunShape(p, e) THEN V("reject", "run:malformed", "malformed event", <<>>)
  ELSE LET m == TLCEval(IF IsMips(p) THEN Walk(p, Machine0(p, e), NativePcs(e), 1,
                                                   IF e.out.k \in {"limit", "exit"} THEN e.out.npc ELSE <<>>)
                                      ELSE PWalk(p, PMachine0(p, e), NativePcs(e), 1)) IN
       IF m.k = "unspec" THEN V("unspec", "run:unspec", m.why, <<>>)
       ELSE LET d == RunDiff(p, e, m) IN
            IF d = <<>> THEN V("ok", "run:ok:" \o e.out.k, "", <<>>)
            ELSE V("reject", "run:reject", "run",
                   [kind |-> "run", arch |-> p.arch, diff |-> d, tags |-> ProgTags(p), out |-> e.out.k, detail |-> RunDetail(p, e, m)])

Bump(s, k) == IF k \in DOMAIN s THEN [s EXCEPT ![k] = @ + 1] ELSE [x \in DOMAIN s \cup {k} |-> IF x = k THEN 1 ELSE s[x]]

Init == l = 1 /\ skip = TRUE /\ P = <<>> /\ stats = [x \in {} |-> 0]
Next ==
  /\ l <= NRec
  /\ l' = l + 1
  /\ LET e == Rec[l] IN
     IF "ev" \in DOMAIN e /\ e.ev = "begin" THEN
        LET v == BeginVerdict(e) IN
        /\ P' = e /\ skip' = (v.k # "ok")
        /\ stats' = IF v.k = "unspec" THEN Bump(Bump(stats, v.key), "why:" \o v.why) ELSE Bump(stats, v.key)
        /\ (v.k # "reject" \/ Reject(l, v.why, v.expected))
     ELSE IF skip THEN UNCHANGED <<skip, P>> /\ stats' = Bump(stats, "run:skipped")
     ELSE LET v == RunVerdict(P, e) IN
          /\ UNCHANGED P /\ skip' = (v.k = "reject")
          /\ stats' = IF v.k = "unspec" THEN Bump(Bump(stats, v.key), "why:" \o v.why) ELSE Bump(stats, v.key)
          /\ (v.k # "reject" \/ Reject(l, v.why, v.expected))
  /\ (l < NRec \/ PrintT(<<"STATS", ToJson(stats')>>))
Spec == Init /\ [][Next]_vars
=============================================================================
