CONSTANT LimbBits = 8
SPECIFICATION Spec
POSTCONDITION Consumed
CHECK_DEADLOCK FALSE
