----------------------------- MODULE Trace_C02 -----------------------------
(***************************************************************************)
(* C02: every recorded instruction instance (raw word(s) + initial state,  *)
(* lifted by falcon's MIPS / MIPSel / PPC translator and run by the real   *)
(* executor) must end in a state the architecture allows.  The raw word is *)
(* decoded HERE (Mips.tla / Ppc.tla), the expected final registers, HI/LO, *)
(* LR/CTR/CA, CR bits, window bytes and next pc are computed on BV values  *)
(* and compared with what the recorder saw.  Events are independent.       *)
(*                                                                         *)
(* Verdict per event:                                                      *)
(*   lifterr  the lifter returned Err / panicked: not judged here (the     *)
(*            property speaks about the instructions the lifter accepts;   *)
(*            totality of lifting is C05)                                  *)
(*   unspec   the ISA modules do not define the case: counted, not judged  *)
(*   ok       the observation is one of the allowed outcomes               *)
(*   reject   REJECT line with mnemonic, differing components, tags        *)
(***************************************************************************)
EXTENDS Mips, Ppc, TraceLib

VARIABLES l, stats
vars == <<l, stats>>

IsMips(e) == e.arch \in {"mips", "mipsel"}
Big(e)    == e.arch # "mipsel"

\* ---- shape of an event (a mutated trace must be rejected, not crash the evaluation) -----
IsBytes(s, n) == DOMAIN s = 1..n /\ \A i \in 1..n : s[i] \in 0..255
IsVal(x)      == DOMAIN x = {"w", "v"} /\ x.w \in 0..4096 /\ DOMAIN x.v = 1..Len(x.v)
                 /\ \A i \in 1..Len(x.v) : x.v[i] \in 0..255
PreShape(e) ==
  /\ {"arch", "addr", "words", "gpr", "win", "mem0", "lift"} \subseteq DOMAIN e
  /\ e.arch \in {"mips", "mipsel", "ppc"}
  /\ IsBytes(e.addr, 4) /\ IsBytes(e.win, 4)
  /\ Len(e.words) \in 1..2 /\ \A i \in 1..Len(e.words) : IsBytes(e.words[i], 4)
  /\ DOMAIN e.gpr = 1..32 /\ \A i \in 1..32 : IsBytes(e.gpr[i], 4)
  /\ Len(e.mem0) \in 8..4096 /\ IsBytes(e.mem0, Len(e.mem0))
  /\ IF IsMips(e) THEN {"hi", "lo"} \subseteq DOMAIN e /\ IsBytes(e.hi, 4) /\ IsBytes(e.lo, 4)
     ELSE /\ {"lr", "ctr", "ca", "cr"} \subseteq DOMAIN e /\ IsBytes(e.lr, 4) /\ IsBytes(e.ctr, 4)
          /\ e.ca \in 0..1 /\ DOMAIN e.cr = 1..32 /\ \A i \in 1..32 : e.cr[i] \in 0..1
PostShape(e) ==
  /\ {"out", "post"} \subseteq DOMAIN e
  /\ "k" \in DOMAIN e.out
  /\ (e.out.k = "ok" => {"npc", "via"} \subseteq DOMAIN e.out /\ IsBytes(e.out.npc, 8)
                        /\ (e.out.via = "branch" => "npcw" \in DOMAIN e.out))
  /\ (e.out.k = "intrinsic" => "mn" \in DOMAIN e.out)
  /\ {"gpr", "mem1", "pages"} \subseteq DOMAIN e.post
  /\ DOMAIN e.post.gpr = 1..32 /\ \A i \in 1..32 : IsVal(e.post.gpr[i])
  /\ DOMAIN e.post.mem1 = 1..Len(e.mem0)
  /\ DOMAIN e.post.pages = 1..Len(e.post.pages) /\ \A i \in 1..Len(e.post.pages) : IsBytes(e.post.pages[i], 8)
  /\ IF IsMips(e) THEN {"hi", "lo"} \subseteq DOMAIN e.post /\ IsVal(e.post.hi) /\ IsVal(e.post.lo)
     ELSE /\ {"lr", "ctr", "ca", "cr"} \subseteq DOMAIN e.post
          /\ IsVal(e.post.lr) /\ IsVal(e.post.ctr) /\ IsVal(e.post.ca)
          /\ DOMAIN e.post.cr = 1..32 /\ \A i \in 1..32 : IsVal(e.post.cr[i])

\* ---- the specification's side -----------------------------------------------------------
MState(e) == [gpr |-> e.gpr, hi |-> e.hi, lo |-> e.lo, mem |-> e.mem0, win |-> e.win]
PState(e) == [gpr |-> e.gpr, lr |-> e.lr, ctr |-> e.ctr, ca |-> e.ca, cr |-> e.cr, mem |-> e.mem0, win |-> e.win]
Words(e)  == [i \in 1..Len(e.words) |-> IF IsMips(e) THEN MWord(e.words[i], Big(e)) ELSE PWord(e.words[i])]
Alts(e)   == IF IsMips(e) THEN MUnit(Words(e), MState(e), e.addr, Big(e))
             ELSE PUnit(Words(e), PState(e), e.addr)
Mn(e)     == IF IsMips(e) THEN MMn(Words(e)[1]) ELSE PMn(Words(e)[1])

\* ---- components: [n |-> name, ew, ev (expected), ow, ov (observed)] ----------------------
CrName(i) == "cr" \o ToString((i - 1) \div 4) \o (CASE (i - 1) % 4 = 0 -> "lt" [] (i - 1) % 4 = 1 -> "gt"
                                                   [] (i - 1) % 4 = 2 -> "eq" [] OTHER -> "so")
C(n, ew, ev, o) == [n |-> n, ew |-> ew, ev |-> ev, ow |-> o.w, ov |-> o.v]
RegNames == [i \in 0..31 |-> "r" \o ToString(i)]           \* constant tables: evaluated once
CrNames  == [i \in 1..32 |-> CrName(i)]
Comps(e, st) ==
  IF IsMips(e)
  THEN [i \in 1..31 |-> C(RegNames[i], 32, st.gpr[i + 1], e.post.gpr[i + 1])]             \* $zero is not a component
       \o <<C("hi", 32, st.hi, e.post.hi), C("lo", 32, st.lo, e.post.lo)>>
  ELSE [i \in 1..32 |-> C(RegNames[i - 1], 32, st.gpr[i], e.post.gpr[i])]
       \o <<C("lr", 32, st.lr, e.post.lr), C("ctr", 32, st.ctr, e.post.ctr), C("ca", 1, <<st.ca>>, e.post.ca)>>
       \o [i \in 1..32 |-> C(CrNames[i], 1, <<st.cr[i]>>, e.post.cr[i])]

\* pages the executor wrote to must be pages of the data window
PageBase(a)  == <<0, a[2] - (a[2] % 4), a[3], a[4]>>                      \* 1 KiB pages
PagesOk(e)   == \A i \in 1..Len(e.post.pages) :
                   e.post.pages[i] \in { Zext(64, PageBase(e.win)),
                                         Zext(64, PageBase(Add(32, e.win, N32(Len(e.mem0) - 1)))) }

\* names of the components on which observation and allowed outcome r differ
Diff(e, r0) ==
  LET r   == TLCEval(r0)
      cs  == TLCEval(Comps(e, r.st))
      bad == SelectSeq(cs, LAMBDA c : c.n \notin r.dc /\ (c.ew # c.ow \/ c.ev # c.ov))
      regs == [i \in 1..Len(bad) |-> bad[i].n]
      out == IF r.k = "ok"
             THEN (IF e.out.k # "ok" THEN <<"outcome">>
                   ELSE (IF e.out.npc # Zext(64, r.npc) THEN <<"npc">> ELSE <<>>)
                        \o (IF e.out.via = "branch" /\ e.out.npcw # 32 THEN <<"npcw">> ELSE <<>>))
             ELSE (IF e.out.k = "intrinsic" /\ e.out.mn = r.mn THEN <<>> ELSE <<"outcome">>)
  IN out \o regs \o (IF e.post.mem1 # r.st.mem THEN <<"mem">> ELSE <<>>)
         \o (IF PagesOk(e) THEN <<>> ELSE <<"pages">>)

\* expected values of the differing components (diagnosis)
ExpOf(e, r) ==
  LET cs  == Comps(e, r.st)
      bad == SelectSeq(cs, LAMBDA c : c.n \notin r.dc /\ (c.ew # c.ow \/ c.ev # c.ov))
  IN [out |-> IF r.k = "ok" THEN [k |-> "ok", npc |-> r.npc] ELSE [k |-> "intrinsic", mn |-> r.mn],
      regs |-> [i \in 1..Len(bad) |-> [n |-> bad[i].n, w |-> bad[i].ew, v |-> bad[i].ev]],
      mem |-> IF e.post.mem1 # r.st.mem THEN r.st.mem ELSE <<>>]

\* ---- state classes of an instance (for narrow known-finding signatures; not for the verdict)
MTags(e) ==
  LET ws == Words(e)  d1 == MDecode(ws[1])  st == MState(e) IN
  (IF MDst(d1) = 0 THEN <<"dst0">> ELSE <<>>)
  \o (IF d1.mn \in {"sllv", "srlv", "srav"} /\ ~IsZero(Shr(32, MR(st, d1.rs), 5)) THEN <<"sh>=32">> ELSE <<>>)
  \o (IF d1.mn \in {"lwl", "lwr", "swl", "swr"} THEN <<"k" \o ToString(MEA(d1, st)[1] % 4)>> ELSE <<>>)
  \o (IF MIsBranch(d1.mn) /\ Len(ws) = 2 THEN
        LET d2 == MDecode(ws[2])  b == MBranch(d1, st, e.addr)  dst == MDst(d2) IN
        <<IF b.taken THEN "taken" ELSE "nottaken", "ds:" \o d2.mn>>
        \o (IF d1.mn \notin {"j", "jal"} /\ dst = d1.rs /\ dst > 0 THEN <<"ds-writes-rs">> ELSE <<>>)
        \o (IF d1.mn \in {"beq", "bne"} /\ dst = d1.rt /\ dst > 0 THEN <<"ds-writes-rt">> ELSE <<>>)
        \o (IF b.link > 0 /\ dst = b.link THEN <<"ds-writes-link">> ELSE <<>>)
        \o (IF b.link > 0 /\ b.link \in MSrcs(d2) THEN <<"ds-reads-link">> ELSE <<>>)
        \o (IF b.target = Add(32, e.addr, N32(8)) THEN <<"target=fallthrough">> ELSE <<>>)
      ELSE <<>>)
PTags(e) ==
  LET d == PDecode(Words(e)[1])  st == PState(e) IN
  (IF d.rc = 1 /\ d.mn \in {"b", "bc", "bclr", "bcctr"} THEN <<"lk">> ELSE <<>>)
  \o (IF d.rc = 1 /\ d.mn \in {"add", "subf", "addze", "srawi", "rlwinm", "or", "slw", "srw"} THEN <<"rc">> ELSE <<>>)
  \o (IF d.ra = 0 /\ d.mn \in {"addi", "addis", "lwz", "lbz", "stw", "stb", "stmw"} THEN <<"ra0">> ELSE <<>>)
  \o (IF d.mn = "rlwinm" THEN <<IF d.mb <= d.me THEN "mb<=me" ELSE "mb>me">> ELSE <<>>)
  \o (IF d.mn \in {"bc", "bclr", "bcctr"} THEN <<"bo" \o ToString(d.rt)>> ELSE <<>>)
  \o (IF d.mn = "bclr" /\ st.lr[1] % 4 # 0 THEN <<"lr-unaligned">> ELSE <<>>)
  \o (IF d.mn = "bcctr" /\ st.ctr[1] % 4 # 0 THEN <<"ctr-unaligned">> ELSE <<>>)
  \o (IF d.mn \in {"mfspr", "mtspr"} THEN <<"spr" \o ToString(d.rb * 32 + d.ra)>> ELSE <<>>)
Tags(e) == IF IsMips(e) THEN MTags(e) ELSE PTags(e)

\* decoded fields, for the signature of a rejection
Fields(e) ==
  IF IsMips(e)
  THEN [i \in 1..Len(e.words) |-> LET d == MDecode(Words(e)[i]) IN
          [mn |-> d.mn, rs |-> d.rs, rt |-> d.rt, rd |-> d.rd, sa |-> d.sa, dst |-> MDst(d)]]
  ELSE LET d == PDecode(Words(e)[1]) IN
       <<[mn |-> d.mn, rt |-> d.rt, ra |-> d.ra, rb |-> d.rb, rc |-> d.rc, mb |-> d.mb, me |-> d.me, crf |-> d.rt \div 4]>>

\* ---- verdict ---------------------------------------------------------------------------
V(k, key, why, expected) == [k |-> k, key |-> key, why |-> why, expected |-> expected]

Verdict(e) ==
  IF ~PreShape(e) THEN V("reject", "malformed", "malformed event", <<>>)
  ELSE IF "ok" \notin DOMAIN e.lift
       THEN V("lifterr", e.arch \o ":" \o Mn(e) \o (IF "panic" \in DOMAIN e.lift THEN ":liftpanic" ELSE ":lifterr"), "", <<>>)
  ELSE IF ~PostShape(e) THEN V("reject", "malformed", "malformed event", <<>>)
  ELSE
  LET alts == TLCEval(Alts(e))
      key  == e.arch \o ":" \o Mn(e)
  IN IF \E i \in 1..Len(alts) : alts[i].k = "unspec"
     THEN LET i == CHOOSE i \in 1..Len(alts) : alts[i].k = "unspec" IN V("unspec", key \o ":unspec", alts[i].why, <<>>)
     ELSE IF \E i \in 1..Len(alts) : Diff(e, alts[i]) = <<>> THEN V("ok", key \o ":ok", "", <<>>)
     ELSE V("reject", key \o ":reject", Mn(e),
            [arch |-> e.arch, mn |-> Mn(e), diff |-> Diff(e, alts[1]), tags |-> Tags(e), d |-> Fields(e),
             exp |-> ExpOf(e, alts[1]), nalts |-> Len(alts)])

Bump(s, k) == IF k \in DOMAIN s THEN [s EXCEPT ![k] = @ + 1] ELSE [x \in DOMAIN s \cup {k} |-> IF x = k THEN 1 ELSE s[x]]

Init == l = 1 /\ stats = [x \in {} |-> 0]
Next ==
  /\ l <= NRec
  /\ l' = l + 1
  /\ LET v == Verdict(Rec[l])
         s1 == Bump(stats, v.key)
         s2 == IF v.k = "unspec" THEN Bump(s1, "why:" \o v.why) ELSE s1
     IN /\ stats' = s2
        /\ (v.k # "reject" \/ Reject(l, v.why, v.expected))
        /\ (l < NRec \/ PrintT(<<"STATS", ToJson(s2)>>))
Spec == Init /\ [][Next]_vars
=============================================================================
