----------------------------- MODULE Trace_C20 -----------------------------
(***************************************************************************)
(* C20: the exported descriptors of each architecture (one session per     *)
(* architecture, event "begin") are judged line by line against Abi.tla    *)
(* and against the register set observed in the IL its translator emits.   *)
(* Every line is an independent question about the same tables, so a       *)
(* rejected line does not skip the rest of the session.                    *)
(***************************************************************************)
EXTENDS Abi, TraceLib

VARIABLES l, S
vars == <<l, S>>

Observed == { S.observed.scalars[i] : i \in 1..Len(S.observed.scalars) }
A == S.arch
Clean(res) == Has(res, "ok")

DescWant(f) ==
  CASE f = "name"        -> A
    [] f = "endian"      -> Abi(A).endian
    [] f = "word"        -> Abi(A).word
    [] f = "sp"          -> Abi(A).sp
    [] f = "addr_width"  -> <<Abi(A).word>>
    [] OTHER             -> "a scalar the translator emits"
DescOK(e) ==
  IF e.field = "sp_observed" THEN e.value \in Observed ELSE e.value = DescWant(e.field)

CcWant(f) ==
  CASE f = "args"         -> Abi(A).args
    [] f = "ret"          -> Abi(A).ret
    [] f = "retaddr"      -> Abi(A).retaddr
    [] f = "stack_off"    -> Abi(A).stack_off
    [] f = "slot"         -> Slot(A)
    [] f = "sp_preserved" -> 1
CcOK(e) == e.value = CcWant(e.field)

EventOK(e) ==
  CASE e.ev = "desc"      -> DescOK(e)
    [] e.ev = "ccfield"   -> CcOK(e)
    [] e.ev = "ccreg"     -> e.s \in NamedRegs(S.cc) /\ e.s \in Observed
    [] e.ev = "ccname"    -> NotBoth(S.cc, e.n) /\ AgreesWithAbi(A, S.cc, e.n)
    [] e.ev = "argtype"   -> Clean(e.res) /\ e.res.ok = ArgType(S.cc, e.n)
    [] e.ev = "query"     -> QueryOK(S.cc, e.s, e.preserved, e.trashed)
    [] e.ev = "immprobe"  -> e.platform = [ok |-> e.imm] /\ e.reversed # [ok |-> e.imm]
    [] e.ev = "loadprobe" -> Clean(e.res) /\ e.res.ok = LoadValue(A, e.bytes, e.dst[2])
    [] OTHER              -> FALSE

Expected(e) ==
  CASE e.ev = "desc"      -> [want |-> DescWant(e.field)]
    [] e.ev = "ccfield"   -> [want |-> CcWant(e.field)]
    [] e.ev = "ccreg"     -> [want |-> "a scalar (name, width) the translator emits",
                              same_name |-> { o \in Observed : o[1] = e.s[1] }]
    [] e.ev = "ccname"    -> [both |-> ~NotBoth(S.cc, e.n), contradicts_abi |-> ~AgreesWithAbi(A, S.cc, e.n)]
    [] e.ev = "argtype"   -> [want |-> ArgType(S.cc, e.n)]
    [] e.ev = "query"     -> [preserved |-> e.s \in Range(S.cc.preserved), trashed |-> e.s \in Range(S.cc.trashed)]
    [] e.ev = "immprobe"  -> [platform |-> [ok |-> e.imm], reversed |-> "anything else"]
    [] e.ev = "loadprobe" -> [want |-> LoadValue(A, e.bytes, e.dst[2])]
    [] OTHER              -> [unknown |-> e.ev]

\* a session is usable only if the corpus was lifted (otherwise "observed" means nothing)
BeginOK(e) == e.arch \in Archs /\ e.observed.lifted >= 20 /\ e.observed.lifted >= 3 * e.observed.failed

ASSUME AbiSane

Init == l = 1 /\ S = <<>>
Next ==
  /\ l <= NRec
  /\ l' = l + 1
  /\ LET e == Rec[l] IN
     IF e.ev = "begin" THEN
       /\ S' = e
       /\ BeginOK(e) \/ Reject(l, "corpus", [harness |-> "too little of the corpus was lifted"])
     ELSE
       /\ UNCHANGED S
       /\ EventOK(e) \/ Reject(l, e.ev, Expected(e))
Spec == Init /\ [][Next]_vars
=============================================================================
