----------------------------- MODULE Trace_C09 -----------------------------
(***************************************************************************)
(* C09: sessions recorded from falcon's fixed-point engine driven with a   *)
(* table-driven analysis (harness/src/bin/c09.rs).                         *)
(*                                                                         *)
(*   begin   the problem: location graph (falcon's own forward/backward,   *)
(*           oriented for the solver's direction), start, lattice, table,  *)
(*           force, step budget                                            *)
(*   join    a call of the analysis' join           (must be the lattice join) *)
(*   trans   a call trans(l, input) -> output: replayed as a step of        *)
(*           chaotic iteration - l must be dirty (or at least have a state) *)
(*           and the logged input must be the join of the model's current  *)
(*           predecessor states.  A call that is not such a step is        *)
(*           schedule drift: counted, the model stops tracking, and it is  *)
(*           a violation only if the outcome is wrong as well.             *)
(*   result  judged by FixedPoint!Judge - on the OUTCOME only; in addition, *)
(*           while the model tracks the run (no drift), a step whose new   *)
(*           state is not above the old one (without the force flag) must   *)
(*           end the run with an error: no further trans call, no result.   *)
(***************************************************************************)
EXTENDS FixedPoint, TraceLib

VARIABLES l, skip,
          g,        \* line of the current session's begin event; the problem is Rec[g]
          s,        \* model state [st, dirty, oc]
          nt,       \* trans calls so far
          drift,    \* trans calls that were not steps of chaotic iteration
          rv        \* steps that re-examined a location that was not dirty
vars == <<l, skip, g, s, nt, drift, rv>>

P == Rec[g]

WellFormedProblem(e) ==
  /\ e.lat \in LatNames
  /\ e.n >= 0 /\ Len(e.pred) = e.n /\ Len(e.succ) = e.n /\ Len(e.tab) = e.n
  /\ e.start \in 0..e.n
  /\ \A i \in 1..e.n : /\ SeqSet(e.pred[i]) \subseteq 1..e.n /\ SeqSet(e.succ[i]) \subseteq 1..e.n
                       /\ Len(e.tab[i]) = Cardinality(Elems(e.lat)) + 1
                       /\ SeqSet(e.tab[i]) \subseteq Elems(e.lat)
  /\ e.force \in BOOLEAN /\ e.budget >= -1 /\ e.cap > 0

\* the returned map as a total map with None; malformed (unknown location, duplicate, not a
\* lattice element) gives a map that nothing accepts
ResultMap(r) ==
  LET ok == /\ \A i \in 1..Len(r) : r[i][1] \in 1..P.n /\ r[i][2] \in Elems(P.lat)
            /\ \A i, j \in 1..Len(r) : r[i][1] = r[j][1] => i = j
  IN IF ok THEN [x \in Locs(P) |-> IF \E i \in 1..Len(r) : r[i][1] = x
                                   THEN r[CHOOSE i \in 1..Len(r) : r[i][1] = x][2] ELSE None]
     ELSE [x \in Locs(P) |-> -2]
Outcome(res) == IF Has(res, "ok") THEN [ok |-> ResultMap(res.ok)] ELSE res

Stat(e, mono, verdict) ==
  PrintT(<<"STAT", ToJson([line |-> l, mono |-> IF P.start = 0 THEN "nostart" ELSE IF mono THEN "mono" ELSE "nonmono",
                           nt |-> nt, drift |-> drift, revisits |-> rv, verdict |-> verdict,
                           tracked |-> (drift = 0 /\ Has(e.res, "ok") /\ P.start # 0) => (Done(s) /\ ResultMap(e.res.ok) = s.st)])>>)

Expected(e) ==
  [reach |-> Reach(P), monotone |-> Monotone(P), bound |-> Bound(P), trans_calls |-> nt, schedule_drift |-> drift,
   least_solution |-> IF Monotone(P) THEN LFP(P) ELSE <<>>]

Init == l = 1 /\ skip = FALSE /\ g = 0 /\ s = 0 /\ nt = 0 /\ drift = 0 /\ rv = 0

\* the location graph is recorded through falcon's own forward() and backward(); the equations of
\* the statement ("join of the states of its predecessors") presuppose that they are converse
Converse(e) == \A i \in 1..e.n : \A j \in 1..e.n : (j \in SeqSet(e.succ[i])) = (i \in SeqSet(e.pred[j]))

Begin(e) ==
  IF ~WellFormedProblem(e)
  THEN /\ Reject(l, "malformed problem (recorder)", <<>>)
       /\ skip' = TRUE /\ UNCHANGED <<g, s, nt, drift, rv>>
  ELSE IF ~Converse(e)
  THEN /\ Reject(l, "location graph: forward and backward are not converse", <<>>)
       /\ skip' = TRUE /\ UNCHANGED <<g, s, nt, drift, rv>>
  ELSE /\ g' = l /\ s' = InitState(e) /\ nt' = 0 /\ drift' = 0 /\ rv' = 0 /\ skip' = FALSE

JoinEv(e) ==
  IF /\ e.a \in Elems(P.lat) /\ e.b \in Elems(P.lat)
     /\ e.r = Join(P.lat, e.a, e.b)
  THEN UNCHANGED <<g, s, nt, drift, rv, skip>>
  ELSE /\ Reject(l, "join is not the lattice join (recorder)", <<>>)
       /\ skip' = TRUE /\ UNCHANGED <<g, s, nt, drift, rv>>

TransEv(e) ==
  LET known == e.l \in 1..P.n /\ e["in"] \in ElemsO(P.lat) IN
  IF known /\ e.out # T(P, e.l, e["in"])
  THEN /\ Reject(l, "trans is not the table (recorder)", <<>>)
       /\ skip' = TRUE /\ UNCHANGED <<g, s, nt, drift, rv>>
  ELSE IF drift = 0 /\ s.oc = "ErrOrdering"
  \* every call so far was a step of chaotic iteration and the last one produced, without the force flag, a
  \* state that is not above the state it replaces: the iterates of a monotone analysis ascend, so the
  \* analysis is not monotone and the solver has to stop with an error
  THEN /\ Reject(l, "the solver went on after a recomputed state that is not above the recorded one (no force flag)", <<>>)
       /\ skip' = TRUE /\ UNCHANGED <<g, s, nt, drift, rv>>
  ELSE
    /\ nt' = nt + 1
    /\ UNCHANGED <<g, skip>>
    /\ IF /\ drift = 0 /\ known
          /\ CanProcess(P, s, e.l) \/ CanRevisit(P, s, e.l)
          /\ e["in"] = In(P, s.st, e.l)
       THEN /\ s' = Step(P, s, e.l)
            /\ rv' = IF e.l \in s.dirty THEN rv ELSE rv + 1
            /\ UNCHANGED drift
       ELSE /\ drift' = drift + 1
            /\ UNCHANGED <<s, rv>>

ResultEv(e) ==
  \* (bound variables hold values: each of the two is evaluated once)
  \E mono \in {P.start # 0 /\ Monotone(P)} :
  \E verdict \in { IF Has(e.res, "err") /\ e.res.err = "Diverged" /\ P.cap <= 2 * Bound(P)
                    THEN "the recorder's cap on trans calls is too small for this problem (recorder)"
                    ELSE IF drift = 0 /\ s.oc = "ErrOrdering" /\ Has(e.res, "ok")
                    THEN "a result although a recomputed state was not above the recorded one (no force flag)"
                    ELSE JudgeM(P, P.budget, nt, Outcome(e.res), mono) } :
    /\ Stat(e, mono, verdict)
    /\ UNCHANGED <<g, s, nt, drift, rv>>
    /\ IF verdict = "" THEN UNCHANGED skip
       ELSE Reject(l, verdict, Expected(e)) /\ skip' = TRUE

Next ==
  /\ l <= NRec /\ l' = l + 1
  /\ LET e == Rec[l] IN
     IF e.ev = "begin" THEN Begin(e)
     ELSE IF g = 0 THEN Reject(l, "event outside a session (recorder)", <<>>) /\ UNCHANGED <<g, s, nt, drift, rv, skip>>
     ELSE IF skip THEN UNCHANGED <<g, s, nt, drift, rv, skip>>
     ELSE CASE e.ev = "join"   -> JoinEv(e)
            [] e.ev = "trans"  -> TransEv(e)
            [] e.ev = "result" -> ResultEv(e)
            [] OTHER -> Reject(l, "unknown event", <<>>) /\ skip' = TRUE /\ UNCHANGED <<g, s, nt, drift, rv>>
Spec == Init /\ [][Next]_vars
=============================================================================
