----------------------------- MODULE Trace_C07 -----------------------------
(***************************************************************************)
(* C07: every Driver::step of the real executor is one step of ILSem.      *)
(* The model state (location, scalars, memory) is carried by the spec; the *)
(* harness logs, per step, the new location, all defined scalars and (when *)
(* it observed a change) the bytes of a watch window.  Unlogged state is   *)
(* the model's, so a write the log does not show is caught at the next     *)
(* read.                                                                   *)
(***************************************************************************)
EXTENDS ILSem, TraceLib

VARIABLES l, skip, P, big, st
vars == <<l, skip, P, big, st>>

ScFn(lst)  == [n \in { lst[i].n : i \in 1..Len(lst) } |->
                 LET i == CHOOSE i \in 1..Len(lst) : lst[i].n = n IN Val(lst[i].w, lst[i].v)]
\* memory log: sequence of [a |-> address limbs, b |-> byte or -1 (unmapped)]
MemFn(lst) == LET S == { i \in 1..Len(lst) : lst[i].b >= 0 } IN
              [a \in { lst[i].a : i \in S } |-> lst[CHOOSE i \in S : lst[i].a = a].b]
MemAgrees(mem, lst) ==
  \A i \in 1..Len(lst) :
     IF lst[i].b < 0 THEN lst[i].a \notin DOMAIN mem
     ELSE lst[i].a \in DOMAIN mem /\ mem[lst[i].a] = lst[i].b

\* harness location -> model location (instruction index -> position).  Total: a location
\* that does not exist in the program maps to Invalid (and is then rejected, not a crash).
Invalid == [k |-> "invalid"]
LocOf(prog, j) ==
  IF j.f + 1 \notin 1..Len(prog) THEN Invalid ELSE
  LET F == prog[j.f + 1] IN
  CASE j.k = "ins"   -> IF j.b \notin BlockIdx(F) THEN Invalid ELSE
                        LET blk == BlockOf(F, j.b)
                            S == { q \in 1..Len(blk.ins) : blk.ins[q].i = j.i }
                        IN IF S = {} THEN Invalid
                           ELSE [k |-> "ins", f |-> j.f + 1, b |-> j.b, p |-> CHOOSE q \in S : TRUE]
    [] j.k = "edge"  -> [k |-> "edge", f |-> j.f + 1, h |-> j.h, t |-> j.t]
    [] j.k = "empty" -> [k |-> "empty", f |-> j.f + 1, b |-> j.b]
    [] OTHER         -> Invalid

\* compact rendering of allowed outcomes for diagnosis (memory omitted)
Brief(outs) == { IF o.k = "ok" THEN [k |-> "ok", loc |-> o.st.loc, sc |-> o.st.sc]
                 ELSE IF o.k = "out" THEN [k |-> "out", addr |-> o.addr] ELSE o : o \in outs }

Init == l = 1 /\ skip = TRUE /\ P = <<>> /\ big = FALSE /\ st = <<>>

Begin(e) ==
  /\ P' = e.prog /\ big' = e.big
  /\ st' = [loc |-> LocOf(e.prog, e.loc), sc |-> ScFn(e.sc), mem |-> MemFn(e.mem)]
  /\ skip' = FALSE

StepEv(e) ==
  LET outs  == Step(P, st, big)
      oks   == { o \in outs : o.k = "ok" }
      lifts == { o \in outs : o.k = "out" }
  IN
  IF Cardinality({ o.st.loc : o \in oks }) > 1
  THEN \* guards not exclusive in this state: outside the property, drop the session
       /\ PrintT(<<"DROPPED", l>>) /\ skip' = TRUE /\ UNCHANGED <<P, big, st>>
  ELSE IF Has(e.res, "ok") /\ Has(e.res.ok, "relift") THEN
       \* the driver lifted a new function at an indirect-branch target that is no instruction of P:
       \* it must sit on an instruction whose address is the evaluated target, with the state the
       \* branch left (the rest of the session runs code the trace does not describe)
       LET r == e.res.ok
           m == { o \in lifts : /\ r.at.k = "some" /\ r.at.v = o.addr
                                 /\ o.sc = ScFn(r.sc)
                                 /\ IF Has(r, "mem") THEN MemAgrees(o.mem, r.mem) ELSE o.mem = st.mem }
       IN IF m # {} THEN skip' = TRUE /\ UNCHANGED <<P, big, st>>
          ELSE /\ Reject(l, "relift", [allowed |-> Brief(outs)])
               /\ skip' = TRUE /\ UNCHANGED <<P, big, st>>
  ELSE IF Has(e.res, "ok") THEN
       LET r == e.res.ok
           m == { o \in oks : /\ o.st.loc = LocOf(P, r.loc)
                               /\ o.st.sc = ScFn(r.sc)
                               /\ IF Has(r, "mem") THEN MemAgrees(o.st.mem, r.mem)
                                  ELSE o.st.mem = st.mem }
       IN IF m # {} THEN st' = (CHOOSE o \in m : TRUE).st /\ UNCHANGED <<P, big, skip>>
          ELSE /\ Reject(l, "step", [allowed |-> Brief(outs)])
               /\ skip' = TRUE /\ UNCHANGED <<P, big, st>>
  ELSE IF Has(e.res, "err") /\ (ErrOut(e.res.err) \in outs \/ lifts # {})
       THEN skip' = TRUE /\ UNCHANGED <<P, big, st>>                             \* error ends the session
  ELSE /\ Reject(l, "step-error", [allowed |-> Brief(outs)])
       /\ skip' = TRUE /\ UNCHANGED <<P, big, st>>

Next ==
  /\ l <= NRec /\ l' = l + 1
  /\ LET e == Rec[l] IN
     IF e.ev = "begin" THEN Begin(e)
     ELSE IF skip THEN UNCHANGED <<skip, P, big, st>>
     ELSE StepEv(e)
Spec == Init /\ [][Next]_vars
=============================================================================
