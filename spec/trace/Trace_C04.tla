----------------------------- MODULE Trace_C04 -----------------------------
(***************************************************************************)
(* C04: every recorded call of il::Constant, the il::Expression            *)
(* constructors, executor::eval and the derived builders is re-computed    *)
(* from IL!Eval / BV.  Events are independent (no sessions).               *)
(***************************************************************************)
EXTENDS IL, TraceLib

VARIABLE l
vars == <<l>>

NoEnv == <<>>                                  \* DOMAIN NoEnv = {} : every scalar is undefined

Clean(res) == Has(res, "ok") \/ Has(res, "err")   \* neither panic nor timeout

\* errors a binary Constant operation may report (the property fixes the kind per cause)
ConstOpErrs(op, a, b) ==
  (IF a.w # b.w THEN {"Sort"} ELSE {}) \cup
  (IF op \in DivOps /\ IsZero(b.v) THEN {"DivideByZero"} ELSE {})

ConstOpOK(e) ==
  LET errs == ConstOpErrs(e.op, e.a, e.b) IN
  /\ Clean(e.res)
  /\ IF errs # {} THEN Has(e.res, "err") /\ e.res.err \in errs
     ELSE e.res = ApplyBin(e.op, e.a.w, e.a.v, e.b.v)
ConstOpExp(e) ==
  IF ConstOpErrs(e.op, e.a, e.b) # {} THEN [errs |-> ConstOpErrs(e.op, e.a, e.b)]
  ELSE ApplyBin(e.op, e.a.w, e.a.v, e.b.v)

ConstExtOK(e)  == Clean(e.res) /\ e.res = ExtVal(e.op, e.bits, e.a)

\* constructor result: the node itself, or Sort
CtorExp(e) ==
  CASE e.ctor = "ite"     -> MkIte(e.c, e.a, e.b)
    [] e.ctor \in ExtOps  -> MkExt(e.ctor, e.bits, e.a)
    [] OTHER              -> MkBin(e.ctor, e.a, e.b)
CtorOK(e) ==
  LET x == CtorExp(e) IN
  /\ Clean(e.res)
  /\ IF IsErr(x) THEN e.res = x
     ELSE Has(e.res, "ok") /\ SameExpr(e.res.ok, x.ok)

EvalOK(e) == Clean(e.res) /\ EvalAllows(e.e, NoEnv, e.res)

\* meaning of the derived builders
DerivedMeaning(e) ==
  LET w == e.a.w IN
  CASE e.f = "sra"  -> Val(w, AShrV(w, e.a.v, e.s.v))
    [] e.f = "rotl" -> LET k == Amount(w, e.s.v) IN
                       Val(w, BvOr(w, Shl(w, e.a.v, k), Shr(w, e.a.v, w - k)))
DerivedOK(e) ==
  /\ Clean(e.built)
  /\ IF e.a.w # e.s.w THEN e.built = Err("Sort")
     ELSE /\ Has(e.built, "ok")
          /\ WellFormedExpr(e.built.ok)
          /\ Eval(e.built.ok, NoEnv) = Ok(DerivedMeaning(e))     \* the builder, judged by the spec evaluator
          /\ e.res = Ok(DerivedMeaning(e))                        \* and as evaluated by the implementation

SubstEnv(e) == [n \in { e.env[i].n : i \in 1..Len(e.env) } |->
                  LET i == CHOOSE i \in 1..Len(e.env) : e.env[i].n = n IN e.env[i].val]
SubstOK(e) ==
  LET r == Eval(e.e, SubstEnv(e)) IN
  /\ Clean(e.built) /\ Has(e.built, "ok")
  /\ Clean(e.res)
  /\ IF IsOk(r) THEN e.res = r /\ Eval(e.built.ok, NoEnv) = r
     ELSE IF r.err = "Unspecified" THEN TRUE
     ELSE Has(e.res, "err") /\ e.res.err \in ErrSet(e.e, SubstEnv(e))

EventOK(e) ==
  CASE e.ev = "constop"   -> ConstOpOK(e)
    [] e.ev = "constext"  -> ConstExtOK(e)
    [] e.ev = "construct" -> CtorOK(e)
    [] e.ev = "eval"      -> EvalOK(e)
    [] e.ev = "derived"   -> DerivedOK(e)
    [] e.ev = "subst"     -> SubstOK(e)

\* only evaluated for a rejected event (diagnosis)
Expected(e) ==
  CASE e.ev = "constop"   -> ConstOpExp(e)
    [] e.ev = "constext"  -> ExtVal(e.op, e.bits, e.a)
    [] e.ev = "construct" -> IF IsErr(CtorExp(e)) THEN CtorExp(e) ELSE [ok |-> "the node"]
    [] e.ev = "eval"      -> Eval(e.e, NoEnv)
    [] e.ev = "derived"   -> IF e.a.w # e.s.w THEN Err("Sort") ELSE Ok(DerivedMeaning(e))
    [] e.ev = "subst"     -> Eval(e.e, SubstEnv(e))

Init == l = 1
Next == /\ l <= NRec
        /\ l' = l + 1
        /\ EventOK(Rec[l]) \/ Reject(l, Rec[l].ev, Expected(Rec[l]))
Spec == Init /\ [][Next]_vars
=============================================================================
