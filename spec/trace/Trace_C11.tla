----------------------------- MODULE Trace_C11 -----------------------------
(***************************************************************************)
(* C11: every recorded edit of a falcon::graph::Graph must be a step of    *)
(* the edit machine of Graph.tla with the four views (read through the     *)
(* public accessors) equal to the model's, and every recorded result of a  *)
(* graph algorithm must satisfy the textbook definition of Graph.tla on    *)
(* the model graph.                                                        *)
(*                                                                         *)
(* A session is one graph object: "begin" (graph built from V, E), then    *)
(* "op", "query" (all rooted algorithms for one root) and "gquery"         *)
(* (algorithms without root) events.  A rejected "begin"/"op" leaves the   *)
(* model out of step with the object: the rest of the session is skipped.  *)
(* Queries do not change the object; a rejected query is reported (with    *)
(* the list of fields that failed) and the session goes on.                *)
(***************************************************************************)
EXTENDS Graph, TraceLib

VARIABLES l, skip
vars == <<l, skip, vertices, edges, succ, pred>>

IsOk(o)    == Has(o, "ok")
Pairs(q)   == { <<q[i][1], q[i][2]>> : i \in 1..Len(q) }
Keys(q)    == { q[i][1] : i \in 1..Len(q) }
GraphOf(o) == [V |-> ToSet(o.V), E |-> Pairs(o.E)]
GraphShapeOK(o) == NoDup(o.V) /\ NoDup(o.E)

\* a result that must be exactly the set S (logged as a sequence)
SetOutcome(o, S)  == IsOk(o) /\ NoDup(o.ok) /\ ToSet(o.ok) = S
PairOutcome(o, S) == IsOk(o) /\ NoDup(o.ok) /\ Pairs(o.ok) = S

-----------------------------------------------------------------------------
(* the four views as seen through the accessors, against the model state s *)

AccOK(a, s) ==
  IF a.id \in s.V
  THEN /\ a.hasv = TRUE /\ a.vertex = [ok |-> a.id]
       /\ SetOutcome(a.succ, s.S[a.id])  /\ SetOutcome(a.pred, s.P[a.id])
       /\ SetOutcome(a.succv, s.S[a.id]) /\ SetOutcome(a.predv, s.P[a.id])
       /\ PairOutcome(a.eout, { <<a.id, t>> : t \in s.S[a.id] })
       /\ PairOutcome(a.ein,  { <<h, a.id>> : h \in s.P[a.id] })
  ELSE /\ a.hasv = FALSE
       /\ Has(a.vertex, "err") /\ Has(a.succ, "err") /\ Has(a.pred, "err") /\ Has(a.succv, "err")
       /\ Has(a.predv, "err") /\ Has(a.eout, "err") /\ Has(a.ein, "err")

ViewFields == <<"V", "E", "nv", "hase", "canon", "acc">>
ViewOK(f, o, s) ==
  CASE f = "V"     -> NoDup(o.V) /\ ToSet(o.V) = s.V
    [] f = "E"     -> NoDup(o.E) /\ Pairs(o.E) = s.E
    [] f = "nv"    -> o.nv = Cardinality(s.V)
    [] f = "hase"  -> Pairs(o.hase) = s.E
    [] f = "canon" -> o.canon = [ok |-> TRUE]
    [] f = "acc"   -> \A i \in 1..Len(o.acc) : AccOK(o.acc[i], s)
ViewsFailed(w, s) == IF ~IsOk(w) THEN <<"views">>
                     ELSE SelectSeq(ViewFields, LAMBDA f : ~ViewOK(f, w.ok, s))

-----------------------------------------------------------------------------
(* query results against the definitions                                   *)

\* a map logged as rows <<key, values>>: the reachable vertices are keys, further vertices of the
\* graph may be keys and then map to the empty set ("excluded")
MapOK(o, R, V, F(_)) ==
  /\ IsOk(o)
  /\ LET m == o.ok IN
     /\ Cardinality(Keys(m)) = Len(m) /\ R \subseteq Keys(m) /\ Keys(m) \subseteq V
     /\ \A i \in 1..Len(m) : /\ NoDup(m[i][2])
                             /\ ToSet(m[i][2]) = IF m[i][1] \in R THEN F(m[i][1]) ELSE {}
LoopRows(q)   == { <<q[i][1], ToSet(q[i][2])>> : i \in 1..Len(q) }
LoopsOK(q, g, D) == /\ Cardinality(LoopRows(q)) = Len(q)
                    /\ \A i \in 1..Len(q) : NoDup(q[i][2])
                    /\ LoopRows(q) = LoopsOf(g, D)

QFields == <<"V", "reach", "unreach", "pre", "post", "idom", "dom", "domtree", "df", "loops", "looptree",
             "red", "acy", "acyclic", "dfstree">>

QOK(f, e, g, r, R, D) ==
  CASE f = "V"        -> NoDup(e.V) /\ ToSet(e.V) = g.V
    [] f = "reach"    -> SetOutcome(e.reach, R)
    [] f = "unreach"  -> SetOutcome(e.unreach, g.V \ R)
    [] f = "pre"      -> IsOk(e.pre)  /\ IsDfsPreOrder(g, r, e.pre.ok)
    [] f = "post"     -> IsOk(e.post) /\ IsDfsPostOrder(g, r, e.post.ok)
    [] f = "idom"     -> /\ IsOk(e.idom) /\ Cardinality(Keys(e.idom.ok)) = Len(e.idom.ok)
                         /\ Pairs(e.idom.ok) = { <<v, IDomOf(D, v)>> : v \in R \ {r} }
    [] f = "dom"      -> MapOK(e.dom, R, g.V, LAMBDA v : DomsOf(D, v))
    [] f = "domtree"  -> /\ IsOk(e.domtree) /\ GraphShapeOK(e.domtree.ok)
                         /\ LET t == GraphOf(e.domtree.ok) IN
                            R \subseteq t.V /\ t.V \subseteq g.V /\ t.E = DomTreeEdges(D, r)
    [] f = "df"       -> MapOK(e.df, R, g.V, LAMBDA x : DFOf(g, D, x))
    [] f = "loops"    -> IsOk(e.loops) /\ LoopsOK(e.loops.ok, g, D)
    [] f = "looptree" -> /\ IsOk(e.looptree) /\ LoopsOK(e.looptree.ok.loops, g, D)
                         /\ NoDup(e.looptree.ok.E)
                         \* the nesting relation, drawn with any edge set between its
                         \* transitive reduction and the relation itself
                         /\ LET N == NestOf(g, D) T == Pairs(e.looptree.ok.E) IN
                            T \subseteq N /\ Closure(T) = N
    [] f = "red"      -> e.red = [ok |-> ReducibleOf(g, D)]
    [] f = "acy"      -> e.acy = [ok |-> IsAcyclicFrom(g, r)]
    [] f = "acyclic"  -> /\ IsOk(e.acyclic) /\ GraphShapeOK(e.acyclic.ok)
                         /\ IsAcyclicSubgraph(g, r, GraphOf(e.acyclic.ok))
    [] f = "dfstree"  -> /\ IsOk(e.dfstree) /\ GraphShapeOK(e.dfstree.ok)
                         /\ IsDfsTree(g, r, GraphOf(e.dfstree.ok))

\* what the definitions give for a field (diagnosis only; acceptance predicates have no single value)
QWant(f, g, r, R, D) ==
  CASE f = "V"        -> g.V
    [] f = "reach"    -> R
    [] f = "unreach"  -> g.V \ R
    [] f = "idom"     -> { <<v, IDomOf(D, v)>> : v \in R \ {r} }
    [] f = "dom"      -> { <<v, DomsOf(D, v)>> : v \in R }
    [] f = "domtree"  -> DomTreeEdges(D, r)
    [] f = "df"       -> { <<x, DFOf(g, D, x)>> : x \in R }
    [] f = "loops"    -> LoopsOf(g, D)
    [] f = "looptree" -> NestOf(g, D)
    [] f = "red"      -> ReducibleOf(g, D)
    [] f = "acy"      -> IsAcyclicFrom(g, r)
    [] OTHER          -> "any value the acceptance predicate of Graph.tla allows"

G == [V |-> vertices, E |-> edges]

QueryFailed(e) ==
  IF e.root \notin vertices THEN <<"root">>
  ELSE LET R == TLCEval(Reach(G, e.root))
           D == DomRel(G, e.root)
       IN SelectSeq(QFields, LAMBDA f : ~QOK(f, e, G, e.root, R, D))
QueryExpected(e, failed) ==
  IF e.root \notin vertices THEN [failed |-> failed]
  ELSE LET R == TLCEval(Reach(G, e.root))
           D == DomRel(G, e.root)
       IN [failed |-> failed,
           graph  |-> [V |-> vertices, E |-> edges],
           want   |-> [i \in 1..Len(failed) |-> <<failed[i], QWant(failed[i], G, e.root, R, D)>>]]

GFields == <<"topo", "tpred", "nopred", "nosucc">>
GOK(f, e, g) ==
  CASE f = "topo"   -> IF HasCycle(g) THEN Has(e.topo, "err")
                       ELSE IsOk(e.topo) /\ IsTopological(g, e.topo.ok)
    [] f = "tpred"  -> /\ IsOk(e.tpred)
                       /\ LET m == e.tpred.ok IN
                          /\ Cardinality(Keys(m)) = Len(m) /\ Keys(m) = g.V
                          /\ \A i \in 1..Len(m) : NoDup(m[i][2]) /\ ToSet(m[i][2]) = TransPred(g, m[i][1])
    [] f = "nopred" -> SetOutcome(e.nopred, NoPreds(g))
    [] f = "nosucc" -> SetOutcome(e.nosucc, NoSuccs(g))
GWant(f, g) ==
  CASE f = "topo"   -> IF HasCycle(g) THEN "an error (the graph has a cycle)" ELSE "any topological order"
    [] f = "tpred"  -> { <<v, TransPred(g, v)>> : v \in g.V }
    [] f = "nopred" -> NoPreds(g)
    [] f = "nosucc" -> NoSuccs(g)
GQueryFailed(e) == SelectSeq(GFields, LAMBDA f : ~GOK(f, e, G))
GQueryExpected(failed) ==
  [failed |-> failed, graph |-> [V |-> vertices, E |-> edges],
   want |-> [i \in 1..Len(failed) |-> <<failed[i], GWant(failed[i], G)>>]]

-----------------------------------------------------------------------------
(* events                                                                  *)

Begin(e) ==
  LET V == ToSet(e.V)
      E == Pairs(e.E)
      s == Canon(V, E)
      failed == IF e.build # [ok |-> 0] \/ ~NoDup(e.V) \/ ~NoDup(e.E) \/ ~(E \subseteq V \X V)
                THEN <<"build">> ELSE ViewsFailed(e.views, s)
  IN /\ Set(s)
     /\ \E fl \in {failed} :
          IF fl = <<>> THEN skip' = FALSE
          ELSE Reject(l, "begin", [failed |-> fl, V |-> V, E |-> E]) /\ skip' = TRUE

Op(e) ==
  LET ok     == OpOk(Cur, e)
      post   == IF ok THEN OpPost(Cur, e) ELSE Cur
      failed == (IF (ok /\ e.res = [ok |-> 0]) \/ (~ok /\ Has(e.res, "err")) THEN <<>> ELSE <<"res">>)
                \o ViewsFailed(e.views, post)
  IN \E fl \in {failed} :
       IF fl = <<>> THEN (IF ok THEN Do(e) ELSE DoErr(e)) /\ UNCHANGED skip
       ELSE /\ Reject(l, "op:" \o e.op, [failed |-> fl, res |-> IF ok THEN "ok" ELSE "err",
                                         V |-> post.V, E |-> post.E])
            /\ skip' = TRUE /\ UNCHANGED gvars

Query(e) ==
  /\ \E fl \in {QueryFailed(e)} : IF fl = <<>> THEN TRUE ELSE Reject(l, "query", QueryExpected(e, fl))
  /\ UNCHANGED <<skip, gvars>>
GQuery(e) ==
  /\ \E fl \in {GQueryFailed(e)} : IF fl = <<>> THEN TRUE ELSE Reject(l, "gquery", GQueryExpected(fl))
  /\ UNCHANGED <<skip, gvars>>

Init == l = 1 /\ skip = FALSE /\ InitEmpty
Next == /\ l <= NRec
        /\ l' = l + 1
        /\ LET e == Rec[l] IN
           CASE e.ev = "begin"            -> Begin(e)
             [] e.ev # "begin" /\ skip    -> UNCHANGED <<skip, gvars>>
             [] e.ev = "op" /\ ~skip      -> Op(e)
             [] e.ev = "query" /\ ~skip   -> Query(e)
             [] e.ev = "gquery" /\ ~skip  -> GQuery(e)
Spec == Init /\ [][Next]_vars
=============================================================================
