----------------------------- MODULE Trace_C08 -----------------------------
(***************************************************************************)
(* C08: a recorded history of memory::paged::Memory<V> (V = il::Constant   *)
(* or il::Expression) is a behaviour of Mem.tla.  The trace is a sequence  *)
(* of sessions; a session starts with a `begin` line giving the backing    *)
(* memories (as the region writes that built them) and continues with      *)
(*   new / clone / drop / store / setperm          (mutating: model steps) *)
(*   load / scan / perm / eq                       (queries: judged)       *)
(* Addresses are [base index, offset] pairs (Backing!Key).  Values are     *)
(* little-endian byte limbs.  In V = il::Expression sessions a store logs  *)
(* the stored expression and the value is IL!Eval of it (computed here);   *)
(* loads log executor::eval of the loaded expression.                      *)
(*                                                                         *)
(* One line per step.  A rejected query is reported and the session goes   *)
(* on (queries do not change the model); a rejected mutating event is      *)
(* reported and the rest of its session is skipped.                        *)
(***************************************************************************)
EXTENDS Mem, IL, TraceLib

VARIABLES l, skip
vars == <<l, skip, mvars>>

NoEnv == <<>>
Unit  == [ok |-> "unit"]

(* ------------------------------ decoding ------------------------------- *)
RegionsOf(b) == [j \in 1..Len(b.regions) |->
                   [a |-> Key(b.regions[j].a), d |-> b.regions[j].d, p |-> b.regions[j].p]]
BacksOf(e)   == [i \in 1..Len(e.backings) |->
                   [endian |-> e.backings[i].endian, cells |-> FromWrites(RegionsOf(e.backings[i]))]]

\* the value a store event stores: logged limbs, or IL!Eval of the logged expression
StoredVal(e) == IF Has(e, "e") THEN Eval(e.e, NoEnv) ELSE Ok(e.v)
GoodVal(r)   == IsOk(r) /\ r.ok.w >= 8 /\ r.ok.w % 8 = 0 /\ Len(r.ok.v) * 8 = r.ok.w

KeyBack(k)   == <<k \div KeySpan, k % KeySpan>>

(* ------------------------- what is allowed ----------------------------- *)
BeginOK(e) ==
  \* bases are page-aligned 64-bit values (8 byte limbs each): limb 1 = 0, limb 2 a multiple of 4
  /\ \A i \in 1..Len(e.bases) : Len(e.bases[i]) = 8 /\ e.bases[i][1] = 0 /\ e.bases[i][2] % 4 = 0
  /\ e.vt \in {"const", "expr"}
\* a store logs limbs in il::Constant sessions and an expression in il::Expression sessions
StoreShapeOK(e) == Has(e, "e") # Has(e, "v")

LoadOK(e)  == e.res = Ok(LoadRes(e.h, Key(e.a), e.bits))
ScanExp(e) == LET r == TLCEval(ScanRes(e.h, Key(e.a), e.n, e.bits)) IN [i \in 1..e.n |-> Ok(r[i])]
ScanOK(e)  == e.res = ScanExp(e)
PermOK(e)  == Has(e.res, "ok") /\ e.res.ok \in PermAllowed(e.h, Key(e.a))
EqOK(e)    == Has(e.res, "ok") /\ e.res.ok \in EqAllowed(e.h1, e.h2)

\* diagnosis of a rejected permissions() result (state class for the known-finding predicates)
PermExp(e) ==
  LET k == Key(e.a)
      i == LastExact(perms[e.h], Len(perms[e.h]), k)
  IN [allowed |-> PermAllowed(e.h, k),
      backing |-> Perm(BackCells(e.h), k),
      src     |-> IF i = 0 THEN [k |-> "none"]
                  ELSE [a |-> KeyBack(perms[e.h][i].lo), len |-> perms[e.h][i].len, p |-> perms[e.h][i].p],
      stored_in_page |-> \E x \in DOMAIN bytes[e.h] : PageOf(x) = PageOf(k)]
EqExp(e) ==
  [allowed |-> EqAllowed(e.h1, e.h2), same_stamp |-> ver[e.h1] = ver[e.h2],
   backed |-> <<bk[e.h1] # 0, bk[e.h2] # 0>>]

(* ------------------------------ stepping ------------------------------- *)
Reset(e) ==
  /\ live' = {} /\ endian' = EmptyCells /\ bk' = EmptyCells /\ bytes' = EmptyCells
  /\ perms' = EmptyCells /\ ver' = EmptyCells /\ stamp' = 1 /\ backs' = BacksOf(e)

\* a mutating event: the model takes the step, or the event is rejected and the session skipped
Mut(ok, step, why, exp) ==
  IF ok THEN step /\ UNCHANGED skip
  ELSE Reject(l, why, exp) /\ skip' = TRUE /\ UNCHANGED mvars
\* a query: judged, the session goes on
Obs(ok, why, exp) == (IF ok THEN TRUE ELSE Reject(l, why, exp)) /\ UNCHANGED <<mvars, skip>>

Live(e, f) == e[f] \in live
\* a query on a handle that is not live is rejected (the expected answer is not defined then)
ObsH(alive, ok, why, exp) == Obs(alive /\ ok, why, IF alive THEN exp ELSE "no such handle")

Step(e) ==
  CASE e.ev = "new" ->
         Mut(e.h \notin live /\ e.bk \in 0..Len(backs) /\ e.res = Unit,
             New(e.h, e.endian, e.bk), "new", Unit)
    [] e.ev = "clone" ->
         Mut(Live(e, "h") /\ e.to \notin live /\ e.res = Unit, Clone(e.h, e.to), "clone", Unit)
    [] e.ev = "drop" ->
         Mut(Live(e, "h") /\ e.res = Unit, Drop(e.h), "drop", Unit)
    [] e.ev = "store" ->
         Mut(Live(e, "h") /\ StoreShapeOK(e) /\ GoodVal(StoredVal(e)) /\ e.res = Unit,
             Store(e.h, Key(e.a), StoredVal(e).ok.v), "store", Unit)
    [] e.ev = "setperm" ->
         Mut(Live(e, "h") /\ e.res = Unit, SetPerm(e.h, Key(e.a), e.len, e.p), "setperm", Unit)
    [] e.ev = "load" -> ObsH(Live(e, "h"), LoadOK(e), "load", Ok(LoadRes(e.h, Key(e.a), e.bits)))
    [] e.ev = "scan" -> ObsH(Live(e, "h"), ScanOK(e), "scan", ScanExp(e))
    [] e.ev = "perm" -> ObsH(Live(e, "h"), PermOK(e), "perm", PermExp(e))
    [] e.ev = "eq"   -> ObsH(Live(e, "h1") /\ Live(e, "h2"), EqOK(e), "eq", EqExp(e))

Init == l = 1 /\ skip = FALSE /\ MemInit(<<>>)
Next ==
  /\ l <= NRec /\ l' = l + 1
  /\ LET e == Rec[l] IN
     IF e.ev = "begin"
     THEN IF BeginOK(e) THEN Reset(e) /\ skip' = FALSE
          ELSE Reject(l, "begin", "page-aligned bases") /\ skip' = TRUE /\ UNCHANGED mvars
     ELSE IF skip THEN UNCHANGED <<mvars, skip>>
     ELSE Step(e)
Spec == Init /\ [][Next]_vars
=============================================================================
