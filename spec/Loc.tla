-------------------------------- MODULE Loc --------------------------------
(***************************************************************************)
(* C18: program locations.                                                 *)
(*                                                                         *)
(* A function structure F is a record                                      *)
(*   B     : function  block index -> sequence of [i |-> instruction       *)
(*           index, a |-> address or -1]                                   *)
(*   E     : set of pairs <<head, tail>>                                   *)
(*   entry : block index or None                                           *)
(* A location of F is a triple                                             *)
(*   <<"ins", b, i>>     instruction with index i of block b               *)
(*   <<"empty", b, -1>>  the empty block b                                 *)
(*   <<"edge", h, t>>    the edge h -> t                                   *)
(* (exactly il::FunctionLocation; the owned, program-independent form of a *)
(* location is this triple together with the function index).             *)
(***************************************************************************)
EXTENDS Integers, Sequences, FiniteSets, TLC

None == -1

BlockIds(F) == DOMAIN F.B
InsLoc(b, i)   == <<"ins", b, i>>
EmptyLoc(b)    == <<"empty", b, -1>>
EdgeLoc(h, t)  == <<"edge", h, t>>

InsLocs(F)   == UNION { { InsLoc(b, F.B[b][j].i) : j \in 1..Len(F.B[b]) } : b \in BlockIds(F) }
EmptyLocs(F) == { EmptyLoc(b) : b \in { x \in BlockIds(F) : Len(F.B[x]) = 0 } }
EdgeLocs(F)  == { EdgeLoc(e[1], e[2]) : e \in F.E }
Locations(F) == InsLocs(F) \cup EmptyLocs(F) \cup EdgeLocs(F)
NumLocations(F) ==     \* counted, not via the set: every instruction, empty block and edge once
  LET RECURSIVE Sum(_)
      Sum(S) == IF S = {} THEN 0
                ELSE LET b == CHOOSE x \in S : TRUE IN
                     (IF Len(F.B[b]) = 0 THEN 1 ELSE Len(F.B[b])) + Sum(S \ {b})
  IN Sum(BlockIds(F)) + Cardinality(F.E)

\* position of the instruction with index i in block b (indices are unique within a block)
Pos(F, b, i) == CHOOSE j \in 1..Len(F.B[b]) : F.B[b][j].i = i

OutLocs(F, b) == { EdgeLoc(e[1], e[2]) : e \in { x \in F.E : x[1] = b } }
InLocs(F, b)  == { EdgeLoc(e[1], e[2]) : e \in { x \in F.E : x[2] = b } }
FirstLoc(F, b) == IF Len(F.B[b]) = 0 THEN EmptyLoc(b) ELSE InsLoc(b, F.B[b][1].i)
LastLoc(F, b)  == IF Len(F.B[b]) = 0 THEN EmptyLoc(b) ELSE InsLoc(b, F.B[b][Len(F.B[b])].i)

Forward(F, l) ==
  CASE l[1] = "ins"   -> LET j == Pos(F, l[2], l[3]) IN
                         IF j < Len(F.B[l[2]]) THEN {InsLoc(l[2], F.B[l[2]][j + 1].i)} ELSE OutLocs(F, l[2])
    [] l[1] = "edge"  -> {FirstLoc(F, l[3])}
    [] l[1] = "empty" -> OutLocs(F, l[2])

Backward(F, l) ==
  CASE l[1] = "ins"   -> LET j == Pos(F, l[2], l[3]) IN
                         IF j > 1 THEN {InsLoc(l[2], F.B[l[2]][j - 1].i)} ELSE InLocs(F, l[2])
    [] l[1] = "edge"  -> {LastLoc(F, l[2])}
    [] l[1] = "empty" -> InLocs(F, l[2])

HasEntry(F) == F.entry # None /\ F.entry \in BlockIds(F)
EntryLoc(F) == FirstLoc(F, F.entry)

\* graph-theoretic: everything in a block reachable from the entry block, and the edges leaving such blocks
RECURSIVE ReachB(_,_,_)
ReachB(F, S, Fr) ==
  IF Fr = {} THEN S
  ELSE LET N == TLCEval({ e[2] : e \in { x \in F.E : x[1] \in Fr } } \ S) IN ReachB(F, TLCEval(S \cup N), N)
ReachableBlocks(F) == IF HasEntry(F) THEN ReachB(F, {F.entry}, {F.entry}) ELSE {}
ReachableFromEntry(F) ==
  LET R == ReachableBlocks(F) IN
  { l \in Locations(F) : l[2] \in R }      \* l[2] is the block of an instruction / empty block, the head of an edge

\* operational: closure of Forward from the entry location
RECURSIVE FwdClose(_,_,_)
FwdClose(F, S, Fr) ==
  IF Fr = {} THEN S
  ELSE LET N == TLCEval((UNION { Forward(F, l) : l \in Fr }) \ S) IN FwdClose(F, TLCEval(S \cup N), N)
ForwardClosure(F) == IF HasEntry(F) THEN FwdClose(F, {EntryLoc(F)}, {EntryLoc(F)}) ELSE {}

\* owned form and application (FunctionLocation / FunctionLocation::apply)
Owned(l) == l
CanApply(o, F) ==
  CASE o[1] = "ins"   -> o[2] \in BlockIds(F) /\ \E j \in 1..Len(F.B[o[2]]) : F.B[o[2]][j].i = o[3]
    [] o[1] = "edge"  -> <<o[2], o[3]>> \in F.E
    [] o[1] = "empty" -> o[2] \in BlockIds(F)
Apply(o, F) == o
RoundTrip(F, l) == l \in Locations(F) => CanApply(Owned(l), F) /\ Apply(Owned(l), F) = l

\* address lookup over a program P (function index -> structure)
InsAt(P, a) ==
  UNION { UNION { { <<fi, InsLoc(b, P[fi].B[b][j].i)>> : j \in { x \in 1..Len(P[fi].B[b]) : P[fi].B[b][x].a = a } }
                  : b \in BlockIds(P[fi]) }
          : fi \in DOMAIN P }
FromAddressOK(P, a, res) ==        \* res: {} (not found) or {<<fi, loc>>}
  IF InsAt(P, a) = {} THEN res = {} ELSE Cardinality(res) = 1 /\ res \subseteq InsAt(P, a)
=============================================================================
