------------------------------- MODULE Explore -------------------------------
(***************************************************************************)
(* Program exploration: "export the analysis output, let TLC explore every *)
(* execution of the program under ILSem, with the claim as invariant".     *)
(*                                                                         *)
(* The harness runs a falcon analysis on generated functions and writes    *)
(* one JSON file (env PROG):                                               *)
(*   { progs: [ { f: function, big: BOOLEAN, names: [{n,w}],               *)
(*                inits:  [ {sc: [{n,w,v}], mem: [{a,b}]} ],   initial states *)
(*                havocs: [ [{n,w,v}] ],     valuations used at call sites *)
(*                ... exported claims, per property ... } ] }              *)
(* Init picks a program and one of the listed initial states; Next is one  *)
(* ILSem step of the single function, with *call havoc*: an indirect       *)
(* Branch or an Intrinsic replaces the scalars it may write (all of them   *)
(* unless the intrinsic declares its written scalars) by the values of one *)
(* of the listed havoc valuations, and execution continues with the next   *)
(* instruction / the block's out-edges.  Executions that fault (undefined  *)
(* scalar, unmapped load, division by zero, no enabled edge) simply end.   *)
(*                                                                         *)
(* History variables (never influence the execution):                      *)
(*   asg : set of scalar names written by an Assign/Load of the function   *)
(*   lw  : scalar name -> location (<<b, p>>) of its last writer            *)
(*   prev: the location executed by the last step (NoLoc initially)        *)
(*   path: sequence of locations visited (hidden by the VIEW; reported in  *)
(*         counter-examples)                                               *)
(*                                                                         *)
(* Violations are *collected*: a claim that fails in some reachable state  *)
(* prints one REJECT line (deduplicated per program and claim) carrying    *)
(* the program index, the initial-state index and the path.                *)
(***************************************************************************)
EXTENDS ILSem, TLC, Json, IOUtils

Data == JsonDeserialize(IOEnv.PROG)
PP   == Data.progs
NP   == Len(PP)

CONSTANT MaxSteps

VARIABLES p, ii, st, prev, asg, lw, n, path
vars == <<p, ii, st, prev, asg, lw, n, path>>

F(q)      == PP[q].f
Prog1(q)  == <<PP[q].f>>

ScOf(lst) == [nm \in { lst[i].n : i \in 1..Len(lst) } |->
                LET i == CHOOSE i \in 1..Len(lst) : lst[i].n = nm IN Val(lst[i].w, lst[i].v)]
MemOf(lst) == [a \in { lst[i].a : i \in 1..Len(lst) } |-> lst[CHOOSE i \in 1..Len(lst) : lst[i].a = a].b]

NoWriter == <<-1, -1>>
NoLoc    == [k |-> "none"]

Init ==
  /\ TLCSet(7, {})
  /\ p \in 1..NP
  /\ ii \in 1..Len(PP[p].inits)
  /\ st = [loc |-> BlockEntryLoc(1, F(p), F(p).entry),
           sc  |-> ScOf(PP[p].inits[ii].sc),
           mem |-> MemOf(PP[p].inits[ii].mem)]
  /\ prev = NoLoc
  /\ asg = {}
  /\ lw = [nm \in DOMAIN ScOf(PP[p].inits[ii].sc) |-> NoWriter]
  /\ n = 0
  /\ path = <<>>

(* ------------------------------ call havoc ------------------------------ *)
\* names an operation may write without being an Assign/Load
HavocNames(op, sc) ==
  CASE op.k = "branch" -> DOMAIN sc
    [] op.k = "intrinsic" ->
         IF op.written.k = "none" THEN DOMAIN sc
         ELSE UNION { ScalarNames(op.written.l[i]) : i \in 1..Len(op.written.l) }
    [] OTHER -> {}

Havocked(sc, names, hv) == [nm \in DOMAIN sc |-> IF nm \in names /\ nm \in DOMAIN hv THEN hv[nm] ELSE sc[nm]]

\* outcomes of the instruction at st.loc: set of [sc, mem]
\* scalars a call never changes in this export (C17: the stack pointer, which the analysis -
\* like the calling conventions - assumes preserved across calls)
Frozen(q) == IF "frozen" \in DOMAIN PP[q] THEN { PP[q].frozen[i] : i \in 1..Len(PP[q].frozen) } ELSE {}

ExecX(q, op, sc, mem) ==
  IF op.k \in {"branch", "intrinsic"}
  THEN { [sc |-> Havocked(sc, HavocNames(op, sc) \ Frozen(q), ScOf(PP[q].havocs[h])), mem |-> mem] : h \in 1..Len(PP[q].havocs) }
  ELSE { [sc |-> r.sc, mem |-> r.mem] : r \in { r \in ExecOp(op, sc, mem, PP[q].big) : r.k = "ft" } }

\* successors of state s of program q (faulting executions have none)
Succ(q, s) ==
  LET loc == s.loc  Fq == F(q) IN
  CASE loc.k = "edge"  -> {[loc |-> BlockEntryLoc(1, Fq, loc.t), sc |-> s.sc, mem |-> s.mem]}
    [] loc.k = "empty" -> { o.st : o \in { o \in LeaveBlock(1, Fq, loc.b, s.sc, s.mem) : o.k = "ok" } }
    [] loc.k = "ins"   ->
         LET blk == BlockOf(Fq, loc.b) IN
         UNION { IF loc.p < Len(blk.ins)
                 THEN {[loc |-> [loc EXCEPT !.p = loc.p + 1], sc |-> r.sc, mem |-> r.mem]}
                 ELSE { o.st : o \in { o \in LeaveBlock(1, Fq, loc.b, r.sc, r.mem) : o.k = "ok" } }
                 : r \in ExecX(q, blk.ins[loc.p].op, s.sc, s.mem) }

\* the scalar written by the Assign/Load at loc, or "" if none
WrittenAt(q, loc) ==
  IF loc.k # "ins" THEN "" ELSE
  LET op == BlockOf(F(q), loc.b).ins[loc.p].op IN
  IF op.k \in {"assign", "load"} THEN op.dst.n ELSE ""

\* names written by the instruction at loc: the Assign/Load destination, or the scalars an
\* intrinsic *declares* as written (an undeclared intrinsic / a branch havocs but is no writer)
WriterNames(q, loc) ==
  IF loc.k # "ins" THEN {} ELSE
  LET op == BlockOf(F(q), loc.b).ins[loc.p].op IN
  CASE op.k \in {"assign", "load"} -> {op.dst.n}
    [] op.k = "intrinsic" /\ op.written.k # "none" ->
         UNION { ScalarNames(op.written.l[i]) : i \in 1..Len(op.written.l) }
    [] OTHER -> {}

Next ==
  /\ n < MaxSteps
  /\ \E s2 \in Succ(p, st) :
       /\ st' = s2
       /\ LET wn == WrittenAt(p, st.loc) IN
          /\ asg' = IF wn = "" THEN asg ELSE asg \cup {wn}
          /\ lw'  = LET W == WriterNames(p, st.loc) IN
                    IF W = {} THEN lw
                    ELSE [nm \in DOMAIN lw \cup W |-> IF nm \in W THEN <<st.loc.b, st.loc.p>> ELSE lw[nm]]
  /\ prev' = st.loc
  /\ n' = n + 1
  /\ path' = Append(path, st.loc)
  /\ UNCHANGED <<p, ii>>

Spec == Init /\ [][Next]_vars

(* ------------------------ collecting violations ------------------------- *)
\* TLC register 7 holds the keys already reported by this worker
Report(key, rec) ==
  IF key \in TLCGet(7) THEN TRUE
  ELSE /\ TLCSet(7, TLCGet(7) \cup {key})
       /\ PrintT(<<"REJECT", ToJson(rec)>>)

\* location of the model in the harness's terms (instruction *index*, not position)
HLoc(q, loc) ==
  CASE loc.k = "ins"   -> [k |-> "ins", b |-> loc.b, i |-> BlockOf(F(q), loc.b).ins[loc.p].i]
    [] loc.k = "edge"  -> [k |-> "edge", h |-> loc.h, t |-> loc.t]
    [] loc.k = "empty" -> [k |-> "empty", b |-> loc.b]
HPath(q, pth) == [j \in 1..Len(pth) |-> HLoc(q, pth[j])]

\* does a claim's location record (harness terms) denote model location loc
AtLoc(q, c, loc) ==
  /\ c.k = loc.k
  /\ CASE loc.k = "ins"   -> c.b = loc.b /\ c.i = BlockOf(F(q), loc.b).ins[loc.p].i
       [] loc.k = "edge"  -> c.h = loc.h /\ c.t = loc.t
       [] loc.k = "empty" -> c.b = loc.b
=============================================================================
