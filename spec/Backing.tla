------------------------------ MODULE Backing ------------------------------
(***************************************************************************)
(* C16 - the backing memory (lib/memory/backing.rs) as a permissioned byte *)
(* map under region writes.  Design level, constant module: a memory is a  *)
(* value `c`, a partial function                                           *)
(*                                                                         *)
(*    address key -> [b |-> byte, p |-> permission bits, r |-> region id]  *)
(*                                                                         *)
(* and every operation of the implementation is an operator on such        *)
(* values.  The trace specification (trace/Trace_C16), the history         *)
(* generator / model-checking configurations (mc/MC_Backing) and Mem.tla   *)
(* (C08, the backing below a paged memory) carry `c` in a variable.        *)
(*                                                                         *)
(* Addresses are integers ("keys").  The recorders log a 64-bit address as *)
(* a pair [base index, offset] (TLC integers are 32-bit); bases are        *)
(* 1024-aligned and 2^21 apart in key space, so Key is injective and       *)
(* preserves adjacency, order inside a window and 1024-byte page           *)
(* membership, which is all the properties C08 / C16 depend on.            *)
(*                                                                         *)
(* What the property (properties.jsonl, C16) says, and nothing more:       *)
(*  - after any sequence of region writes every address reads the byte and *)
(*    the permissions of the most recent region covering it; addresses     *)
(*    never covered are unmapped           (SetMemory, Get8, Perm)         *)
(*  - the stored sections never overlap    (SectionsDisjoint)              *)
(*  - arbitrary-width reads assemble bytes in the memory's endianness      *)
(*    across adjacent sections, absent - never a panic - when any byte is  *)
(*    unmapped                             (Get)                           *)
(*  - 32-bit accesses lying within one region read / write its four bytes  *)
(*    in that endianness and alter nothing else (InOneRegion, Get32,       *)
(*    Set32); accesses that do not lie within one region are not           *)
(*    constrained by the statement.                                        *)
(* An empty region covers no address: writing it changes nothing.          *)
(***************************************************************************)
EXTENDS Integers, Sequences, FiniteSets, TLC

KeySpan == 2097152                              \* 2^21: key distance between two bases
Key(a)  == a[1] * KeySpan + a[2]                \* a = <<base index, offset>>, 0 <= offset < 2^21

Absent == -1                                    \* "no byte" / "no permissions"
NoVal  == [k |-> "none"]                        \* "no value" (JSON shape of an absent Option)
MVal(bits, limbs) == [w |-> bits, v |-> limbs]  \* a value: little-endian byte limbs (shape of BV/IL values)

EmptyCells == [x \in {} |-> 0]

Rev(s) == [i \in 1..Len(s) |-> s[Len(s) + 1 - i]]

\* a value (little-endian limbs, least significant first) laid out at increasing addresses
Layout(endian, limbs) == IF endian = "little" THEN limbs ELSE Rev(limbs)
\* ... and bytes read at increasing addresses assembled into a value: the same permutation
Assemble(endian, bs)  == Layout(endian, bs)

(* ------------------------------ writes --------------------------------- *)
\* set_memory(a, data, p) as the r-th region write: exactly a .. a+Len(data)-1 change
SetMemory(c, a, data, p, r) ==
  LET R == a..(a + Len(data) - 1) IN
  [x \in DOMAIN c \cup R |-> IF x \in R THEN [b |-> data[x - a + 1], p |-> p, r |-> r] ELSE c[x]]

\* the four bytes of a 32-bit access lie within one region
InOneRegion(c, a) == \A i \in 0..3 : (a + i) \in DOMAIN c /\ c[a + i].r = c[a].r

\* set32 within one region: four bytes change, permissions and region stay
Set32(c, endian, a, limbs) ==
  LET bs == Layout(endian, limbs) IN
  [x \in DOMAIN c |-> IF x \in a..(a + 3) THEN [c[x] EXCEPT !.b = bs[x - a + 1]] ELSE c[x]]

(* ------------------------------- reads --------------------------------- *)
Get8(c, a) == IF a \in DOMAIN c THEN c[a].b ELSE Absent
Perm(c, a) == IF a \in DOMAIN c THEN c[a].p ELSE Absent

AllMapped(c, a, n) == \A i \in 0..(n - 1) : (a + i) \in DOMAIN c

\* get(a, bits), bits a positive multiple of 8
Get(c, endian, a, bits) ==
  LET n == bits \div 8 IN
  IF AllMapped(c, a, n) THEN MVal(bits, Assemble(endian, [i \in 1..n |-> c[a + i - 1].b]))
  ELSE NoVal

\* get32(a) when the four bytes lie within one region: a 4-limb value
Get32(c, endian, a) == Get(c, endian, a, 32)

(* -------------- sections(): the observable representation -------------- *)
\* secs: sequence of [a |-> start key, d |-> byte sequence, p |-> permission bits]
SecRange(s) == s.a..(s.a + Len(s.d) - 1)

SectionsDisjoint(secs) ==
  \A i, j \in 1..Len(secs) : i < j => SecRange(secs[i]) \cap SecRange(secs[j]) = {}

\* the sections hold exactly the cells of c (same bytes, same permissions)
SectionsRepresent(c, secs) ==
  /\ UNION { SecRange(secs[i]) : i \in 1..Len(secs) } = DOMAIN c
  /\ \A i \in 1..Len(secs) : \A x \in SecRange(secs[i]) :
        x \in DOMAIN c /\ c[x].b = secs[i].d[x - secs[i].a + 1] /\ c[x].p = secs[i].p

\* build a memory from a sequence of region writes [a |-> key, d |-> bytes, p |-> perm]
RECURSIVE ApplyWrites(_,_,_)
ApplyWrites(c, ws, i) ==
  IF i > Len(ws) THEN c
  ELSE ApplyWrites(TLCEval(SetMemory(c, ws[i].a, ws[i].d, ws[i].p, i)), ws, i + 1)
FromWrites(ws) == ApplyWrites(EmptyCells, ws, 1)
=============================================================================
