--------------------------------- MODULE Abi ---------------------------------
(***************************************************************************)
(* C20: the platform ABIs of the seven architectures as constants, and the *)
(* consistency predicates a published descriptor / calling-convention      *)
(* table has to satisfy with respect to them and to the register set the   *)
(* translator actually emits.                                              *)
(*                                                                         *)
(* A register is a pair <<name, width in bits>>.  Sources:                 *)
(*   x86     System V i386 psABI (cdecl): all arguments on the stack, the  *)
(*           first one just above the return address.                      *)
(*   amd64   System V x86-64 psABI.                                        *)
(*   mips*   System V MIPS psABI (o32): $a0-$a3, 16 bytes of home space.   *)
(*   ppc     System V PowerPC psABI (32 bit): r3-r10; at function entry    *)
(*           0(r1) is the back chain, 4(r1) the LR save word, the          *)
(*           parameter list area of the caller starts at 8(r1).            *)
(*   aarch64* AAPCS64: x0-x7, stack arguments from 0(sp) in 8-byte slots.  *)
(* callee: registers a callee must preserve; volatile: registers a call    *)
(* may destroy.  Registers whose status is platform dependent or not a     *)
(* matter of the convention (x18, x30, $gp, $ra, $k0/$k1, r2, r13, lr, the *)
(* halves of v8-v15, flags) are in neither set: a table may list them      *)
(* either way.                                                             *)
(***************************************************************************)
EXTENDS Integers, Sequences, FiniteSets, TLC

Archs == {"x86", "amd64", "mips", "mipsel", "ppc", "aarch64", "aarch64eb"}

R(n, w) == <<n, w>>
Regs(names, w) == [i \in 1..Len(names) |-> R(names[i], w)]
Range(s) == { s[i] : i \in 1..Len(s) }
OnStack(off) == [k |-> "stack", off |-> off]
InReg(r)     == [k |-> "reg", r |-> r]

RECURSIVE NumNames(_,_,_)
\* <<prefix lo, ..., prefix hi>> as a set of names; digits spelled out (no string arithmetic in TLA+)
Digits == <<"0","1","2","3","4","5","6","7","8","9","10","11","12","13","14","15","16","17","18","19",
            "20","21","22","23","24","25","26","27","28","29","30","31">>
NumNames(p, lo, hi) == IF lo > hi THEN {} ELSE {p \o Digits[lo + 1]} \cup NumNames(p, lo + 1, hi)

MipsAbi(endian) ==
  [word |-> 32, endian |-> endian, sp |-> R("$sp", 32),
   args |-> Regs(<<"$a0", "$a1", "$a2", "$a3">>, 32), ret |-> R("$v0", 32),
   retaddr |-> InReg(R("$ra", 32)), stack_off |-> 16,
   callee |-> {"$s0", "$s1", "$s2", "$s3", "$s4", "$s5", "$s6", "$s7", "$fp", "$sp"},
   volatile |-> {"$at", "$v0", "$v1", "$a0", "$a1", "$a2", "$a3", "$t0", "$t1", "$t2", "$t3", "$t4",
                 "$t5", "$t6", "$t7", "$t8", "$t9"}]
A64Abi(endian) ==
  [word |-> 64, endian |-> endian, sp |-> R("sp", 64),
   args |-> Regs(<<"x0", "x1", "x2", "x3", "x4", "x5", "x6", "x7">>, 64), ret |-> R("x0", 64),
   retaddr |-> InReg(R("x30", 64)), stack_off |-> 0,
   callee |-> NumNames("x", 19, 29) \cup {"sp"},
   volatile |-> NumNames("x", 0, 17) \cup NumNames("v", 0, 7) \cup NumNames("v", 16, 31)]

Abi(a) ==
  CASE a = "x86" ->
         [word |-> 32, endian |-> "little", sp |-> R("esp", 32),
          args |-> <<>>, ret |-> R("eax", 32), retaddr |-> OnStack(0), stack_off |-> 4,
          callee |-> {"ebx", "esi", "edi", "ebp", "esp"}, volatile |-> {"eax", "ecx", "edx"}]
    [] a = "amd64" ->
         [word |-> 64, endian |-> "little", sp |-> R("rsp", 64),
          args |-> Regs(<<"rdi", "rsi", "rdx", "rcx", "r8", "r9">>, 64), ret |-> R("rax", 64),
          retaddr |-> OnStack(0), stack_off |-> 8,
          callee |-> {"rbx", "rbp", "rsp", "r12", "r13", "r14", "r15"},
          volatile |-> {"rax", "rcx", "rdx", "rsi", "rdi", "r8", "r9", "r10", "r11"}]
    [] a = "mips"   -> MipsAbi("big")
    [] a = "mipsel" -> MipsAbi("little")
    [] a = "ppc" ->
         [word |-> 32, endian |-> "big", sp |-> R("r1", 32),
          args |-> Regs(<<"r3", "r4", "r5", "r6", "r7", "r8", "r9", "r10">>, 32), ret |-> R("r3", 32),
          retaddr |-> InReg(R("lr", 32)), stack_off |-> 8,
          callee |-> {"r1"} \cup NumNames("r", 14, 31),
          volatile |-> {"r0"} \cup NumNames("r", 3, 12)]
    [] a = "aarch64"   -> A64Abi("little")
    [] a = "aarch64eb" -> A64Abi("big")

Slot(a) == Abi(a).word \div 8            \* a stack argument occupies one machine word

\* two names of one register (the ABI documents call MIPS register 30 both $fp and $s8)
Canon(a, n) == IF a \in {"mips", "mipsel"} /\ n = "$s8" THEN "$fp" ELSE n

(* ------------- consistency of an exported calling-convention table ------ *)
(* cc: [args, ret, retaddr, stack_off, slot, preserved, trashed] with       *)
(* registers as <<name, width>>; preserved / trashed sequences.             *)
Names(regs) == { regs[i][1] : i \in 1..Len(regs) }

\* every register the table names, with the role it plays
NamedRegs(cc) ==
  Range(cc.args) \cup {cc.ret} \cup (IF cc.retaddr.k = "reg" THEN {cc.retaddr.r} ELSE {})
  \cup Range(cc.preserved) \cup Range(cc.trashed)

\* no register name is both preserved and trashed
NotBoth(cc, n) == ~(n \in Names(cc.preserved) /\ n \in Names(cc.trashed))
\* the table does not contradict the ABI's callee-saved / volatile classes
AgreesWithAbi(a, cc, n) ==
  /\ Canon(a, n) \in Abi(a).volatile => n \notin Names(cc.preserved)
  /\ Canon(a, n) \in Abi(a).callee   => n \notin Names(cc.trashed)

\* argument n (from 0): the registers in order, then stack slots from the stack offset
ArgType(cc, n) ==
  IF n < Len(cc.args) THEN InReg(cc.args[n + 1])
  ELSE OnStack(cc.stack_off + cc.slot * (n - Len(cc.args)))

\* is_preserved / is_trashed as tri-state answers (1 yes, 0 no, -1 unknown) for a register in
\* exactly one set or in none; a register in both sets is already a defect (NotBoth)
QueryOK(cc, s, p, t) ==
  LET inP == s \in Range(cc.preserved)  inT == s \in Range(cc.trashed) IN
  CASE inP /\ ~inT -> p = 1 /\ t = 0
    [] inT /\ ~inP -> p = 0 /\ t = 1
    [] ~inP /\ ~inT -> p = -1 /\ t = -1
    [] OTHER -> TRUE

\* the value (little-endian byte limbs) a w-bit load reads from bytes b[1..] on the platform
LoadValue(a, b, w) ==
  LET n == w \div 8 IN
  IF Abi(a).endian = "little" THEN [i \in 1..n |-> b[i]] ELSE [i \in 1..n |-> b[n + 1 - i]]

\* design-level sanity of the constants themselves (checked by Trace_C20 at start-up)
AbiSane ==
  \A a \in Archs :
    LET x == Abi(a) IN
    /\ x.callee \cap x.volatile = {}
    /\ x.sp[1] \in x.callee
    /\ x.ret[1] \in x.volatile
    /\ \A r \in Range(x.args) : r[1] \in x.volatile /\ r[2] = x.word
    /\ x.sp[2] = x.word /\ x.ret[2] = x.word
    /\ x.word \in {32, 64} /\ x.stack_off % Slot(a) = 0
=============================================================================
