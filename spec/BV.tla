--------------------------------- MODULE BV ---------------------------------
(***************************************************************************)
(* Fixed-width two's-complement bit-vectors of ANY width, represented as   *)
(* little-endian sequences of limbs.                                       *)
(*                                                                         *)
(* A value of width w is a sequence of NL(w) = ceil(w / LimbBits) limbs,   *)
(* each in 0 .. 2^LimbBits - 1, least significant limb first, with the     *)
(* unused high bits of the top limb equal to zero.  TLC integers are       *)
(* 32-bit, falcon values are 1 .. 128+ bits wide, so this is the           *)
(* representation every other module uses.  LimbBits is 8 in production    *)
(* (a limb is a byte of memory); MC_BV checks this module against the      *)
(* integer definitions of BVMath with LimbBits 2 and 3, where a 7-bit      *)
(* value already has several limbs and every carry path is exercised.      *)
(*                                                                         *)
(* TLC evaluates LET definitions and operator arguments lazily and         *)
(* re-evaluates them at every use: every accumulator of a RECURSIVE        *)
(* operator below is forced with TLCEval.                                  *)
(***************************************************************************)
EXTENDS Integers, Sequences, TLC
LOCAL INSTANCE Bitwise

CONSTANT LimbBits          \* 8 in production, 2/3 in MC_BV

B == 2^LimbBits            \* limb base

NL(w)      == (w + LimbBits - 1) \div LimbBits
TopBits(w) == IF w % LimbBits = 0 THEN LimbBits ELSE w % LimbBits
TopMod(w)  == 2^TopBits(w)

\* well-formed value of width w
IsBV(w, a) == /\ w >= 1
              /\ DOMAIN a = 1..NL(w)
              /\ \A i \in 1..NL(w) : a[i] \in 0..(B-1)
              /\ a[NL(w)] < TopMod(w)

Norm(w, s) == [i \in 1..NL(w) |-> IF i = NL(w) THEN s[i] % TopMod(w) ELSE s[i]]
Zero(w)    == [i \in 1..NL(w) |-> 0]
One(w)     == [i \in 1..NL(w) |-> IF i = 1 THEN 1 ELSE 0]
Ones(w)    == [i \in 1..NL(w) |-> IF i = NL(w) THEN TopMod(w) - 1 ELSE B - 1]
IsZero(a)  == \A i \in DOMAIN a : a[i] = 0

\* a small natural number as a width-w value (n < 2^31), reduced modulo 2^w
RECURSIVE FromNatR(_,_,_)
FromNatR(n, i, k) == IF i > k THEN <<>> ELSE <<n % B>> \o FromNatR(n \div B, i + 1, k)
FromNat(w, n) == Norm(w, FromNatR(n, 1, NL(w)))

\* the value as a natural number, saturated at cap (cap < 2^20): exact when < cap
RECURSIVE ToNatCapR(_,_,_,_)
ToNatCapR(a, i, cap, acc) ==
  IF i = 0 THEN acc
  ELSE LET t == acc * B + a[i] IN ToNatCapR(a, i - 1, cap, IF t > cap THEN cap ELSE t)
ToNatCap(a, cap) == ToNatCapR(a, Len(a), cap, 0)

\* bit k (0 = least significant) of a
Bit(a, k)  == (a[(k \div LimbBits) + 1] \div 2^(k % LimbBits)) % 2
Msb(w, a)  == Bit(a, w - 1)

(* ---------------------------- bitwise ---------------------------------- *)
\* limb-wise boolean operators from the CommunityModules Bitwise module (Java overrides);
\* BVMath defines the same operators bit by bit and MC_BV compares the two.
BvAnd(w, a, b) == [i \in 1..NL(w) |-> a[i] & b[i]]
BvOr(w, a, b)  == [i \in 1..NL(w) |-> a[i] | b[i]]
BvXor(w, a, b) == [i \in 1..NL(w) |-> a[i] ^^ b[i]]
BvNot(w, a)    == Norm(w, [i \in 1..NL(w) |-> B - 1 - a[i]])

(* ---------------------------- add / sub -------------------------------- *)
RECURSIVE AddC(_,_,_,_,_)
AddC(a, b, i, n, c) ==
  IF i > n THEN <<>>
  ELSE LET s == a[i] + b[i] + c IN <<s % B>> \o AddC(a, b, i + 1, n, s \div B)

\* carry out of bit w-1 of a + b + cin (as 0/1)
RECURSIVE CarryR(_,_,_,_,_)
CarryR(a, b, i, n, c) ==
  IF i > n THEN c ELSE CarryR(a, b, i + 1, n, (a[i] + b[i] + c) \div B)

Cpl(w, a)    == [i \in 1..NL(w) |-> B - 1 - a[i]]              \* not normalised
Add(w, a, b) == Norm(w, AddC(a, b, 1, NL(w), 0))
AddCin(w, a, b, c) == Norm(w, AddC(a, b, 1, NL(w), c))
Sub(w, a, b) == Norm(w, AddC(a, Cpl(w, b), 1, NL(w), 1))
Neg(w, a)    == Sub(w, Zero(w), a)

(* ---------------------------- comparison ------------------------------- *)
RECURSIVE LtuR(_,_,_)
LtuR(a, b, i) == IF i = 0 THEN FALSE
                 ELSE IF a[i] < b[i] THEN TRUE
                 ELSE IF a[i] > b[i] THEN FALSE ELSE LtuR(a, b, i - 1)
Ltu(w, a, b) == LtuR(a, b, NL(w))
Eq(w, a, b)  == \A i \in 1..NL(w) : a[i] = b[i]
Lts(w, a, b) == LET sa == Msb(w, a)  sb == Msb(w, b)
                IN IF sa # sb THEN sa = 1 ELSE Ltu(w, a, b)

\* carry out of bit (w-1) of a + b + cin, for any w (not only limb multiples)
CarryOut(w, a, b, cin) ==
  LET s == AddC(a, b, 1, NL(w), cin)            \* un-normalised limbs
      c == CarryR(a, b, 1, NL(w), cin)
  IN IF w % LimbBits = 0 THEN c ELSE (s[NL(w)] \div TopMod(w)) % 2

(* ---------------------------- shifts ----------------------------------- *)
\* k is a natural number; result is zero when k >= w
Shl(w, a, k) ==
  IF k >= w THEN Zero(w) ELSE
  LET q == k \div LimbBits  r == k % LimbBits  n == NL(w)
      g(i) == IF i < 1 THEN 0 ELSE a[i]
  IN Norm(w, [i \in 1..n |-> ((g(i - q) * 2^r) % B) + (g(i - q - 1) \div 2^(LimbBits - r))])

Shr(w, a, k) ==
  IF k >= w THEN Zero(w) ELSE
  LET q == k \div LimbBits  r == k % LimbBits  n == NL(w)
      g(i) == IF i > n THEN 0 ELSE a[i]
  IN [i \in 1..n |-> (g(i + q) \div 2^r) + ((g(i + q + 1) * 2^(LimbBits - r)) % B)]

AShr(w, a, k) ==
  IF Msb(w, a) = 0 THEN Shr(w, a, k)
  ELSE IF k >= w THEN Ones(w)
  ELSE BvOr(w, Shr(w, a, k), Shl(w, Ones(w), w - k))

\* shift amount given as a bit-vector: its value if < w, else w (saturation)
Amount(w, b) == ToNatCap(b, w)

ShlV(w, a, b)  == Shl(w, a, Amount(w, b))
ShrV(w, a, b)  == Shr(w, a, Amount(w, b))
AShrV(w, a, b) == AShr(w, a, Amount(w, b))

(* ---------------------------- multiply --------------------------------- *)
RECURSIVE MulRow(_,_,_,_,_,_)
MulRow(acc, a, bj, j, i, c) ==        \* acc += a * bj * B^(j-1), truncated to Len(acc) limbs
  LET n == Len(acc) IN
  IF i + j - 1 > n THEN acc
  ELSE LET t == acc[i + j - 1] + a[i] * bj + c IN
       MulRow(TLCEval([acc EXCEPT ![i + j - 1] = t % B]), a, bj, j, i + 1, t \div B)
RECURSIVE MulR(_,_,_,_)
MulR(acc, a, b, j) ==
  IF j > Len(b) THEN acc ELSE MulR(TLCEval(MulRow(acc, a, b[j], j, 1, 0)), a, b, j + 1)
Mul(w, a, b) == Norm(w, MulR(Zero(w), a, b, 1))

(* ---------------------------- divide ----------------------------------- *)
\* bit-serial restoring division; b # 0.  Returns <<quotient, remainder>>.
RECURSIVE DivR(_,_,_,_,_)
DivR(w, a, b, k, qr) ==
  IF k < 0 THEN qr ELSE
  LET top == TLCEval(Msb(w, qr[2]))             \* bit shifted out of the remainder
      r1 == TLCEval(Shl(w, qr[2], 1))
      r2 == TLCEval([r1 EXCEPT ![1] = r1[1] + Bit(a, k)])
      ge == TLCEval(top = 1 \/ ~Ltu(w, r2, b))
      r3 == TLCEval(IF ge THEN Sub(w, r2, b) ELSE r2)
      q1 == TLCEval(IF ge THEN [qr[1] EXCEPT ![(k \div LimbBits) + 1] = @ + 2^(k % LimbBits)]
                          ELSE qr[1])
  IN DivR(w, a, b, k - 1, TLCEval(<<q1, r3>>))
\* index of the highest set bit among bits 0..k of a, or -1
RECURSIVE TopBit(_,_)
TopBit(a, k) == IF k < 0 THEN -1 ELSE IF Bit(a, k) = 1 THEN k ELSE TopBit(a, k - 1)
\* quotient bits above the dividend's highest set bit are zero: start there
DivModuSerial(w, a, b) == DivR(w, a, b, TopBit(a, w - 1), <<Zero(w), Zero(w)>>)

(* Limb-wise long division (Knuth, TAOCP vol. 2, 4.3.1, algorithm D) in base B: one quotient limb *)
(* per step instead of one bit.  MC_BV checks it against BVMath and against DivModuSerial.         *)
RECURSIVE BitLen(_)
BitLen(x) == IF x = 0 THEN 0 ELSE 1 + BitLen(x \div 2)
RECURSIVE TopLimb(_,_)
TopLimb(b, i) == IF i = 0 THEN 0 ELSE IF b[i] # 0 THEN i ELSE TopLimb(b, i - 1)

\* division of the n-limb a by the single limb d # 0
RECURSIVE ShortDivR(_,_,_,_,_)
ShortDivR(a, d, i, q, r) ==
  IF i = 0 THEN <<q, r>>
  ELSE LET cur == r * B + a[i] IN ShortDivR(a, d, i - 1, TLCEval([q EXCEPT ![i] = cur \div d]), cur % d)

\* u[j+1 .. j+m+1] -= qh * v[1..m]; returns <<u', borrow out (0/1)>>
RECURSIVE MulSubR(_,_,_,_,_,_,_)
MulSubR(u, v, qh, j, i, m, cb) ==
  IF i > m THEN
     LET t == u[j + m + 1] - cb[1] - cb[2] IN
     <<[u EXCEPT ![j + m + 1] = IF t < 0 THEN t + B ELSE t], IF t < 0 THEN 1 ELSE 0>>
  ELSE LET p == qh * v[i] + cb[1]
           t == u[j + i] - (p % B) - cb[2]
       IN MulSubR(TLCEval([u EXCEPT ![j + i] = IF t < 0 THEN t + B ELSE t]), v, qh, j, i + 1, m,
                  <<p \div B, IF t < 0 THEN 1 ELSE 0>>)

\* u[j+1 .. j+m+1] += v[1..m] (the final carry is dropped)
RECURSIVE AddBackR(_,_,_,_,_,_)
AddBackR(u, v, j, i, m, c) ==
  IF i > m THEN [u EXCEPT ![j + m + 1] = (u[j + m + 1] + c) % B]
  ELSE LET t == u[j + i] + v[i] + c IN
       AddBackR(TLCEval([u EXCEPT ![j + i] = t % B]), v, j, i + 1, m, t \div B)

\* estimate of the quotient limb, corrected so that it is at most one too large
RECURSIVE QAdj(_,_,_,_,_)
QAdj(qh, rh, vt, v2, u2) ==
  IF qh >= B \/ qh * v2 > rh * B + u2
  THEN IF rh + vt < B THEN QAdj(qh - 1, rh + vt, vt, v2, u2) ELSE qh - 1
  ELSE qh

RECURSIVE KnuthR(_,_,_,_,_)
KnuthR(u, v, q, j, m) ==
  IF j < 0 THEN <<q, u>>
  ELSE LET num == u[j + m + 1] * B + u[j + m]
           qh  == QAdj(num \div v[m], num % v[m], v[m], v[m - 1], u[j + m - 1])
           ms  == TLCEval(MulSubR(u, v, qh, j, 1, m, <<0, 0>>))
       IN IF ms[2] = 0
          THEN KnuthR(ms[1], v, TLCEval([q EXCEPT ![j + 1] = qh]), j - 1, m)
          ELSE KnuthR(TLCEval(AddBackR(ms[1], v, j, 1, m, 0)), v, TLCEval([q EXCEPT ![j + 1] = qh - 1]), j - 1, m)

DivModu(w, a, b) ==
  LET n == NL(w)
      m == TopLimb(b, n)
  IN IF m = 1
     THEN LET r == ShortDivR(a, b[1], n, Zero(w), 0) IN <<r[1], [i \in 1..n |-> IF i = 1 THEN r[2] ELSE 0]>>
     ELSE LET sh == LimbBits - BitLen(b[m])                      \* normalise: top limb of v >= B/2
              up == 2^sh   dn == 2^(LimbBits - sh)
              ga(i) == IF i < 1 \/ i > n THEN 0 ELSE a[i]
              gb(i) == IF i < 1 THEN 0 ELSE b[i]
              u == [i \in 1..(n + 1) |-> ((ga(i) * up) % B) + (ga(i - 1) \div dn)]
              v == [i \in 1..m |-> ((gb(i) * up) % B) + (gb(i - 1) \div dn)]
              r == KnuthR(u, v, Zero(w), n - m, m)
              ru(i) == IF i > m THEN 0 ELSE r[2][i]
          IN <<r[1], [i \in 1..n |-> IF i > m THEN 0 ELSE (ru(i) \div up) + ((ru(i + 1) * dn) % B)]>>
Divu(w, a, b) == DivModu(w, a, b)[1]
Modu(w, a, b) == DivModu(w, a, b)[2]

Abs(w, a) == IF Msb(w, a) = 1 THEN Neg(w, a) ELSE a
\* signed division truncating toward zero; remainder has the sign of the dividend
Divs(w, a, b) == LET q == Divu(w, Abs(w, a), Abs(w, b))
                 IN IF Msb(w, a) # Msb(w, b) THEN Neg(w, q) ELSE q
Mods(w, a, b) == LET r == Modu(w, Abs(w, a), Abs(w, b))
                 IN IF Msb(w, a) = 1 THEN Neg(w, r) ELSE r

(* ---------------------------- width changes ---------------------------- *)
Zext(wt, a)     == [i \in 1..NL(wt) |-> IF i <= Len(a) THEN a[i] ELSE 0]
Trun(wt, a)     == Norm(wt, [i \in 1..NL(wt) |-> a[i]])
Sext(wf, wt, a) == IF Msb(wf, a) = 0 THEN Zext(wt, a)
                   ELSE BvOr(wt, Zext(wt, a), Shl(wt, Ones(wt), wf))
\* bits lo .. lo+n-1 of a (width w) as a width-n value
Extract(w, a, lo, n) == Trun(n, Shr(w, a, lo))
\* hi:lo concatenation (hi of width wh above lo of width wl)
Concat(wh, hi, wl, lo) == BvOr(wh + wl, Shl(wh + wl, Zext(wh + wl, hi), wl), Zext(wh + wl, lo))

Bool(x) == IF x THEN <<1>> ELSE <<0>>           \* a 1-bit value
=============================================================================
