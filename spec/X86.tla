-------------------------------- MODULE X86 --------------------------------
(***************************************************************************)
(* User-level semantics of the x86 / amd64 instructions falcon's lifter    *)
(* dispatches (property C01), by (mnemonic, operand list, operand size,    *)
(* prefixes) on BV values.  An instruction is the ABSTRACT instruction of  *)
(* corpus/c01/gen.py (it comes from the assembled template, never from a   *)
(* disassembly):                                                           *)
(*   [mn, sz, pfx, len, ops (, cc)], an operand being                      *)
(*   [k |-> "reg", f |-> full register, o |-> bit offset, s |-> bits]      *)
(*   [k |-> "xmm", n |-> name]                                             *)
(*   [k |-> "mem", s, b |-> base | "" | "rip", i |-> index | "", sc, d, as *)
(*    (, seg)]                                                             *)
(*   [k |-> "imm", s, v]        [k |-> "rel", v]                           *)
(* A machine state is [W, regs, fl, x, mem, base]: W = 32 | 64, regs maps  *)
(* the full registers to W-bit values, fl the five modelled flags (and the  *)
(* input-only PF) to 0/1,                                                  *)
(* x the XMM registers to 128-bit values, mem is the data window (a        *)
(* sequence of bytes at address base).  Limbs are bytes (LimbBits = 8), so *)
(* memory images and lane operations are plain sequence manipulation.      *)
(*                                                                         *)
(* Exec(ins, st, addr) is                                                  *)
(*   [k |-> "ok", st, pc, ufl, ureg]  final state and next instruction     *)
(*        address; ufl / ureg: flags / full registers the SDM leaves       *)
(*        undefined for this instruction and these operand values          *)
(*   [k |-> "fault"]     the processor raises an exception (#DE, #GP)      *)
(*   [k |-> "unspec", why]  this module does not define the outcome        *)
(*        (memory outside the window, PF/AF-dependent, privileged, ...)    *)
(* The host processor is validated against this module by the same trace   *)
(* specification as the lifter (Trace_C01): it is the grounding.           *)
(*                                                                         *)
(* TLC builds functions lazily and re-evaluates them at every application; *)
(* every value that is stored or used more than once is forced with V.     *)
(***************************************************************************)
EXTENDS BV, FiniteSets

V(x) == TLCEval(x)

Ok(st, pc, ufl, ureg) == [k |-> "ok", st |-> st, pc |-> pc, ufl |-> ufl, ureg |-> ureg]
Fault       == [k |-> "fault"]
Unspec(why) == [k |-> "unspec", why |-> why]

(* ------------------------------------------------------------------ *)
(* sub-registers                                                      *)
(* ------------------------------------------------------------------ *)
\* bits o .. o+s-1 of a W-bit full register
SubRd(W, full, o, s) == Extract(W, full, o, s)
\* write s bits at offset o.  A 32-bit write in 64-bit mode zero-extends; 8/16-bit writes merge.
SubWr(W, full, o, s, v) ==
  IF s = W THEN v
  ELSE IF s = 32 THEN Zext(W, v)
  ELSE LET m == V(Shl(W, Zext(W, Ones(s)), o))
       IN BvOr(W, BvAnd(W, full, BvNot(W, m)), Shl(W, Zext(W, v), o))

RegRd(st, r)    == V(SubRd(st.W, st.regs[r.f], r.o, r.s))
RegWr(st, r, v) == [st EXCEPT !.regs[r.f] = V(SubWr(st.W, @, r.o, r.s, v))]
SetReg(st, f, v) == [st EXCEPT !.regs[f] = V(v)]

\* implicit registers by architectural role
Nm(st, n64, n32) == IF st.W = 64 THEN n64 ELSE n32
RA(st) == Nm(st, "rax", "eax")
RC(st) == Nm(st, "rcx", "ecx")
RD(st) == Nm(st, "rdx", "edx")
RSP(st) == Nm(st, "rsp", "esp")
RBP(st) == Nm(st, "rbp", "ebp")
RSI(st) == Nm(st, "rsi", "esi")
RDI(st) == Nm(st, "rdi", "edi")
SubReg(f, o, s) == [k |-> "reg", f |-> f, o |-> o, s |-> s]
Acc(st, s)  == SubReg(RA(st), 0, s)
Dreg(st, s) == SubReg(RD(st), 0, s)

(* ------------------------------------------------------------------ *)
(* memory window                                                      *)
(* ------------------------------------------------------------------ *)
\* offset of address a in the window, or 100000 when a lies below / far above it
Off(st, a) == ToNatCap(Sub(st.W, a, st.base), 100000)
InWin(st, a, n) == Off(st, a) + n <= Len(st.mem)
Ld(st, a, n) == LET o == Off(st, a) IN V([i \in 1..n |-> st.mem[o + i]])            \* n bytes = 8n-bit value
Sto(st, a, n, v) == LET o == Off(st, a) IN
  [st EXCEPT !.mem = V([i \in 1..Len(st.mem) |-> IF i > o /\ i <= o + n THEN v[i - o] ELSE st.mem[i]])]

\* effective address of a memory operand (npc: address of the next instruction, for rip)
EA(st, m, npc) ==
  LET W  == st.W
      bv == IF m.b = "" THEN Zero(W) ELSE IF m.b = "rip" THEN npc ELSE st.regs[m.b]
      iv == V(IF m.i = "" THEN Zero(W) ELSE Mul(W, st.regs[m.i], FromNat(W, m.sc)))
      s1 == V(Add(W, bv, iv))
      s  == V(Add(W, s1, m.d))
  IN IF m.as = W THEN s ELSE V(Zext(W, Trun(m.as, s)))

\* Memory operands are resolved to their effective address before anything is written
\* (operand kind "ea"): xchg edi, [rdi] stores to the address computed from the old rdi.
Rd(st, op, npc) ==
  CASE op.k = "reg" -> RegRd(st, op)
    [] op.k = "ea"  -> Ld(st, op.a, op.s \div 8)
    [] op.k = "mem" -> Ld(st, EA(st, op, npc), op.s \div 8)
    [] op.k = "imm" -> op.v
    [] op.k = "xmm" -> st.x[op.n]
Wr(st, op, v, npc) ==
  CASE op.k = "reg" -> RegWr(st, op, v)
    [] op.k = "ea"  -> Sto(st, op.a, op.s \div 8, v)
    [] op.k = "mem" -> Sto(st, EA(st, op, npc), op.s \div 8, v)
    [] op.k = "xmm" -> [st EXCEPT !.x[op.n] = V(v)]

\* instructions whose memory operand is not accessed at its plain effective address
NoPlainAccess == {"lea", "nop", "prefetcht0", "prefetcht1", "prefetcht2", "prefetchnta", "pop"}
IsBitOp(mn) == mn \in {"bt", "btc", "btr", "bts"}
ExplicitOK(ins, st, npc) ==
  \A j \in 1..Len(ins.ops) :
     LET op == ins.ops[j] IN
     (op.k = "mem" /\ ins.mn \notin NoPlainAccess /\ ~(IsBitOp(ins.mn) /\ ins.ops[2].k = "reg"))
        => InWin(st, EA(st, op, npc), op.s \div 8)

(* ------------------------------------------------------------------ *)
(* flags                                                              *)
(* ------------------------------------------------------------------ *)
B01(b) == IF b THEN 1 ELSE 0
SetZS(fl, w, r) == [fl EXCEPT !.ZF = B01(IsZero(r)), !.SF = Msb(w, r)]

\* a + b + cin
AddRes(w, a, b, cin) == V(AddCin(w, a, b, cin))
AddCF(w, a, b, cin)  == CarryOut(w, a, b, cin)
AddOF(w, a, b, r)    == B01(Msb(w, a) = Msb(w, b) /\ Msb(w, r) # Msb(w, a))
\* a - b - bin  =  a + ~b + (1 - bin);  borrow = no carry
SubRes(w, a, b, bin) == V(AddCin(w, a, V(BvNot(w, b)), 1 - bin))
SubCF(w, a, b, bin)  == 1 - CarryOut(w, a, V(BvNot(w, b)), 1 - bin)
SubOF(w, a, b, r)    == B01(Msb(w, a) # Msb(w, b) /\ Msb(w, r) # Msb(w, a))

AddFl(fl, w, a, b, cin) == LET r == AddRes(w, a, b, cin) IN
  [fl EXCEPT !.CF = AddCF(w, a, b, cin), !.OF = AddOF(w, a, b, r), !.ZF = B01(IsZero(r)), !.SF = Msb(w, r)]
SubFl(fl, w, a, b, bin) == LET r == SubRes(w, a, b, bin) IN
  [fl EXCEPT !.CF = SubCF(w, a, b, bin), !.OF = SubOF(w, a, b, r), !.ZF = B01(IsZero(r)), !.SF = Msb(w, r)]
LogicFl(fl, w, r) == [fl EXCEPT !.CF = 0, !.OF = 0, !.ZF = B01(IsZero(r)), !.SF = Msb(w, r)]

\* condition codes.  PF is an input of the state only (set by the harness in the IL state and in
\* RFLAGS): no lifted instruction writes it and it is never compared afterwards.
CondKnown(cc) == TRUE
Cond(fl, cc) ==
  CASE cc = "p"  -> fl.PF = 1            [] cc = "np" -> fl.PF = 0
    [] cc = "o"  -> fl.OF = 1            [] cc = "no" -> fl.OF = 0
    [] cc = "b"  -> fl.CF = 1            [] cc = "ae" -> fl.CF = 0
    [] cc = "e"  -> fl.ZF = 1            [] cc = "ne" -> fl.ZF = 0
    [] cc = "be" -> fl.CF = 1 \/ fl.ZF = 1
    [] cc = "a"  -> fl.CF = 0 /\ fl.ZF = 0
    [] cc = "s"  -> fl.SF = 1            [] cc = "ns" -> fl.SF = 0
    [] cc = "l"  -> fl.SF # fl.OF        [] cc = "ge" -> fl.SF = fl.OF
    [] cc = "le" -> fl.ZF = 1 \/ fl.SF # fl.OF
    [] cc = "g"  -> fl.ZF = 0 /\ fl.SF = fl.OF

(* ------------------------------------------------------------------ *)
(* small helpers on values                                            *)
(* ------------------------------------------------------------------ *)
Nat8(v) == v[1]                                     \* low byte as a number
Lg(s) == CASE s = 8 -> 3 [] s = 16 -> 4 [] s = 32 -> 5 [] s = 64 -> 6
RotL(w, a, k) == IF k = 0 THEN a ELSE BvOr(w, Shl(w, a, k), Shr(w, a, w - k))
RotR(w, a, k) == IF k = 0 THEN a ELSE BvOr(w, Shr(w, a, k), Shl(w, a, w - k))
SetBit(w, a, k, b) == LET m == V(Shl(w, One(w), k)) IN
                      IF b = 1 THEN BvOr(w, a, m) ELSE BvAnd(w, a, BvNot(w, m))
LowestBit(w, a)  == CHOOSE k \in 0..(w - 1) : Bit(a, k) = 1 /\ \A j \in 0..(k - 1) : Bit(a, j) = 0
HighestBit(w, a) == CHOOSE k \in 0..(w - 1) : Bit(a, k) = 1 /\ \A j \in (k + 1)..(w - 1) : Bit(a, j) = 0
Rev(s) == [i \in 1..Len(s) |-> s[Len(s) + 1 - i]]
PcAdd(st, addr, off) == V(Add(st.W, addr, Trun(st.W, off)))     \* off is a 64-bit two's complement number

(* ------------------------------------------------------------------ *)
(* stack                                                              *)
(* ------------------------------------------------------------------ *)
SP(st) == st.regs[RSP(st)]
OOB == [oob |-> TRUE]                  \* "the access leaves the window" in place of a state
IsOob(t) == "oob" \in DOMAIN t
\* push an n-byte value: returns the new state or OOB
Push(st, n, v) ==
  LET sp == V(Sub(st.W, SP(st), FromNat(st.W, n))) IN
  IF ~InWin(st, sp, n) THEN OOB
  ELSE Sto(SetReg(st, RSP(st), sp), sp, n, v)
PopOK(st, n)  == InWin(st, SP(st), n)
PopVal(st, n) == Ld(st, SP(st), n)
PopSt(st, n)  == SetReg(st, RSP(st), Add(st.W, SP(st), FromNat(st.W, n)))

(* ------------------------------------------------------------------ *)
(* string instructions                                                *)
(* ------------------------------------------------------------------ *)
\* one iteration; returns the new state or OOB.  asz is the address size: with the 0x67 prefix in
\* 64-bit mode the index registers are esi / edi (and the rep count ecx); writing them zero-extends.
AReg(st, asz, r) == IF asz = st.W THEN st.regs[r] ELSE V(Zext(st.W, Trun(asz, st.regs[r])))
StrIter(mn, st, s, asz) ==
  LET n == s \div 8  W == st.W
      si == AReg(st, asz, RSI(st))  di == AReg(st, asz, RDI(st))
      d == V(IF st.fl.DF = 0 THEN FromNat(asz, n) ELSE Neg(asz, FromNat(asz, n)))
      adv(t, r) == SetReg(t, r, IF asz = W THEN Add(W, t.regs[r], d)
                                ELSE Zext(W, V(Add(asz, V(Trun(asz, t.regs[r])), d))))
  IN
  CASE mn = "movs" -> IF ~(InWin(st, si, n) /\ InWin(st, di, n)) THEN OOB
                      ELSE adv(adv(Sto(st, di, n, Ld(st, si, n)), RSI(st)), RDI(st))
    [] mn = "stos" -> IF ~InWin(st, di, n) THEN OOB
                      ELSE adv(Sto(st, di, n, RegRd(st, Acc(st, s))), RDI(st))
    [] mn = "lods" -> IF ~InWin(st, si, n) THEN OOB
                      ELSE adv(RegWr(st, Acc(st, s), Ld(st, si, n)), RSI(st))
    [] mn = "scas" -> IF ~InWin(st, di, n) THEN OOB
                      ELSE adv([st EXCEPT !.fl = SubFl(@, s, RegRd(st, Acc(st, s)), Ld(st, di, n), 0)], RDI(st))
    [] mn = "cmps" -> IF ~(InWin(st, si, n) /\ InWin(st, di, n)) THEN OOB
                      ELSE adv(adv([st EXCEPT !.fl = SubFl(@, s, Ld(st, si, n), Ld(st, di, n), 0)], RSI(st)), RDI(st))

RECURSIVE RepLoop(_,_,_,_,_,_)
RepLoop(mn, pfx, st, s, asz, fuel) ==
  IF IsOob(st) \/ fuel = 0 THEN OOB
  ELSE IF IsZero(AReg(st, asz, RC(st))) THEN st
  ELSE LET t == V(StrIter(mn, st, s, asz)) IN
       IF IsOob(t) THEN OOB
       ELSE LET c1 == V(Sub(st.W, AReg(t, asz, RC(st)), One(st.W)))
                u == V(SetReg(t, RC(st), IF asz = st.W THEN c1 ELSE Zext(st.W, Trun(asz, c1)))) IN
            IF mn \in {"scas", "cmps"} /\ ((pfx = "repe" /\ u.fl.ZF = 0) \/ (pfx = "repne" /\ u.fl.ZF = 1))
            THEN u ELSE RepLoop(mn, pfx, u, s, asz, fuel - 1)

(* ------------------------------------------------------------------ *)
(* SSE lanes (values are 16 bytes)                                    *)
(* ------------------------------------------------------------------ *)
Lane(v, k, n)   == V(SubSeq(v, k * n + 1, k * n + n))                   \* k-th n-byte lane (k from 0)
\* f(0) \o f(1) \o ... as n-byte lanes
Lanes(n, f(_)) == LET parts == V([k \in 0..((16 \div n) - 1) |-> V(f(k))]) IN
                  V([i \in 1..16 |-> parts[(i - 1) \div n][((i - 1) % n) + 1]])
Lo64(v) == V(SubSeq(v, 1, 8))
Hi64(v) == V(SubSeq(v, 9, 16))
Z8 == Zero(64)

(* ------------------------------------------------------------------ *)
(* the instructions                                                   *)
(* ------------------------------------------------------------------ *)
Alu2 == {"add", "adc", "sub", "sbb", "and", "or", "xor", "cmp", "test"}
Alu2Exec(ins, st, npc) ==
  LET mn == ins.mn  o1 == ins.ops[1]  o2 == ins.ops[2]  s == o1.s
      a == Rd(st, o1, npc)  b == Rd(st, o2, npc)  c == st.fl.CF
      r == V(CASE mn = "add" -> AddRes(s, a, b, 0) [] mn = "adc" -> AddRes(s, a, b, c)
               [] mn \in {"sub", "cmp"} -> SubRes(s, a, b, 0) [] mn = "sbb" -> SubRes(s, a, b, c)
               [] mn \in {"and", "test"} -> BvAnd(s, a, b) [] mn = "or" -> BvOr(s, a, b) [] mn = "xor" -> BvXor(s, a, b))
      fl == CASE mn = "add" -> AddFl(st.fl, s, a, b, 0) [] mn = "adc" -> AddFl(st.fl, s, a, b, c)
              [] mn \in {"sub", "cmp"} -> SubFl(st.fl, s, a, b, 0) [] mn = "sbb" -> SubFl(st.fl, s, a, b, c)
              [] OTHER -> LogicFl(st.fl, s, r)
      st1 == [st EXCEPT !.fl = fl]
  IN Ok(IF mn \in {"cmp", "test"} THEN st1 ELSE Wr(st1, o1, r, npc), npc, {}, {})

Alu1Exec(ins, st, npc) ==
  LET mn == ins.mn  o1 == ins.ops[1]  s == o1.s  a == Rd(st, o1, npc)  one == One(s) IN
  CASE mn = "inc" -> LET f == AddFl(st.fl, s, a, one, 0) IN
                     Ok(Wr([st EXCEPT !.fl = [f EXCEPT !.CF = st.fl.CF]], o1, Add(s, a, one), npc), npc, {}, {})
    [] mn = "dec" -> LET f == SubFl(st.fl, s, a, one, 0) IN
                     Ok(Wr([st EXCEPT !.fl = [f EXCEPT !.CF = st.fl.CF]], o1, Sub(s, a, one), npc), npc, {}, {})
    [] mn = "neg" -> Ok(Wr([st EXCEPT !.fl = SubFl(@, s, Zero(s), a, 0)], o1, Neg(s, a), npc), npc, {}, {})
    [] mn = "not" -> Ok(Wr(st, o1, BvNot(s, a), npc), npc, {}, {})

\* shift count as the processor masks it
CountMask(s) == IF s = 64 THEN 64 ELSE 32
ShiftExec(ins, st, npc) ==
  LET mn == ins.mn  o1 == ins.ops[1]  s == o1.s  a == Rd(st, o1, npc)
      cm == Nat8(Rd(st, ins.ops[2], npc)) % CountMask(s)
  IN
  IF cm = 0 THEN
     \* nothing is shifted and no flag changes; a 32-bit register destination is still written
     Ok(IF o1.k = "reg" THEN Wr(st, o1, a, npc) ELSE st, npc, {}, {})
  ELSE
  CASE mn = "shl" ->
         LET r == V(Shl(s, a, cm))  cf == IF cm <= s THEN Bit(a, s - cm) ELSE 0 IN
         Ok(Wr([st EXCEPT !.fl = [SetZS(@, s, r) EXCEPT !.CF = cf, !.OF = B01(Msb(s, r) # cf)]], o1, r, npc), npc,
            (IF cm >= s THEN {"CF"} ELSE {}) \cup (IF cm # 1 THEN {"OF"} ELSE {}), {})
    [] mn = "shr" ->
         LET r == V(Shr(s, a, cm))  cf == IF cm <= s THEN Bit(a, cm - 1) ELSE 0 IN
         Ok(Wr([st EXCEPT !.fl = [SetZS(@, s, r) EXCEPT !.CF = cf, !.OF = Msb(s, a)]], o1, r, npc), npc,
            (IF cm >= s THEN {"CF"} ELSE {}) \cup (IF cm # 1 THEN {"OF"} ELSE {}), {})
    [] mn = "sar" ->
         LET r == V(AShr(s, a, cm))  cf == IF cm <= s THEN Bit(a, cm - 1) ELSE Msb(s, a) IN
         Ok(Wr([st EXCEPT !.fl = [SetZS(@, s, r) EXCEPT !.CF = cf, !.OF = 0]], o1, r, npc), npc,
            IF cm # 1 THEN {"OF"} ELSE {}, {})
    [] mn = "rol" ->
         LET r == V(RotL(s, a, cm % s))  cf == Bit(r, 0) IN
         Ok(Wr([st EXCEPT !.fl = [@ EXCEPT !.CF = cf, !.OF = B01(Msb(s, r) # cf)]], o1, r, npc), npc,
            IF cm # 1 THEN {"OF"} ELSE {}, {})
    [] mn = "ror" ->
         LET r == V(RotR(s, a, cm % s))  cf == Msb(s, r) IN
         Ok(Wr([st EXCEPT !.fl = [@ EXCEPT !.CF = cf, !.OF = B01(Msb(s, r) # Bit(r, s - 2))]], o1, r, npc), npc,
            IF cm # 1 THEN {"OF"} ELSE {}, {})

DShiftExec(ins, st, npc) ==
  LET mn == ins.mn  o1 == ins.ops[1]  s == o1.s  a == Rd(st, o1, npc)  b == Rd(st, ins.ops[2], npc)
      cm == Nat8(Rd(st, ins.ops[3], npc)) % CountMask(s)
  IN
  IF cm = 0 THEN Ok(IF o1.k = "reg" THEN Wr(st, o1, a, npc) ELSE st, npc, {}, {})
  ELSE IF cm > s THEN Unspec("double shift count above operand size")
  ELSE
  LET ab == V(Concat(s, a, s, b))  ba == V(Concat(s, b, s, a))
      r  == V(IF mn = "shld" THEN Trun(s, Shr(2 * s, V(Shl(2 * s, ab, cm)), s)) ELSE Trun(s, V(Shr(2 * s, ba, cm))))
      cf == IF mn = "shld" THEN Bit(a, s - cm) ELSE Bit(a, cm - 1)
  IN Ok(Wr([st EXCEPT !.fl = [SetZS(@, s, r) EXCEPT !.CF = cf, !.OF = B01(Msb(s, r) # Msb(s, a))]], o1, r, npc), npc,
        IF cm # 1 THEN {"OF"} ELSE {}, {})

\* widening multiply / divide through the accumulator pair
WrPair(st, s, lo, hi) ==          \* s = 8: AX <- hi:lo; else A <- lo, D <- hi
  IF s = 8 THEN RegWr(st, Acc(st, 16), Concat(8, hi, 8, lo))
  ELSE RegWr(RegWr(st, Acc(st, s), lo), Dreg(st, s), hi)
RdPair(st, s) ==                  \* the 2s-bit dividend
  IF s = 8 THEN RegRd(st, Acc(st, 16)) ELSE V(Concat(s, RegRd(st, Dreg(st, s)), s, RegRd(st, Acc(st, s))))

MulExec(ins, st, npc) ==
  LET mn == ins.mn  n == Len(ins.ops) IN
  IF n = 1 THEN
    LET o1 == ins.ops[1]  s == o1.s  a == RegRd(st, Acc(st, s))  b == Rd(st, o1, npc)
        p  == V(IF mn = "mul" THEN Mul(2 * s, V(Zext(2 * s, a)), V(Zext(2 * s, b)))
                              ELSE Mul(2 * s, V(Sext(s, 2 * s, a)), V(Sext(s, 2 * s, b))))
        lo == V(Trun(s, p))  hi == V(Trun(s, Shr(2 * s, p, s)))
        ov == IF mn = "mul" THEN B01(~IsZero(hi)) ELSE B01(V(Sext(s, 2 * s, lo)) # p)
    IN Ok(WrPair([st EXCEPT !.fl = [@ EXCEPT !.CF = ov, !.OF = ov]], s, lo, hi), npc, {"ZF", "SF"}, {})
  ELSE
    LET o1 == ins.ops[1]  s == o1.s
        a == Rd(st, IF n = 2 THEN o1 ELSE ins.ops[2], npc)
        b == Rd(st, IF n = 2 THEN ins.ops[2] ELSE ins.ops[3], npc)
        p == V(Mul(2 * s, V(Sext(s, 2 * s, a)), V(Sext(s, 2 * s, b))))
        lo == V(Trun(s, p))
        ov == B01(V(Sext(s, 2 * s, lo)) # p)
    IN Ok(Wr([st EXCEPT !.fl = [@ EXCEPT !.CF = ov, !.OF = ov]], o1, lo, npc), npc, {"ZF", "SF"}, {})

DivExec(ins, st, npc) ==
  LET mn == ins.mn  o1 == ins.ops[1]  s == o1.s  b == Rd(st, o1, npc)  dd == RdPair(st, s) IN
  IF IsZero(b) THEN Fault
  ELSE IF mn = "div" THEN
    LET qr == V(DivModu(2 * s, dd, V(Zext(2 * s, b)))) IN
    IF ~IsZero(Shr(2 * s, qr[1], s)) THEN Fault
    ELSE Ok(WrPair(st, s, V(Trun(s, qr[1])), V(Trun(s, qr[2]))), npc, {"CF", "ZF", "SF", "OF"}, {})
  ELSE
    LET bb == V(Sext(s, 2 * s, b))
        q  == V(Divs(2 * s, dd, bb))
        r  == V(Mods(2 * s, dd, bb))
    IN IF V(Sext(s, 2 * s, V(Trun(s, q)))) # q THEN Fault
       ELSE Ok(WrPair(st, s, V(Trun(s, q)), V(Trun(s, r))), npc, {"CF", "ZF", "SF", "OF"}, {})

BitExec(ins, st, npc) ==
  LET mn == ins.mn  o1 == ins.ops[1]  o2 == ins.ops[2]  s == o1.s  W == st.W
      v  == Rd(st, o2, npc)                                  \* bit offset (s bits, or imm8)
      k  == ToNatCap(Extract(o2.s, v, 0, Lg(s)), 100)        \* offset within the unit
      upd(a, bit) == CASE mn = "bt" -> a [] mn = "btc" -> SetBit(s, a, k, 1 - bit)
                       [] mn = "btr" -> SetBit(s, a, k, 0) [] mn = "bts" -> SetBit(s, a, k, 1)
      und == {"OF", "SF"}
  IN
  IF o1.k = "reg" \/ o2.k = "imm" THEN
    LET a == Rd(st, o1, npc)  bit == Bit(a, k) IN
    Ok(IF mn = "bt" THEN [st EXCEPT !.fl.CF = bit] ELSE Wr([st EXCEPT !.fl.CF = bit], o1, upd(a, bit), npc), npc, und, {})
  ELSE
    \* bit string in memory: unit address = EA + (s/8) * floor(offset / s), offset signed
    LET q   == V(Sext(s, W, V(AShr(s, v, Lg(s)))))
        ua  == V(Add(W, o1.a, V(Shl(W, q, Lg(s) - 3))))
        n   == s \div 8
    IN IF ~InWin(st, ua, n) THEN Unspec("oob")
       ELSE LET a == Ld(st, ua, n)  bit == Bit(a, k) IN
            Ok(IF mn = "bt" THEN [st EXCEPT !.fl.CF = bit] ELSE Sto([st EXCEPT !.fl.CF = bit], ua, n, V(upd(a, bit))), npc, und, {})

ScanExec(ins, st, npc) ==
  LET o1 == ins.ops[1]  s == o1.s  a == Rd(st, ins.ops[2], npc)  und == {"CF", "OF", "SF"} IN
  IF IsZero(a) THEN Ok([st EXCEPT !.fl.ZF = 1], npc, und, {o1.f})
  ELSE LET k == IF ins.mn = "bsf" THEN LowestBit(s, a) ELSE HighestBit(s, a) IN
       Ok(Wr([st EXCEPT !.fl.ZF = 0], o1, FromNat(s, k), npc), npc, und, {})

MovExec(ins, st, npc) ==
  LET mn == ins.mn  o1 == ins.ops[1] IN
  CASE mn \in {"mov", "movnti"} -> Ok(Wr(st, o1, Rd(st, ins.ops[2], npc), npc), npc, {}, {})
    [] mn = "movzx" -> Ok(Wr(st, o1, V(Zext(o1.s, Rd(st, ins.ops[2], npc))), npc), npc, {}, {})
    [] mn \in {"movsx", "movsxd"} -> Ok(Wr(st, o1, V(Sext(ins.ops[2].s, o1.s, Rd(st, ins.ops[2], npc))), npc), npc, {}, {})
    [] mn = "lea" -> LET a == EA(st, ins.ops[2], npc) IN
                     Ok(Wr(st, o1, IF o1.s < st.W THEN V(Trun(o1.s, a)) ELSE a, npc), npc, {}, {})
    [] mn = "xchg" -> LET a == Rd(st, o1, npc)  b == Rd(st, ins.ops[2], npc) IN
                      Ok(Wr(Wr(st, o1, b, npc), ins.ops[2], a, npc), npc, {}, {})
    [] mn = "xadd" -> LET o2 == ins.ops[2]  s == o1.s  a == Rd(st, o1, npc)  b == Rd(st, o2, npc) IN
                      Ok(Wr(Wr([st EXCEPT !.fl = AddFl(@, s, a, b, 0)], o2, a, npc), o1, V(Add(s, a, b)), npc), npc, {}, {})
    [] mn = "cmpxchg" ->
         LET o2 == ins.ops[2]  s == o1.s  acc == RegRd(st, Acc(st, s))  d == Rd(st, o1, npc)
             st1 == [st EXCEPT !.fl = SubFl(@, s, acc, d, 0)]
         \* equal: destination <- source.  Not equal: accumulator <- destination; a register
         \* destination is left alone (the processor does not even zero-extend a 32-bit one; a
         \* memory destination is rewritten with its own value, which is not observable here)
         IN IF acc = d THEN Ok(Wr(st1, o1, Rd(st, o2, npc), npc), npc, {}, {})
            ELSE Ok(RegWr(st1, Acc(st, s), d), npc, {}, {})
    [] mn = "bswap" -> Ok(Wr(st, o1, V(Rev(Rd(st, o1, npc))), npc), npc, {}, {})

ConvExec(ins, st, npc) ==
  LET mn == ins.mn
      fill(s) == IF Msb(s, RegRd(st, Acc(st, s))) = 1 THEN Ones(s) ELSE Zero(s) IN
  CASE mn = "cbw"  -> Ok(RegWr(st, Acc(st, 16), V(Sext(8, 16, RegRd(st, Acc(st, 8))))), npc, {}, {})
    [] mn = "cwde" -> Ok(RegWr(st, Acc(st, 32), V(Sext(16, 32, RegRd(st, Acc(st, 16))))), npc, {}, {})
    [] mn = "cdqe" -> Ok(RegWr(st, Acc(st, 64), V(Sext(32, 64, RegRd(st, Acc(st, 32))))), npc, {}, {})
    [] mn = "cwd"  -> Ok(RegWr(st, Dreg(st, 16), fill(16)), npc, {}, {})
    [] mn = "cdq"  -> Ok(RegWr(st, Dreg(st, 32), fill(32)), npc, {}, {})
    [] mn = "cqo"  -> Ok(RegWr(st, Dreg(st, 64), fill(64)), npc, {}, {})

FlagExec(ins, st, npc) ==
  LET mn == ins.mn IN
  CASE mn = "clc" -> Ok([st EXCEPT !.fl.CF = 0], npc, {}, {})
    [] mn = "stc" -> Ok([st EXCEPT !.fl.CF = 1], npc, {}, {})
    [] mn = "cmc" -> Ok([st EXCEPT !.fl.CF = 1 - @], npc, {}, {})
    [] mn = "cld" -> Ok([st EXCEPT !.fl.DF = 0], npc, {}, {})
    [] mn = "std" -> Ok([st EXCEPT !.fl.DF = 1], npc, {}, {})
    [] mn = "sahf" -> LET ah == RegRd(st, SubReg(RA(st), 8, 8)) IN
                      Ok([st EXCEPT !.fl = [@ EXCEPT !.CF = Bit(ah, 0), !.ZF = Bit(ah, 6), !.SF = Bit(ah, 7)]], npc, {}, {})

StackBytes(ins, st) == IF ins.sz = 16 THEN 2 ELSE st.W \div 8
StackExec(ins, st, addr, npc) ==
  LET mn == ins.mn  W == st.W  n == StackBytes(ins, st)  nops == Len(ins.ops)
      oobr == Unspec("oob") IN
  CASE mn = "push" ->
         LET v == Rd(st, ins.ops[1], npc)  t == V(Push(st, n, v)) IN IF IsOob(t) THEN oobr ELSE Ok(t, npc, {}, {})
    [] mn = "pop" ->
         IF ~PopOK(st, n) THEN oobr
         ELSE LET v == PopVal(st, n)  t == V(PopSt(st, n))  o1 == ins.ops[1] IN
              IF o1.k = "mem" /\ ~InWin(t, EA(t, o1, npc), n) THEN oobr ELSE Ok(Wr(t, o1, v, npc), npc, {}, {})
    [] mn = "leave" ->
         LET t == V(SetReg(st, RSP(st), st.regs[RBP(st)])) IN
         IF ~PopOK(t, n) THEN oobr ELSE Ok(SetReg(PopSt(t, n), RBP(st), PopVal(t, n)), npc, {}, {})
    [] mn = "call" ->
         LET o1 == ins.ops[1]
             tgt == IF o1.k = "rel" THEN PcAdd(st, addr, o1.v) ELSE Rd(st, o1, npc)
             t == V(Push(st, n, npc))
         IN IF IsOob(t) THEN oobr ELSE Ok(t, tgt, {}, {})
    [] mn = "ret" ->
         IF ~PopOK(st, n) THEN oobr
         ELSE LET t == V(PopSt(st, n))
                  u == IF nops = 0 THEN t ELSE SetReg(t, RSP(st), Add(W, SP(t), V(Zext(W, ins.ops[1].v))))
              IN Ok(u, PopVal(st, n), {}, {})

BranchExec(ins, st, addr, npc) ==
  LET mn == ins.mn  o1 == ins.ops[1]  W == st.W
      tgt == IF o1.k = "rel" THEN PcAdd(st, addr, o1.v) ELSE Rd(st, o1, npc)
      cx == st.regs[RC(st)]  cx1 == V(Sub(W, cx, One(W))) IN
  CASE mn = "jmp" -> Ok(st, tgt, {}, {})
    [] mn = "loop"   -> Ok(SetReg(st, RC(st), cx1), IF ~IsZero(cx1) THEN tgt ELSE npc, {}, {})
    [] mn = "loope"  -> Ok(SetReg(st, RC(st), cx1), IF ~IsZero(cx1) /\ st.fl.ZF = 1 THEN tgt ELSE npc, {}, {})
    [] mn = "loopne" -> Ok(SetReg(st, RC(st), cx1), IF ~IsZero(cx1) /\ st.fl.ZF = 0 THEN tgt ELSE npc, {}, {})
    [] mn = "jrcxz"  -> Ok(st, IF IsZero(cx) THEN tgt ELSE npc, {}, {})
    [] mn = "jecxz"  -> Ok(st, IF IsZero(Trun(32, cx)) THEN tgt ELSE npc, {}, {})
    [] mn = "jcxz"   -> Ok(st, IF IsZero(Trun(16, cx)) THEN tgt ELSE npc, {}, {})
    [] mn = "jcc"    -> IF ~CondKnown(ins.cc) THEN Unspec("parity flag")
                        ELSE Ok(st, IF Cond(st.fl, ins.cc) THEN tgt ELSE npc, {}, {})

StringExec(ins, st, npc) ==
  LET asz == IF "as" \in DOMAIN ins THEN ins.as ELSE st.W
      t == V(IF ins.pfx = "" THEN StrIter(ins.mn, st, ins.sz, asz) ELSE RepLoop(ins.mn, ins.pfx, st, ins.sz, asz, 64)) IN
  IF IsOob(t) THEN Unspec("oob") ELSE Ok(t, npc, {}, {})

\* 128-bit memory operands of legacy SSE instructions must be 16-byte aligned
Misaligned(ins, st, npc) ==
  ins.mn \notin {"movdqu", "movups"} /\
  \E j \in 1..Len(ins.ops) : ins.ops[j].k = "ea" /\ ins.ops[j].s = 128 /\ ins.ops[j].a[1] % 16 # 0

SseMoves == {"movaps", "movups", "movapd", "movdqa", "movdqu"}
SseBin == {"paddq", "psubq", "psubb", "pxor", "por", "pcmpeqb", "pcmpeqd", "pminub", "punpcklbw", "punpcklwd"}
SseExec(ins, st, npc) ==
  LET mn == ins.mn  o1 == ins.ops[1]  o2 == ins.ops[2] IN
  IF Misaligned(ins, st, npc) THEN Fault ELSE
  CASE mn \in SseMoves -> Ok(Wr(st, o1, Rd(st, o2, npc), npc), npc, {}, {})
    [] mn = "movq" ->
         LET v == Lo64(Rd(st, o2, npc)) IN            \* low 8 bytes of the source (a 64-bit source is itself)
         Ok(Wr(st, o1, IF o1.k = "xmm" THEN v \o Z8 ELSE v, npc), npc, {}, {})
    [] mn = "movd" ->
         LET v == V(SubSeq(Rd(st, o2, npc), 1, 4)) IN
         Ok(Wr(st, o1, IF o1.k = "xmm" THEN Zext(128, v) ELSE v, npc), npc, {}, {})
    [] mn = "movhpd" -> IF o1.k = "xmm" THEN Ok(Wr(st, o1, Lo64(st.x[o1.n]) \o Rd(st, o2, npc), npc), npc, {}, {})
                        ELSE Ok(Wr(st, o1, Hi64(st.x[o2.n]), npc), npc, {}, {})
    [] mn = "movlpd" -> IF o1.k = "xmm" THEN Ok(Wr(st, o1, Rd(st, o2, npc) \o Hi64(st.x[o1.n]), npc), npc, {}, {})
                        ELSE Ok(Wr(st, o1, Lo64(st.x[o2.n]), npc), npc, {}, {})
    [] mn = "movsd_sse" ->
         IF o1.k = "xmm" /\ o2.k = "xmm" THEN Ok(Wr(st, o1, Lo64(st.x[o2.n]) \o Hi64(st.x[o1.n]), npc), npc, {}, {})
         ELSE IF o1.k = "xmm" THEN Ok(Wr(st, o1, Rd(st, o2, npc) \o Z8, npc), npc, {}, {})
         ELSE Ok(Wr(st, o1, Lo64(st.x[o2.n]), npc), npc, {}, {})
    [] mn \in SseBin ->
         LET a == Rd(st, o1, npc)  b == Rd(st, o2, npc)
             r == CASE mn = "paddq" -> Lanes(8, LAMBDA k : Add(64, Lane(a, k, 8), Lane(b, k, 8)))
                    [] mn = "psubq" -> Lanes(8, LAMBDA k : Sub(64, Lane(a, k, 8), Lane(b, k, 8)))
                    [] mn = "psubb" -> [i \in 1..16 |-> (a[i] + 256 - b[i]) % 256]
                    [] mn = "pxor"  -> BvXor(128, a, b)
                    [] mn = "por"   -> BvOr(128, a, b)
                    [] mn = "pcmpeqb" -> [i \in 1..16 |-> IF a[i] = b[i] THEN 255 ELSE 0]
                    [] mn = "pcmpeqd" -> Lanes(4, LAMBDA k : IF Lane(a, k, 4) = Lane(b, k, 4) THEN Ones(32) ELSE Zero(32))
                    [] mn = "pminub"  -> [i \in 1..16 |-> IF a[i] < b[i] THEN a[i] ELSE b[i]]
                    [] mn = "punpcklbw" -> [i \in 1..16 |-> IF i % 2 = 1 THEN a[(i + 1) \div 2] ELSE b[i \div 2]]
                    [] mn = "punpcklwd" -> Lanes(4, LAMBDA k : Lane(a, k, 2) \o Lane(b, k, 2))
         IN Ok(Wr(st, o1, r, npc), npc, {}, {})
    [] mn = "pmovmskb" ->
         LET a == st.x[o2.n]
             top(i) == a[i] \div 128
             lo == top(1) + 2 * top(2) + 4 * top(3) + 8 * top(4) + 16 * top(5) + 32 * top(6) + 64 * top(7) + 128 * top(8)
             hi == top(9) + 2 * top(10) + 4 * top(11) + 8 * top(12) + 16 * top(13) + 32 * top(14) + 64 * top(15) + 128 * top(16)
         IN Ok(Wr(st, o1, <<lo, hi, 0, 0>>, npc), npc, {}, {})
    [] mn = "pshufd" ->
         LET a == Rd(st, o2, npc)  c == Nat8(ins.ops[3].v)
             sel(k) == (c \div (4 ^ k)) % 4
         IN Ok(Wr(st, o1, Lanes(4, LAMBDA k : Lane(a, sel(k), 4)), npc), npc, {}, {})
    [] mn = "pslldq" -> LET a == st.x[o1.n]  c == Nat8(o2.v) IN
                        Ok(Wr(st, o1, [i \in 1..16 |-> IF i - c >= 1 THEN a[i - c] ELSE 0], npc), npc, {}, {})
    [] mn = "psrldq" -> LET a == st.x[o1.n]  c == Nat8(o2.v) IN
                        Ok(Wr(st, o1, [i \in 1..16 |-> IF i + c <= 16 THEN a[i + c] ELSE 0], npc), npc, {}, {})

Nops == {"nop", "pause", "wait", "prefetcht0", "prefetcht1", "prefetcht2", "prefetchnta"}
NotModelled == {"cli", "sti", "hlt", "int", "syscall", "sysenter", "ud2", "lahf"}
StringMn == {"movs", "stos", "lods", "scas", "cmps"}
SseMn == SseMoves \cup SseBin \cup {"movq", "movd", "movhpd", "movlpd", "movsd_sse", "pmovmskb", "pshufd", "pslldq", "psrldq"}

Resolve(ins, st, npc) ==
  [ins EXCEPT !.ops = V([j \in 1..Len(ins.ops) |->
      IF ins.ops[j].k = "mem" /\ ins.mn \notin NoPlainAccess
      THEN [k |-> "ea", s |-> ins.ops[j].s, a |-> EA(st, ins.ops[j], npc)] ELSE ins.ops[j]])]

ExecR(ins, st, addr, npc) ==
  LET mn == ins.mn IN
  CASE mn \in Alu2 -> Alu2Exec(ins, st, npc)
    [] mn \in {"inc", "dec", "neg", "not"} -> Alu1Exec(ins, st, npc)
    [] mn \in {"shl", "shr", "sar", "rol", "ror"} -> ShiftExec(ins, st, npc)
    [] mn \in {"shld", "shrd"} -> DShiftExec(ins, st, npc)
    [] mn \in {"mul", "imul"} -> MulExec(ins, st, npc)
    [] mn \in {"div", "idiv"} -> DivExec(ins, st, npc)
    [] IsBitOp(mn) -> BitExec(ins, st, npc)
    [] mn \in {"bsf", "bsr"} -> ScanExec(ins, st, npc)
    [] mn \in {"mov", "movnti", "movzx", "movsx", "movsxd", "lea", "xchg", "xadd", "cmpxchg", "bswap"} -> MovExec(ins, st, npc)
    [] mn \in {"cbw", "cwde", "cdqe", "cwd", "cdq", "cqo"} -> ConvExec(ins, st, npc)
    [] mn \in {"clc", "stc", "cmc", "cld", "std", "sahf"} -> FlagExec(ins, st, npc)
    [] mn \in {"push", "pop", "leave", "call", "ret"} -> StackExec(ins, st, addr, npc)
    [] mn \in StringMn -> StringExec(ins, st, npc)
    [] mn \in SseMn -> SseExec(ins, st, npc)
    [] mn \in Nops -> Ok(st, npc, {}, {})
    [] mn = "cmovcc" ->
         LET cc == ins.cc  o1 == ins.ops[1] IN
         IF ~CondKnown(cc) THEN Unspec("parity flag")
         ELSE Ok(Wr(st, o1, IF Cond(st.fl, cc) THEN Rd(st, ins.ops[2], npc) ELSE Rd(st, o1, npc), npc), npc, {}, {})
    [] mn = "setcc" ->
         IF ~CondKnown(ins.cc) THEN Unspec("parity flag")
         ELSE Ok(Wr(st, ins.ops[1], FromNat(8, B01(Cond(st.fl, ins.cc))), npc), npc, {}, {})
    [] mn \in {"jmp", "jcc", "loop", "loope", "loopne", "jrcxz", "jecxz", "jcxz"} -> BranchExec(ins, st, addr, npc)
    [] OTHER -> Unspec("no semantics for " \o mn)

Exec(ins, st, addr) ==
  LET npc == V(Add(st.W, addr, FromNat(st.W, ins.len))) IN
  IF ins.mn \in NotModelled THEN Unspec("not modelled: " \o ins.mn)
  ELSE IF \E j \in 1..Len(ins.ops) : ins.ops[j].k = "mem" /\ "seg" \in DOMAIN ins.ops[j] /\ ins.ops[j].seg \in {"fs", "gs"}
       THEN Unspec("fs/gs segment base")       \* es/cs/ss/ds: base 0 (64-bit mode, flat 32-bit model)
  ELSE IF ~ExplicitOK(ins, st, npc) THEN Unspec("oob")
  ELSE ExecR(V(Resolve(ins, st, npc)), st, addr, npc)
=============================================================================
