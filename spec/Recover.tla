------------------------------ MODULE Recover ------------------------------
(***************************************************************************)
(* Property C06: what function recovery must produce, over an abstract     *)
(* ISA, and a model of falcon's translate_function_extended.               *)
(*                                                                         *)
(* Part 1 - the architecture's side.  A program is a function from         *)
(* instruction start addresses (naturals) to descriptors                   *)
(*    [len, kind, t]   kind \in "fall" | "jump" | "cond" | "call" | "ind"  *)
(* ("ind": indirect jump / return; "call" returns to the next              *)
(* instruction, its target is another function).  Manual edges <<h, t>>    *)
(* declare targets of the indirect jump at h.                              *)
(*    Succs / ReachInstr        ISAs without delay slots                   *)
(*    DStep / DReach / DSuccs   ISAs with one delay slot (MIPS): machine   *)
(*                              states are <<pc, npc>> pairs               *)
(*                                                                         *)
(* Part 2 - what a recovered function is checked for (shared by the model  *)
(* checking of Part 3 and by Trace_C06 on real lifter output).  A          *)
(* recovered function is [blocks |-> id :> sequence of native addresses,   *)
(* edges |-> set of <<head, tail, conditional?>>, entry |-> id].           *)
(*                                                                         *)
(* Part 3 - a model of translate_function_extended (no delay slots):       *)
(* work list of block addresses, windows of W bytes, per-address sharing   *)
(* of instructions between overlapping blocks, chain edges, manual and     *)
(* successor edges with duplicate suppression, entry, merge.               *)
(***************************************************************************)
EXTENDS Integers, Sequences, FiniteSets, TLC

(* ------------------------------ Part 1 ---------------------------------- *)
Starts(prog)   == DOMAIN prog
NextOf(prog, a) == a + prog[a].len
ManualTargets(manual, a) == { m[2] : m \in { x \in manual : x[1] = a } }

Succs(prog, manual, a) ==
  LET i == prog[a] IN
  CASE i.kind = "fall" -> {NextOf(prog, a)}
    [] i.kind = "call" -> {NextOf(prog, a)}
    [] i.kind = "jump" -> {i.t}
    [] i.kind = "cond" -> {i.t, NextOf(prog, a)}
    [] OTHER           -> ManualTargets(manual, a)

RECURSIVE Closure(_, _, _)
\* least set containing F and closed under step(x); S = visited so far
Closure(step(_), S, F) ==
  IF F = {} THEN S
  ELSE LET N == (UNION { step(x) : x \in F }) \ S IN Closure(step, TLCEval(S \cup N), TLCEval(N))

ReachInstr(prog, manual, roots) ==
  LET step(a) == IF a \in Starts(prog) THEN Succs(prog, manual, a) ELSE {} IN
  Closure(step, roots, roots)

\* ---- one delay slot: state <<pc, npc>>; every instruction is `w` bytes long.  npc = Exit: control
\* leaves the function after the instruction at pc (delay slot of an indirect jump without declared targets)
Exit == -1
DStep(prog, manual, w, s) ==
  LET pc == s[1]  npc == s[2]
      nxt(x) == IF npc = Exit THEN {} ELSE {<<npc, x>>} IN
  IF pc \notin Starts(prog) THEN {} ELSE
  LET i == prog[pc] IN
  CASE i.kind = "jump" -> nxt(i.t)
    [] i.kind = "cond" -> nxt(i.t) \cup nxt(npc + w)
    [] i.kind = "ind"  -> LET T == ManualTargets(manual, pc) IN
                          IF T = {} THEN nxt(Exit) ELSE UNION { nxt(t) : t \in T }
    [] OTHER           -> nxt(npc + w)                             \* fall, call (returns behind its delay slot)
DReach(prog, manual, w, roots) ==
  LET step(s) == DStep(prog, manual, w, s)
      R0 == { <<r, r + w>> : r \in roots } IN
  Closure(step, R0, R0)
DInstr(reach)     == { s[1] : s \in reach }
DSuccs(reach, a)  == { s[2] : s \in { x \in reach : x[1] = a } } \ {Exit}     \* the instruction executed after a

(* ------------------------------ Part 2 ---------------------------------- *)
BlockIds(f)   == DOMAIN f.blocks
OutEdges(f, b) == { e \in f.edges : e[1] = b }
SuccBlocks(f, b) == { e[2] : e \in OutEdges(f, b) }

NoDangling(f) == /\ f.entry \in BlockIds(f)
                 /\ \A e \in f.edges : e[1] \in BlockIds(f) /\ e[2] \in BlockIds(f)

\* first native address met when control enters block b (through empty blocks; `fuel` bounds cycles of
\* empty blocks)
RECURSIVE HeadOf(_, _, _)
HeadOf(f, b, fuel) ==
  IF b \notin BlockIds(f) THEN {}
  ELSE IF Len(f.blocks[b]) > 0 THEN {f.blocks[b][1]}
  ELSE IF fuel = 0 THEN {}
  ELSE UNION { HeadOf(f, s, fuel - 1) : s \in SuccBlocks(f, b) }
Fuel(f) == Cardinality(BlockIds(f))
AfterBlock(f, b) == UNION { HeadOf(f, s, Fuel(f)) : s \in SuccBlocks(f, b) }

\* native successor relation of the recovered function: a -> a' when a' can be the next native
\* instruction after a (consecutive in a block, or across edges); positions of the same address
\* (an instruction lifted to several IL instructions / blocks) are one instruction
NativePairs(f) ==
  UNION { LET s == f.blocks[b] IN
          { <<s[i], s[i + 1]>> : i \in 1..(Len(s) - 1) }
          \cup (IF Len(s) = 0 THEN {} ELSE { <<s[Len(s)], x>> : x \in AfterBlock(f, b) })
        : b \in BlockIds(f) }
NativeSuccs(pairs, a) == { p[2] : p \in { q \in pairs : q[1] = a /\ q[2] # a } }
AddrsOf(f) == UNION { { f.blocks[b][i] : i \in 1..Len(f.blocks[b]) } : b \in BlockIds(f) }
Occurrences(f, a) == { <<b, i>> \in UNION { {b} \X (1..Len(f.blocks[b])) : b \in BlockIds(f) } : f.blocks[b][i] = a }

(* ------------------------------ Part 3 ---------------------------------- *)
\* translate_block on the bytes [a, a + avail): instructions in order, successors <<addr, conditional?>>;
\* ok = FALSE models Err (undecodable first instruction)
RECURSIVE TBlockR(_, _, _, _, _)
TBlockR(prog, a, avail, off, ins) ==
  LET cur == a + off IN
  IF off >= avail THEN [ok |-> TRUE, ins |-> ins, succ |-> <<<<cur, FALSE>>>>]          \* window used up
  ELSE IF cur \notin Starts(prog) THEN [ok |-> FALSE, ins |-> ins, succ |-> <<>>]
  ELSE IF off + prog[cur].len > avail                                                   \* instruction cut by the window
       THEN (IF off = 0 THEN [ok |-> FALSE, ins |-> ins, succ |-> <<>>]
             ELSE [ok |-> TRUE, ins |-> ins, succ |-> <<<<cur, FALSE>>>>])
  ELSE LET i == prog[cur]  ins1 == Append(ins, cur)  nx == cur + i.len IN
       CASE i.kind = "jump" -> [ok |-> TRUE, ins |-> ins1, succ |-> <<<<i.t, FALSE>>>>]
         [] i.kind = "cond" -> [ok |-> TRUE, ins |-> ins1, succ |-> <<<<i.t, TRUE>>, <<nx, TRUE>>>>]
         [] i.kind = "ind"  -> [ok |-> TRUE, ins |-> ins1, succ |-> <<>>]
         [] OTHER           -> TBlockR(prog, a, avail, off + i.len, ins1)
TBlock(prog, size, W, a) ==
  LET avail == IF a >= size THEN 0 ELSE (IF size - a < W THEN size - a ELSE W) IN
  IF avail = 0 THEN [ok |-> TRUE, ins |-> <<a>>, succ |-> <<>>, empty |-> TRUE]          \* unmapped: an empty block
  ELSE LET r == TBlockR(prog, a, avail, 0, <<>>) IN [ok |-> r.ok, ins |-> r.ins, succ |-> r.succ, empty |-> FALSE]

\* phase 1: work list.  res: address :> block result
RECURSIVE Discover(_, _, _, _, _)
Discover(prog, size, W, queue, res) ==
  IF queue = <<>> THEN [ok |-> TRUE, res |-> res]
  ELSE LET a == Head(queue)  rest == Tail(queue) IN
       IF a \in DOMAIN res THEN Discover(prog, size, W, rest, res)
       ELSE LET r == TBlock(prog, size, W, a) IN
            IF ~r.ok THEN [ok |-> FALSE, res |-> res]
            ELSE LET new == SelectSeq([k \in 1..Len(r.succ) |-> r.succ[k][1]],
                                      LAMBDA x : \A k \in 1..Len(rest) : rest[k] # x)
                 IN Discover(prog, size, W, TLCEval(rest \o new), TLCEval(res @@ (a :> r)))

SortedSeq(S) == LET RECURSIVE Srt(_) Srt(T) == IF T = {} THEN <<>> ELSE
                      LET m == CHOOSE x \in T : \A y \in T : x <= y IN <<m>> \o Srt(T \ {m})
                IN Srt(S)
HasEdge(E, u, v) == \E e \in E : e[1] = u /\ e[2] = v

\* phase 2: one vertex per instruction ADDRESS (sharing), chain edges inside every block (added only
\* when absent).  SharingByAddress = FALSE models the mutant that keys vertices by (block, address).
RECURSIVE Chain(_, _, _)
Chain(E, vs, k) == IF k >= Len(vs) THEN E
                   ELSE Chain(IF HasEdge(E, vs[k], vs[k + 1]) THEN E ELSE E \cup {<<vs[k], vs[k + 1], FALSE>>}, vs, k + 1)
RECURSIVE AddEdges(_, _, _)
AddEdges(E, cand, k) == IF k > Len(cand) THEN E
                        ELSE AddEdges(IF HasEdge(E, cand[k][1], cand[k][2]) THEN E ELSE E \cup {cand[k]}, cand, k + 1)

Assemble(res, manual, function, byAddress) ==
  LET order == SortedSeq(DOMAIN res)
      vid(blk, addr) == IF byAddress THEN addr ELSE <<blk, addr>>
      vseq(blk) == [k \in 1..Len(res[blk].ins) |-> vid(blk, res[blk].ins[k])]
      RECURSIVE Chains(_, _)
      Chains(E, k) == IF k > Len(order) THEN E ELSE Chains(Chain(E, vseq(order[k]), 1), k + 1)
      E1 == Chains({}, 1)
      first(blk) == vseq(blk)[1]
      last(blk)  == vseq(blk)[Len(vseq(blk))]
      mseq == LET ms == SortedSeq({ m[1] * 1000 + m[2] : m \in manual }) IN
              [k \in 1..Len(ms) |-> <<last(ms[k] \div 1000), first(ms[k] % 1000), FALSE>>]
      E2 == AddEdges(E1, mseq, 1)
      sseq == LET RECURSIVE Cat(_) Cat(k) == IF k > Len(order) THEN <<>> ELSE
                    [j \in 1..Len(res[order[k]].succ) |->
                       <<last(order[k]), first(res[order[k]].succ[j][1]), res[order[k]].succ[j][2]>>] \o Cat(k + 1)
              IN Cat(1)
      E3 == AddEdges(E2, sseq, 1)
      V  == UNION { { vseq(b)[k] : k \in 1..Len(vseq(b)) } : b \in DOMAIN res }
      \* an unmapped address is lifted to an empty block (no instruction)
      body(v) == IF byAddress THEN (IF v \in DOMAIN res /\ res[v].empty THEN <<>> ELSE <<v>>)
                 ELSE (IF res[v[1]].empty THEN <<>> ELSE <<v[2]>>)
  IN [blocks |-> [v \in V |-> body(v)], edges |-> E3, entry |-> first(function)]

\* phase 3: merge u with its only successor v when the edge is unconditional, v has no other
\* predecessor and v is not the entry
MergeCandidates(f) ==
  { e \in f.edges : /\ ~e[3]
                    /\ e[1] # e[2]          \* (the code would merge a block into itself and fail; such a block is unreachable)
                    /\ Cardinality(OutEdges(f, e[1])) = 1
                    /\ Cardinality({ x \in f.edges : x[2] = e[2] }) = 1
                    /\ e[2] # f.entry }
RECURSIVE Merge(_)
Merge(f) ==
  LET C == MergeCandidates(f) IN
  IF C = {} THEN f
  ELSE LET e == CHOOSE x \in C : TRUE  u == e[1]  v == e[2] IN
       Merge(TLCEval([blocks |-> [b \in DOMAIN f.blocks \ {v} |-> IF b = u THEN f.blocks[u] \o f.blocks[v] ELSE f.blocks[b]],
                           edges  |-> { x \in f.edges : x[1] # v /\ x[2] # v /\ x # e }
                                      \cup { <<u, x[2], x[3]>> : x \in { y \in f.edges : y[1] = v /\ y[2] # v } }
                                      \cup { <<u, u, x[3]>> : x \in { y \in f.edges : y[1] = v /\ y[2] = v } },
                           entry  |-> f.entry]))

\* the whole thing; ok = FALSE when a block cannot be lifted
Lift(prog, size, W, function, manual, byAddress) ==
  LET q0 == <<function>> \o (LET ms == SortedSeq({ m[1] * 1000 + m[2] : m \in manual }) IN
                             LET RECURSIVE Q(_) Q(k) == IF k > Len(ms) THEN <<>> ELSE <<ms[k] \div 1000, ms[k] % 1000>> \o Q(k + 1) IN Q(1))
      d == Discover(prog, size, W, q0, <<>>)
  IN IF ~d.ok THEN [ok |-> FALSE] ELSE [ok |-> TRUE, f |-> Merge(Assemble(d.res, manual, function, byAddress)), res |-> d.res]
=============================================================================
