------------------------------ MODULE CfgImpl ------------------------------
(***************************************************************************)
(* Implementation-shaped model of ControlFlowGraph::merge as it is written *)
(* in lib/il/control_flow_graph.rs (one RECURSIVE level per loop           *)
(* iteration).  Design evidence only: results about this module never      *)
(* produce a VIOLATION, because a changed implementation does not change   *)
(* this text.  MC_Cfg checks it against the relation Cfg!MergeOK on all    *)
(* small graphs and thereby documents two model findings:                  *)
(*                                                                         *)
(*  F1  `exit` is never updated: when the exit block is merged into its    *)
(*      predecessor, exit() names a removed block (WF broken: ExitOK).     *)
(*      Everything else of WF, and the language, is preserved.             *)
(*  F2  a non-entry block whose only in- and out-edge is one unconditional *)
(*      self-loop is selected as the pair (a, a): its instructions are     *)
(*      duplicated, inserting the edge a->a fails ("duplicate edge") and   *)
(*      merge returns Err half-way.  Such a block is unreachable from the  *)
(*      entry, so WF and the language still hold; the property as stated   *)
(*      is not violated (see parts/C15.design.md).                         *)
(*                                                                         *)
(* Both became targeted generator cases of harness/src/bin/c15.rs.         *)
(***************************************************************************)
EXTENDS Cfg

\* ascending list of the elements of a finite set of integers
RECURSIVE Sorted(_)
Sorted(S) == IF S = {} THEN <<>>
             ELSE LET m == CHOOSE x \in S : \A y \in S : x <= y IN <<m>> \o Sorted(S \ {m})

\* first loop of one round: select the pairs (block, successor) to merge, in block order
RECURSIVE Select(_,_,_,_,_)
Select(G, order, j, busy, merges) ==
  IF j > Len(order) THEN merges
  ELSE LET b == order[j]
           out == OutEdges(G, b)
       IN IF b \in busy \/ Cardinality(out) # 1 THEN Select(G, order, j + 1, busy, merges)
          ELSE LET e == CHOOSE e \in out : TRUE IN
               IF \/ e.c # Uncond
                  \/ G.entry = e.t
                  \/ e.t \in busy
                  \/ Cardinality(InEdges(G, e.t)) # 1
               THEN Select(G, order, j + 1, busy, merges)
               ELSE Select(G, order, j + 1, busy \cup {b, e.t}, Append(merges, <<b, e.t>>))

NextIdx(ins) == MaxIdx(ins) + 1      \* stands for next_instruction_index (any unused index)

\* second loop of one round: apply the selected merges; [g, err]
RECURSIVE Apply(_,_,_)
Apply(G, merges, j) ==
  IF j > Len(merges) THEN [g |-> G, err |-> FALSE]
  ELSE LET a == merges[j][1]
           s == merges[j][2]
           base == NextIdx(G.B[a])
           moved == [x \in 1..Len(G.B[s]) |-> [G.B[s][x] EXCEPT !.i = base + x - 1]]
           G1 == [G EXCEPT !.B[a] = G.B[a] \o moved]              \* Block::append of the clone
           new == { [h |-> a, t |-> e.t, c |-> e.c] : e \in OutEdges(G1, s) }
           dup == \E e \in new : \E f \in G1.E : f.h = e.h /\ f.t = e.t
       IN IF dup THEN [g |-> G1, err |-> TRUE]                     \* insert_edge fails, `?` returns
          ELSE LET G2 == [G1 EXCEPT !.E = G1.E \cup new]
                   G3 == [B |-> Restrict(G2.B, BlockIds(G2) \ {s}),     \* remove_vertex(s)
                          E |-> { e \in G2.E : e.h # s /\ e.t # s },
                          entry |-> G2.entry, exit |-> G2.exit]          \* exit is not touched
               IN Apply(TLCEval(G3), merges, j + 1)

RECURSIVE ImplMerge(_)
ImplMerge(G) ==
  LET merges == Select(G, Sorted(BlockIds(G)), 1, {}, <<>>) IN
  IF Len(merges) = 0 THEN [g |-> G, err |-> FALSE]
  ELSE LET r == TLCEval(Apply(G, merges, 1)) IN
       IF r.err THEN r ELSE ImplMerge(r.g)

\* what MC_Cfg establishes about the implementation-shaped merge
WFExceptExit(G) == EdgesJoinBlocks(G) /\ EdgesKeyed(G) /\ InsIndicesUnique(G) /\ EntryOK(G)
ImplMergeFacts(G, k) ==
  LET r == ImplMerge(G) IN
  /\ WFExceptExit(r.g)
  /\ Lang(r.g, k) = Lang(G, k)
  /\ ~ExitOK(r.g) => G.exit \in BlockIds(G) \ BlockIds(r.g)                       \* F1, and only F1
  /\ r.err => \E a \in BlockIds(r.g) : [h |-> a, t |-> a, c |-> Uncond] \in r.g.E  \* F2, and only F2
  /\ ~r.err => MergeablePairs(r.g) = {}                                            \* merges to completion
=============================================================================
