--------------------------------- MODULE IL ---------------------------------
(***************************************************************************)
(* Falcon IL: abstract syntax (deep embedding as records), sorts, and the  *)
(* evaluation of expressions over BV.                                      *)
(*                                                                         *)
(* Value        [w |-> width, v |-> limb sequence]                         *)
(* Expression   [k |-> "const",  w, v]                                     *)
(*              [k |-> "scalar", n |-> name, w, ssa |-> version or -1]     *)
(*              [k |-> binop, a, b]       binop \in BinOps \cup CmpOps      *)
(*              [k |-> "zext"|"sext"|"trun", w |-> target width, a]        *)
(*              [k |-> "ite", c, a, b]                                     *)
(* Result of evaluation: [ok |-> value] or [err |-> token], token one of   *)
(* "Sort", "DivideByZero", "ExecutorScalar"; the token "Unspecified" marks  *)
(* an if-then-else whose condition is not 1 bit wide (the constructors     *)
(* never build one; the statement gives it no meaning; never judged).      *)
(*                                                                         *)
(* Nodes may carry further fields (the harness logs falcon's own bits()    *)
(* as "w" on every node); Eval and Bits never trust them for inner nodes.  *)
(***************************************************************************)
EXTENDS BV, FiniteSets

ArithOps == {"add", "sub", "mul", "divu", "modu", "divs", "mods", "and", "or", "xor",
             "shl", "shr", "ashr"}
CmpOps   == {"cmpeq", "cmpneq", "cmplts", "cmpltu"}
ExtOps   == {"zext", "sext", "trun"}
DivOps   == {"divu", "modu", "divs", "mods"}

Val(w, v) == [w |-> w, v |-> v]
Ok(x)     == [ok |-> x]
Err(t)    == [err |-> t]
IsOk(r)   == "ok" \in DOMAIN r
IsErr(r)  == "err" \in DOMAIN r

(* ------------------------------ sorts ---------------------------------- *)
\* the width falcon's Expression::bits() reports (left operand for binary nodes)
RECURSIVE Bits(_)
Bits(e) ==
  CASE e.k \in {"const", "scalar"} -> e.w
    [] e.k \in ArithOps           -> Bits(e.a)
    [] e.k \in CmpOps             -> 1
    [] e.k \in ExtOps             -> e.w
    [] e.k = "ite"                -> Bits(e.a)

\* the width rules of the IL (what the constructors are meant to guarantee)
RECURSIVE WellFormedExpr(_)
WellFormedExpr(e) ==
  CASE e.k = "const"   -> e.w >= 1 /\ IsBV(e.w, e.v)
    [] e.k = "scalar"  -> e.w >= 1
    [] e.k \in ArithOps \cup CmpOps ->
         WellFormedExpr(e.a) /\ WellFormedExpr(e.b) /\ Bits(e.a) = Bits(e.b)
    [] e.k \in {"zext", "sext"} -> WellFormedExpr(e.a) /\ Bits(e.a) < e.w
    [] e.k = "trun"    -> WellFormedExpr(e.a) /\ e.w >= 1 /\ e.w < Bits(e.a)
    [] e.k = "ite"     -> /\ WellFormedExpr(e.c) /\ WellFormedExpr(e.a) /\ WellFormedExpr(e.b)
                          /\ Bits(e.c) = 1 /\ Bits(e.a) = Bits(e.b)

RECURSIVE Scalars(_)
\* the set of <<name, width, ssa>> occurring in e
Scalars(e) ==
  CASE e.k = "const"  -> {}
    [] e.k = "scalar" -> {<<e.n, e.w, e.ssa>>}
    [] e.k \in ArithOps \cup CmpOps -> Scalars(e.a) \cup Scalars(e.b)
    [] e.k \in ExtOps -> Scalars(e.a)
    [] e.k = "ite"    -> Scalars(e.c) \cup Scalars(e.a) \cup Scalars(e.b)
ScalarNames(e) == { s[1] : s \in Scalars(e) }

(* ---------------------------- evaluation ------------------------------- *)
\* one binary operator on two values of equal width w
ApplyBin(op, w, x, y) ==
  CASE op = "add"  -> Ok(Val(w, Add(w, x, y)))
    [] op = "sub"  -> Ok(Val(w, Sub(w, x, y)))
    [] op = "mul"  -> Ok(Val(w, Mul(w, x, y)))
    [] op = "and"  -> Ok(Val(w, BvAnd(w, x, y)))
    [] op = "or"   -> Ok(Val(w, BvOr(w, x, y)))
    [] op = "xor"  -> Ok(Val(w, BvXor(w, x, y)))
    [] op = "shl"  -> Ok(Val(w, ShlV(w, x, y)))
    [] op = "shr"  -> Ok(Val(w, ShrV(w, x, y)))
    [] op = "ashr" -> Ok(Val(w, AShrV(w, x, y)))
    [] op = "divu" -> IF IsZero(y) THEN Err("DivideByZero") ELSE Ok(Val(w, Divu(w, x, y)))
    [] op = "modu" -> IF IsZero(y) THEN Err("DivideByZero") ELSE Ok(Val(w, Modu(w, x, y)))
    [] op = "divs" -> IF IsZero(y) THEN Err("DivideByZero") ELSE Ok(Val(w, Divs(w, x, y)))
    [] op = "mods" -> IF IsZero(y) THEN Err("DivideByZero") ELSE Ok(Val(w, Mods(w, x, y)))
    [] op = "cmpeq"  -> Ok(Val(1, Bool(Eq(w, x, y))))
    [] op = "cmpneq" -> Ok(Val(1, Bool(~Eq(w, x, y))))
    [] op = "cmpltu" -> Ok(Val(1, Bool(Ltu(w, x, y))))
    [] op = "cmplts" -> Ok(Val(1, Bool(Lts(w, x, y))))

\* binary operator on two values: width mismatch is a sort error
BinVal(op, x, y) == IF x.w # y.w THEN Err("Sort") ELSE ApplyBin(op, x.w, x.v, y.v)

ExtVal(op, wt, x) ==
  CASE op = "zext" -> IF wt <= x.w THEN Err("Sort") ELSE Ok(Val(wt, Zext(wt, x.v)))
    [] op = "sext" -> IF wt <= x.w THEN Err("Sort") ELSE Ok(Val(wt, Sext(x.w, wt, x.v)))
    [] op = "trun" -> IF wt >= x.w \/ wt < 1 THEN Err("Sort") ELSE Ok(Val(wt, Trun(wt, x.v)))

\* env: function from scalar name to value; a name outside DOMAIN env is undefined.
\* Left-to-right, errors propagate, ite evaluates only the selected arm.
RECURSIVE Eval(_,_)
Eval(e, env) ==
  CASE e.k = "const"  -> Ok(Val(e.w, e.v))
    [] e.k = "scalar" -> IF e.n \in DOMAIN env THEN Ok(env[e.n]) ELSE Err("ExecutorScalar")
    [] e.k \in ArithOps \cup CmpOps ->
         LET x == TLCEval(Eval(e.a, env)) IN
         IF IsErr(x) THEN x ELSE
         LET y == TLCEval(Eval(e.b, env)) IN
         IF IsErr(y) THEN y ELSE BinVal(e.k, x.ok, y.ok)
    [] e.k \in ExtOps ->
         LET x == TLCEval(Eval(e.a, env)) IN
         IF IsErr(x) THEN x ELSE ExtVal(e.k, e.w, x.ok)
    [] e.k = "ite" ->
         LET c == TLCEval(Eval(e.c, env)) IN
         IF IsErr(c) THEN c
         ELSE IF c.ok.w # 1 THEN Err("Unspecified")      \* a condition that is not 1 bit wide: no meaning given
         ELSE IF c.ok.v = <<1>> THEN Eval(e.a, env) ELSE Eval(e.b, env)

\* Every error some evaluation order (strict or lazy) of e could raise: the property
\* fixes the kind of error per cause, not which of several causes is reported first.
RECURSIVE ErrSet(_,_)
ErrSet(e, env) ==
  CASE e.k = "const"  -> {}
    [] e.k = "scalar" -> IF e.n \in DOMAIN env THEN {} ELSE {"ExecutorScalar"}
    [] e.k \in ArithOps \cup CmpOps ->
         LET sub == ErrSet(e.a, env) \cup ErrSet(e.b, env)
             x == Eval(e.a, env)  y == Eval(e.b, env)
         IN IF IsOk(x) /\ IsOk(y)
            THEN LET r == BinVal(e.k, x.ok, y.ok) IN sub \cup (IF IsErr(r) THEN {r.err} ELSE {})
            ELSE sub
    [] e.k \in ExtOps ->
         LET x == Eval(e.a, env) IN
         ErrSet(e.a, env) \cup
           (IF IsOk(x) THEN LET r == ExtVal(e.k, e.w, x.ok) IN IF IsErr(r) THEN {r.err} ELSE {} ELSE {})
    [] e.k = "ite" -> ErrSet(e.c, env) \cup ErrSet(e.a, env) \cup ErrSet(e.b, env)

\* is `res` (an [ok |-> value] / [err |-> token] record) an allowed outcome of evaluating e
EvalAllows(e, env, res) ==
  LET r == Eval(e, env) IN
  IF IsOk(r) THEN res = r
  ELSE IF r.err = "Unspecified" THEN TRUE           \* outside the property (only reachable by
                                                    \* building an if-then-else around the constructors)
  ELSE IsErr(res) /\ res.err \in ErrSet(e, env)

(* ---------------------------- constructors ----------------------------- *)
\* What building a node from well-formed children must return: the node, or "Sort".
MkBin(op, a, b) == IF Bits(a) # Bits(b) THEN Err("Sort") ELSE Ok([k |-> op, a |-> a, b |-> b])
MkExt(op, wt, a) ==
  IF (op \in {"zext", "sext"} /\ Bits(a) >= wt) \/ (op = "trun" /\ (Bits(a) <= wt \/ wt < 1))
  THEN Err("Sort") ELSE Ok([k |-> op, w |-> wt, a |-> a])
MkIte(c, a, b) == IF Bits(c) # 1 \/ Bits(a) # Bits(b) THEN Err("Sort")
                  ELSE Ok([k |-> "ite", c |-> c, a |-> a, b |-> b])

\* structural equality of expressions ignoring extra logged fields
RECURSIVE SameExpr(_,_)
SameExpr(e, f) ==
  /\ e.k = f.k
  /\ CASE e.k = "const"  -> e.w = f.w /\ e.v = f.v
       [] e.k = "scalar" -> e.n = f.n /\ e.w = f.w /\ e.ssa = f.ssa
       [] e.k \in ArithOps \cup CmpOps -> SameExpr(e.a, f.a) /\ SameExpr(e.b, f.b)
       [] e.k \in ExtOps -> e.w = f.w /\ SameExpr(e.a, f.a)
       [] e.k = "ite"    -> SameExpr(e.c, f.c) /\ SameExpr(e.a, f.a) /\ SameExpr(e.b, f.b)
=============================================================================
