------------------------------- MODULE Graph -------------------------------
(***************************************************************************)
(* C11 - directed graphs: the edit machine over four views, and the        *)
(* textbook definitions of the algorithms of falcon's lib/graph/mod.rs.    *)
(*                                                                         *)
(* An edge is a pair <<head, tail>> and goes from head to tail (falcon's   *)
(* naming).  An abstract graph is a record g with fields V (set of vertex  *)
(* ids) and E (set of edges); further fields are ignored.                  *)
(*                                                                         *)
(* Part 1 is the edit machine: four variables, as in the implementation,   *)
(* and the obligation ViewsConsistent.  Part 2 gives the definitions; all  *)
(* rooted definitions speak about the subgraph reachable from the root r   *)
(* ("vertices unreachable from the root are excluded").  Where the         *)
(* property leaves a choice (which DFS order, which topological order,     *)
(* which acyclic subgraph, how the nesting relation is drawn) there is an  *)
(* acceptance predicate instead of a function.                             *)
(***************************************************************************)
EXTENDS Integers, Sequences, FiniteSets, TLC

ToSet(q)     == { q[i] : i \in 1..Len(q) }
NoDup(q)     == Cardinality(ToSet(q)) = Len(q)

-----------------------------------------------------------------------------
(* Part 2a: reachability (needed by RemoveUnreachable below)               *)

Succ(g, v) == { e[2] : e \in { e \in g.E : e[1] = v } }
Pred(g, v) == { e[1] : e \in { e \in g.E : e[2] = v } }

RECURSIVE ReachFrom(_, _, _)
\* S: vertices seen so far, F: frontier (the part of S whose successors were not looked at yet)
ReachFrom(g, S, F) ==
  IF F = {} THEN S
  ELSE LET N == TLCEval((UNION { Succ(g, v) : v \in F }) \ S)
       IN ReachFrom(g, TLCEval(S \cup N), N)
\* vertices reachable from r by a path of length >= 0
Reach(g, r)     == ReachFrom(g, {r}, {r})
\* vertices reachable from v by a path of length >= 1
ReachPlus(g, v) == LET S == Succ(g, v) IN ReachFrom(g, S, S)

-----------------------------------------------------------------------------
(* Part 1: the edit machine                                                *)

VARIABLES vertices,   \* set of vertex ids
          edges,      \* set of <<head, tail>>
          succ,       \* function: vertex id -> set of successor ids
          pred        \* function: vertex id -> set of predecessor ids
gvars == <<vertices, edges, succ, pred>>

Cur    == [V |-> vertices, E |-> edges, S |-> succ, P |-> pred]
Set(s) == vertices' = s.V /\ edges' = s.E /\ succ' = s.S /\ pred' = s.P

\* the four views of the graph with vertex set V and edge set E
Canon(V, E) == [V |-> V, E |-> E,
                S |-> [v \in V |-> { e[2] : e \in { e \in E : e[1] = v } }],
                P |-> [v \in V |-> { e[1] : e \in { e \in E : e[2] = v } }]]
EmptyGraph == Canon({}, {})

ViewsConsistentIn(s) ==
  /\ s.E \subseteq s.V \X s.V
  /\ DOMAIN s.S = s.V /\ DOMAIN s.P = s.V
  /\ \A v \in s.V : /\ s.S[v] = { e[2] : e \in { e \in s.E : e[1] = v } }
                    /\ s.P[v] = { e[1] : e \in { e \in s.E : e[2] = v } }
ViewsConsistent == ViewsConsistentIn(Cur)

\* state transformers, each written view by view
InsV(s, v) == [V |-> s.V \cup {v}, E |-> s.E,
               S |-> [x \in DOMAIN s.S \cup {v} |-> IF x = v THEN {} ELSE s.S[x]],
               P |-> [x \in DOMAIN s.P \cup {v} |-> IF x = v THEN {} ELSE s.P[x]]]
InsE(s, h, t) == [V |-> s.V, E |-> s.E \cup {<<h, t>>},
                  S |-> [s.S EXCEPT ![h] = @ \cup {t}],
                  P |-> [s.P EXCEPT ![t] = @ \cup {h}]]
RemE(s, h, t) == [V |-> s.V, E |-> s.E \ {<<h, t>>},
                  S |-> [s.S EXCEPT ![h] = @ \ {t}],
                  P |-> [s.P EXCEPT ![t] = @ \ {h}]]
RemV(s, v) == [V |-> s.V \ {v}, E |-> { e \in s.E : e[1] # v /\ e[2] # v },
               S |-> [x \in DOMAIN s.S \ {v} |-> s.S[x] \ {v}],
               P |-> [x \in DOMAIN s.P \ {v} |-> s.P[x] \ {v}]]
RemU(s, r) == LET R == Reach(s, r) IN
              [V |-> R, E |-> { e \in s.E : e[1] \in R /\ e[2] \in R },
               S |-> [x \in DOMAIN s.S \cap R |-> s.S[x] \cap R],
               P |-> [x \in DOMAIN s.P \cap R |-> s.P[x] \cap R]]

\* guards: when the operation succeeds (otherwise it reports an error and changes nothing)
CanInsV(s, v)    == v \notin s.V                                          \* no duplicate index
CanInsE(s, h, t) == h \in s.V /\ t \in s.V /\ <<h, t>> \notin s.E          \* endpoints exist, no duplicate edge
CanRemV(s, v)    == v \in s.V
CanRemE(s, h, t) == <<h, t>> \in s.E
CanRemU(s, r)    == r \in s.V

InsertVertex(v)         == CanInsV(Cur, v) /\ Set(InsV(Cur, v))
InsertVertexErr(v)      == ~CanInsV(Cur, v) /\ UNCHANGED gvars
InsertEdge(h, t)        == CanInsE(Cur, h, t) /\ Set(InsE(Cur, h, t))
InsertEdgeErr(h, t)     == ~CanInsE(Cur, h, t) /\ UNCHANGED gvars
RemoveVertex(v)         == CanRemV(Cur, v) /\ Set(RemV(Cur, v))
RemoveVertexErr(v)      == ~CanRemV(Cur, v) /\ UNCHANGED gvars
RemoveEdge(h, t)        == CanRemE(Cur, h, t) /\ Set(RemE(Cur, h, t))
RemoveEdgeErr(h, t)     == ~CanRemE(Cur, h, t) /\ UNCHANGED gvars
RemoveUnreachable(r)    == CanRemU(Cur, r) /\ Set(RemU(Cur, r))
RemoveUnreachableErr(r) == ~CanRemU(Cur, r) /\ UNCHANGED gvars

\* the same, dispatched on an operation record [op |-> "insert_vertex", v |-> id] etc.
\* (used by the trace specification, which first computes what must be observed)
OpOk(s, o) ==
  CASE o.op = "insert_vertex"      -> CanInsV(s, o.v)
    [] o.op = "insert_edge"        -> CanInsE(s, o.h, o.t)
    [] o.op = "remove_vertex"      -> CanRemV(s, o.v)
    [] o.op = "remove_edge"        -> CanRemE(s, o.h, o.t)
    [] o.op = "remove_unreachable" -> CanRemU(s, o.r)
OpPost(s, o) ==
  CASE o.op = "insert_vertex"      -> InsV(s, o.v)
    [] o.op = "insert_edge"        -> InsE(s, o.h, o.t)
    [] o.op = "remove_vertex"      -> RemV(s, o.v)
    [] o.op = "remove_edge"        -> RemE(s, o.h, o.t)
    [] o.op = "remove_unreachable" -> RemU(s, o.r)
Do(o) ==
  CASE o.op = "insert_vertex"      -> InsertVertex(o.v)
    [] o.op = "insert_edge"        -> InsertEdge(o.h, o.t)
    [] o.op = "remove_vertex"      -> RemoveVertex(o.v)
    [] o.op = "remove_edge"        -> RemoveEdge(o.h, o.t)
    [] o.op = "remove_unreachable" -> RemoveUnreachable(o.r)
DoErr(o) ==
  CASE o.op = "insert_vertex"      -> InsertVertexErr(o.v)
    [] o.op = "insert_edge"        -> InsertEdgeErr(o.h, o.t)
    [] o.op = "remove_vertex"      -> RemoveVertexErr(o.v)
    [] o.op = "remove_edge"        -> RemoveEdgeErr(o.h, o.t)
    [] o.op = "remove_unreachable" -> RemoveUnreachableErr(o.r)

InitEmpty == vertices = {} /\ edges = {} /\ succ = EmptyGraph.S /\ pred = EmptyGraph.P

-----------------------------------------------------------------------------
(* Part 2b: dominance                                                      *)

Without(g, d)          == [V |-> g.V \ {d}, E |-> { e \in g.E : e[1] # d /\ e[2] # d }]
\* vertices that can be reached from r by a path that does not contain d
ReachAvoiding(g, r, d) == IF r = d THEN {} ELSE Reach(Without(g, d), r)

\* d dominates v: both are reachable and every path from r to v passes through d
Dom(g, r, d, v)  == /\ v \in Reach(g, r) /\ d \in Reach(g, r)
                    /\ (d = v \/ v \notin ReachAvoiding(g, r, d))
SDom(g, r, d, v) == d # v /\ Dom(g, r, d, v)

\* The dominance relation as a table D: dominator -> set of vertices it dominates
\* (DOMAIN D = Reach(g, r)).  Everything below is defined from such a table, so that the
\* model checker can feed the same text with a second, independent formulation of dominance.
DomRel(g, r) == LET R == TLCEval(Reach(g, r)) IN
                TLCEval([d \in R |-> R \ ReachAvoiding(g, r, d)])

DomsOf(D, v)  == { d \in DOMAIN D : v \in D[d] }
SDomsOf(D, v) == DomsOf(D, v) \ {v}
\* the immediate dominator: the strict dominator that every other strict dominator dominates
IDomOf(D, v)  == LET sd == TLCEval(SDomsOf(D, v)) IN
                 CHOOSE d \in sd : \A x \in sd : d \in D[x]
IDomMap(D, r) == [v \in DOMAIN D \ {r} |-> IDomOf(D, v)]
\* the dominator tree, as its edge set {<<idom(v), v>>}
DomTreeEdges(D, r) == { <<IDomOf(D, v), v>> : v \in DOMAIN D \ {r} }

\* Cytron et al.: DF(x) = { y : x dominates a predecessor of y and x does not strictly dominate y }
DFOf(g, D, x) == { y \in DOMAIN D : /\ \E p \in Pred(g, y) \cap DOMAIN D : p \in D[x]
                                    /\ ~(x # y /\ y \in D[x]) }

\* back edge: its tail (target) dominates its head (source)
BackEdgesOf(g, D) == { e \in g.E : e[1] \in DOMAIN D /\ e[2] \in DOMAIN D /\ e[1] \in D[e[2]] }
HeadersOf(g, D)   == { e[2] : e \in BackEdgesOf(g, D) }

RECURSIVE BackReach(_, _, _, _)
\* vertices from which F can be reached backwards without entering h
BackReach(g, h, S, F) ==
  IF F = {} THEN S
  ELSE LET N == TLCEval(((UNION { Pred(g, v) : v \in F }) \ S) \ {h})
       IN BackReach(g, h, TLCEval(S \cup N), N)
\* natural loop of header h (the loops of all back edges into h merged): h and every reachable
\* vertex that reaches the source of a back edge into h without passing through h
LoopOf(g, D, h) == LET T == { e[1] : e \in { e \in BackEdgesOf(g, D) : e[2] = h } } \ {h}
                   IN {h} \cup (BackReach(g, h, T, T) \cap DOMAIN D)
LoopsOf(g, D)   == { <<h, LoopOf(g, D, h)>> : h \in HeadersOf(g, D) }
\* loop h1 nests loop h2
NestOf(g, D)    == LET H == HeadersOf(g, D) IN
                   { p \in H \X H : p[1] # p[2] /\ p[2] \in LoopOf(g, D, p[1]) }

\* reducible: the graph of forward edges (all edges but the back edges) is acyclic
ReducibleOf(g, D) ==
  LET R  == DOMAIN D
      fe == [V |-> R, E |-> { e \in g.E : e[1] \in R /\ e[2] \in R } \ BackEdgesOf(g, D)]
  IN \A v \in R : v \notin ReachPlus(fe, v)

\* the same with the root as parameter
Doms(g, r, v)   == DomsOf(DomRel(g, r), v)
IDom(g, r, v)   == IDomOf(DomRel(g, r), v)
DF(g, r, x)     == DFOf(g, DomRel(g, r), x)
BackEdges(g, r) == BackEdgesOf(g, DomRel(g, r))
Loops(g, r)     == LoopsOf(g, DomRel(g, r))
Reducible(g, r) == ReducibleOf(g, DomRel(g, r))

-----------------------------------------------------------------------------
(* Part 2c: cycles, transitive predecessors, topological order             *)

IsAcyclicFrom(g, r) == \A v \in Reach(g, r) : v \notin ReachPlus(g, v)
HasCycle(g)         == \E v \in g.V : v \in ReachPlus(g, v)
OnCycle(g, e)       == e[1] \in Reach(g, e[2])          \* the edge lies on a cycle

\* every vertex from which v can be reached by at least one edge
TransPred(g, v)    == { u \in g.V : v \in ReachPlus(g, u) }
NoPreds(g)         == { v \in g.V : Pred(g, v) = {} }
NoSuccs(g)         == { v \in g.V : Succ(g, v) = {} }
Unreachable(g, r)  == g.V \ Reach(g, r)

\* seq is a topological order of the whole graph (one exists iff there is no cycle)
IsTopological(g, seq) ==
  /\ NoDup(seq) /\ ToSet(seq) = g.V
  /\ \A i, j \in 1..Len(seq) : <<seq[i], seq[j]>> \in g.E => i < j

\* transitive closure of a relation (set of pairs)
RECURSIVE Closure(_)
Closure(R) == LET N == TLCEval(R \cup { <<p[1][1], p[2][2]>> : p \in { q \in R \X R : q[1][2] = q[2][1] } })
              IN IF N = R THEN R ELSE Closure(N)

\* a is an acceptable "acyclic version of g seen from r": nothing but edges is dropped, what is
\* reachable from r stays reachable, no cycle is left among the reachable vertices, and every edge
\* dropped from the reachable part lay on a cycle
IsAcyclicSubgraph(g, r, a) ==
  LET R == TLCEval(Reach(g, r)) IN
  /\ R \subseteq a.V /\ a.V \subseteq g.V
  /\ a.E \subseteq g.E
  /\ Reach(a, r) = R
  /\ IsAcyclicFrom(a, r)
  /\ \A e \in g.E \ a.E : e[1] \in R => OnCycle(g, e)

-----------------------------------------------------------------------------
(* Part 2d: depth-first orders (any depth-first search is accepted)        *)

RECURSIVE PreOK(_, _, _, _, _)
\* seq[i..] still to be discovered; stack = the current DFS path; seen = discovered vertices.
\* The search must descend from the top of the stack while it has an undiscovered successor and
\* must backtrack otherwise.
PreOK(g, seq, i, stack, seen) ==
  IF stack = <<>> THEN i > Len(seq)
  ELSE LET top == stack[Len(stack)] IN
       IF Succ(g, top) \subseteq seen
       THEN PreOK(g, seq, i, SubSeq(stack, 1, Len(stack) - 1), seen)
       ELSE /\ i <= Len(seq)
            /\ seq[i] \in Succ(g, top) \ seen
            /\ PreOK(g, seq, i + 1, Append(stack, seq[i]), TLCEval(seen \cup {seq[i]}))
IsDfsPreOrder(g, r, seq) ==
  /\ Len(seq) >= 1 /\ seq[1] = r /\ r \in g.V
  /\ PreOK(g, seq, 2, <<r>>, {r})

RECURSIVE PostOK(_, _, _, _, _)
\* seq[i..] still to finish; blocks = the finished subtrees that have no finished parent yet
\* (sequence of [root, nodes], in order of finishing); fin = finished vertices.
\* When v finishes it adopts the longest run of most recent blocks whose roots are successors
\* of v (adopting more never hurts: it only gives those vertices one more ancestor).  The search
\* was a legal DFS iff every already finished predecessor of v is then a descendant of v
\* (otherwise that predecessor finished while its successor v was still undiscovered).
PostOK(g, seq, i, blocks, fin) ==
  IF i > Len(seq) THEN Len(blocks) = 1
  ELSE LET v  == seq[i]
           sv == TLCEval(Succ(g, v))
           \* first index j such that all blocks j..Len(blocks) have their root in sv
           j  == CHOOSE j \in 1..(Len(blocks) + 1) :
                   /\ \A k \in j..Len(blocks) : blocks[k].root \in sv
                   /\ (j > 1 => blocks[j - 1].root \notin sv)
           nodes == TLCEval({v} \cup UNION { blocks[k].nodes : k \in j..Len(blocks) })
       IN /\ v \notin fin
          /\ (Pred(g, v) \cap fin) \subseteq nodes
          /\ PostOK(g, seq, i + 1,
                    TLCEval(Append(SubSeq(blocks, 1, j - 1), [root |-> v, nodes |-> nodes])),
                    TLCEval(fin \cup {v}))
IsDfsPostOrder(g, r, seq) ==
  /\ Len(seq) >= 1 /\ seq[Len(seq)] = r /\ r \in g.V
  /\ ToSet(seq) = Reach(g, r)
  /\ PostOK(g, seq, 1, <<>>, {})

\* t is the tree of some depth-first search of g from r: a spanning tree of the reachable part
\* made of edges of g, and the children of every vertex can be ordered so that every cross edge
\* of g leads into a subtree visited earlier
IsDfsTree(g, r, t) ==
  LET R    == TLCEval(Reach(g, r))
      Desc == TLCEval([v \in R |-> IF v \in t.V THEN Reach(t, v) ELSE {v}])
      par(v) == CHOOSE p \in Pred(t, v) : TRUE
      \* the child of a whose subtree contains x (x a proper descendant of a)
      childTo(a, x) == CHOOSE c \in Succ(t, a) : x \in Desc[c]
      cross == { e \in g.E : e[1] \in R /\ e[2] \in R /\ e[2] \notin Desc[e[1]] /\ e[1] \notin Desc[e[2]] }
      lca(e) == CHOOSE a \in R : /\ e[1] \in Desc[a] /\ e[2] \in Desc[a]
                                 /\ \A b \in R : (e[1] \in Desc[b] /\ e[2] \in Desc[b]) => a \in Desc[b]
      \* "the subtree of the first must be visited before the subtree of the second"
      before == { <<childTo(lca(e), e[2]), childTo(lca(e), e[1])>> : e \in cross }
  IN /\ t.V = R /\ t.E \subseteq g.E
     /\ Pred(t, r) = {}
     /\ \A v \in R \ {r} : Cardinality(Pred(t, v)) = 1
     /\ Reach(t, r) = R
     /\ ~HasCycle([V |-> R, E |-> before])
=============================================================================
