------------------------------ MODULE MC_Mips ------------------------------
(***************************************************************************)
(* Design-level checks of Mips.tla (no implementation involved).           *)
(*                                                                         *)
(* 1. UnitIsNpcMachine: the unit of validation MUnit (branch + delay slot: *)
(*    condition, target and link from the state before the delay slot, the *)
(*    delay slot executes, then control transfers) equals two steps of the *)
(*    textbook machine with an explicit next-pc register                   *)
(*        execute instruction at PC;  PC <- nPC;  nPC <- nPC + 4 | target  *)
(*    in which a branch computes target and link from nPC (the address of  *)
(*    its delay slot), on a small instruction set: every branch/jump form  *)
(*    x delay-slot instructions that write the branch's source, write or   *)
(*    read the link register, load, store x boundary register values x     *)
(*    code addresses at a 256 MiB region boundary and at the sign boundary.*)
(* 2. PartialWordLemmas: lwl/lwr/swl/swr (shift-and-mask formulation of    *)
(*    Mips.tla) equal a byte-by-byte formulation for both endiannesses and *)
(*    every alignment, and the unaligned-access idioms (lwl+lwr, swl+swr)  *)
(*    transfer exactly the four bytes at an arbitrary address.             *)
(* 3. KnownAnswers: a few hand-computed results (HI/LO of products,        *)
(*    accumulate, division signs, clz/clo, slt vs sltu, sign/zero          *)
(*    extension of immediates).                                            *)
(***************************************************************************)
EXTENDS Mips

\* ---- encoders (test vectors only; the decoder under test is MDecode) ---------------------
EncR(op, rs, rt, rd, sa, fn) == <<(sa % 4) * 64 + fn, rd * 8 + sa \div 4, (rs % 8) * 32 + rt, op * 4 + rs \div 8>>
EncI(op, rs, rt, imm)        == <<imm % 256, imm \div 256, (rs % 8) * 32 + rt, op * 4 + rs \div 8>>
EncJ(op, idx)                == <<idx % 256, (idx \div 256) % 256, (idx \div 65536) % 256, op * 4 + idx \div 16777216>>

BranchWords == <<
  EncI(4, 1, 2, 3),            \* beq  $1, $2, +3
  EncI(5, 1, 2, 65534),        \* bne  $1, $2, -2
  EncI(6, 1, 0, 5),            \* blez $1
  EncI(7, 1, 0, 32767),        \* bgtz $1, +0x7fff
  EncI(1, 1, 0, 32768),        \* bltz $1, -0x8000
  EncI(1, 1, 1, 2),            \* bgez $1
  EncI(1, 1, 16, 7),           \* bltzal $1
  EncI(1, 1, 17, 65520),       \* bgezal $1, -16
  EncI(1, 0, 17, 9),           \* bal
  EncJ(2, 1048592),            \* j
  EncJ(3, 67108863),           \* jal  (all ones index)
  EncR(0, 1, 0, 0, 0, 8),      \* jr   $1
  EncR(0, 31, 0, 0, 0, 8),     \* jr   $31
  EncR(0, 1, 0, 31, 0, 9),     \* jalr $1
  EncR(0, 1, 0, 3, 0, 9)       \* jalr $3, $1
>>
DelayWords == <<
  EncR(0, 0, 0, 0, 0, 0),      \* nop
  EncI(9, 1, 1, 1),            \* addiu $1, $1, 1        writes the branch's source
  EncR(0, 2, 1, 1, 0, 35),     \* subu  $1, $2, $1
  EncR(0, 1, 2, 31, 0, 33),    \* addu  $31, $1, $2      writes the link register
  EncR(0, 31, 0, 2, 0, 37),    \* or    $2, $31, $0      reads the link register
  EncR(0, 31, 0, 3, 0, 37),    \* or    $3, $31, $0      reads $31, writes the other link register
  EncI(15, 0, 2, 32768),       \* lui   $2, 0x8000
  EncR(0, 2, 1, 1, 0, 42),     \* slt   $1, $2, $1
  EncI(43, 4, 31, 0),          \* sw    $31, 0($4)       stores the link register
  EncI(35, 4, 1, 4)            \* lw    $1, 4($4)        loads the branch's source
>>
Vals  == << <<0,0,0,0>>, <<1,0,0,0>>, <<0,0,0,128>>, <<252,255,255,255>>, <<252,255,255,127>>, <<0,32,0,0>> >>
RaVals == << <<0,64,0,0>>, <<255,255,255,255>> >>
Pcs   == << <<0,0,64,0>>, <<252,255,255,15>>, <<248,255,255,127>>, <<0,32,0,128>> >>
WinAt == <<0, 1, 0, 0>>                                     \* 0x100

StateOf(v1, v2, ra) ==
  [gpr |-> [i \in 1..32 |-> CASE i = 2 -> v1 [] i = 3 -> v2 [] i = 4 -> <<4, 3, 2, 1>> [] i = 5 -> WinAt
                                 [] i = 32 -> ra [] OTHER -> <<i, 0, 0, 0>>],
   hi |-> <<1, 2, 3, 4>>, lo |-> <<5, 6, 7, 8>>, mem |-> <<17, 34, 51, 68, 85, 102, 119, 136>>, win |-> WinAt]

\* ---- the reference: explicit nPC ----------------------------------------------------------
RefBranch(d, st, npc) ==               \* [taken, target, link]; targets and link are relative to nPC
  LET rs == MR(st, d.rs)  rt == MR(st, d.rt)
      rel == Add(32, npc, Shl(32, Sext(16, 32, d.imm), 2))
      reg == BvOr(32, BvAnd(32, npc, <<0, 0, 0, 240>>), Shl(32, BvAnd(32, d.w, <<255, 255, 255, 3>>), 2))
      neg == rs[4] >= 128
      zer == rs = <<0, 0, 0, 0>>
  IN CASE d.mn = "beq"    -> [taken |-> rs = rt,        target |-> rel, link |-> -1]
       [] d.mn = "bne"    -> [taken |-> rs # rt,        target |-> rel, link |-> -1]
       [] d.mn = "blez"   -> [taken |-> neg \/ zer,     target |-> rel, link |-> -1]
       [] d.mn = "bgtz"   -> [taken |-> ~neg /\ ~zer,   target |-> rel, link |-> -1]
       [] d.mn = "bltz"   -> [taken |-> neg,            target |-> rel, link |-> -1]
       [] d.mn = "bgez"   -> [taken |-> ~neg,           target |-> rel, link |-> -1]
       [] d.mn = "bltzal" -> [taken |-> neg,            target |-> rel, link |-> 31]
       [] d.mn = "bgezal" -> [taken |-> ~neg,           target |-> rel, link |-> 31]
       [] d.mn = "j"      -> [taken |-> TRUE,           target |-> reg, link |-> -1]
       [] d.mn = "jal"    -> [taken |-> TRUE,           target |-> reg, link |-> 31]
       [] d.mn = "jr"     -> [taken |-> TRUE,           target |-> rs,  link |-> -1]
       [] d.mn = "jalr"   -> [taken |-> TRUE,           target |-> rs,  link |-> d.rd]

\* one step of the machine; m = [st, pc, npc]; fetch(pc) gives the word
RefStep(fetch(_), m, big) ==
  LET d == MDecode(fetch(m.pc))  seq4 == Add(32, m.npc, N32(4)) IN
  IF MIsBranch(d.mn)
  THEN LET b == RefBranch(d, m.st, m.npc)
           st1 == IF b.link >= 0 THEN MW(m.st, b.link, seq4) ELSE m.st        \* link = nPC + 4
       IN [st |-> st1, pc |-> m.npc, npc |-> IF b.taken THEN b.target ELSE seq4]
  ELSE [st |-> MExec1(d, m.st, big)[1].st, pc |-> m.npc, npc |-> seq4]

VARIABLES bi, di, vi
vars == <<bi, di, vi>>
Init == bi \in 1..Len(BranchWords) /\ di \in 1..Len(DelayWords) /\ vi = 0
Next == vi = 0 /\ vi' \in 1..(Len(Vals) * Len(Vals) * Len(RaVals)) /\ UNCHANGED <<bi, di>>
Spec == Init /\ [][Next]_vars

UnitIsNpcMachineAt(pc, big) ==
  LET k  == vi - 1
      v1 == Vals[(k % Len(Vals)) + 1]
      v2 == Vals[((k \div Len(Vals)) % Len(Vals)) + 1]
      ra == RaVals[(k \div (Len(Vals) * Len(Vals))) + 1]
      st == StateOf(v1, v2, ra)
      bw == BranchWords[bi]  dw == DelayWords[di]
      fetch(a) == IF a = pc THEN bw ELSE dw
      u  == MUnit(<<bw, dw>>, st, pc, big)
      m1 == RefStep(fetch, [st |-> st, pc |-> pc, npc |-> Add(32, pc, N32(4))], big)
      m2 == RefStep(fetch, m1, big)
  IN /\ Len(u) = 1
     /\ u[1].k \in {"ok", "unspec"}
     /\ u[1].k = "ok" => /\ m1.pc = Add(32, pc, N32(4))
                         /\ u[1].st = m2.st
                         /\ u[1].npc = m2.pc
     \* the cases this scope leaves undefined are exactly the architecture's: unaligned jump target
     /\ u[1].k = "unspec" => MDecode(bw).mn \in {"jr", "jalr"} /\ MR(st, MDecode(bw).rs)[1] % 4 # 0

UnitIsNpcMachine ==
  vi > 0 => \A p \in 1..Len(Pcs) : \A big \in BOOLEAN : UnitIsNpcMachineAt(Pcs[p], big)

\* ---- 2. partial-word accesses -------------------------------------------------------------
\* byte-by-byte: register bytes R[0..3] (R[0] most significant = limb 4), memory bytes of the
\* aligned word m[1..4] in memory order, k = offset of the effective address inside the word
LwlBytes(big, k, m, rt) == [j \in 1..4 |-> LET i == 4 - j IN
                             IF big THEN (IF i <= 3 - k THEN m[k + i + 1] ELSE rt[j])
                                    ELSE (IF i <= k THEN m[k - i + 1] ELSE rt[j])]
LwrBytes(big, k, m, rt) == [j \in 1..4 |-> LET i == j - 1 IN
                             IF big THEN (IF i <= k THEN m[k - i + 1] ELSE rt[j])
                                    ELSE (IF i <= 3 - k THEN m[k + i + 1] ELSE rt[j])]
SwlBytes(big, k, m, rt) == [p \in 1..4 |-> LET o == p - 1 IN
                             IF big THEN (IF o >= k THEN rt[4 - (o - k)] ELSE m[p])
                                    ELSE (IF o <= k THEN rt[4 - (k - o)] ELSE m[p])]
SwrBytes(big, k, m, rt) == [p \in 1..4 |-> LET o == p - 1 IN
                             IF big THEN (IF o <= k THEN rt[1 + k - o] ELSE m[p])
                                    ELSE (IF o >= k THEN rt[o - k + 1] ELSE m[p])]
M4 == <<17, 34, 51, 68>>
RT == <<221, 204, 187, 170>>                       \* 0xaabbccdd
ByteWise ==
  \A big \in BOOLEAN : \A k \in 0..3 :
    LET W == ValOf(M4, big) IN
    /\ LwlVal(big, k, W, RT) = LwlBytes(big, k, M4, RT)
    /\ LwrVal(big, k, W, RT) = LwrBytes(big, k, M4, RT)
    /\ BytesOf(SwlWord(big, k, W, RT), big) = SwlBytes(big, k, M4, RT)
    /\ BytesOf(SwrWord(big, k, W, RT), big) = SwrBytes(big, k, M4, RT)

\* the idioms, through MExec1 on real encodings: $4 = base, $8 = data register, window of 16 bytes
IdiomState(a) == [gpr |-> [i \in 1..32 |-> CASE i = 5 -> Add(32, <<0, 1, 0, 0>>, N32(a)) [] i = 9 -> RT [] OTHER -> <<0, 0, 0, 0>>],
                  hi |-> <<0, 0, 0, 0>>, lo |-> <<0, 0, 0, 0>>,
                  mem |-> <<1, 2, 3, 4, 5, 6, 7, 8, 9, 10, 11, 12, 13, 14, 15, 16>>, win |-> <<0, 1, 0, 0>>]
LWL(o) == MDecode(EncI(34, 4, 8, o))   LWR(o) == MDecode(EncI(38, 4, 8, o))
SWL(o) == MDecode(EncI(42, 4, 8, o))   SWR(o) == MDecode(EncI(46, 4, 8, o))
Idioms ==
  \A big \in BOOLEAN : \A a \in 4..8 :
    LET st == IdiomState(a)
        first(o1, o2)  == IF big THEN o1 ELSE o2
        \* big endian: lwl 0(a); lwr 3(a)      little endian: lwr 0(a); lwl 3(a)
        l1 == MExec1(IF big THEN LWL(0) ELSE LWR(0), st, big)[1].st
        l2 == MExec1(IF big THEN LWR(3) ELSE LWL(3), l1, big)[1].st
        s1 == MExec1(IF big THEN SWL(0) ELSE SWR(0), st, big)[1].st
        s2 == MExec1(IF big THEN SWR(3) ELSE SWL(3), s1, big)[1].st
    IN /\ l2.gpr[9] = ValOf(<<a + 1, a + 2, a + 3, a + 4>>, big)
       /\ l2.mem = st.mem
       /\ s2.mem = [j \in 1..16 |-> IF j > a /\ j <= a + 4 THEN BytesOf(RT, big)[j - a] ELSE st.mem[j]]
       /\ s2.gpr = st.gpr

PartialWordLemmas == ByteWise /\ Idioms

\* ---- 3. known answers ----------------------------------------------------------------------
KState(a, b) == [gpr |-> [i \in 1..32 |-> CASE i = 2 -> a [] i = 3 -> b [] OTHER -> <<0, 0, 0, 0>>],
                 hi |-> <<2, 0, 0, 0>>, lo |-> <<1, 0, 0, 0>>, mem |-> <<0, 0, 0, 0, 0, 0, 0, 0>>, win |-> <<0, 1, 0, 0>>]
X1(w, a, b) == MExec1(MDecode(w), KState(a, b), TRUE)[1]
FF == <<255, 255, 255, 255>>   MIN == <<0, 0, 0, 128>>   MAXP == <<255, 255, 255, 127>>
KnownAnswers ==
  /\ LET r == X1(EncR(0, 1, 2, 0, 0, 24), FF, FF).st IN r.hi = <<0,0,0,0>> /\ r.lo = <<1,0,0,0>>          \* mult  -1 * -1
  /\ LET r == X1(EncR(0, 1, 2, 0, 0, 25), FF, FF).st IN r.hi = <<254,255,255,255>> /\ r.lo = <<1,0,0,0>>  \* multu
  /\ LET r == X1(EncR(0, 1, 2, 0, 0, 24), MIN, <<2,0,0,0>>).st IN r.hi = FF /\ r.lo = <<0,0,0,0>>         \* mult  -2^31 * 2
  /\ LET r == X1(EncR(28, 1, 2, 0, 0, 0), <<5,0,0,0>>, <<10,0,0,0>>).st IN r.hi = <<2,0,0,0>> /\ r.lo = <<51,0,0,0>>   \* madd
  /\ LET r == X1(EncR(28, 1, 2, 0, 0, 4), <<5,0,0,0>>, <<10,0,0,0>>).st IN r.hi = <<1,0,0,0>> /\ r.lo = <<207,255,255,255>> \* msub: 2^33+1-50
  /\ LET r == X1(EncR(28, 1, 2, 0, 0, 1), FF, <<1,0,0,0>>).st IN r.hi = <<3,0,0,0>> /\ r.lo = <<0,0,0,0>>  \* maddu: 2^33+1 + 2^32-1
  /\ LET r == X1(EncR(0, 1, 2, 0, 0, 26), <<249,255,255,255>>, <<2,0,0,0>>).st IN r.lo = <<253,255,255,255>> /\ r.hi = FF  \* div -7 / 2 = -3 rem -1
  /\ LET r == X1(EncR(0, 1, 2, 0, 0, 26), <<7,0,0,0>>, <<254,255,255,255>>).st IN r.lo = <<253,255,255,255>> /\ r.hi = <<1,0,0,0>> \* 7 / -2 = -3 rem 1
  /\ LET r == X1(EncR(0, 1, 2, 0, 0, 27), <<249,255,255,255>>, <<2,0,0,0>>).st IN r.lo = <<252,255,255,127>> /\ r.hi = <<1,0,0,0>>  \* divu
  /\ X1(EncR(28, 1, 3, 3, 0, 32), <<0,0,1,0>>, FF).st.gpr[4] = <<15,0,0,0>>                               \* clz 0x00010000
  /\ X1(EncR(28, 1, 3, 3, 0, 32), <<0,0,0,0>>, FF).st.gpr[4] = <<32,0,0,0>>
  /\ X1(EncR(28, 1, 3, 3, 0, 33), <<0,0,255,255>>, FF).st.gpr[4] = <<16,0,0,0>>                           \* clo 0xffff0000
  /\ X1(EncR(28, 1, 3, 3, 0, 33), FF, FF).st.gpr[4] = <<32,0,0,0>>
  /\ X1(EncR(0, 1, 2, 3, 0, 42), FF, <<1,0,0,0>>).st.gpr[4] = <<1,0,0,0>>                                 \* slt  -1 < 1
  /\ X1(EncR(0, 1, 2, 3, 0, 43), FF, <<1,0,0,0>>).st.gpr[4] = <<0,0,0,0>>                                 \* sltu
  /\ X1(EncI(11, 1, 3, 65535), <<5,0,0,0>>, FF).st.gpr[4] = <<1,0,0,0>>                                   \* sltiu 5 < 0xffffffff
  /\ X1(EncI(10, 1, 3, 65535), <<5,0,0,0>>, FF).st.gpr[4] = <<0,0,0,0>>                                   \* slti  5 < -1
  /\ X1(EncI(9, 1, 3, 65535), <<5,0,0,0>>, FF).st.gpr[4] = <<4,0,0,0>>                                    \* addiu sign-extends
  /\ X1(EncI(13, 1, 3, 65535), <<0,0,1,0>>, FF).st.gpr[4] = <<255,255,1,0>>                               \* ori zero-extends
  /\ X1(EncI(15, 0, 3, 32769), FF, FF).st.gpr[4] = <<0,0,1,128>>                                          \* lui
  /\ X1(EncR(0, 1, 2, 3, 0, 32), MAXP, <<1,0,0,0>>).k = "trap"                                            \* add overflow
  /\ X1(EncR(0, 1, 2, 3, 0, 32), FF, <<1,0,0,0>>).st.gpr[4] = <<0,0,0,0>>
  /\ X1(EncR(0, 1, 2, 3, 0, 34), MIN, <<1,0,0,0>>).k = "trap"                                             \* sub overflow
  /\ X1(EncR(0, 1, 2, 3, 0, 4), <<33,0,0,0>>, <<3,0,0,0>>).st.gpr[4] = <<6,0,0,0>>                        \* sllv uses rs[4:0]
  /\ X1(EncR(0, 1, 2, 3, 0, 7), <<36,0,0,0>>, MIN).st.gpr[4] = <<0,0,0,248>>                              \* srav by 4
  /\ X1(EncR(0, 0, 2, 3, 31, 3), FF, MIN).st.gpr[4] = FF                                                  \* sra 31
  /\ X1(EncR(0, 1, 2, 0, 0, 33), FF, FF).st.gpr = KState(FF, FF).gpr                                      \* write to $zero discarded

Lemmas == PartialWordLemmas /\ KnownAnswers
ASSUME Lemmas                                   \* constant-level: evaluated once
=============================================================================
