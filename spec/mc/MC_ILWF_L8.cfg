CONSTANTS LimbBits = 8  MaxD = 1
SPECIFICATION Spec
INVARIANT AllHold
CHECK_DEADLOCK FALSE
