CONSTANTS
  Ids = {1, 4, 7}
  HeavyMax = 3
SPECIFICATION Spec
INVARIANTS ViewsConsistent DefsAgree
CHECK_DEADLOCK FALSE
