CONSTANT N = 3
SPECIFICATION Spec
INVARIANT AllOK
CHECK_DEADLOCK FALSE
