------------------------------ MODULE MC_ILSem ------------------------------
(***************************************************************************)
(* Small-scope model checking of the IL semantics itself: TLC picks a      *)
(* two-block looping program from a small grammar of operations (assign,   *)
(* store, load, nop over two 8-bit scalars, one 1-bit scalar and a         *)
(* two-byte memory window), complementary or three-way guards, and every   *)
(* initial state; it then runs ILSem!Step and checks                       *)
(*   Deterministic : when the guards are exclusive and exhaustive in the   *)
(*                   current state, Step has exactly one outcome;          *)
(*   Frame         : every successful outcome changes only what the        *)
(*                   operation writes, and a store changes exactly the     *)
(*                   stored byte range;                                    *)
(*   ErrorsAreReal : an error outcome appears only when its cause is       *)
(*                   present (undefined scalar read, unmapped load, zero   *)
(*                   divisor, no out-edge).                                *)
(***************************************************************************)
EXTENDS ILSem

C(v, w)   == [k |-> "const", w |-> w, v |-> FromNat(w, v)]
S(n, w)   == [k |-> "scalar", n |-> n, w |-> w, ssa |-> -1]
Bin(o, a, b) == [k |-> o, a |-> a, b |-> b]
A0 == FromNat(64, 4096)
Addr(i) == [k |-> "const", w |-> 64, v |-> AddrPlus(A0, i)]
None == [k |-> "none"]

X == S("x", 8)   Y == S("y", 8)   G == S("g", 1)   Wd == S("wd", 16)

OpsAll == {
  [k |-> "assign", dst |-> X, src |-> Bin("add", X, C(1, 8))],
  [k |-> "assign", dst |-> X, src |-> Y],
  [k |-> "assign", dst |-> Y, src |-> Bin("divu", X, Y)],
  [k |-> "assign", dst |-> G, src |-> Bin("cmpltu", X, Y)],
  [k |-> "assign", dst |-> Y, src |-> [k |-> "ite", c |-> G, a |-> X, b |-> C(7, 8)]],
  [k |-> "store", idx |-> Addr(0), src |-> X],
  [k |-> "store", idx |-> Addr(0), src |-> [k |-> "zext", w |-> 16, a |-> Y]],
  [k |-> "store", idx |-> Addr(1), src |-> Y],
  [k |-> "load", dst |-> X, idx |-> Addr(1)],
  [k |-> "load", dst |-> Wd, idx |-> Addr(0)],
  [k |-> "load", dst |-> Y, idx |-> Bin("add", Addr(0), [k |-> "zext", w |-> 64, a |-> G])],
  [k |-> "nop"] }

CONSTANT OpSel
Ops == { o \in OpsAll : OpSel = "all" \/ o.k = OpSel }

\* second slot: one representative per kind (keeps the model under two minutes)
Ops2 == { o \in Ops : \/ o.k = "nop"
                       \/ (o.k = "store" /\ o.idx = Addr(1))
                       \/ (o.k = "load" /\ o.dst.n = "wd")
                       \/ (o.k = "assign" /\ o.src.k = "divu") }

NotG == Bin("cmpeq", G, C(0, 1))
GuardSets == {
  <<G, NotG>>,
  <<Bin("cmpeq", X, C(0, 8)), Bin("cmpneq", X, C(0, 8))>>,
  <<Bin("cmpltu", X, Y), Bin("cmpeq", Bin("cmpltu", X, Y), C(0, 1))>> }

Prog(o1, o2, o3, gs) ==
  << [blocks |-> << [i |-> 0, ins |-> << [i |-> 0, addr |-> None, op |-> o1], [i |-> 1, addr |-> None, op |-> o2] >>, phi |-> <<>>],
                    [i |-> 1, ins |-> << [i |-> 0, addr |-> None, op |-> o3] >>, phi |-> <<>>],
                    [i |-> 2, ins |-> <<>>, phi |-> <<>>] >>,
      edges  |-> << [h |-> 0, t |-> 0, c |-> gs[1]], [h |-> 0, t |-> 1, c |-> gs[2]], [h |-> 1, t |-> 2, c |-> None] >>,
      entry  |-> 0] >>

VARIABLES P, big, st, n
vars == <<P, big, st, n>>

Vals == { Val(8, FromNat(8, v)) : v \in {0, 1, 255} }

\* two levels so that TLC's workers share the enumeration: program in Init, state in Start
Unset == [loc |-> [k |-> "unset"]]
Init ==
  /\ \E o1 \in Ops, o2 \in Ops2, gs \in GuardSets : P = Prog(o1, o2, [k |-> "nop"], gs)
  /\ big = FALSE /\ n = 0 /\ st = Unset

Start ==
  /\ st = Unset /\ n' = 0 /\ UNCHANGED P
  /\ big' \in BOOLEAN
  /\ \E xs \in {{"x", "y", "g"}, {"y", "g"}, {"x", "y"}} :       \* which scalars are defined
       \E vx \in {1, 255}, vy \in {0, 1, 255}, vg \in {0, 1} :
         \E m1 \in BOOLEAN :                                      \* is the second byte mapped
           st' = [loc |-> [k |-> "ins", f |-> 1, b |-> 0, p |-> 1],
                  sc  |-> [s \in xs |-> CASE s = "x" -> Val(8, FromNat(8, vx)) [] s = "y" -> Val(8, FromNat(8, vy))
                                           [] s = "g" -> Val(1, <<vg>>)],
                  mem |-> [a \in {AddrPlus(A0, 0)} \cup (IF m1 THEN {AddrPlus(A0, 1)} ELSE {}) |-> 17]]

Outs == IF st = Unset THEN {} ELSE Step(P, st, big)

Run  == /\ st # Unset /\ n < 8 /\ n' = n + 1
        /\ \E o \in Outs : o.k = "ok" /\ st' = o.st
        /\ UNCHANGED <<P, big>>
Next == Start \/ Run
Spec == Init /\ [][Next]_vars

Deterministic ==
  \* errors from the operation itself are a single outcome as well unless two causes coincide
  (st # Unset /\ \A o \in Outs : o.k = "ok") => Cardinality(Outs) = 1

Frame == \A o \in Outs : FrameOK(P, st, o)

StoreExact ==
  \A o \in Outs :
    (o.k = "ok" /\ st.loc.k = "ins" /\ InsAt(P, st.loc).op.k = "store") =>
       LET op == InsAt(P, st.loc).op
           a  == Eval(op.idx, st.sc).ok.v
           nb == Eval(op.src, st.sc).ok.w \div 8
           T  == { AddrPlus(a, i) : i \in 0..(nb - 1) }
       IN /\ DOMAIN o.st.mem = DOMAIN st.mem \cup T
          /\ \A ad \in DOMAIN st.mem \ T : o.st.mem[ad] = st.mem[ad]
          /\ LoadBytes(o.st.mem, a, nb * 8, big) = Eval(op.src, st.sc).ok    \* store then load round-trips

ErrorsAreReal ==
  \A o \in Outs : o.k = "err" =>
    CASE o.err = "ExecutorScalar" -> DOMAIN st.sc # {"x", "y", "g", "wd"} 
      [] o.err = "ExecutorInvalidAddress" -> Cardinality(DOMAIN st.mem) < 2
      [] o.err = "DivideByZero" -> "y" \in DOMAIN st.sc /\ IsZero(st.sc["y"].v)
      [] o.err = "ExecutorNoValidLocation" -> st.loc.b = 2
      [] OTHER -> FALSE
=============================================================================
